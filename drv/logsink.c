/*
 * X25 (extension of C17): the sinks that receive a message in pieces through push(len, data).
 *
 * The driver is the pusher.  It follows the convention of the library's own producers (mpt_output_values,
 * output_bind_*.c): push() answers how many bytes it took; what it did not take is offered again at once;
 * "missing data" = nothing taken, the bytes are offered again in front of the next piece; push(0, 0) ends the
 * message; push(1, 0) abandons it.  No judgement: bytes are moved, return codes mapped to ok / missing / refused,
 * what the sink wrote to its streams is copied out.
 *
 * Commands
 *   open kind=logfile|history|local file=none|mem|stdout|path ignore=<n> color=0|1 pass=0|1 lsep=<n> tty=0|1
 *   push data=<bytes>          one piece (held bytes + data are offered)
 *   end                        push(0, 0)
 *   abort                      push(1, 0)
 *   drop                       the pusher gives up the bytes it still holds (no library call)
 *   finish | giveup            end | abort if the sink has begun the message, drop if it has not, nothing if it refused it
 *                              (recorded executions: the script does not know the answers)
 *   msg data=<bytes>           the pusher takes up a message (no library call)
 *   set name=<text> usenum=0|1 num=<n> val=<text>    logfile / history / object property
 *   log from=<bytes> type=<n> text=<bytes> hasfrom=0|1 hastext=0|1     logger interface / mpt_logfile_log
 *   vlog ...same...            mpt_output_vlog onto the sink (producer of pieces)
 */
#define _GNU_SOURCE
#include <stdio.h>
#include <stdarg.h>
#include <stddef.h>
#include <fcntl.h>
#include <termios.h>
#include <sys/stat.h>

#include "drv.h"

#include "meta.h"
#include "types.h"
#include "object.h"
#include "message.h"
#include "convert.h"
#include "output.h"
#include "history.h"

#ifdef LOGSINK_SMALL
/* source seam: the producer with a small message buffer, so that TLC can enumerate the texts around its limit */
# undef MPT_OUTPUT_LOGMSG_MAX
# define MPT_OUTPUT_LOGMSG_MAX LOGSINK_SMALL
# include "output/output_log.c"
#endif

/* ---------------- captured streams ---------------- */
struct cap {
	FILE *fp;          /* stream handed to the library */
	char *buf;         /* memstream data */
	size_t len;
	size_t reported;   /* how much of it was copied out already */
	char *path;        /* regular file instead of a memstream */
	int master;        /* pty master (tty mode) */
};
static struct cap c_out, c_err, c_file;
static FILE *real_out, *real_err;

static void cap_open_mem(struct cap *c)
{
	memset(c, 0, sizeof(*c));
	c->master = -1;
	c->fp = open_memstream(&c->buf, &c->len);
}
static void cap_close(struct cap *c, int close_fp)
{
	if (c->fp && close_fp) fclose(c->fp);
	if (c->master >= 0) close(c->master);
	if (c->path) { unlink(c->path); free(c->path); }
	else if (c->master < 0) free(c->buf);
	else free(c->buf);
	memset(c, 0, sizeof(*c));
	c->master = -1;
}
/* pty: the library sees a terminal; what it writes is read back from the master side */
static int cap_open_tty(struct cap *c)
{
	struct termios t;
	int m, s;
	const char *name;
	memset(c, 0, sizeof(*c));
	c->master = -1;
	if ((m = posix_openpt(O_RDWR | O_NOCTTY)) < 0) return -1;
	if (grantpt(m) < 0 || unlockpt(m) < 0 || !(name = ptsname(m))) { close(m); return -1; }
	if ((s = open(name, O_RDWR | O_NOCTTY)) < 0) { close(m); return -1; }
	if (!tcgetattr(s, &t)) { cfmakeraw(&t); tcsetattr(s, TCSANOW, &t); }
	fcntl(m, F_SETFL, fcntl(m, F_GETFL) | O_NONBLOCK);
	c->master = m;
	c->fp = fdopen(s, "w");
	return c->fp ? 0 : -1;
}
static void cap_drain(struct cap *c)
{
	if (c->fp) fflush(c->fp);
	if (c->master >= 0) {
		char tmp[4096];
		ssize_t n;
		while ((n = read(c->master, tmp, sizeof(tmp))) > 0) {
			c->buf = (char *) realloc(c->buf, c->len + (size_t) n + 1);
			memcpy(c->buf + c->len, tmp, (size_t) n);
			c->len += (size_t) n;
		}
	}
	else if (c->path) {
		FILE *in;
		fflush(NULL);      /* the sink opened this file itself */
		in = fopen(c->path, "rb");
		free(c->buf); c->buf = 0; c->len = 0;
		if (in) {
			char tmp[4096];
			size_t n;
			while ((n = fread(tmp, 1, sizeof(tmp), in)) > 0) {
				c->buf = (char *) realloc(c->buf, c->len + n + 1);
				memcpy(c->buf + c->len, tmp, n);
				c->len += n;
			}
			fclose(in);
		}
	}
}
/* bytes are attributed to the call that wrote them: after every library call what is new in the streams
 * is moved to the accumulator of the message in progress (push / end / abort) or of the call (log, set) */
struct acc { uint8_t *d; size_t n; };
static struct acc m_out, m_err, m_file, c1_out, c1_err, c1_file;
static void acc_add(struct acc *a, const void *p, size_t n)
{
	if (!n) return;
	a->d = (uint8_t *) realloc(a->d, a->n + n + 1);
	memcpy(a->d + a->n, p, n);
	a->n += n;
}
static void acc_emit(const char *key, struct acc *a)
{
	j_bytes(key, a->d ? a->d : (const uint8_t *) "", a->n);
	free(a->d); a->d = 0; a->n = 0;
}
static void cap_take(struct cap *c, struct acc *a)
{
	if (!c->fp && !c->path) return;
	cap_drain(c);
	if (c->reported > c->len) c->reported = c->len;
	acc_add(a, c->buf ? c->buf + c->reported : "", c->len - c->reported);
	c->reported = c->len;
}
/* the library writes to stdout / stderr by name: give it ours for the time of a call */
static void std_swap(void)
{
	real_out = stdout; real_err = stderr;
	stdout = c_out.fp; stderr = c_err.fp;
}
static void std_back(void)
{
	stdout = real_out; stderr = real_err;
}

/* ---------------- text source for property assignment ---------------- */
struct src_val {
	MPT_INTERFACE(convertable) c;
	const char *txt;
	int isnum;
	uint8_t num;
	MPT_INTERFACE(metatype) *mt;
};
static int src_convert(MPT_INTERFACE(convertable) *c, MPT_TYPE(type) type, void *ptr)
{
	struct src_val *s = (struct src_val *) c;
	if (s->mt) {
		if (type == MPT_ENUM(TypeMetaPtr)) {
			if (ptr) *((void **) ptr) = s->mt;
			return MPT_ENUM(TypeMetaPtr);
		}
		return MPT_ERROR(BadType);
	}
	if (type == 's' && !s->isnum) {
		if (ptr) *((const char **) ptr) = s->txt;
		return 's';
	}
	if (type == 'y' && s->isnum) {
		if (ptr) *((uint8_t *) ptr) = s->num;
		return 'y';
	}
	return MPT_ERROR(BadType);
}
static const MPT_INTERFACE_VPTR(convertable) src_vptr = { src_convert };

/* ---------------- recording output (the "remote" a local output passes to) ---------------- */
struct rec_out {
	MPT_INTERFACE(metatype) mt;
	MPT_INTERFACE(output) out;
	uint8_t *data; size_t len, reported;
	long ends, aborts, ends_reported, aborts_reported;
	int active;
	long refs;
};
static struct rec_out rec;
static int rec_conv(MPT_INTERFACE(convertable) *val, MPT_TYPE(type) type, void *ptr)
{
	struct rec_out *r = (struct rec_out *) val;
	if (!type) {
		if (ptr) *((const uint8_t **) ptr) = 0;
		return MPT_ENUM(TypeOutputPtr);
	}
	if (type == MPT_ENUM(TypeMetaPtr)) { if (ptr) *((void **) ptr) = &r->mt; return MPT_ENUM(TypeOutputPtr); }
	if (type == MPT_ENUM(TypeOutputPtr)) { if (ptr) *((void **) ptr) = &r->out; return MPT_ENUM(TypeMetaPtr); }
	return MPT_ERROR(BadType);
}
static void rec_unref(MPT_INTERFACE(metatype) *mt) { --((struct rec_out *) mt)->refs; }
static uintptr_t rec_addref(MPT_INTERFACE(metatype) *mt) { return (uintptr_t) ++((struct rec_out *) mt)->refs; }
static MPT_INTERFACE(metatype) *rec_clone(const MPT_INTERFACE(metatype) *mt) { (void) mt; return 0; }
static ssize_t rec_push(MPT_INTERFACE(output) *out, size_t len, const void *src)
{
	struct rec_out *r = (struct rec_out *) ((char *) out - offsetof(struct rec_out, out));
	if (!len) { r->ends++; r->active = 0; return 0; }
	if (!src) { r->aborts++; r->active = 0; return 0; }
	r->data = (uint8_t *) realloc(r->data, r->len + len + 1);
	memcpy(r->data + r->len, src, len);
	r->len += len;
	r->active = 1;
	return (ssize_t) len;
}
static int rec_sync(MPT_INTERFACE(output) *out, int t) { (void) out; (void) t; return 0; }
static int rec_await(MPT_INTERFACE(output) *out, int (*f)(void *, const MPT_STRUCT(message) *), void *p)
{ (void) out; (void) f; (void) p; return 0; }
static const MPT_INTERFACE_VPTR(metatype) rec_meta = { { rec_conv }, rec_unref, rec_addref, rec_clone };
static const MPT_INTERFACE_VPTR(output) rec_outv = { rec_push, rec_sync, rec_await };

/* ---------------- the sink under test ---------------- */
enum { K_NONE, K_LOGFILE, K_HISTORY, K_LOCAL };
struct fwd_out {
	MPT_INTERFACE(output) out;    /* forwarding output for mpt_output_vlog onto a bare logfile / history */
};
static int kind;
static MPT_STRUCT(logfile) lf;
static MPT_STRUCT(history) hist;
static MPT_INTERFACE(metatype) *local;
static MPT_INTERFACE(output) *local_out;
static struct fwd_out fwd;
static uint8_t *held; static size_t held_len;
static long npush;                 /* push calls of the last command */
static int m_refused, m_started;   /* the pusher's view of the message it works on */
static long pieces[64]; static int npieces;   /* what mpt_output_vlog pushed */
static char tmpdir[64];

static void collect(int call);
static ssize_t sink_push(size_t len, const void *src)
{
	ssize_t r;
	++npush;
	std_swap();
	switch (kind) {
	  case K_LOGFILE: r = mpt_logfile_push(&lf, len, src); break;
	  case K_HISTORY: r = mpt_history_push(&hist, len, src); break;
	  case K_LOCAL:   r = local_out->_vptr->push(local_out, len, src); break;
	  default: r = -99;
	}
	std_back();
	collect(0);
	return r;
}
static ssize_t fwd_push(MPT_INTERFACE(output) *out, size_t len, const void *src)
{
	ssize_t r;
	(void) out;
	if (npieces < 64) pieces[npieces++] = src ? (long) len : -1;
	/* called from inside the library (streams are swapped already) */
	++npush;
	switch (kind) {
	  case K_LOGFILE: r = mpt_logfile_push(&lf, len, src); break;
	  case K_HISTORY: r = mpt_history_push(&hist, len, src); break;
	  case K_LOCAL:   r = local_out->_vptr->push(local_out, len, src); break;
	  default: r = -99;
	}
	return r;
}
static int fwd_sync(MPT_INTERFACE(output) *out, int t) { (void) out; (void) t; return 0; }
static int fwd_await(MPT_INTERFACE(output) *out, int (*f)(void *, const MPT_STRUCT(message) *), void *p)
{ (void) out; (void) f; (void) p; return MPT_ERROR(BadOperation); }
static const MPT_INTERFACE_VPTR(output) fwd_vptr = { fwd_push, fwd_sync, fwd_await };

/* layout of the object behind mpt_output_local() (mptplot/history/output_local.c), to look at its state */
struct local_mirror {
	MPT_INTERFACE(metatype) _mt;
	MPT_INTERFACE(object) _obj;
	MPT_INTERFACE(output) _out;
	MPT_INTERFACE(logger) _log;
	MPT_STRUCT(refcount) ref;
	MPT_INTERFACE(metatype) *pass;
	MPT_STRUCT(history) hist;
};
static MPT_STRUCT(logfile) *sink_logfile(void)
{
	if (kind == K_LOGFILE) return &lf;
	if (kind == K_HISTORY) return &hist.info;
	if (kind == K_LOCAL && local) return &((struct local_mirror *) local)->hist.info;
	return 0;
}
static const char *ret_class(long r)
{
	if (r >= 0) return "ok";
	if (r == MPT_ERROR(MissingData)) return "missing";
	return "refused";
}

static void sink_close(void)
{
	if (kind == K_LOCAL && local) {
		/* the file of a local output may be our stdout capture: take it away before unref closes files */
		std_swap();
		local->_vptr->unref(local);
		std_back();
	}
	else if (kind == K_HISTORY) {
		if (hist.info.file == c_file.fp) hist.info.file = 0;
		mpt_history_fini(&hist);
	}
	local = 0; local_out = 0;
	kind = K_NONE;
	if (c_out.fp) cap_close(&c_out, 1);
	if (c_err.fp) cap_close(&c_err, 1);
	if (c_file.fp || c_file.path) cap_close(&c_file, c_file.path ? 0 : 1);
	free(held); held = 0; held_len = 0;
	free(rec.data);
	memset(&rec, 0, sizeof(rec));
	free(m_out.d); free(m_err.d); free(m_file.d); free(c1_out.d); free(c1_err.d); free(c1_file.d);
	memset(&m_out, 0, sizeof(m_out)); memset(&m_err, 0, sizeof(m_err)); memset(&m_file, 0, sizeof(m_file));
	memset(&c1_out, 0, sizeof(c1_out)); memset(&c1_err, 0, sizeof(c1_err)); memset(&c1_file, 0, sizeof(c1_file));
}

static void drv_reset(void)
{
	static const MPT_STRUCT(logfile) lf0 = MPT_LOGFILE_INIT;
	static const MPT_STRUCT(history) h0 = MPT_HISTORY_INIT;
	sink_close();
	lf = lf0;
	hist = h0;
	if (!tmpdir[0]) {
		snprintf(tmpdir, sizeof(tmpdir), "/tmp/x25-%ld", (long) getpid());
	}
}

static void collect(int call)
{
	cap_take(&c_out, call ? &c1_out : &m_out);
	cap_take(&c_err, call ? &c1_err : &m_err);
	cap_take(&c_file, call ? &c1_file : &m_file);
}
static void emit_streams(int call)
{
	acc_emit("out", call ? &c1_out : &m_out);
	acc_emit("err", call ? &c1_err : &m_err);
	acc_emit("file", call ? &c1_file : &m_file);
	if (call) return;
	j_bytes("pass", rec.data ? rec.data + rec.reported : (const uint8_t *) "", rec.len - rec.reported);
	rec.reported = rec.len;
	j_int("passend", rec.ends - rec.ends_reported);
	rec.ends_reported = rec.ends;
}
static void emit_dbg(long rc)
{
	MPT_STRUCT(logfile) *l = sink_logfile();
	drv_dbg();
	j_int("rc", rc);
	j_int("npush", npush);
	j_int("held", (long long) held_len);
	if (l) { j_int("state", l->state); j_int("mode", l->mode); j_int("ignore", l->ignore); }
	j_int("passabort", rec.aborts - rec.aborts_reported);
	rec.aborts_reported = rec.aborts;
}
static int is_active(void)
{
	MPT_STRUCT(logfile) *l = sink_logfile();
	return l ? !!(l->state & (MPT_OUTFLAG(Active) | MPT_OUTFLAG(Remote))) : -1;
}

static int call_log(const char *from, int type, const char *fmt, ...)
{
	va_list va;
	int r = -99;
	va_start(va, fmt);
	std_swap();
	if (kind == K_LOCAL) {
		MPT_INTERFACE(logger) *lg = 0;
		if (MPT_metatype_convert(local, MPT_ENUM(TypeLoggerPtr), &lg) >= 0 && lg) {
			r = lg->_vptr->log(lg, from, type, fmt, va);
		}
	} else {
		r = mpt_logfile_log(sink_logfile(), from, type, fmt, va);
	}
	std_back();
	collect(1);
	va_end(va);
	return r;
}
static int call_vlog(const char *from, int type, const char *fmt, ...)
{
	va_list va;
	int r;
	va_start(va, fmt);
	std_swap();
	r = mpt_output_vlog(&fwd.out, from, type, fmt, va);
	std_back();
	collect(0);
	va_end(va);
	return r;
}
static char *cstr(const struct cmd *c, const char *key)
{
	size_t n;
	uint8_t *b = drv_bytes(c, key, &n);
	b = (uint8_t *) realloc(b, n + 1);
	b[n] = 0;
	return (char *) b;
}

static void drv_step(struct cmd *c)
{
	const char *a = c->action;
	npush = 0;
	if (!strcmp(a, "open")) {
		const char *k = drv_raw(c, "kind"), *f = drv_raw(c, "file");
		int ignore = (int) drv_int(c, "ignore", 0), color = (int) drv_int(c, "color", 0);
		int pass = (int) drv_int(c, "pass", 0), lsep = (int) drv_int(c, "lsep", 0), tty = (int) drv_int(c, "tty", 0);
		int rc = 0, setrc = 0;
		drv_reset();
		if (!f) f = "mem";
		if (tty) {
			if (cap_open_tty(&c_out) < 0) { cap_open_mem(&c_out); rc = -1; }
			if (cap_open_tty(&c_err) < 0) { cap_open_mem(&c_err); rc = -1; }
		} else {
			cap_open_mem(&c_out);
			cap_open_mem(&c_err);
		}
		memset(&c_file, 0, sizeof(c_file)); c_file.master = -1;
		kind = !strcmp(k, "logfile") ? K_LOGFILE : !strcmp(k, "history") ? K_HISTORY : K_LOCAL;
		fwd.out._vptr = &fwd_vptr;
		if (kind == K_LOCAL) {
			std_swap();
			local = mpt_output_local();
			std_back();
			local_out = 0;
			MPT_metatype_convert(local, MPT_ENUM(TypeOutputPtr), &local_out);
		}
		if (!strcmp(f, "mem") && kind != K_LOCAL) {
			if (tty) { if (cap_open_tty(&c_file) < 0) { cap_open_mem(&c_file); rc = -1; } }
			else cap_open_mem(&c_file);
			sink_logfile()->file = c_file.fp;
		}
		else if (!strcmp(f, "path") || (!strcmp(f, "mem") && kind == K_LOCAL)) {
			/* through the property: a path the sink opens itself */
			struct src_val sv;
			static int serial;
			char path[128];
			memset(&sv, 0, sizeof(sv));
			snprintf(path, sizeof(path), "%s-%d.log", tmpdir, ++serial);
			sv.c._vptr = &src_vptr;
			sv.txt = path;
			c_file.path = strdup(path);
			std_swap();
			if (kind == K_LOCAL) {
				MPT_INTERFACE(object) *obj = 0;
				MPT_metatype_convert(local, MPT_ENUM(TypeObjectPtr), &obj);
				setrc = obj ? obj->_vptr->set_property(obj, "file", &sv.c) : -99;
			} else {
				setrc = mpt_logfile_set(sink_logfile(), "file", &sv.c);
			}
			std_back();
		}
		/* "stdout": local output keeps its default; "none": no file */
		if (kind != K_LOCAL || drv_has(c, "ignore")) sink_logfile()->ignore = (uint8_t) ignore;
		if (kind != K_LOCAL || drv_has(c, "lsep")) sink_logfile()->lsep = (uint8_t) lsep;
		if (kind != K_LOCAL || drv_has(c, "color")) {
			if (color) sink_logfile()->state |= MPT_OUTFLAG(PrintColor);
			else sink_logfile()->state &= ~MPT_OUTFLAG(PrintColor);
		}
		if (kind == K_LOCAL && pass) {
			struct src_val sv;
			MPT_INTERFACE(object) *obj = 0;
			memset(&sv, 0, sizeof(sv));
			sv.c._vptr = &src_vptr;
			rec.mt._vptr = &rec_meta;
			rec.out._vptr = &rec_outv;
			rec.refs = 1;
			sv.mt = &rec.mt;
			MPT_metatype_convert(local, MPT_ENUM(TypeObjectPtr), &obj);
			setrc = obj ? obj->_vptr->set_property(obj, "", &sv.c) : -99;
		}
		collect(1);
		drv_begin(c);
		j_str("ret", rc < 0 ? "notty" : "ok");
		drv_dbg();
		emit_streams(1);
		j_int("setrc", setrc);
		drv_end();
		return;
	}
	if (!strcmp(a, "push")) {
		size_t n, total, off = 0;
		uint8_t *d = drv_bytes(c, "data", &n), *piece;
		ssize_t r = 0;
		const char *cls = "ok";
		if (m_refused) {
			/* the sink refused this message: the pusher has given it up */
			drv_begin(c);
			j_str("ret", "skipped");
			j_int("taken", 0);
			j_str("did", "skip");
			emit_dbg(0);
			drv_end();
			free(d);
			return;
		}
		total = held_len + n;
		piece = (uint8_t *) malloc(total ? total : 1);      /* exact size: a read behind it is seen by ASan */
		if (held_len) memcpy(piece, held, held_len);
		if (n) memcpy(piece + held_len, d, n);
		while (off < total) {
			r = sink_push(total - off, piece + off);
			if (r < 0) { cls = ret_class(r); break; }
			if (!r || (size_t) r > total - off) { cls = r ? "overrun" : "stalled"; break; }
			off += (size_t) r;
		}
		free(held); held = 0; held_len = 0;
		if (r == MPT_ERROR(MissingData)) {
			/* what was not taken is offered again in front of the next piece */
			held_len = total - off;
			held = (uint8_t *) malloc(held_len ? held_len : 1);
			memcpy(held, piece + off, held_len);
		}
		if (off) m_started = 1;
		if (r < 0 && r != MPT_ERROR(MissingData)) m_refused = 1;
		drv_begin(c);
		j_str("ret", cls);
		j_int("taken", (long long) off);
		j_str("did", "push");
		emit_dbg((long) r);
		j_int("active", is_active());
		drv_end();
		free(piece); free(d);
		return;
	}
	if (!strcmp(a, "end") || !strcmp(a, "abort")) {
		ssize_t r = !strcmp(a, "end") ? sink_push(0, 0) : sink_push(1, 0);
		drv_begin(c);
		j_str("ret", ret_class(r));
		emit_streams(0);
		emit_dbg((long) r);
		j_int("active", is_active());
		drv_end();
		return;
	}
	if (!strcmp(a, "finish") || !strcmp(a, "giveup")) {
		/* the pusher is done with its message: end / abandon what the sink has begun, nothing to end otherwise */
		const char *did;
		ssize_t r = 0;
		if (m_refused) did = "skip";
		else if (!m_started) { did = "drop"; free(held); held = 0; held_len = 0; }
		else if (!strcmp(a, "finish")) { did = "end"; r = sink_push(0, 0); }
		else { did = "abort"; r = sink_push(1, 0); }
		drv_begin(c);
		j_str("ret", !strcmp(did, "skip") ? "skipped" : ret_class(r));
		j_str("did", did);
		emit_streams(0);
		emit_dbg((long) r);
		j_int("active", is_active());
		drv_end();
		m_refused = m_started = 0;
		return;
	}
	if (!strcmp(a, "msg")) {
		/* the pusher takes up a message: no library call */
		m_refused = m_started = 0;
		free(held); held = 0; held_len = 0;
		drv_begin(c);
		j_str("ret", "ok");
		drv_dbg();
		drv_end();
		return;
	}
	if (!strcmp(a, "drop")) {
		free(held); held = 0; held_len = 0;
		drv_begin(c);
		j_str("ret", "ok");
		emit_streams(0);
		emit_dbg(0);
		j_int("active", is_active());
		drv_end();
		return;
	}
	if (!strcmp(a, "set")) {
		char *name = cstr(c, "name"), *val = cstr(c, "val");
		struct src_val sv;
		int r;
		memset(&sv, 0, sizeof(sv));
		sv.c._vptr = &src_vptr;
		sv.txt = val;
		if (drv_int(c, "usenum", 0)) { sv.isnum = 1; sv.num = (uint8_t) drv_int(c, "num", 0); }
		std_swap();
		if (kind == K_LOCAL) {
			MPT_INTERFACE(object) *obj = 0;
			MPT_metatype_convert(local, MPT_ENUM(TypeObjectPtr), &obj);
			r = obj ? obj->_vptr->set_property(obj, name, drv_int(c, "null", 0) ? 0 : &sv.c) : -99;
		}
		else if (kind == K_HISTORY) r = mpt_history_set(&hist, name, drv_int(c, "null", 0) ? 0 : &sv.c);
		else r = mpt_logfile_set(&lf, name, drv_int(c, "null", 0) ? 0 : &sv.c);
		std_back();
		drv_begin(c);
		collect(1);
		j_int("ignore", sink_logfile() ? sink_logfile()->ignore : -1);
		emit_streams(1);
		emit_dbg(r);
		j_str("rclass", ret_class(r));
		drv_end();
		free(name); free(val);
		return;
	}
	if (!strcmp(a, "log") || !strcmp(a, "vlog")) {
		char *from = cstr(c, "from"), *text = cstr(c, "text");
		int type = (int) drv_int(c, "type", 0);
		int hasfrom = (int) drv_int(c, "hasfrom", 1), hastext = (int) drv_int(c, "hastext", 1);
		int r, i;
		npieces = 0;
		if (!strcmp(a, "log")) {
			r = hastext ? call_log(hasfrom ? from : 0, type, "%s", text) : call_log(hasfrom ? from : 0, type, 0);
		} else {
			r = hastext ? call_vlog(hasfrom ? from : 0, type, "%s", text) : call_vlog(hasfrom ? from : 0, type, 0);
		}
		drv_begin(c);
		j_str("ret", r < 0 ? "refused" : "ok");
		emit_streams(strcmp(a, "log") ? 0 : 1);
		emit_dbg(r);
		j_int("active", is_active());
		j_arr_open("pieces");
		for (i = 0; i < npieces; i++) j_item_int(pieces[i]);
		j_arr_close();
		drv_end();
		free(from); free(text);
		return;
	}
	drv_begin(c);
	j_str("ret", "unknown-action");
	drv_dbg();
	drv_end();
}

int main(int argc, char **argv)
{
	int r;
	signal(SIGPIPE, SIG_IGN);
	r = drv_main(argc, argv);
	return r;
}
