/*
 * Shared by drv/layout.c and drv/layout_cxx.cpp (C20): value encodings of the
 * observation and rendering of step arguments.  No library calls in here.
 */
#ifndef VERIF_LAYOUT_COMMON_H
#define VERIF_LAYOUT_COMMON_H

#include <math.h>

/* ---------- value encodings ---------- */
#define MAXV 4096
static long long vbuf[MAXV];
static size_t vlen;

static void v_put(long long v) { if (vlen < MAXV) vbuf[vlen++] = v; }

static void enc_real(double v, int is_float, float fv)
{
	double t = v * 2.0;
	if (isfinite(t) && t == floor(t) && fabs(t) < 70368744177664.0 /* 2^46 */) {
		long long ll = (long long) t, hi, lo;
		hi = ll >= 0 ? ll / 65536 : -((-ll + 65535) / 65536);
		lo = ll - hi * 65536;
		v_put(0); v_put(hi); v_put(lo);
		return;
	}
	if (is_float) {
		uint32_t b;
		memcpy(&b, &fv, sizeof(b));
		v_put(1); v_put(b >> 16); v_put(b & 0xffff);
	} else {
		uint64_t b;
		memcpy(&b, &v, sizeof(b));
		v_put(2); v_put((b >> 48) & 0xffff); v_put((b >> 32) & 0xffff); v_put((b >> 16) & 0xffff); v_put(b & 0xffff);
	}
}
static void enc_string(const char *s)
{
	while (s && *s) {
		unsigned char ch = (unsigned char) *s;
		long long n = 0;
		while ((unsigned char) *s == ch) { ++n; ++s; }
		v_put(ch); v_put(n);
	}
}
/* ---------- argument rendering ---------- */
static char *arg_text(const struct cmd *c, const char *key)   /* byte list -> C string */
{
	size_t n;
	uint8_t *b = drv_bytes(c, key, &n);
	b = (uint8_t *) realloc(b, n + 1);
	b[n] = 0;
	return (char *) b;
}
static char *arg_rle(const struct cmd *c, const char *key)    /* ch,n,ch,n,... -> C string */
{
	size_t n, i, total = 0, pos = 0;
	long long *v = drv_ints(c, key, &n);
	char *s;
	for (i = 0; i + 1 < n; i += 2) total += (size_t) v[i + 1];
	s = (char *) malloc(total + 1);
	for (i = 0; i + 1 < n; i += 2) {
		memset(s + pos, (int) v[i], (size_t) v[i + 1]);
		pos += (size_t) v[i + 1];
	}
	s[total] = 0;
	free(v);
	return s;
}
/* doubled value hi*65536+lo */
static long long twice(const long long *v) { return v[0] * 65536 + v[1]; }

static void render_num(char *buf, size_t len, long long t, const char *sty)
{
	const char *pre = "";
	if (!strcmp(sty, "sp")) pre = " ";
	else if (!strcmp(sty, "plus")) pre = "+";
	if (t % 2) {
		snprintf(buf, len, "%s%.1f", pre, (double) t / 2.0);
	}
	else if (!strcmp(sty, "hex")) {
		snprintf(buf, len, "0x%llx", (unsigned long long) (t / 2));
	}
	else if (!strcmp(sty, "flt")) {
		snprintf(buf, len, "%lld.0", t / 2);
	}
	else {
		snprintf(buf, len, "%s%lld", pre, t / 2);
	}
}

#endif /* VERIF_LAYOUT_COMMON_H */
