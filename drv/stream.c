/*
 * Driver for spec/Stream.tla (C02): encode_queue -> byte wire -> decode_queue.
 *
 * kinds: cobs cobs_r zpe zpe_r  shipped codecs of libmptcore
 *        s5 s5r                 the unmodified COBS sources compiled with block code 5
 * The writer follows mpt_stream_push/mpt_stream_flush, the reader
 * mpt_stream_poll/mpt_stream_dispatch (same calls, in-memory wire).
 */
#include "drv.h"

#include <sys/uio.h>

#include "message.h"
#include "convert.h"
#include "queue.h"

/* ---- source seam: scaled codecs from the unmodified repository sources ---- */
#define MPT_COBS_MAXLEN 5
static ssize_t enc5(MPT_STRUCT(encode_state) *info, const struct iovec *cobs, const struct iovec *base)
#include "convert/encode_cobs.c"
#define MPT_encode_cobs_regular(i,c,d) enc5(i, c, d)
static ssize_t enc5r(MPT_STRUCT(encode_state) *info, const struct iovec *cobs, const struct iovec *base)
#include "convert/encode_cobs_r.c"
#define MPT_cobs_dec_regular _decode
#include "convert/decode_cobs.c"
/* -------------------------------------------------------------------------- */

static MPT_STRUCT(encode_queue) wq;
static MPT_STRUCT(decode_queue) rq;
static uint8_t *wire;
static size_t wire_len, wire_pos, wire_cap;
static uint8_t *cur;
static size_t cur_len, cur_pos;
static size_t grow = 8;
static int grants_total;

static void qfree(MPT_STRUCT(queue) *q)
{
	free(q->base);
	memset(q, 0, sizeof(*q));
}
static void drv_reset(void)
{
	qfree(&wq.data); qfree(&rq.data);
	memset(&wq, 0, sizeof(wq)); memset(&rq, 0, sizeof(rq));
	rq._state.data.msg = -1;
	free(wire); wire = 0; wire_len = wire_pos = wire_cap = 0;
	free(cur); cur = 0; cur_len = cur_pos = 0;
	grants_total = 0;
}
static void qinit(MPT_STRUCT(queue) *q, size_t cap, size_t off)
{
	if (cap) {
		q->base = malloc(cap);
		memset(q->base, 0xEE, cap);
	}
	q->max = cap; q->off = cap ? off % cap : 0; q->len = 0;
}
static void emit_dbg(void)
{
	drv_dbg();
	j_int("wmax", wq.data.max); j_int("woff", wq.data.off); j_int("wlen", wq.data.len);
	j_int("wdone", wq._state.done); j_int("wscr", wq._state.scratch);
	j_int("rmax", rq.data.max); j_int("roff", rq.data.off); j_int("rlen", rq.data.len);
	j_int("curr", rq._state.curr); j_int("pos", rq._state.data.pos);
	j_int("mlen", rq._state.data.len); j_int("msg", rq._state.data.msg);
	j_int("grants", grants_total);
}
static void simple(struct cmd *c, const char *ret)
{
	drv_begin(c);
	j_str("ret", ret);
	emit_dbg();
	drv_end();
}
static void with_bytes(struct cmd *c, const char *ret, const char *key, const void *p, size_t n)
{
	drv_begin(c);
	j_str("ret", ret);
	j_bytes(key, p, n);
	emit_dbg();
	drv_end();
}

/* writer side: as mpt_stream_push() does on a resizable queue */
static int writer_push(size_t len, const uint8_t *src)
{
	int rounds = 0;
	while (1) {
		ssize_t post;
		if (++rounds > 4096) return -100;
		if (len) {
			post = mpt_queue_push(&wq, len, src);
		} else {
			if ((post = mpt_queue_push(&wq, 0, 0)) >= 0) return 0;
		}
		if (post >= 0) {
			if (!(len -= post)) return 0;
			src += post;
			continue;
		}
		if (post != MPT_ERROR(MissingBuffer)) return (int) post;
		if (!mpt_queue_prepare(&wq.data, grow < 2 ? 2 : grow)) return -101; /* a block end needs 2 bytes */
	}
}

static void drv_step(struct cmd *c)
{
	const char *a = c->action;

	if (!strcmp(a, "init")) {
		const char *kind = drv_raw(c, "kind");
		drv_reset();
		if (!kind) kind = "s5";
		if (!strcmp(kind, "cobs"))        { wq._enc = mpt_encode_cobs;       rq._dec = mpt_decode_cobs; }
		else if (!strcmp(kind, "cobs_r")) { wq._enc = mpt_encode_cobs_r;     rq._dec = mpt_decode_cobs_r; }
		else if (!strcmp(kind, "zpe"))    { wq._enc = mpt_encode_cobs_zpe;   rq._dec = mpt_decode_cobs_zpe; }
		else if (!strcmp(kind, "zpe_r"))  { wq._enc = mpt_encode_cobs_zpe_r; rq._dec = mpt_decode_cobs_zpe_r; }
		else if (!strcmp(kind, "s5r"))    { wq._enc = enc5r;                 rq._dec = _decode_r; }
		else                              { wq._enc = enc5;                  rq._dec = _decode; }
		qinit(&wq.data, drv_uint(c, "wcap", 0), drv_uint(c, "woff", 0));
		qinit(&rq.data, drv_uint(c, "rcap", 0), drv_uint(c, "roff", 0));
		grow = drv_uint(c, "grow", 8);
		if (!grow) grow = 1;
		simple(c, "ok");
	}
	else if (!strcmp(a, "start")) {
		free(cur);
		cur = drv_bytes(c, "data", &cur_len);
		cur_pos = 0;
		simple(c, "ok");
	}
	else if (!strcmp(a, "push")) {
		size_t n = drv_uint(c, "n", 0);
		int r;
		if (n > cur_len - cur_pos) n = cur_len - cur_pos;
		r = n ? writer_push(n, cur + cur_pos) : 0;
		cur_pos += n;
		simple(c, r < 0 ? "failed" : "ok");
	}
	else if (!strcmp(a, "end")) {
		int r = writer_push(0, 0);
		simple(c, r < 0 ? "failed" : "ok");
	}
	else if (!strcmp(a, "flush")) {
		/* as mpt_stream_flush(): only finished data leaves the queue */
		size_t n = drv_uint(c, "n", 0), done = wq._state.done;
		uint8_t *tmp;
		if (n > done) n = done;
		tmp = (uint8_t *) malloc(n + 1);
		if (n && mpt_queue_get(&wq.data, 0, n, tmp) < 0) {
			free(tmp);
			simple(c, "failed");
			return;
		}
		mpt_queue_crop(&wq.data, 0, n);
		wq._state.done -= n;
		if (wire_len + n > wire_cap) wire = (uint8_t *) realloc(wire, wire_cap = (wire_len + n) * 2 + 64);
		memcpy(wire + wire_len, tmp, n);
		wire_len += n;
		with_bytes(c, "ok", "out", tmp, n);
		free(tmp);
	}
	else if (!strcmp(a, "deliver")) {
		/* as mpt_stream_poll(): drop consumed data, make room, load */
		size_t n = drv_uint(c, "n", 0), low = 0, high = 0, left;
		uint8_t *dst, *src = wire + wire_pos;
		if (n > wire_len - wire_pos) n = wire_len - wire_pos;
		mpt_queue_shift(&rq);
		if (n > rq.data.max - rq.data.len) {
			if (!mpt_queue_prepare(&rq.data, n)) {
				simple(c, "failed");
				return;
			}
		}
		left = n;
		if (left && (dst = (uint8_t *) mpt_queue_empty(&rq.data, &low, &high))) {
			size_t take = left < low ? left : low;
			memcpy(dst, src, take);
			left -= take;
			if (left) {
				size_t t2 = left < high ? left : high;
				memcpy(rq.data.base, src + take, t2);
				left -= t2;
			}
			rq.data.len += n - left;
		}
		wire_pos += n - left;
		with_bytes(c, left ? "failed" : "ok", "out", src, n - left);
	}
	else if (!strcmp(a, "recv")) {
		/* as mpt_stream_dispatch(): recv, then message_get */
		int r, grants = 0;
		size_t had = rq.data.len;
		while ((r = mpt_queue_recv(&rq)) == MPT_ERROR(MissingBuffer) && grants < 3) {
			if (!mpt_queue_prepare(&rq.data, grow > 16 ? grow : 16)) break;
			++grants; ++grants_total;
		}
		if (r > 0) {
			MPT_STRUCT(message) msg;
			struct iovec vec;
			size_t len = rq._state.data.msg;
			uint8_t *tmp = (uint8_t *) calloc(len + 1, 1);
			if (mpt_message_get(&rq.data, rq._state.data.pos, len, &msg, &vec) < 0
			    || mpt_message_read(&msg, len, tmp) != len) {
				with_bytes(c, "error", "data", tmp, 0);
			} else {
				with_bytes(c, "msg", "data", tmp, len);
			}
			free(tmp);
		}
		else if (r == 0 || (r == MPT_ERROR(MissingData) && !had)) with_bytes(c, "none", "data", 0, 0);
		else if (r == MPT_ERROR(MissingBuffer)) with_bytes(c, "stalled", "data", 0, 0);
		else with_bytes(c, "error", "data", 0, 0);
	}
	else {
		simple(c, "unknown-action");
	}
}

int main(int argc, char **argv)
{
	return drv_main(argc, argv);
}
