/* C++ binding of the Ident driver: same commands through mpt::identifier (mpt++/identifier.cpp). */
#include "ident.c"
