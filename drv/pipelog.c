/*
 * Driver for spec/PipeLog.tla (C02 extension X29): ONE struct stream connected by
 * mpt_stream_pipe to an echoing child process (this executable with --echo, or
 * /bin/cat), written through a connection (mpt_connection_push /
 * mpt_connection_log; the connection's backend is that stream) and read back by
 * mpt_stream_poll / mpt_stream_dispatch.
 * The bytes the library writes to / reads from the two pipe descriptors are
 * recorded by the driver's own read/readv/write/writev (they forward to the
 * system calls); no other judgement: descriptors are counted in /proc/self/fd.
 *
 * echo helper:  <exe> --echo <chunk> <k> <j> <delay_ms>
 *   forwards stdin to stdout in pieces of at most <chunk> bytes; with k >= 0 it
 *   exits after it has forwarded k zero bytes (frame delimiters) and at most j
 *   further non-zero bytes (it never forwards delimiter k+1); sleeps delay_ms
 *   before the first read (a slow reader: the pipe towards it fills up).
 */
#define _GNU_SOURCE
#include <dlfcn.h>
#include "drv.h"

#include <poll.h>
#include <fcntl.h>
#include <dirent.h>
#include <sys/uio.h>
#include <sys/ioctl.h>
#include <sys/syscall.h>
#include <sys/stat.h>

#include "message.h"
#include "convert.h"
#include "event.h"
#include "queue.h"
#include "stream.h"
#include "output.h"
#include "connection.h"

/* ---- tap on the descriptors of the stream ---- */
static int tap_w = -1, tap_r = -1, tap_eof;
static uint8_t *tw, *tr;
static size_t twn, trn, twcap, trcap;
static size_t w_total, r_total;

static void tap_add(uint8_t **b, size_t *n, size_t *cap, const void *p, size_t len)
{
	if (*n + len > *cap) *b = (uint8_t *) realloc(*b, *cap = (*n + len) * 2 + 64);
	memcpy(*b + *n, p, len);
	*n += len;
}
static void tap_vec(uint8_t **b, size_t *n, size_t *cap, const struct iovec *io, int cnt, size_t len)
{
	int i;
	for (i = 0; i < cnt && len; i++) {
		size_t l = io[i].iov_len < len ? io[i].iov_len : len;
		tap_add(b, n, cap, io[i].iov_base, l);
		len -= l;
	}
}
ssize_t writev(int fd, const struct iovec *io, int cnt)
{
	ssize_t r = syscall(SYS_writev, fd, io, cnt);
	if (r > 0 && fd == tap_w) { tap_vec(&tw, &twn, &twcap, io, cnt, r); w_total += r; }
	return r;
}
ssize_t write(int fd, const void *p, size_t len)
{
	ssize_t r = syscall(SYS_write, fd, p, len);
	if (r > 0 && fd == tap_w) { tap_add(&tw, &twn, &twcap, p, r); w_total += r; }
	return r;
}
ssize_t readv(int fd, const struct iovec *io, int cnt)
{
	ssize_t r = syscall(SYS_readv, fd, io, cnt);
	if (fd == tap_r) {
		if (r > 0) { tap_vec(&tr, &trn, &trcap, io, cnt, r); r_total += r; }
		else if (!r) tap_eof = 1;
	}
	return r;
}
ssize_t read(int fd, void *p, size_t len)
{
	ssize_t r = syscall(SYS_read, fd, p, len);
	if (fd == tap_r) {
		if (r > 0) { tap_add(&tr, &trn, &trcap, p, r); r_total += r; }
		else if (!r) tap_eof = 1;
	}
	return r;
}

/* fork() of the library can be made to fail (the driver frame's own forks pass) */
static int fork_fails;
pid_t fork(void)
{
	static pid_t (*real)(void);
	if (fork_fails) { errno = EAGAIN; return -1; }
	if (!real) real = (pid_t (*)(void)) dlsym(RTLD_NEXT, "fork");
	return real();
}

/* ---- echo helper ---- */
static int echo_main(int argc, char **argv)
{
	static uint8_t buf[1 << 16];
	long chunk = argc > 2 ? atol(argv[2]) : 4096;
	long k = argc > 3 ? atol(argv[3]) : -1;
	long j = argc > 4 ? atol(argv[4]) : 0;
	long delay = argc > 5 ? atol(argv[5]) : 0;
	if (chunk < 1 || chunk > (long) sizeof(buf)) chunk = sizeof(buf);
	if (delay) usleep(delay * 1000);
	if (!k && !j) return 0;
	for (;;) {
		ssize_t n = syscall(SYS_read, 0, buf, (size_t) chunk), i, keep = n, done = 0;
		int stop = 0;
		if (n <= 0) return 0;
		if (k >= 0) {
			for (i = 0; i < n; i++) {
				if (k > 0) { if (!buf[i]) --k; if (!k && !j) { keep = i + 1; stop = 1; break; } }
				else if (j > 0 && buf[i]) { if (!--j) { keep = i + 1; stop = 1; break; } }
				else { keep = i; stop = 1; break; }
			}
		}
		while (done < keep) {
			ssize_t w = syscall(SYS_write, 1, buf + done, (size_t) (keep - done));
			if (w <= 0) return 1;
			done += w;
		}
		if (stop) return 0;
	}
}

/* ---- state ---- */
static MPT_STRUCT(connection) con;
static MPT_STRUCT(stream) srm;
static pid_t child = -1;
static int is_open, base_fds, quiet_child;
static uint8_t *cur;
static size_t cur_len, cur_pos;
static uint8_t *got;
static size_t got_len;
static int got_any;
static char exe_path[512];

static int count_fds(void)
{
	DIR *d = opendir("/proc/self/fd");
	struct dirent *e;
	int n = 0;
	if (!d) return -1;
	while ((e = readdir(d))) if (e->d_name[0] != '.') ++n;
	closedir(d);
	return n - 1;
}
static void reap(pid_t p)
{
	int st, i;
	if (p <= 0) return;
	for (i = 0; i < 200; i++) {
		if (waitpid(p, &st, WNOHANG) == p) return;
		usleep(1000);
	}
	kill(p, SIGKILL);
	waitpid(p, &st, 0);
}
static void drv_reset(void)
{
	static const MPT_STRUCT(connection) cfresh = MPT_CONNECTION_INIT;
	static const MPT_STRUCT(stream) sfresh = MPT_STREAM_INIT;
	if (is_open) mpt_stream_close(&srm);
	else {
		if (srm._wd.data.base) free(srm._wd.data.base);
		if (srm._rd.data.base) free(srm._rd.data.base);
	}
	if (child > 0) { kill(child, SIGKILL); reap(child); }
	child = -1; is_open = 0;
	srm = sfresh; con = cfresh;
	srm._rd._state.data.msg = -1;
	tap_w = tap_r = -1; tap_eof = 0;
	twn = trn = 0; w_total = r_total = 0;
	free(cur); cur = 0; cur_len = cur_pos = 0;
	free(got); got = 0; got_len = 0; got_any = 0;
}
static size_t zeros(const uint8_t *p, size_t n)
{
	size_t z = 0, i;
	for (i = 0; i < n; i++) if (!p[i]) ++z;
	return z;
}
static void finish(struct cmd *c, const char *ret, long code)
{
	drv_begin(c);
	j_str("ret", ret);
	j_bytes("w", tw ? tw : (uint8_t *) "", twn);
	j_bytes("r", tr ? tr : (uint8_t *) "", trn);
	j_int("wz", zeros(tw, twn));
	j_int("z", zeros(tr, trn));
	j_int("fds", count_fds() - base_fds);
	if (got_any) j_bytes("data", got ? got : (uint8_t *) "", got_len);
	drv_dbg();
	j_int("code", code);
	j_int("wlen", srm._wd.data.len); j_int("wdone", srm._wd._state.done);
	j_int("rlen", srm._rd.data.len); j_int("eof", tap_eof);
	j_int("state", con.out.state); j_int("flags", mpt_stream_flags(&srm._info));
	j_int("wtotal", w_total); j_int("rtotal", r_total);
	drv_end();
	twn = trn = 0;
	got_any = 0;
}
static int handler(void *ctx, const MPT_STRUCT(message) *mp)
{
	MPT_STRUCT(message) msg;
	(void) ctx;
	free(got); got = 0; got_len = 0;
	got_any = 1;
	if (!mp) return 0;
	msg = *mp;
	got_len = mpt_message_length(&msg);
	got = (uint8_t *) calloc(got_len + 1, 1);
	mpt_message_read(&msg, got_len, got);
	return 0;
}
/* is the child waiting for input (blocked in read(0)) or gone? */
static int child_idle(void)
{
	char path[64], buf[256];
	int fd, st;
	ssize_t n;
	long nr = -1;
	unsigned long a0 = 99;
	if (child <= 0) return 1;
	if (waitpid(child, &st, WNOHANG) == child) { child = -1; return 1; }
	snprintf(path, sizeof(path), "/proc/%d/syscall", (int) child);
	if ((fd = open(path, O_RDONLY)) < 0) return -1;
	n = syscall(SYS_read, fd, buf, sizeof(buf) - 1);
	close(fd);
	if (n <= 0) return -1;
	buf[n] = 0;
	if (sscanf(buf, "%ld %lx", &nr, &a0) < 2) return 0;
	return (nr == SYS_read && a0 == 0) ? 1 : 0;
}
static int pending(int fd)
{
	int n = 0;
	if (fd < 0 || ioctl(fd, FIONREAD, &n) < 0) return 0;
	return n;
}
/* poll for input until everything the child will forward has arrived */
static void drain(void)
{
	int rounds, idle = 0;
	for (rounds = 0; rounds < 20000 && !tap_eof; rounds++) {
		size_t before = r_total;
		mpt_stream_poll(&srm, POLLIN, 5);
		if (r_total != before) { idle = 0; continue; }
		if (pending(tap_w) || pending(tap_r)) { idle = 0; continue; }
		if (quiet_child) {
			/* a foreign program (/bin/cat): all bytes written have come back */
			if (r_total >= w_total) break;
			if (++idle > 400) break;
			continue;
		}
		switch (child_idle()) {
		  case 1: if (++idle >= 2) return; break;
		  case 0: idle = 0; break;
		  default: if (++idle > 60) return;
		}
	}
}
static void setkind(const char *kind)
{
	if (!kind) kind = "cobs";
	if (!strcmp(kind, "cobs_r"))      { srm._wd._enc = mpt_encode_cobs_r;     srm._rd._dec = mpt_decode_cobs_r; }
	else if (!strcmp(kind, "zpe"))    { srm._wd._enc = mpt_encode_cobs_zpe;   srm._rd._dec = mpt_decode_cobs_zpe; }
	else if (!strcmp(kind, "zpe_r"))  { srm._wd._enc = mpt_encode_cobs_zpe_r; srm._rd._dec = mpt_decode_cobs_zpe_r; }
	else                              { srm._wd._enc = mpt_encode_cobs;       srm._rd._dec = mpt_decode_cobs; }
}

static void drv_step(struct cmd *c)
{
	const char *a = c->action;

	if (!strcmp(a, "init")) {
		drv_reset();
		setkind(drv_raw(c, "kind"));
		con.out.buf._buf = (void *) &srm;
		base_fds = count_fds();
		finish(c, "ok", 0);
	}
	else if (!strcmp(a, "open")) {
		char s1[24], s2[24], s3[24], s4[24];
		char *argv[7];
		uintptr_t before = srm._info._fd;
		pid_t old = child, pid;
		long k = (long) drv_int(c, "qk", 1000000);
		int cat = (int) drv_int(c, "cat", 0);
		snprintf(s1, sizeof(s1), "%ld", (long) drv_int(c, "chunk", 4096));
		snprintf(s2, sizeof(s2), "%ld", k >= 1000000 ? -1L : k);
		snprintf(s3, sizeof(s3), "%ld", (long) drv_int(c, "qj", 0));
		snprintf(s4, sizeof(s4), "%ld", (long) drv_int(c, "delay", 0));
		argv[0] = exe_path; argv[1] = (char *) "--echo"; argv[2] = s1; argv[3] = s2; argv[4] = s3; argv[5] = s4; argv[6] = 0;
		pid = cat ? mpt_stream_pipe(&srm._info, "/bin/cat", 0) : mpt_stream_pipe(&srm._info, exe_path, argv);
		if (pid < 0) {
			drv_begin(c); j_str("ret", "refused"); j_int("fds", count_fds() - base_fds);
			j_int("chg", before != srm._info._fd); drv_dbg(); j_int("code", pid); drv_end();
			return;
		}
		if (old > 0) reap(old);
		child = pid; is_open = 1; quiet_child = cat;
		mpt_stream_setmode(&srm, MPT_STREAMFLAG(Buffer));
		tap_r = _mpt_stream_fread(&srm._info);
		tap_w = _mpt_stream_fwrite(&srm._info);
		tap_eof = 0; w_total = r_total = 0;
		if (drv_int(c, "nb", 0)) fcntl(tap_w, F_SETFL, fcntl(tap_w, F_GETFL) | O_NONBLOCK);
		drv_begin(c); j_str("ret", "ok"); j_int("fds", count_fds() - base_fds); j_int("chg", 1);
		drv_dbg(); j_int("code", pid); j_int("rfd", tap_r); j_int("wfd", tap_w); drv_end();
	}
	else if (!strcmp(a, "openbad")) {
		const char *how = drv_raw(c, "how");
		char path[600];
		uintptr_t before = srm._info._fd;
		pid_t pid;
		if (how && !strcmp(how, "null")) pid = mpt_stream_pipe(&srm._info, 0, 0);
		else if (how && !strcmp(how, "nofork")) {
			fork_fails = 1;
			pid = mpt_stream_pipe(&srm._info, "/bin/cat", 0);
			fork_fails = 0;
		}
		else if (how && !strcmp(how, "noexec")) {
			int fd;
			snprintf(path, sizeof(path), "/tmp/x29-noexec-%d", (int) getpid());
			fd = open(path, O_CREAT | O_WRONLY, 0644);
			if (fd >= 0) close(fd);
			pid = mpt_stream_pipe(&srm._info, path, 0);
			unlink(path);
		}
		else {
			snprintf(path, sizeof(path), "/tmp/x29-missing-%d/none", (int) getpid());
			pid = mpt_stream_pipe(&srm._info, path, 0);
		}
		if (pid > 0) { kill(pid, SIGKILL); reap(pid); }
		drv_begin(c); j_str("ret", pid < 0 ? "refused" : "ok"); j_int("fds", count_fds() - base_fds);
		j_int("chg", before != srm._info._fd); drv_dbg(); j_int("code", pid); drv_end();
	}
	else if (!strcmp(a, "start")) {
		free(cur);
		cur = drv_bytes(c, "data", &cur_len);
		cur_pos = 0;
		finish(c, "ok", 0);
	}
	else if (!strcmp(a, "push")) {
		size_t n = drv_uint(c, "n", 0), done = 0;
		ssize_t r = 0;
		int rounds = 0;
		if (n > cur_len - cur_pos) n = cur_len - cur_pos;
		/* the caller repeats partial pushes */
		while (done < n && (r = mpt_connection_push(&con, n - done, cur + cur_pos + done)) >= 0 && ++rounds < 1000) {
			done += r;
			if (!r) break;
		}
		cur_pos += done;
		finish(c, (r < 0 || done != n) ? "failed" : "ok", r);
	}
	else if (!strcmp(a, "end")) {
		ssize_t r = mpt_connection_push(&con, 0, 0);
		finish(c, r < 0 ? "failed" : "ok", r);
	}
	else if (!strcmp(a, "flush")) {
		int r;
		errno = 0;
		r = mpt_stream_flush(&srm);
		finish(c, (r < 0 && errno != EAGAIN && errno != EWOULDBLOCK) ? "failed" : "ok", r);
	}
	else if (!strcmp(a, "pollout")) {
		int r = mpt_stream_poll(&srm, POLLOUT, (int) drv_int(c, "t", 20));
		finish(c, "ok", r);
	}
	else if (!strcmp(a, "deliver")) {
		drain();
		finish(c, "ok", 0);
	}
	else if (!strcmp(a, "poll")) {
		int r = mpt_stream_poll(&srm, POLLIN, (int) drv_int(c, "t", 20));
		finish(c, "ok", r);
	}
	else if (!strcmp(a, "recv")) {
		int r, grants = 0;
		size_t had = srm._rd.data.len;
		got_any = 0;
		/* the reader is given the buffer space it asks for: a zero-pair framing decodes to more bytes than
		 * arrived, frames of 140 KB may ask many times */
		while ((r = mpt_stream_dispatch(&srm, handler, 0)) == MPT_ERROR(MissingBuffer) && grants < 600) {
			if (!mpt_queue_prepare(&srm._rd.data, grants < 3 ? 64 : 1024)) break;
			++grants;
		}
		if (got_any) finish(c, "msg", r);
		else if (r >= 0 || (r == MPT_ERROR(MissingData) && !had)) finish(c, "none", r);
		else if (r == MPT_ERROR(MissingBuffer)) finish(c, "stalled", r);
		else finish(c, "none", r);    /* no message: which code says so is not the property's business */
	}
	else if (!strcmp(a, "log")) {
		char *from = 0, *text = 0;
		int r;
		if (drv_int(c, "fp", 0)) {
			size_t n = drv_uint(c, "fn", 0);
			from = (char *) malloc(n + 1);
			memset(from, (int) drv_int(c, "fc", 'f'), n); from[n] = 0;
		}
		if (drv_int(c, "tp", 0)) {
			size_t n = drv_uint(c, "tn", 0);
			text = (char *) malloc(n + 1);
			memset(text, (int) drv_int(c, "tc", 't'), n); text[n] = 0;
		}
		r = mpt_connection_log(&con, from, (int) drv_int(c, "ty", 0), text);
		free(from); free(text);
		finish(c, r >= 0 ? "ok" : r == MPT_MESGERR(InProgress) ? "busy" : r == MPT_ERROR(MissingBuffer) ? "nobuf" : "failed", r);
	}
	else if (!strcmp(a, "close")) {
		if (is_open) {
			/* the library's own idiom (stream_dopen.c, stream_open.c): a closed stream is replaced by a fresh
			 * one that keeps the codec; mpt_stream_close alone leaves the decoder offsets of the old queue */
			static const MPT_STRUCT(stream) sfresh = MPT_STREAM_INIT;
			MPT_STRUCT(stream) tmp = sfresh;
			tmp._rd._dec = srm._rd._dec;
			tmp._wd._enc = srm._wd._enc;
			mpt_stream_close(&srm);
			srm = tmp;
		}
		is_open = 0;
		tap_w = tap_r = -1;
		if (child > 0) { reap(child); child = -1; }
		srm._rd._state.data.msg = -1;
		finish(c, "ok", 0);
	}
	else {
		finish(c, "unknown-action", 0);
	}
}

int main(int argc, char **argv)
{
	ssize_t n;
	signal(SIGPIPE, SIG_IGN);
	if (argc > 1 && !strcmp(argv[1], "--echo")) return echo_main(argc, argv);
	n = readlink("/proc/self/exe", exe_path, sizeof(exe_path) - 1);
	if (n <= 0) return 2;
	exe_path[n] = 0;
	return drv_main(argc, argv);
}
