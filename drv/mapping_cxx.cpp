/*
 * Driver for spec/Mapping.tla (X22, extension of C10), C++ side: mpt::graphic::mapping (mpt++/mapping.cpp,
 * destination.cpp): add / del / destinations / clear, and the destination registry set_cycle / cycle /
 * clear_cycles.  Same script language as drv/mapping.c.  After each call every lookup of the universe is
 * asked through destinations(), and cycle() for every path of the universe.
 */
#include "drv.h"

#include "meta.h"
#include "types.h"
#include "layout.h"
#include "graphic.h"

#include "mapping_common.h"

#define NOBJ 256
/* the table's length (diagnostics only) */
class probe_mapping : public mpt::graphic::mapping
{
public:
	inline long entries() const { return _bind.length(); }
};
static probe_mapping *m;
/* every cycle handed to set_cycle: a fresh object (the driver keeps one reference of its own, so no address is
 * ever reused) remembered with the token of the step */
static struct { mpt::cycle *ptr; long long tok; } objs[NOBJ];
static size_t nobjs;

static void drv_reset(void)
{
	/* a fresh table per behaviour (the old one is not torn down) */
	m = new probe_mapping;
	nobjs = 0;
}

static size_t drv_lookup(int dim, int mask, int cli, struct dst4 *out, size_t max)
{
	mpt::typed_array<mpt::laydest> a = m->destinations(mpt::valsrc(dim, mask), cli);
	size_t n = 0;
	for (auto &d : a.elements()) {
		if (n >= max) break;
		out[n].v[0] = d.lay; out[n].v[1] = d.grf; out[n].v[2] = d.wld; out[n].v[3] = d.dim;
		n++;
	}
	return n;
}
static void emit_cyc(void)
{
	size_t i;
	j_arr_open("cyc");
	for (i = 0; i < unp; i++) {
		const mpt::reference<mpt::cycle> *r = m->cycle(mpt::laydest(upaths[i][0], upaths[i][1], upaths[i][2]));
		long long tok = -1;
		if (r) {
			mpt::cycle *c = r->instance();
			size_t k;
			tok = c ? -2 : 0;
			for (k = 0; c && k < nobjs; k++) {
				if (objs[k].ptr == c) tok = objs[k].tok;
			}
		}
		j_item_int(tok);
	}
	j_arr_close();
}
static void answer_str(struct cmd *c, const char *ret, long long raw)
{
	drv_begin(c);
	if (drv_int(c, "q", 0)) { drv_dbg(); drv_end(); return; }
	j_str("ret", ret);
	emit_all();
	emit_cyc();
	drv_dbg();
	j_int("raw", raw);
	j_int("len", m->entries());
	j_int("targets", (long long) (m->targets().end() - m->targets().begin()));
	drv_end();
}

static void drv_step(struct cmd *c)
{
	const char *a = c->action;

	if (!strcmp(a, "init")) {
		uni_init(c);
		answer_str(c, "ok", 0);
		return;
	}
	if (!strcmp(a, "add")) {
		uint8_t s[2] = { 0, 0 }, d[4] = { 0, 0, 0, 0 };
		int r;
		arg_dst(c, "src", s, 2);
		arg_dst(c, "dst", d, 4);
		r = m->add(mpt::valsrc(s[0], s[1]), mpt::laydest(d[0], d[1], d[2], d[3]), (int) drv_int(c, "cli", 0));
		answer_str(c, r == mpt::MissingData ? "missing" : add_class(r), r);
		return;
	}
	if (!strcmp(a, "del")) {
		uint8_t s[2] = { 0, 0 }, d[4] = { 0, 0, 0, 0 };
		int hs = arg_dst(c, "src", s, 2), hd = arg_dst(c, "dst", d, 4), r;
		mpt::valsrc src(s[0], s[1]);
		mpt::laydest dst(d[0], d[1], d[2], d[3]);
		r = m->del(hs ? &src : 0, hd ? &dst : 0, (int) drv_int(c, "cli", 0));
		answer_str(c, r < 0 ? "failed" : "ok", r);
		return;
	}
	if (!strcmp(a, "clear")) {
		m->clear();
		answer_str(c, "ok", 0);
		return;
	}
	if (!strcmp(a, "setcycle")) {
		uint8_t p[3] = { 0, 0, 0 };
		long long tok = drv_int(c, "tok", 0);
		mpt::cycle *obj = 0;
		bool ok;
		arg_dst(c, "path", p, 3);
		if (tok > 0 && nobjs < NOBJ) {
			obj = new mpt::reference<mpt::cycle>::type(2);
			objs[nobjs].ptr = obj; objs[nobjs].tok = tok; nobjs++;
		}
		ok = m->set_cycle(mpt::laydest(p[0], p[1], p[2]), obj);
		answer_str(c, ok ? "ok" : "failed", ok);
		return;
	}
	if (!strcmp(a, "clearcycles")) {
		size_t len;
		long long *h = drv_ints(c, "hint", &len);
		int r = -1;
		if (len >= 3) {
			r = m->clear_cycles(mpt::graphic::hint((int) h[0], (int) h[1], (int) h[2]));
		}
		free(h);
		answer_str(c, r < 0 ? "failed" : "ok", r);
		return;
	}
	drv_begin(c);
	j_str("ret", "unknown-action");
	drv_dbg();
	drv_end();
}

int main(int argc, char **argv)
{
	return drv_main(argc, argv);
}
