/*
 * Driver for spec/Notify.tla (extension of C11): the input loop that feeds a
 * dispatcher -- mpt_notify_add/clear/wait/next/fini, mpt_notify_connect,
 * mpt_notify_bind, mpt_notify_dispatch, mpt_stream_input and mpt_loop.
 *
 * Inputs are identified by tokens (order of creation).  Kinds:
 *   h  harness input of this driver over a socket pair: next() reads what is
 *      there and answers what the step scripted, dispatch() hands its oldest
 *      message to the handler it is given
 *   s  mpt_stream_input over a socket pair, COBS framing, no message id
 *   c  mpt_notify_connect to a unix stream socket (COBS + 2 byte message id)
 *   f  mpt_notify_connect to a FIFO (COBS, no id)
 *   p  mpt_stream_input with a 2 byte message id on the read end of a pipe
 *      (read-only: no reply possible)
 *   l  mpt_notify_bind listener (keeps listening), o (single connection);
 *      connections they accept become inputs of kind c with the next token
 * Readiness is real: peers write to / shut down / connect real descriptors
 * and mpt_notify_wait runs with timeout 0.
 *
 * The dispatcher is the one mpt_notify_dispatch attaches; one harness handler
 * serves every registration (token = its arg) and logs its invocations.
 *
 * mpt_loop: mptio/notify/loop.c is compiled into this driver with
 * mpt_notify_wait / mpt_notify_next renamed to the hooks below, which call the
 * library functions (wait with timeout 0; an idle blocking wait ends the loop)
 * and log every internal step as its own record ("sub" events).
 *
 * Built with DRV_POLL (epoll_create1 renamed to a function of this driver that fails, the sources of mptio/notify
 * compiled in) the notifier runs its portable
 * poll() path, the one taken where epoll is missing or cannot be created; mpt_loop is not driven there.
 *
 * Judgement free: the driver copies bytes, follows pointers, maps pointers to
 * tokens and return codes to classes.
 */
#include "drv.h"

#include <poll.h>
#include <fcntl.h>
#include <sys/stat.h>
#include <sys/socket.h>
#include <sys/un.h>
#include <sys/uio.h>
#include <sys/ioctl.h>

#include "meta.h"
#include "array.h"
#include "message.h"
#include "convert.h"
#include "event.h"
#include "types.h"
#include "connection.h"
#include "stream.h"
#include "notify.h"

/* the library's functions behind the names loop.c was compiled against */
#undef mpt_notify_wait
#undef mpt_notify_next
#undef mpt_loop
extern int mpt_notify_wait(MPT_STRUCT(notify) *, int, int);
extern MPT_INTERFACE(input) *mpt_notify_next(const MPT_STRUCT(notify) *);
#ifndef DRV_POLL
extern int hk_notify_wait(MPT_STRUCT(notify) *, int, int);
extern MPT_INTERFACE(input) *hk_notify_next(const MPT_STRUCT(notify) *);
extern int drv_mpt_loop(MPT_STRUCT(notify) *);
#endif

#ifdef DRV_POLL
/* stands in for epoll_create1: no epoll descriptor to be had */
extern int drv_epoll_create1(int flags) { (void) flags; errno = ENOSYS; return -1; }
#endif

#define MAXIN   96
#define MAXMSG  64
#define MAXLEN  96
#define MAXCALLS 64
#define REFUSED_TOK 99

/* ---------- harness input ---------- */
struct hin {
	MPT_INTERFACE(input) _in;
	int tok, fd, claim, rv, unrefs;
	uint8_t raw[4096];
	size_t nraw;
};

static MPT_STRUCT(notify) no = MPT_NOTIFY_INIT;
static MPT_STRUCT(dispatch) *disp;
static MPT_TYPE(event_handler) real_cmd;
static void *real_arg;

static struct slot {
	int kind;                      /* 0 = unused */
	MPT_INTERFACE(input) *in;
	struct hin *h;
	int fd, peer, idlen;
	ino_t ino;
	int released;
	MPT_STRUCT(stream) *ps;        /* peer writer (COBS kinds) */
	char path[64];
	/* bytes the peer put on the wire: end offset of every message (measured, not computed) */
	long wire_total, wire_end[MAXMSG * 8];
	int nwire;
} tab[MAXIN + 1];
static int nin;
static MPT_INTERFACE(input) *cur;

static int fds[1024];
static int nfds;
static void track(int fd) { if (fd >= 0 && nfds < 1024) fds[nfds++] = fd; }

/* pending client sockets of the listener */
static int clients[MAXIN];
static int nclients, aclients;
static int pathno;

/* logs of one step */
static int nexts[MAXCALLS], nnexts;
static int rels[MAXCALLS], nrels;
static struct call { long tok; int fin; uintptr_t id; int msg; } calls[MAXCALLS];
static int ncalls;
static struct { uint8_t d[MAXLEN]; size_t n; } datas[MAXCALLS];
static int ndatas;

/* handler results: one per step, or a list inside mpt_loop */
static int hr_r, hr_clear;
static long long *loop_rs;
static size_t loop_nrs, loop_pos;
static int in_loop, used_r, used_clear, nsub, loop_waits;
static int loop_rvs[MAXIN + 1];
static long long *loop_cl;
static size_t loop_ncl;
/* a harness input's next() may remove another input (scripted: kill=<killer>,<victim>) */
static int kill_i, kill_v;
static const struct cmd *loop_cmd;

static int handler(void *arg, MPT_STRUCT(event) *ev)
{
	int r;
	if (ncalls < MAXCALLS) {
		struct call *c = &calls[ncalls++];
		c->tok = (long) (intptr_t) arg;
		c->fin = ev ? 0 : 1;
		c->id  = ev ? ev->id : 0;
		c->msg = (ev && ev->msg) ? 1 : 0;
	}
	if (!ev) return 0;
	if (ev->msg && ndatas < MAXCALLS) {
		MPT_STRUCT(message) m = *ev->msg;
		datas[ndatas].n = mpt_message_read(&m, MAXLEN, datas[ndatas].d);
		ndatas++;
	}
	if (in_loop) {
		used_clear = (loop_pos < loop_ncl && loop_cl[loop_pos]) ? 1 : 0;
		if (loop_pos < loop_nrs) { r = (int) loop_rs[loop_pos++]; }
		else r = 4;                 /* script exhausted: ask the loop to terminate */
		used_r = r;
		if (used_clear) ev->id = 0;
		return r;
	}
	if (hr_clear) ev->id = 0;
	return hr_r;
}

static void sub_event(const char *a);

/* ---------- token lookup ---------- */
static int tok_of(const void *p)
{
	int i, dead = 0;
	if (!p) return 0;
	for (i = nin; i >= 1; i--) {
		if (tab[i].kind && (const void *) tab[i].in == p) {
			if (!tab[i].released) return i;
			if (!dead) dead = i;
		}
	}
	return dead ? dead : -1;
}

/* ---------- harness input interface ---------- */
static int h_conv(MPT_INTERFACE(convertable) *val, MPT_TYPE(type) type, void *ptr)
{
	struct hin *h = (void *) val;
	const MPT_STRUCT(named_traits) *traits = mpt_input_type_traits();
	MPT_TYPE(type) me = traits ? traits->type : (MPT_TYPE(type)) MPT_ENUM(TypeMetaPtr);
	if (traits && type == me) {
		if (ptr) *((void **) ptr) = &h->_in;
		return MPT_ENUM(TypeUnixSocket);
	}
	if (!type) {
		static const char fmt[] = { MPT_ENUM(TypeUnixSocket), 0 };
		if (ptr) *((const char **) ptr) = fmt;
		return me;
	}
	if (type == MPT_ENUM(TypeMetaPtr)) {
		if (ptr) *((void **) ptr) = &h->_in;
		return MPT_ENUM(TypeUnixSocket);
	}
	if (type == MPT_ENUM(TypeUnixSocket)) {
		if (ptr) ((MPT_STRUCT(socket) *) ptr)->_id = h->claim;
		return me;
	}
	return MPT_ERROR(BadType);
}
static void h_unref(MPT_INTERFACE(metatype) *mt)
{
	struct hin *h = (void *) mt;
	if (nrels < MAXCALLS) rels[nrels++] = h->tok;
	if (!h->unrefs++ && h->fd >= 0) close(h->fd);     /* the object itself is kept: later calls are logged, not faults */
	if (h->tok >= 1 && h->tok <= MAXIN) tab[h->tok].released = 1;
}
static uintptr_t h_addref(MPT_INTERFACE(metatype) *mt) { (void) mt; return 0; }
static MPT_INTERFACE(metatype) *h_clone(const MPT_INTERFACE(metatype) *mt) { (void) mt; return 0; }
static int h_next(MPT_INTERFACE(input) *in, int what)
{
	struct hin *h = (void *) in;
	ssize_t got;
	(void) what;
	if (nnexts < MAXCALLS) nexts[nnexts++] = h->tok;
	while (!h->unrefs && h->nraw < sizeof(h->raw)
	       && (got = recv(h->fd, h->raw + h->nraw, sizeof(h->raw) - h->nraw, MSG_DONTWAIT)) > 0) {
		h->nraw += (size_t) got;
	}
	if (h->tok == kill_i && kill_v >= 1 && kill_v <= nin && kill_v != h->tok
	    && tab[kill_v].kind && !tab[kill_v].released && tab[kill_v].fd >= 0) {
		if (cur == tab[kill_v].in) cur = 0;
		mpt_notify_clear(&no, tab[kill_v].fd);
	}
	return h->rv;
}
static int last_disp_ret;
static int h_dispatch_do(struct hin *h, MPT_TYPE(event_handler) cmd, void *arg);
static int h_dispatch(MPT_INTERFACE(input) *in, MPT_TYPE(event_handler) cmd, void *arg)
{
	struct hin *h = (void *) in;
	int r;
	if (h->unrefs && nnexts < MAXCALLS) nexts[nnexts++] = -h->tok;     /* used after release */
	used_r = 0; used_clear = 0;
	r = h_dispatch_do(h, cmd, arg);
	last_disp_ret = r;
	if (in_loop) sub_event("dispatch");
	return r;
}
static int h_dispatch_do(struct hin *h, MPT_TYPE(event_handler) cmd, void *arg)
{
	MPT_STRUCT(event) ev = MPT_EVENT_INIT;
	MPT_STRUCT(message) msg = MPT_MESSAGE_INIT;
	uint8_t *copy;
	size_t len;
	int r, more;
	if (!h->nraw || h->nraw < (size_t) h->raw[0] + 1) return 0;
	len = h->raw[0];
	copy = (uint8_t *) malloc(len ? len : 1);                           /* exact size */
	memcpy(copy, h->raw + 1, len);
	memmove(h->raw, h->raw + 1 + len, h->nraw - 1 - len);
	h->nraw -= 1 + len;
	more = h->nraw && h->nraw >= (size_t) h->raw[0] + 1;
	if (!cmd) { free(copy); return more ? MPT_EVENTFLAG(Retry) : 0; }
	msg.base = copy; msg.used = len;
	ev.msg = &msg;
	r = cmd(arg, &ev);
	free(copy);
	if (r < 0) return MPT_EVENTFLAG(CtlError) | (more ? MPT_EVENTFLAG(Retry) : 0);
	return (r & MPT_EVENTFLAG(Flags)) | (more ? MPT_EVENTFLAG(Retry) : 0);
}
static const MPT_INTERFACE_VPTR(input) h_vptr = {
	{ { h_conv }, h_unref, h_addref, h_clone },
	h_next,
	h_dispatch
};
static struct hin *h_new(int tok, int fd, int claim)
{
	struct hin *h = (struct hin *) calloc(1, sizeof(*h));
	h->_in._vptr = &h_vptr;
	h->tok = tok; h->fd = fd; h->claim = claim; h->rv = 1;
	return h;
}

/* ---------- proxy around the notifier's handler (records what mpt_loop emits) ---------- */
static int last_emit_ret;
static int proxy(void *arg, MPT_STRUCT(event) *ev)
{
	int r, hadmsg = ev && ev->msg;
	(void) arg;
	if (!ev) return real_cmd ? real_cmd(real_arg, 0) : 0;
	if (!hadmsg) { used_r = 0; used_clear = 0; }
	r = real_cmd(real_arg, ev);
	last_emit_ret = r;
	if (in_loop && !hadmsg) sub_event("default");
	return r;
}
static void wrap_disp(void)
{
	real_cmd = no._disp.cmd; real_arg = no._disp.arg;
	no._disp.cmd = proxy; no._disp.arg = 0;
}

/* ---------- recording trampoline around dispatch() of the library's inputs ---------- */
/* The object keeps all its methods; only the dispatch entry of a per-input copy of its method table goes through
 * here, so that a call made by mpt_loop is seen even when nothing reaches a handler. */
static MPT_INTERFACE_VPTR(input) tramp_vptr[MAXIN + 1];
static const MPT_INTERFACE_VPTR(input) *orig_vptr[MAXIN + 1];
static int t_dispatch(MPT_INTERFACE(input) *in, MPT_TYPE(event_handler) cmd, void *arg)
{
	int t = tok_of(in), r;
	if (t < 1) return MPT_ERROR(BadArgument);
	used_r = 0; used_clear = 0;
	r = orig_vptr[t]->dispatch(in, cmd, arg);
	last_disp_ret = r;
	if (in_loop) sub_event("dispatch");
	return r;
}
static void install_tramp(int t)
{
	MPT_INTERFACE(input) *in = tab[t].in;
	if (!in || tab[t].kind == 'h' || orig_vptr[t]) return;
	orig_vptr[t] = in->_vptr;
	tramp_vptr[t] = *in->_vptr;
	tramp_vptr[t].dispatch = t_dispatch;
	in->_vptr = &tramp_vptr[t];
}
static int disp_class(int r) { return (r < 0 || (r & MPT_EVENTFLAG(CtlError))) ? -1 : (r & MPT_EVENTFLAG(Flags)); }

/* ---------- observation ---------- */
static void limbs_out(const char *key, uintptr_t v)
{
	j_sep();
	fprintf(drv_out, "\"%s\":[%u,%u,%u,%u]", key, (unsigned) (v & 0xffff), (unsigned) ((v >> 16) & 0xffff),
	        (unsigned) ((v >> 32) & 0xffff), (unsigned) ((v >> 48) & 0xffff));
}
static int cmp_int(const void *a, const void *b) { return (*(const int *) a > *(const int *) b) - (*(const int *) a < *(const int *) b); }
static int by_tok(const void *a, const void *b)
{
	const MPT_STRUCT(command) *x = a, *y = b;
	return ((intptr_t) x->arg > (intptr_t) y->arg) - ((intptr_t) x->arg < (intptr_t) y->arg);
}
static void int_list(const char *key, int *v, int n)
{
	int i;
	qsort(v, (size_t) n, sizeof(*v), cmp_int);
	j_arr_open(key);
	for (i = 0; i < n; i++) j_item_int(v[i]);
	j_arr_close();
}
static int cur_waiting[MAXIN + 8], cur_nwaiting;
static void scan_waiting(void)
{
	MPT_STRUCT(buffer) *b = no._wait._buf;
	size_t i, n = b ? b->_used / sizeof(void *) : 0;
	void **p = b ? (void **) (b + 1) : 0;
	cur_nwaiting = 0;
	for (i = 0; i < n && cur_nwaiting < MAXIN; i++) {
		if (p[i]) cur_waiting[cur_nwaiting++] = tok_of(p[i]);
	}
	qsort(cur_waiting, (size_t) cur_nwaiting, sizeof(int), cmp_int);
}
/* inputs of the library whose descriptor is gone were released; unknown pointers in the slot table are accepted connections */
static void discover(void)
{
	MPT_STRUCT(buffer) *b = no._slot._buf;
	size_t i, n = b ? b->_used / sizeof(void *) : 0;
	void **p = b ? (void **) (b + 1) : 0;
	int t;
	for (t = 1; t <= nin; t++) {
		struct stat st;
		if (!tab[t].kind || tab[t].kind == 'h' || tab[t].released || tab[t].fd < 0) continue;
		if (fstat(tab[t].fd, &st) < 0 || st.st_ino != tab[t].ino) {
			tab[t].released = 1;
			if (nrels < MAXCALLS) rels[nrels++] = t;
		}
	}
	for (i = 0; i < n; i++) {
		struct stat st;
		if (!p[i] || tok_of(p[i]) > 0) continue;
		if (tok_of(p[i]) < 0 && nin < MAXIN) {
			struct slot *s = &tab[++nin];
			memset(s, 0, sizeof(*s));
			s->kind = 'c'; s->in = (MPT_INTERFACE(input) *) p[i]; s->fd = (int) i; s->idlen = 2;
			s->peer = aclients < nclients ? clients[aclients++] : -1;
			s->ino = fstat(s->fd, &st) < 0 ? 0 : st.st_ino;
			track(s->fd);
			install_tramp(nin);
		}
	}
}
static const char *d_ret_str;
static void emit_tail(const char *ret, int dint, int dret)
{
	MPT_STRUCT(buffer) *b;
	int regs[MAXIN + 8], nregs = 0, i;
	discover();
	/* the caller's pointer dies with the input */
	if (cur && (i = tok_of(cur)) > 0 && tab[i].released) cur = 0;
	j_str("ret", ret);
	j_int("cur", tok_of(cur));
	int_list("nexts", nexts, nnexts);
	int_list("rel", rels, nrels);
	if ((b = no._slot._buf)) {
		size_t k, n = b->_used / sizeof(void *);
		void **p = (void **) (b + 1);
		for (k = 0; k < n && nregs < MAXIN; k++) if (p[k]) regs[nregs++] = tok_of(p[k]);
	}
	int_list("reg", regs, nregs);
	scan_waiting();
	int_list("waiting", cur_waiting, cur_nwaiting);
	/* bytes a library input left unread on its descriptor (not an expected value: tells the specification which
	 * of its permitted branches the input took) */
	j_arr_open("unread");
	for (i = 1; i <= nin; i++) {
		int n = 0;
		if (!tab[i].kind || tab[i].kind == 'h' || tab[i].kind == 'l' || tab[i].kind == 'o' || tab[i].released
		    || tab[i].fd < 0 || ioctl(tab[i].fd, FIONREAD, &n) < 0) n = 0;
		j_item_int(n);
	}
	j_arr_close();
	/* messages the input has read completely so far: those that end within the bytes it took off its descriptor */
	j_arr_open("got");
	for (i = 1; i <= nin; i++) {
		int n = 0, k, g = 0;
		if (tab[i].kind && tab[i].kind != 'h' && tab[i].kind != 'l' && tab[i].kind != 'o' && !tab[i].released
		    && tab[i].fd >= 0 && ioctl(tab[i].fd, FIONREAD, &n) >= 0) {
			for (k = 0; k < tab[i].nwire; k++) if (tab[i].wire_end[k] <= tab[i].wire_total - n) g++;
		}
		j_item_int(g);
	}
	j_arr_close();
	j_arr_open("data");
	for (i = 0; i < ndatas; i++) {
		size_t k;
		j_sep(); fputc('[', drv_out);
		for (k = 0; k < datas[i].n; k++) fprintf(drv_out, k ? ",%u" : "%u", datas[i].d[k]);
		fputc(']', drv_out); drv_first = 0;
	}
	j_arr_close();
	j_open("d");
	if (dint) j_int("ret", dret); else j_str("ret", d_ret_str ? d_ret_str : "ok");
	d_ret_str = 0;
	j_arr_open("calls");
	for (i = 0; i < ncalls; i++) {
		j_item_obj_open();
		j_int("tok", calls[i].tok);
		j_int("fin", calls[i].fin);
		limbs_out("id", calls[i].id);
		j_int("msg", calls[i].msg);
		j_close();
	}
	j_arr_close();
	limbs_out("def", disp ? disp->_def : 0);
	j_arr_open("table");
	if (disp && disp->_d._buf) {
		MPT_STRUCT(buffer) *cb = disp->_d._buf;
		MPT_STRUCT(command) *cmd = (MPT_STRUCT(command) *) (cb + 1), *live;
		size_t n = cb->_used / sizeof(*cmd), k, nl = 0;
		live = (MPT_STRUCT(command) *) calloc(n + 1, sizeof(*live));
		for (k = 0; k < n; k++) if (cmd[k].cmd) live[nl++] = cmd[k];
		qsort(live, nl, sizeof(*live), by_tok);
		for (k = 0; k < nl; k++) {
			j_item_obj_open();
			j_int("tok", (long) (intptr_t) live[k].arg);
			limbs_out("id", live[k].id);
			j_close();
		}
		free(live);
	}
	j_arr_close();
	j_close();
}
static void clear_logs(void) { nnexts = nrels = ncalls = ndatas = 0; }
static int emit_class(int r) { return r < 0 ? -1 : (r & MPT_EVENTFLAG(Flags)); }

static void emit_dbg(int ret)
{
	drv_dbg();
	j_int("r", ret);
	j_int("fdused", no._fdused);
	j_int("sysfd", no._sysfd >= 0);
	j_int("slots", no._slot._buf ? (long long) (no._slot._buf->_used / sizeof(void *)) : 0);
}
static void answer(struct cmd *c, const char *ret, int dint, int dret, int raw)
{
	drv_begin(c);
	emit_tail(ret, dint, dret);
	emit_dbg(raw);
	drv_end();
	clear_logs();
}

/* one internal step of mpt_loop as its own record */
static int sub_rvs[MAXIN + 1];
static int sub_what, sub_blk;
static void sub_event(const char *a)
{
	int i;
	/* a loop that never comes to rest is a fault of its own: end the behaviour (recorded as a crash of "loop") */
	if (nsub > 4000) abort();
	fprintf(drv_out, "{\"b\":%ld,\"i\":%ld,\"sub\":%d,\"a\":\"%s\",\"arg\":{", drv_beh, drv_stepno, nsub++, a);
	drv_first = 1;
	if (!strcmp(a, "wait")) {
		j_int("what", sub_what);
		j_arr_open("rvs");
		for (i = 1; i <= sub_rvs[0]; i++) j_item_int(sub_rvs[i]);
		j_arr_close();
		j_arr_open("kill"); j_item_int(kill_i); j_item_int(kill_v); j_arr_close();
		j_int("blk", sub_blk);
	}
	else if (!strcmp(a, "loopbegin")) j_int("hnd", no._disp.cmd ? 1 : 0);
	else if (!strcmp(a, "dispatch") || !strcmp(a, "default")) {
		j_int("r", used_r);
		j_int("clear", used_clear);
	}
	else j_int("x", 0);
	fputs("},\"obs\":{", drv_out);
	drv_first = 1;
	if (!strcmp(a, "dispatch")) {
		emit_tail("any", 1, disp_class(last_disp_ret));
		/* what the input handed back to the loop */
		j_open("st"); j_int("neg", last_disp_ret < 0); j_int("def", (last_disp_ret >= 0 && (last_disp_ret & MPT_EVENTFLAG(Default))) ? 1 : 0); j_close();
	}
	else if (!strcmp(a, "default")) emit_tail("any", 1, emit_class(last_emit_ret));
	else emit_tail("any", 0, 0);
	fputs("},\"dbg\":{}}\n", drv_out);
	fflush(drv_out);
	clear_logs();
}
static int last_waiting[MAXIN + 8], last_nwaiting;
static void note_relist(void)
{
	/* loop.c lists the input in hand again (retry): visible as a change of the list between two hooks */
	scan_waiting();
	if (cur_nwaiting != last_nwaiting || memcmp(cur_waiting, last_waiting, sizeof(int) * (size_t) cur_nwaiting)) {
		sub_event("relist");
	}
}
static void remember_waiting(void)
{
	scan_waiting();
	last_nwaiting = cur_nwaiting;
	memcpy(last_waiting, cur_waiting, sizeof(int) * (size_t) cur_nwaiting);
}
#ifndef DRV_POLL
extern int hk_notify_wait(MPT_STRUCT(notify) *n, int what, int timeout)
{
	int r, t;
	note_relist();
	if (++loop_waits > 200) return -1;
	sub_rvs[0] = nin;
	for (t = 1; t <= nin; t++) sub_rvs[t] = (tab[t].kind == 'h' && !tab[t].released) ? tab[t].h->rv : 1;
	sub_what = what; sub_blk = timeout < 0 ? 1 : 0;
	r = mpt_notify_wait(n, what, 0);
	sub_event("wait");
	remember_waiting();
	if (timeout < 0 && r == 0) return -1;      /* a blocking wait with nothing to do: the loop ends here */
	return r;
}
extern MPT_INTERFACE(input) *hk_notify_next(const MPT_STRUCT(notify) *n)
{
	note_relist();
	cur = mpt_notify_next(n);
	sub_event("next");
	remember_waiting();
	return cur;
}
#endif

/* ---------- peers ---------- */
/* no step waits: a peer whose write would block gives up (the step answers "refused") */
static void no_block(int fd)
{
	int fl = fcntl(fd, F_GETFL);
	if (fl >= 0) fcntl(fd, F_SETFL, fl | O_NONBLOCK);
}
static MPT_STRUCT(stream) *peer_stream(int fd)
{
	static const MPT_STRUCT(stream) fresh = MPT_STREAM_INIT;
	MPT_STRUCT(stream) *ps = (MPT_STRUCT(stream) *) malloc(sizeof(*ps));
	MPT_STRUCT(socket) s;
	*ps = fresh;
	ps->_wd._enc = mpt_message_encoder(MPT_ENUM(EncodingCobs));
	no_block(fd);
	s._id = fd;
	if (mpt_stream_dopen(ps, &s, MPT_STREAMFLAG(Write) | MPT_STREAMFLAG(WriteBuf)) < 0) { free(ps); return 0; }
	return ps;
}
static void set_ino(struct slot *s)
{
	struct stat st;
	s->ino = (s->fd >= 0 && fstat(s->fd, &st) >= 0) ? st.st_ino : 0;
}
static void new_path(char *dst, size_t len, const char *ext)
{
	snprintf(dst, len, "/tmp/xn-%d-%d.%s", (int) getpid(), pathno++, ext);
	unlink(dst);
}

static void drv_reset(void)
{
	static const MPT_STRUCT(notify) fresh = MPT_NOTIFY_INIT;
	int i;
	for (i = 0; i < nfds; i++) close(fds[i]);
	nfds = 0;
	if (no._sysfd >= 0) close(no._sysfd);
	for (i = 1; i <= nin; i++) if (tab[i].path[0]) unlink(tab[i].path);
	/* objects of the previous behaviour are abandoned (leak checking is off) */
	no = fresh;
	disp = 0; real_cmd = 0; real_arg = 0;
	memset(tab, 0, sizeof(tab));
	memset(orig_vptr, 0, sizeof(orig_vptr));
	nin = 0; cur = 0; nclients = aclients = 0;
	in_loop = 0;
	clear_logs();
}

static int do_add(struct cmd *c, int kind, int t)
{
	struct slot *s = &tab[t];
	int sv[2], r = -1;
	memset(s, 0, sizeof(*s));
	s->kind = kind; s->fd = s->peer = -1;
	if (kind == 'h' || kind == 's') {
		if (socketpair(AF_UNIX, SOCK_STREAM, 0, sv) < 0) return -100;
		track(sv[0]); track(sv[1]);
		s->fd = sv[0]; s->peer = sv[1];
		set_ino(s);
		if (kind == 'h') {
			s->h = h_new(t, sv[0], sv[0]);
			s->in = &s->h->_in;
		} else {
			MPT_STRUCT(socket) sock;
			sock._id = sv[0];
			s->in = mpt_stream_input(&sock, MPT_STREAMFLAG(Read) | MPT_STREAMFLAG(ReadBuf), MPT_ENUM(EncodingCobs), 0);
			if (!s->in) return -101;
			s->ps = peer_stream(sv[1]);
		}
		r = mpt_notify_add(&no, POLLIN, s->in);
	}
	else if (kind == 'p') {
		MPT_STRUCT(socket) sock;
		if (pipe(sv) < 0) return -100;
		track(sv[0]); track(sv[1]);
		s->fd = sv[0]; s->peer = sv[1];
		set_ino(s);
		s->idlen = 2;
		sock._id = sv[0];
		s->in = mpt_stream_input(&sock, MPT_STREAMFLAG(Read) | MPT_STREAMFLAG(Buffer), MPT_ENUM(EncodingCobs), 2);
		if (!s->in) return -101;
		s->ps = peer_stream(sv[1]);
		r = mpt_notify_add(&no, POLLIN, s->in);
	}
	else if (kind == 'c') {
		struct sockaddr_un addr;
		char dest[96];
		int lfd = socket(AF_UNIX, SOCK_STREAM | SOCK_NONBLOCK, 0);   /* no step waits */
		new_path(s->path, sizeof(s->path), "sock");
		memset(&addr, 0, sizeof(addr));
		addr.sun_family = AF_UNIX;
		strcpy(addr.sun_path, s->path);
		if (lfd < 0 || bind(lfd, (struct sockaddr *) &addr, sizeof(addr)) < 0 || listen(lfd, 4) < 0) return -100;
		snprintf(dest, sizeof(dest), "Unix:%s", s->path);
		r = mpt_notify_connect(&no, dest);
		if (r >= 0) {
			s->fd = r;
			s->peer = accept(lfd, 0, 0);
			track(s->fd); track(s->peer);
			set_ino(s);
			s->idlen = 2;
			s->ps = peer_stream(s->peer);
			s->in = ((MPT_INTERFACE(input) **) (no._slot._buf + 1))[r];
		}
		close(lfd);
		unlink(s->path); s->path[0] = 0;
	}
	else if (kind == 'f') {
		char dest[96];
		new_path(s->path, sizeof(s->path), "fifo");
		if (mkfifo(s->path, 0600) < 0) return -100;
		snprintf(dest, sizeof(dest), "R:%s", s->path);
		r = mpt_notify_connect(&no, dest);
		if (r >= 0) {
			s->fd = r;
			s->peer = open(s->path, O_WRONLY | O_NONBLOCK);
			track(s->fd); track(s->peer);
			set_ino(s);
			s->ps = peer_stream(s->peer);
			s->in = ((MPT_INTERFACE(input) **) (no._slot._buf + 1))[r];
		}
		unlink(s->path); s->path[0] = 0;
	}
	else if (kind == 'l' || kind == 'o') {
		char dest[96];
		int before = no._slot._buf ? (int) (no._slot._buf->_used / sizeof(void *)) : 0, k;
		(void) before;
		new_path(s->path, sizeof(s->path), "sock");
		snprintf(dest, sizeof(dest), "Unix:%s", s->path);
		r = mpt_notify_bind(&no, dest, kind == 'l' ? 4 : -1);
		if (r >= 0) {
			/* the listener is the registered input this driver does not know yet */
			MPT_STRUCT(buffer) *b = no._slot._buf;
			void **p = (void **) (b + 1);
			int n = (int) (b->_used / sizeof(void *));
			for (k = 0; k < n; k++) {
				if (p[k] && tok_of(p[k]) < 0) { s->in = (MPT_INTERFACE(input) *) p[k]; s->fd = k; }
			}
			track(s->fd);
			set_ino(s);
		}
	}
	(void) c;
	if (r >= 0) install_tramp(t);
	return r;
}

static int send_msg(struct slot *s, const uint8_t *d, size_t n)
{
	int before = 0, after = 0;
	if (s->peer < 0 || s->released) return -1;     /* nobody reads any more: the peer's write would fail */
	if (s->kind == 'h') {
		uint8_t frame[MAXLEN + 1];
		if (n > MAXLEN) n = MAXLEN;
		frame[0] = (uint8_t) n;
		memcpy(frame + 1, d, n);
		if (send(s->peer, frame, n + 1, MSG_NOSIGNAL | MSG_DONTWAIT) == (ssize_t) (n + 1)) return 0;
		s->peer = -1;      /* nothing more goes to this input */
		return -2;
	}
	if (!s->ps) return -3;
	if (s->fd >= 0) ioctl(s->fd, FIONREAD, &before);
	/* the data is the whole message, message id included where the input expects one */
	if (n && mpt_stream_push(s->ps, n, d) < 0) return -5;
	if (mpt_stream_push(s->ps, 0, 0) < 0) return -6;
	if (mpt_stream_flush(s->ps) < 0) { s->ps = 0; s->peer = -1; return -7; }   /* writer broken: not used again */
	if (s->fd >= 0 && ioctl(s->fd, FIONREAD, &after) >= 0 && s->nwire < MAXMSG * 8) {
		s->wire_total += after - before;
		s->wire_end[s->nwire++] = s->wire_total;
	}
	return 0;
}

static void set_rvs(struct cmd *c)
{
	size_t n = 0, i;
	long long *v = drv_ints(c, "rvs", &n);
	for (i = 1; i <= (size_t) nin; i++) {
		if (tab[i].kind == 'h' && tab[i].h) tab[i].h->rv = (i <= n) ? (int) v[i - 1] : 1;
	}
	free(v);
}
static void set_kill(struct cmd *c)
{
	size_t n = 0;
	long long *v = drv_ints(c, "kill", &n);
	kill_i = n >= 2 ? (int) v[0] : 0;
	kill_v = n >= 2 ? (int) v[1] : 0;
	free(v);
}
static uintptr_t limbs_in(struct cmd *c, const char *key)
{
	size_t n = 0, i;
	long long *l = drv_ints(c, key, &n);
	uint64_t v = 0;
	for (i = 0; i < n && i < 4; i++) v |= ((uint64_t) (l[i] & 0xffff)) << (16 * i);
	free(l);
	return (uintptr_t) v;
}

static void drv_step(struct cmd *c)
{
	const char *a = c->action;

	hr_r = (int) drv_int(c, "r", 0);
	hr_clear = (int) drv_int(c, "clear", 0);

	if (!strcmp(a, "init")) {
		drv_reset();
		answer(c, "ok", 0, 0, 0);
	}
	else if (!strcmp(a, "attach")) {
		/* the handler in place gets its end-of-life call through the proxy */
		disp = mpt_notify_dispatch(&no);
		wrap_disp();
		answer(c, disp ? "ok" : "refused", 0, 0, 0);
	}
	else if (!strcmp(a, "set")) {
		int r = disp ? mpt_dispatch_set(disp, limbs_in(c, "id"), handler, (void *) (intptr_t) drv_int(c, "tok", 0)) : -1;
		/* the dispatcher's own answer is part of d in the model: ok / refused */
		d_ret_str = r < 0 ? "refused" : "ok";
		drv_begin(c); emit_tail("ok", 0, 0);
		emit_dbg(r); drv_end(); clear_logs();
	}
	else if (!strcmp(a, "clear")) {
		int r = disp ? mpt_dispatch_set(disp, limbs_in(c, "id"), 0, 0) : -1;
		d_ret_str = r < 0 ? "refused" : "ok";
		drv_begin(c); emit_tail("ok", 0, 0); emit_dbg(r); drv_end(); clear_logs();
	}
	else if (!strcmp(a, "seterror")) {
		if (disp) {
			if (disp->_err.cmd) disp->_err.cmd(disp->_err.arg, 0);
			disp->_err.cmd = handler;
			disp->_err.arg = (void *) (intptr_t) drv_int(c, "tok", 0);
		}
		answer(c, "ok", 0, 0, 0);
	}
	else if (!strcmp(a, "add")) {
		const char *k = drv_raw(c, "k");
		int t = (int) drv_int(c, "tok", 0), r;
		if (t != nin + 1 || t > MAXIN || !k) { drv_begin(c); j_str("ret", "skipped"); drv_dbg(); drv_end(); return; }
		nin = t;
		r = do_add(c, k[0], t);
		answer(c, r < 0 ? "refused" : "ok", 0, 0, r);
	}
	else if (!strcmp(a, "addsame") || !strcmp(a, "addbad")) {
		int of = (int) drv_int(c, "of", 0), r;
		struct hin *h = h_new(REFUSED_TOK, -1, (a[3] == 's' && of >= 1 && of <= nin && !tab[of].released) ? tab[of].fd : -1);
		r = mpt_notify_add(&no, POLLIN, &h->_in);
		answer(c, r < 0 ? "refused" : "ok", 0, 0, r);
	}
	else if (!strcmp(a, "addfile")) {
		/* an input on a descriptor the kernel refuses to watch (regular file); the caller then drops the descriptor */
#ifdef DRV_POLL
		drv_begin(c); j_str("ret", "skipped"); drv_dbg(); drv_end(); clear_logs();
		return;
#else
		char path[64];
		int fd, r;
		struct hin *h;
		new_path(path, sizeof(path), "file");
		fd = open(path, O_RDWR | O_CREAT, 0600);
		unlink(path);
		h = h_new(REFUSED_TOK, -1, fd);
		r = mpt_notify_add(&no, POLLIN, &h->_in);
		if (fd >= 0) close(fd);
		answer(c, r < 0 ? "refused" : "ok", 0, 0, r);
#endif
	}
	else if (!strcmp(a, "direct")) {
		/* a handler installed directly on the notifier; what was there gets its end-of-life call first */
		if (no._disp.cmd) no._disp.cmd(no._disp.arg, 0);
		disp = 0;
		no._disp.cmd = handler;
		no._disp.arg = (void *) (intptr_t) drv_int(c, "tok", 0);
		wrap_disp();
		answer(c, "ok", 0, 0, 0);
	}
	else if (!strcmp(a, "send")) {
		int i = (int) drv_int(c, "i", 0), r = -9;
		size_t n = 0;
		uint8_t *d = drv_bytes(c, "data", &n);
		if (i >= 1 && i <= nin && tab[i].kind) r = send_msg(&tab[i], d, n);
		free(d);
		answer(c, r < 0 ? "refused" : "ok", 0, 0, r);
	}
	else if (!strcmp(a, "shut")) {
		int i = (int) drv_int(c, "i", 0), r = -9;
		const char *how = drv_raw(c, "how");
		if (i >= 1 && i <= nin && tab[i].kind && tab[i].peer >= 0) {
			int cl = tab[i].kind == 'f' || tab[i].kind == 'p' || (how && !strcmp(how, "close"));
			r = cl ? close(tab[i].peer) : shutdown(tab[i].peer, SHUT_WR);
			if (cl) tab[i].peer = -1;
		}
		answer(c, r < 0 ? "refused" : "ok", 0, 0, r);
	}
	else if (!strcmp(a, "conn")) {
		int i = (int) drv_int(c, "i", 0), r = -9;
		if (i >= 1 && i <= nin && (tab[i].kind == 'l' || tab[i].kind == 'o') && nclients < MAXIN) {
			struct sockaddr_un addr;
			int fd = socket(AF_UNIX, SOCK_STREAM | SOCK_NONBLOCK, 0);
			memset(&addr, 0, sizeof(addr));
			addr.sun_family = AF_UNIX;
			strcpy(addr.sun_path, tab[i].path);
			r = connect(fd, (struct sockaddr *) &addr, sizeof(addr));
			track(fd);
			if (r >= 0) {
				fcntl(fd, F_SETFL, fcntl(fd, F_GETFL) & ~O_NONBLOCK);
				clients[nclients++] = fd;
			}
		}
		answer(c, r < 0 ? "refused" : "ok", 0, 0, r);
	}
	else if (!strcmp(a, "wait")) {
		int r;
		set_rvs(c);
		set_kill(c);
		r = mpt_notify_wait(&no, (int) drv_int(c, "what", -1), 0);
		kill_i = kill_v = 0;
		/* the peer writers of accepted connections are set up once they are known */
		drv_begin(c); emit_tail(r < 0 ? "refused" : "ok", 0, 0); emit_dbg(r); drv_end(); clear_logs();
	}
	else if (!strcmp(a, "next")) {
		cur = mpt_notify_next(&no);
		answer(c, cur ? "ok" : "none", 0, 0, 0);
	}
	else if (!strcmp(a, "dispatch")) {
		int r = 0, t = tok_of(cur);
		if (cur && t > 0 && !tab[t].released) {
			r = cur->_vptr->dispatch(cur, no._disp.cmd, no._disp.arg);
		}
		answer(c, "ok", 1, disp_class(r), r);
	}
	else if (!strcmp(a, "default")) {
		/* what mpt_loop does when idle: the handler is called with an empty event */
		MPT_STRUCT(event) ev = MPT_EVENT_INIT;
		int r = no._disp.cmd ? no._disp.cmd(no._disp.arg, &ev) : 0;
		answer(c, "ok", 1, emit_class(r), r);
	}
	else if (!strcmp(a, "relist")) {
		/* what mpt_loop does on the retry flag */
		MPT_STRUCT(buffer) *s;
		int k, t = tok_of(cur);
		scan_waiting();
		for (k = 0; k < cur_nwaiting; k++) {
			if (cur_waiting[k] == t) {       /* mpt_loop lists only an input it has just taken off the list */
				drv_begin(c); j_str("ret", "skipped"); drv_dbg(); drv_end(); clear_logs();
				return;
			}
		}
		if (cur) {
			if ((s = no._wait._buf) && s->_used) {
				size_t len = mpt_array_compact((void **) (s + 1), s->_used / sizeof(cur));
				s->_used = len * sizeof(cur);
			}
			mpt_array_append(&no._wait, sizeof(cur), &cur);
		}
		answer(c, "ok", 0, 0, 0);
	}
	else if (!strcmp(a, "unreg")) {
		int i = (int) drv_int(c, "i", 0), r = -9;
		/* an input that is gone has no descriptor any more (its number may belong to a newer input) */
		if (i < 1 || i > nin || !tab[i].kind || tab[i].released || tab[i].fd < 0) {
			drv_begin(c); j_str("ret", "skipped"); drv_dbg(); drv_end(); clear_logs();
			return;
		}
		if (cur == tab[i].in) cur = 0;        /* the caller's pointer dies with the input */
		r = mpt_notify_clear(&no, tab[i].fd);
		answer(c, r < 0 ? "refused" : "ok", 0, 0, r);
	}
	else if (!strcmp(a, "fini")) {
		mpt_notify_fini(&no);
		disp = 0; real_cmd = 0; real_arg = 0; cur = 0;
		answer(c, "ok", 0, 0, 0);
	}
#ifndef DRV_POLL
	else if (!strcmp(a, "loop")) {
		int r, t;
		set_rvs(c);
		set_kill(c);
		loop_rs = drv_ints(c, "rs", &loop_nrs);
		loop_cl = drv_ints(c, "cl", &loop_ncl);
		loop_pos = 0; nsub = 0; loop_waits = 0;
		remember_waiting();
		in_loop = 1;
		sub_event("loopbegin");
		r = drv_mpt_loop(&no);
		in_loop = 0;
		kill_i = kill_v = 0;
		free(loop_rs); loop_rs = 0;
		free(loop_cl); loop_cl = 0; loop_ncl = 0;
		(void) t;
		answer(c, "ok", 0, 0, r);
	}
#endif
	else {
		drv_begin(c); j_str("ret", "unknown-action"); drv_dbg(); drv_end();
	}
	/* accepted connections: writer at the peer end */
	{
		int t;
		for (t = 1; t <= nin; t++) {
			if (tab[t].kind == 'c' && !tab[t].ps && tab[t].peer >= 0) tab[t].ps = peer_stream(tab[t].peer);
		}
	}
}

int main(int argc, char **argv)
{
	signal(SIGPIPE, SIG_IGN);
	return drv_main(argc, argv);
}
