/*
 * Driver for spec/MsgUse.tla (X17), C++ binding: the wrappers message::read /
 * message::length (mpt++/message.cpp) and client::dispatch (mpt++/client.cpp:
 * head taken with message::read, then the command and its arguments are handed
 * to the client).  Same script and record format as drv/msguse.c.
 */
#include "drv.h"

#include <sys/uio.h>

#include "core.h"
#include "types.h"
#include "meta.h"
#include "array.h"
#include "message.h"
#include "event.h"
#include "client.h"

using namespace mpt;

#define MSGUSE_READ(m, n, dest) (m)->read((n), (dest))
#define MSGUSE_LENGTH(m)        (m)->length()
#include "msguse_common.h"

static int reply_calls;
class probe_reply : public reply_context
{
public:
	int reply(const struct message *) __MPT_OVERRIDE
	{
		++reply_calls;
		return 0;
	}
};
static probe_reply the_rc;

static uintptr_t cl_id;
static int cl_calls;
static struct items cl_args;

class probe_client : public client
{
public:
	void unref() __MPT_OVERRIDE
	{ }
	probe_client *clone() const __MPT_OVERRIDE
	{
		return 0;
	}
	int process(uintptr_t id, iterator *it) __MPT_OVERRIDE
	{
		++cl_calls;
		cl_id = id;
		items_walk(&cl_args, it);
		return 0;
	}
};
static probe_client the_client;

static void drv_reset(void)
{
	msg_reset();
	items_clear(&cl_args);
}

static void drv_step(struct cmd *c)
{
	const char *a = c->action;

	if (msg_common_step(c)) {
		return;
	}
	if (!strcmp(a, "cxxdispatch")) {
		struct items cand = ITEMS_INIT;
		event ev;
		int r;
		cl_calls = 0; cl_id = 0; reply_calls = 0;
		items_clear(&cl_args);
		ev.msg = &msg;
		ev.reply = &the_rc;
		r = the_client.dispatch(&ev);
		if (cl_calls && cl_id) hash_candidates(&cand, cl_id);
		drv_begin(c);
		j_str("ret", cl_calls ? "called" : "failed");
		items_out("cmds", &cand);
		items_out("args", &cl_args);
		content_out();
		drv_dbg();
		j_int("r", r);
		j_int("replies", reply_calls);
		drv_end();
		items_clear(&cand);
	}
	else {
		drv_begin(c);
		j_str("ret", "unknown-action");
		drv_dbg();
		drv_end();
	}
}

int main(int argc, char **argv)
{
	return drv_main(argc, argv);
}
