/*
 * Driver for spec/Connection.tla (extension X12 of C12): both ends of the
 * request/reply protocol in one process.
 *
 *   A (requester)  <-- socket -->  tap A  ~~ in-flight lists ~~  tap B  <-- socket -->  B (responder)
 *
 * A and B are real connections of the library (struct connection used
 * directly, via=conn, or embedded in the object of mpt_output_remote(),
 * via=remote).  The driver plays the network: what an end sends is collected
 * at its tap into the in-flight list of its direction (one entry per message:
 * a datagram, or a COBS frame decoded by a stream of the same library); a step
 * moves an entry to the other end (any position: reorder; or drops it), lets
 * that end receive and dispatch it, and records what the handlers / waiting
 * callers were given and what was put on the wire.  No judgement here.
 *
 *   init tr=stream|dgram max=<id width> via=conn|remote open=open|assign|manual
 *   await w=<n>                 A: reserve an id for waiter n
 *   send data=..                A: push data, complete the message
 *   deliver dir=AB k=<i> act=none|reply|reply2|defer data=.. hret=<n> h=<slot>
 *   deliver dir=BA k=<i>        A receives + dispatches
 *   hold k=<i>                  A receives packet i (not dispatched)
 *   dispatch                    A dispatches what it holds
 *   sync ks=i,j,..              packets i,j.. reach A, then A calls sync(0)
 *   stray of=<n> data=..        a reply packet carrying the id given to request n
 *                               (0: an id never issued) appears in flight to A
 *   drop dir=.. k=<i>
 *   dreply h=<slot> data=..     B answers through a deferred handle
 *   late data=..                B replies again through the connection's context
 */
#include "drv.h"

#include <poll.h>
#include <fcntl.h>
#include <sys/socket.h>
#include <sys/un.h>
#include <sys/uio.h>

#include "meta.h"
#include "message.h"
#include "convert.h"
#include "event.h"
#include "connection.h"
#include "notify.h"
#include "stream.h"
#include "output.h"

/* source seam: struct out_data (object of mpt_output_remote) is private to this file */
#include "output_remote.c"

#define MAXP   4096      /* packets in flight per direction */
#define MAXW   2048    /* waiters (callers of A: 1.., callers of B: 1001..) */
#define MAXH   16
#define MAXREC 16
#define PKTMAX 2048

struct endpoint {
	MPT_STRUCT(connection)  own;
	MPT_INTERFACE(input)   *in;
	MPT_INTERFACE(output)  *out;
	MPT_STRUCT(connection) *con;
	int                     tapfd;
	MPT_STRUCT(stream)      tap;
	int                     have_tap;
};
static struct endpoint ep[2];
static int is_stream, via_remote;
static size_t idlen;
static char sockpath[2][108];

struct pkt { uint8_t *d; size_t len; };
static struct pkt flight[2][MAXP];
static int nflight[2];

/* per step records */
static struct { int dir; uint8_t d[PKTMAX]; size_t len; } wire[MAXREC];
static int nwire;
static struct { int w; int null; uint8_t d[PKTMAX]; size_t len; } calls[MAXREC];
static int ncalls;
static struct { int at; uintptr_t id; int reply; uint8_t d[PKTMAX]; size_t len; } seen[MAXREC];
static int nseen;

static int waiter[MAXW + 1];
static int waiter_ep[MAXW + 1];
static uint32_t req_id[MAXW + 1];
static int req_have[MAXW + 1];

/* caller script of the step: what a waiting caller does when it is handed a reply */
static int cb_ret, cb_chain, cb_w;
static struct { int w; int r; uint32_t id; } chain[MAXREC];
static int nchain;
static int ep_await(int e, int w);
static ssize_t ep_push(int e, size_t len, const void *src);

/* responder script */
static const char *act;
static uint8_t *rdata;
static size_t rlen;
static int hret, r1, r2, have_r2, defer_slot, got_handle;
static MPT_INTERFACE(reply_context) *saved_rc;
static MPT_INTERFACE(reply_context_detached) *hd[MAXH + 1];

static void fill_msg(MPT_STRUCT(message) *msg, struct iovec *vec)
{
	static const MPT_STRUCT(message) empty = MPT_MESSAGE_INIT;
	*msg = empty;
	msg->base = rdata;
	msg->used = rlen < 2 ? rlen : 2;
	if (rlen > 2) {
		vec->iov_base = rdata + 2; vec->iov_len = rlen - 2;
		msg->cont = vec; msg->clen = 1;
	}
}
static int send_reply(MPT_INTERFACE(reply_context) *rc)
{
	MPT_STRUCT(message) msg; struct iovec vec;
	fill_msg(&msg, &vec);
	return rc->_vptr->reply(rc, &msg);
}
/* event handler of an end (arg = endpoint index) */
static int handler(void *arg, MPT_STRUCT(event) *ev)
{
	int at = (int) (intptr_t) arg;
	if (!ev) return 0;
	if (nseen < MAXREC) {
		seen[nseen].at = at;
		seen[nseen].id = ev->id;
		seen[nseen].reply = ev->reply ? 1 : 0;
		seen[nseen].len = 0;
		if (ev->msg) {
			MPT_STRUCT(message) m = *ev->msg;
			seen[nseen].len = mpt_message_read(&m, sizeof(seen[nseen].d), seen[nseen].d);
		}
		nseen++;
	}
	if (ev->reply && at == 1) {
		saved_rc = ev->reply;
		if (!strcmp(act, "defer")) {
			MPT_INTERFACE(reply_context_detached) *d = ev->reply->_vptr->defer(ev->reply);
			got_handle = d ? 1 : 0;
			if (d && defer_slot >= 1 && defer_slot <= MAXH) hd[defer_slot] = d;
		}
		else if (!strcmp(act, "reply") || !strcmp(act, "reply2")) {
			r1 = send_reply(ev->reply);
			if (!strcmp(act, "reply2")) {
				r2 = send_reply(ev->reply);
				have_r2 = 1;
			}
		}
	}
	return hret;
}
/* waiting caller of a request */
static int waiter_cb(void *arg, const MPT_STRUCT(message) *msg)
{
	int *w = arg;
	if (ncalls < MAXREC) {
		calls[ncalls].w = *w;
		calls[ncalls].null = msg ? 0 : 1;
		calls[ncalls].len = 0;
		if (msg) {
			MPT_STRUCT(message) m = *msg;
			calls[ncalls].len = mpt_message_read(&m, sizeof(calls[ncalls].d), calls[ncalls].d);
		}
		ncalls++;
	}
	if (!msg) return 0;
	/* follow-up request from inside the callback, on the connection the reply came in on */
	if (cb_chain && nchain < MAXREC && cb_w + nchain >= 1 && cb_w + nchain <= MAXW) {
		int e = waiter_ep[*w], nw = cb_w + nchain, r;
		uint8_t d[2];
		r = ep_await(e, nw);
		chain[nchain].w = nw; chain[nchain].r = r; chain[nchain].id = r < 0 ? 0 : ep[e].con->cid;
		nchain++;
		if (r >= 0) {
			d[0] = (uint8_t) nw; d[1] = 7;
			if (ep_push(e, 2, d) >= 0) ep_push(e, 0, 0);
		}
	}
	return cb_ret;
}

/* ---- network ---- */
static void add_flight(int dir, const uint8_t *d, size_t len, int record)
{
	if (nflight[dir] < MAXP) {
		struct pkt *p = &flight[dir][nflight[dir]++];
		p->d = malloc(len ? len : 1);
		memcpy(p->d, d, len);
		p->len = len;
	}
	if (record && nwire < MAXREC) {
		wire[nwire].dir = dir;
		wire[nwire].len = len < PKTMAX ? len : PKTMAX;
		memcpy(wire[nwire].d, d, wire[nwire].len);
		nwire++;
	}
}
static int collect_dir;
static int collect_frame(void *arg, const MPT_STRUCT(message) *msg)
{
	uint8_t buf[PKTMAX];
	MPT_STRUCT(message) m = *msg;
	size_t len = mpt_message_read(&m, sizeof(buf), buf);
	(void) arg;
	add_flight(collect_dir, buf, len, 1);
	return 0;
}
static MPT_STRUCT(stream) *ep_stream(int e)
{
	MPT_STRUCT(connection) *con = ep[e].con;
	if (!con || MPT_socket_active(&con->out.sock)) return 0;
	return (MPT_STRUCT(stream) *) con->out.buf._buf;
}
static int fd_readable(int fd)
{
	struct pollfd p;
	p.fd = fd; p.events = POLLIN; p.revents = 0;
	return fd >= 0 && poll(&p, 1, 0) > 0 && (p.revents & POLLIN);
}
/* a stream reads 64 bytes per poll: ask again while its descriptor is readable (as an event loop does) */
static int stream_fill(MPT_STRUCT(stream) *srm, MPT_INTERFACE(input) *in)
{
	int r, guard = 0, fd = _mpt_stream_fread(&srm->_info);
	do {
		r = in ? in->_vptr->next(in, POLLIN) : mpt_stream_poll(srm, POLLIN, 0);
	} while (r >= 0 && fd_readable(fd) && ++guard < 256);
	return r;
}
/* what end e has sent -> in-flight list of its direction */
static void collect_from(int e)
{
	if (!ep[e].con || !ep[e].have_tap) return;
	if (is_stream) {
		MPT_STRUCT(stream) *srm = ep_stream(e);
		int r, guard = 0;
		if (srm) mpt_stream_poll(srm, POLLOUT, -1);    /* the event loop's part: flush */
		if (stream_fill(&ep[e].tap, 0) < 0) return;
		collect_dir = e;
		do {
			r = mpt_stream_dispatch(&ep[e].tap, collect_frame, 0);
		} while (r >= 0 && (r & MPT_EVENTFLAG(Retry)) && ++guard < MAXP);
	} else {
		uint8_t buf[PKTMAX];
		ssize_t n;
		while ((n = recv(ep[e].tapfd, buf, sizeof(buf), MSG_DONTWAIT)) >= 0) {
			add_flight(e, buf, (size_t) n, 1);
		}
	}
}
static int take_flight(int dir, int k, struct pkt *p)
{
	int i;
	if (k < 1 || k > nflight[dir]) return 0;
	*p = flight[dir][k - 1];
	for (i = k; i < nflight[dir]; i++) flight[dir][i - 1] = flight[dir][i];
	nflight[dir]--;
	return 1;
}
/* a packet reaches the socket of end e */
static int transfer(int e, const struct pkt *p)
{
	if (is_stream) {
		if (p->len && mpt_stream_push(&ep[e].tap, p->len, p->d) < 0) return -100;
		if (mpt_stream_push(&ep[e].tap, 0, 0) < 0) return -101;
		if (mpt_stream_flush(&ep[e].tap) < 0) return -102;
		return 0;
	}
	return send(ep[e].tapfd, p->d, p->len, 0) < 0 ? -103 : 0;
}
/* the event loop's part (mpt_notify_wait): an input whose descriptor is readable is asked for
 * its next state and scheduled for dispatch when that is positive */
static int ep_poll(int e)
{
	if (is_stream) {
		MPT_STRUCT(stream) *srm = ep_stream(e);
		return srm ? stream_fill(srm, via_remote ? ep[e].in : 0) : -200;
	}
	if (!fd_readable(ep[e].con->out.sock._id)) return 0;
	if (via_remote) return ep[e].in->_vptr->next(ep[e].in, POLLIN);
	/* struct connection used directly: the caller receives, then dispatches */
	return mpt_outdata_recv(&ep[e].con->out) < 0 ? -201 : 1;
}
static int ep_dispatch(int e)
{
	if (via_remote) return ep[e].in->_vptr->dispatch(ep[e].in, handler, (void *) (intptr_t) e);
	return mpt_connection_dispatch(ep[e].con, handler, (void *) (intptr_t) e);
}
static int holding, hold_rp;
static int ep_await(int e, int w)
{
	int r;
	waiter[w] = w; waiter_ep[w] = e;
	if (via_remote) r = ep[e].out->_vptr->await(ep[e].out, waiter_cb, &waiter[w]);
	else r = mpt_connection_await(ep[e].con, waiter_cb, &waiter[w]);
	if (r >= 0) { req_id[w] = ep[e].con->cid; req_have[w] = 1; }
	return r;
}
static ssize_t ep_push(int e, size_t len, const void *src)
{
	if (via_remote) return ep[e].out->_vptr->push(ep[e].out, len, src);
	return mpt_connection_push(ep[e].con, len, src);
}
static int ep_end(const struct cmd *c)
{
	const char *e = drv_raw(c, "end");
	return e && !strcmp(e, "B");
}

/* ---- set up / tear down ---- */
static void ep_clear(int e)
{
	if (ep[e].have_tap && is_stream) mpt_stream_close(&ep[e].tap);
	else if (ep[e].tapfd >= 0) close(ep[e].tapfd);
	if (ep[e].in) ep[e].in->_vptr->meta.unref((MPT_INTERFACE(metatype) *) ep[e].in);
	else if (ep[e].con) mpt_connection_fini(ep[e].con);
	memset(&ep[e], 0, sizeof(ep[e]));
	ep[e].tapfd = -1;
	if (sockpath[e][0]) { unlink(sockpath[e]); sockpath[e][0] = 0; }
}
static void drv_reset(void)
{
	int e, d, i;
	for (i = 1; i <= MAXH; i++) hd[i] = 0;     /* handles of the previous behaviour are abandoned */
	for (e = 0; e < 2; e++) ep_clear(e);
	for (d = 0; d < 2; d++) {
		for (i = 0; i < nflight[d]; i++) free(flight[d][i].d);
		nflight[d] = 0;
	}
	memset(req_have, 0, sizeof(req_have));
	saved_rc = 0; idlen = 0; holding = 0;
}
static int ep_open(int e, const char *how)
{
	static const MPT_STRUCT(connection) cfresh = MPT_CONNECTION_INIT;
	static const MPT_STRUCT(stream) sfresh = MPT_STREAM_INIT;
	MPT_STRUCT(connection) *con;
	MPT_STRUCT(socket) s = MPT_SOCKET_INIT;
	int sv[2] = { -1, -1 }, ret = 0, tapfd = -1;

	if (via_remote) {
		MPT_STRUCT(out_data) *od;
		if (!(ep[e].in = mpt_output_remote())) return -1;
		od = MPT_baseaddr(out_data, ep[e].in, _in);
		ep[e].out = &od->_out;
		con = &od->con;
	} else {
		ep[e].own = cfresh;
		con = &ep[e].own;
	}
	ep[e].con = con;
	if (!strcmp(how, "open")) {
		/* the end connects to a listening unix socket by name */
		struct sockaddr_un un;
		char target[128];
		int ls;
		snprintf(sockpath[e], sizeof(sockpath[e]), "/tmp/xconn-%d-%d.sock", (int) getpid(), e);
		unlink(sockpath[e]);
		if ((ls = socket(AF_UNIX, SOCK_STREAM, 0)) < 0) return -2;
		memset(&un, 0, sizeof(un));
		un.sun_family = AF_UNIX;
		strcpy(un.sun_path, sockpath[e]);
		if (bind(ls, (struct sockaddr *) &un, sizeof(un)) < 0 || listen(ls, 1) < 0) { close(ls); return -3; }
		snprintf(target, sizeof(target), "Unix:%s", sockpath[e]);
		ret = mpt_connection_open(con, target, 0);
		if (ret >= 0) tapfd = accept(ls, 0, 0);
		close(ls);
		unlink(sockpath[e]); sockpath[e][0] = 0;     /* the name is not needed any more */
		if (ret < 0) return -4;
	} else {
		if (socketpair(AF_UNIX, is_stream ? SOCK_STREAM : SOCK_DGRAM, 0, sv) < 0) return -5;
		tapfd = sv[1];
		s._id = sv[0];
		if (!strcmp(how, "assign")) {
			ret = mpt_connection_assign(con, &s);      /* takes a duplicate */
			close(sv[0]);
			if (ret >= 0 && is_stream) ret = mpt_connection_set(con, "encoding", 0);
		} else {
			/* what mpt_connection_open leaves behind for a stream target */
			MPT_STRUCT(stream) *cs = malloc(sizeof(*cs));
			*cs = sfresh;
			cs->_rd._dec = mpt_message_decoder(MPT_ENUM(EncodingCobs));
			cs->_wd._enc = mpt_message_encoder(MPT_ENUM(EncodingCobs));
			if ((ret = mpt_stream_dopen(cs, &s, MPT_STREAMFLAG(RdWr) | MPT_STREAMFLAG(Buffer))) >= 0) {
				con->out.buf._buf = (void *) cs;
			}
		}
		if (ret < 0) { close(tapfd); return -6; }
	}
	if (tapfd < 0) return -7;
	con->out._idlen = (uint8_t) idlen;
	ep[e].tapfd = tapfd;
	if (is_stream) {
		ep[e].tap = sfresh;
		ep[e].tap._rd._dec = mpt_message_decoder(MPT_ENUM(EncodingCobs));
		ep[e].tap._wd._enc = mpt_message_encoder(MPT_ENUM(EncodingCobs));
		s._id = tapfd;
		if (mpt_stream_dopen(&ep[e].tap, &s, MPT_STREAMFLAG(RdWr) | MPT_STREAMFLAG(Buffer)) < 0) return -8;
	}
	ep[e].have_tap = 1;
	return 0;
}

/* ---- output ---- */
static void limbs_out(const char *key, uintptr_t v)
{
	j_sep();
	fprintf(drv_out, "\"%s\":[%u,%u,%u,%u]", key, (unsigned) (v & 0xffff), (unsigned) ((v >> 16) & 0xffff),
	        (unsigned) ((v >> 32) & 0xffff), (unsigned) ((v >> 48) & 0xffff));
}
static void split_out(const uint8_t *d, size_t len)
{
	size_t il = len < idlen ? len : idlen;
	j_bytes("id", d, il);
	j_bytes("data", d + il, len - il);
}
static void emit_wire(void)
{
	int i;
	j_arr_open("wire");
	for (i = 0; i < nwire; i++) {
		j_item_obj_open();
		j_str("dir", wire[i].dir ? "BA" : "AB");
		split_out(wire[i].d, wire[i].len);
		j_close();
	}
	j_arr_close();
}
static void emit_calls(void)
{
	int i;
	j_arr_open("calls");
	for (i = 0; i < ncalls; i++) {
		if (calls[i].null) continue;          /* replies only; cancellations are diagnostic */
		j_item_obj_open();
		j_int("w", calls[i].w);
		j_bytes("data", calls[i].d, calls[i].len);
		j_close();
	}
	j_arr_close();
}
static void emit_chain(void)
{
	int i;
	j_arr_open("chain");
	for (i = 0; i < nchain; i++) {
		j_item_obj_open();
		j_int("w", chain[i].w);
		j_str("ret", chain[i].r < 0 ? "refused" : "ok");
		j_close();
	}
	j_arr_close();
	j_arr_open("cids");
	for (i = 0; i < nchain; i++) j_item_int(chain[i].id);
	j_arr_close();
}
static void emit_seen(void)
{
	int i;
	j_arr_open("seen");
	for (i = 0; i < nseen; i++) {
		j_item_obj_open();
		limbs_out("id", seen[i].id);
		j_int("reply", seen[i].reply);
		j_bytes("payload", seen[i].d, seen[i].len);
		j_close();
	}
	j_arr_close();
}
static void emit_dbg(void)
{
	int i, d;
	MPT_STRUCT(connection) *a = ep[0].con;
	j_arr_open("cancels");
	for (i = 0; i < ncalls; i++) if (calls[i].null) j_item_int(calls[i].w);
	j_arr_close();
	for (d = 0; d < 2; d++) j_int(d ? "nBA" : "nAB", nflight[d]);
	if (a) {
		MPT_STRUCT(buffer) *b = a->_wait._buf;
		j_int("cid", a->cid);
		j_int("state", a->out.state);
		j_arr_open("wait");
		if (b) {
			MPT_STRUCT(command) *c = (void *) (b + 1);
			size_t n = b->_used / sizeof(*c), k;
			for (k = 0; k < n && k < 64; k++) {
				j_item_int(c[k].cmd ? (long long) c[k].id : -(long long) c[k].id);
			}
		}
		j_arr_close();
	}
}
static void out_simple(struct cmd *c, const char *ret)
{
	drv_begin(c); j_str("ret", ret); drv_dbg(); drv_end();
}
static void mark_id(uint8_t *buf, size_t w, uint32_t id)
{
	size_t i;
	for (i = 0; i < w; i++) {
		size_t sh = 8 * (w - 1 - i);
		buf[i] = sh < 32 ? (uint8_t) (id >> sh) : 0;
	}
	if (w) buf[0] |= 0x80;
}

static void drv_step(struct cmd *c)
{
	const char *a = c->action;
	int e;

	nwire = ncalls = nseen = nchain = 0;
	cb_ret = (int) drv_int(c, "cret", 0);
	cb_chain = (int) drv_int(c, "chain", 0);
	cb_w = (int) drv_int(c, "cw", 0);
	have_r2 = 0; r1 = r2 = 0; got_handle = -1;
	defer_slot = (int) drv_int(c, "h", 0);
	act = drv_raw(c, "act");
	if (!act) act = "none";
	hret = (int) drv_int(c, "hret", 0);
	rdata = drv_bytes(c, "data", &rlen);

	if (!strcmp(a, "init")) {
		const char *tr = drv_raw(c, "tr"), *via = drv_raw(c, "via"), *how = drv_raw(c, "open");
		int ra, rb;
		drv_reset();
		is_stream = !(tr && !strcmp(tr, "dgram"));
		via_remote = via && !strcmp(via, "remote");
		idlen = drv_uint(c, "max", 1);
		if (!how) how = is_stream ? "open" : "assign";
		ra = ep_open(0, how);
		rb = ra < 0 ? -99 : ep_open(1, how);
		drv_begin(c);
		j_str("ret", (ra < 0 || rb < 0) ? "noconn" : "ok");
		drv_dbg();
		j_int("ra", ra); j_int("rb", rb);
		drv_end();
		free(rdata);
		return;
	}
	if (!ep[0].con || !ep[1].con || !ep[0].have_tap || !ep[1].have_tap) {
		out_simple(c, "noconn");
		free(rdata);
		return;
	}
	if (!strcmp(a, "await")) {
		int w = (int) drv_int(c, "w", 0), r;
		e = ep_end(c);
		if (w < 1 || w > MAXW) { out_simple(c, "skipped"); free(rdata); return; }
		r = ep_await(e, w);
		collect_from(0); collect_from(1);
		drv_begin(c);
		j_str("ret", r < 0 ? "refused" : "ok");
		j_int("id", r < 0 ? 0 : (long long) ep[e].con->cid);
		emit_calls();
		emit_wire();
		drv_dbg();
		j_int("r", r);
		emit_dbg();
		drv_end();
	}
	else if (!strcmp(a, "send") || !strcmp(a, "request")) {
		/* request = await + send in one step (end B) */
		ssize_t r = 0, r0;
		int w = (int) drv_int(c, "w", 0), ra = 0;
		e = ep_end(c);
		if (!strcmp(a, "request")) {
			if (w < 1 || w > MAXW) { out_simple(c, "skipped"); free(rdata); return; }
			ra = ep_await(e, w);
		}
		if (ra >= 0 && rlen) r = ep_push(e, rlen, rdata);
		r0 = r;
		if (ra >= 0 && r >= 0) r = ep_push(e, 0, 0);
		collect_from(0); collect_from(1);
		drv_begin(c);
		j_str("ret", (ra < 0 || r < 0) ? "refused" : "ok");
		if (!strcmp(a, "request")) j_int("id", ra < 0 ? 0 : (long long) req_id[w]);
		emit_calls();
		emit_wire();
		drv_dbg();
		j_int("r0", r0); j_int("r", r);
		emit_dbg();
		drv_end();
	}
	else if (!strcmp(a, "deliver") || !strcmp(a, "hold")) {
		const char *dir = drv_raw(c, "dir");
		int d = (dir && !strcmp(dir, "AB")) ? 0 : 1, k = (int) drv_int(c, "k", 1);
		int rt, rp, rd = 0, only_hold = !strcmp(a, "hold");
		struct pkt p;
		e = d ? 0 : 1;
		if (!d && !strcmp(act, "defer") && (defer_slot < 1 || defer_slot > MAXH || hd[defer_slot])) {
			out_simple(c, "skipped"); free(rdata); return;
		}
		/* not in the model's environment: a stream out of order, a second receive over a held datagram */
		if ((is_stream && (only_hold || k > 1)) || (d && holding)) { out_simple(c, "skipped"); free(rdata); return; }
		if (d && !k && !only_hold) {
			rt = 0;                                    /* what reached the socket earlier */
		} else {
			if (!take_flight(d, k, &p)) { out_simple(c, "skipped"); free(rdata); return; }
			rt = transfer(e, &p);
			free(p.d);
		}
		if (d && !k && !only_hold && !is_stream && (ep[e].con->out.state & MPT_OUTFLAG(Received))) {
			rp = 1;                                    /* a datagram sync() received and left for dispatch */
		} else {
			rp = ep_poll(e);
		}
		if (only_hold) { holding = 1; hold_rp = rp; }
		else if (rp > 0) rd = ep_dispatch(e);
		collect_from(0); collect_from(1);
		drv_begin(c);
		j_str("ret", "ok");
		emit_calls();
		emit_chain();
		emit_seen();
		emit_wire();
		j_str("r2", got_handle >= 0 ? (got_handle ? "handle" : "nohandle") : !have_r2 ? "none" : r2 < 0 ? "refused" : "ok");
		drv_dbg();
		j_int("transfer", rt); j_int("poll", rp); j_int("dispatch", rd); j_int("r1", r1);
		emit_dbg();
		drv_end();
	}
	else if (!strcmp(a, "dispatch")) {
		int rd;
		if (!holding) { out_simple(c, "skipped"); free(rdata); return; }
		holding = 0;
		rd = hold_rp > 0 ? ep_dispatch(0) : 0;
		collect_from(0); collect_from(1);
		drv_begin(c);
		j_str("ret", "ok");
		emit_calls();
		emit_chain();
		emit_seen();
		emit_wire();
		drv_dbg();
		j_int("dispatch", rd);
		emit_dbg();
		drv_end();
	}
	else if (!strcmp(a, "sync")) {
		size_t n, i;
		long long *ks = drv_ints(c, "ks", &n);
		struct pkt p[MAXREC];
		int ok = n <= MAXREC, r = 0;
		/* positions refer to the list as it is before the step */
		for (i = 0; ok && i < n; i++) {
			size_t j;
			if (ks[i] < 1 || ks[i] > nflight[1]) ok = 0;
			for (j = 0; j < i; j++) if (ks[j] == ks[i]) ok = 0;
		}
		if (!ok || holding || (!via_remote && !is_stream)) { free(ks); out_simple(c, "skipped"); free(rdata); return; }
		for (i = 0; ok && is_stream && i < n; i++) if (ks[i] != (long long) i + 1) ok = 0;
		if (!ok) { free(ks); out_simple(c, "skipped"); free(rdata); return; }
		for (i = 0; i < n; i++) p[i] = flight[1][ks[i] - 1];
		{
			int j, m = 0;
			for (j = 0; j < nflight[1]; j++) {
				int used = 0;
				for (i = 0; i < n; i++) if (ks[i] - 1 == j) used = 1;
				if (!used) flight[1][m++] = flight[1][j];
			}
			nflight[1] = m;
		}
		for (i = 0; i < n; i++) { transfer(0, &p[i]); free(p[i].d); }
		if (via_remote) r = ep[0].out->_vptr->sync(ep[0].out, 0);
		else r = mpt_stream_sync(ep_stream(0), idlen, &ep[0].con->_wait, 0);
		collect_from(0); collect_from(1);
		drv_begin(c);
		j_str("ret", r < 0 ? "refused" : "ok");
		emit_calls();
		emit_chain();
		emit_wire();
		drv_dbg();
		j_int("r", r);
		emit_dbg();
		drv_end();
		free(ks);
	}
	else if (!strcmp(a, "stray")) {
		int of = (int) drv_int(c, "of", 0);
		uint8_t buf[PKTMAX];
		uint32_t id;
		size_t w = idlen < 64 ? idlen : 64, iw = w < 4 ? w : 4;
		if (of < 0 || of > MAXW || (of && !req_have[of]) || !w) { out_simple(c, "skipped"); free(rdata); return; }
		id = of ? req_id[of] : (uint32_t) ((1ull << (8 * iw - 1)) - 1);
		mark_id(buf, w, id);
		memcpy(buf + w, rdata, rlen < PKTMAX - w ? rlen : PKTMAX - w);
		add_flight(1, buf, w + (rlen < PKTMAX - w ? rlen : PKTMAX - w), 0);
		drv_begin(c);
		j_str("ret", "ok");
		j_bytes("id", buf, w);
		drv_dbg();
		emit_dbg();
		drv_end();
	}
	else if (!strcmp(a, "drop")) {
		const char *dir = drv_raw(c, "dir");
		int d = (dir && !strcmp(dir, "AB")) ? 0 : 1;
		struct pkt p;
		if (is_stream || !take_flight(d, (int) drv_int(c, "k", 1), &p)) { out_simple(c, "skipped"); free(rdata); return; }
		free(p.d);
		drv_begin(c); j_str("ret", "ok"); drv_dbg(); emit_dbg(); drv_end();
	}
	else if (!strcmp(a, "dreply")) {
		int h = defer_slot, r;
		if (h < 1 || h > MAXH || !hd[h]) { out_simple(c, "skipped"); free(rdata); return; }
		{
			MPT_STRUCT(message) msg; struct iovec vec;
			fill_msg(&msg, &vec);
			r = hd[h]->_vptr->reply(hd[h], &msg);
			if (r >= 0) hd[h] = 0;
		}
		collect_from(0); collect_from(1);
		drv_begin(c);
		j_str("ret", r < 0 ? "refused" : "ok");
		emit_calls();
		emit_wire();
		drv_dbg();
		j_int("r", r);
		emit_dbg();
		drv_end();
	}
	else if (!strcmp(a, "close")) {
		/* A closes first (its waiting callers are told), then B; nothing is possible afterwards */
		int i;
		mpt_connection_close(ep[0].con);
		drv_begin(c);
		j_str("ret", "ok");
		emit_calls();
		drv_dbg();
		emit_dbg();
		drv_end();
		for (i = 1; i <= MAXH; i++) hd[i] = 0;
		ep_clear(0); ep_clear(1);
	}
	else if (!strcmp(a, "late")) {
		int r;
		if (!saved_rc) { out_simple(c, "skipped"); free(rdata); return; }
		r = send_reply(saved_rc);
		collect_from(0); collect_from(1);
		drv_begin(c);
		j_str("ret", r < 0 ? "refused" : "ok");
		emit_calls();
		emit_wire();
		drv_dbg();
		j_int("r", r);
		emit_dbg();
		drv_end();
	}
	else {
		out_simple(c, "unknown-action");
	}
	free(rdata);
}

int main(int argc, char **argv)
{
	signal(SIGPIPE, SIG_IGN);
	ep[0].tapfd = ep[1].tapfd = -1;
	return drv_main(argc, argv);
}
