/*
 * Driver for spec/CobsEnc.tla (C01) and spec/CobsDec.tla (C03).
 *
 * Codecs: m=0 -> the shipped full-size functions of libmptcore
 *         m=3,5 -> the repository sources compiled at a scaled block limit
 *                  (cobs_seam.h).
 * Judgement-free: moves bytes, follows the caller protocol of the codecs
 * (re-offer what was not accepted, grow on MissingBuffer, insert space at
 * `curr` on a decoder MissingBuffer), maps return codes to classes and
 * prints what it saw.
 *
 * Encoder actions (C01)
 *   einit kind=K m=M path=direct|array|queue cap=N pre=P consumed=C msg=<bytes>
 *                     pre: bytes of an earlier finished frame in the same output;
 *                     consumed: how many of them the reader has taken already
 *                     (array: finished size reduced, data stays in front;
 *                      queue: cropped from the ring)
 *   push k=N          offer the next min(N, remaining) bytes
 *   grow n=N          (direct) enlarge the output space by N (relocates)
 *   term              terminate the frame (only when everything was accepted)
 *   fin               accept the rest / terminate, growing as requested
 * Decoder actions (C03)
 *   dinit kind=K m=M slack=S     empty region with S granted bytes in front
 *   feed data=<bytes>            append input bytes
 *   call seg=S mis=A             full decoder call; region relocated, cut in
 *                                segments (0 one, 1 every byte, 2 two halves,
 *                                3 three parts), message start address = A mod 16
 *   peek                         sourcelen = 0 call on a single element
 *   grant k=N                    insert N bytes at curr, curr += N
 *   run kind=K m=M data=<bytes> chunk=C seg=S mis=A grant=G slack=S
 *                                protocol-following decode of a whole stream
 */
#include "cobs_seam.h"
#include "drv.h"

#include "array.h"
#include "queue.h"

#define GUARD 32
#define GBYTE 0xA5

/* ------------------------------------------------------------------ */
typedef ssize_t (*enc_fn)(MPT_STRUCT(encode_state) *, const struct iovec *, const struct iovec *);
typedef int (*dec_fn)(MPT_STRUCT(decode_state) *, const struct iovec *, size_t);

static int enc_code(const char *kind)
{
	if (!strcmp(kind, "cmd"))    return MPT_ENUM(EncodingCommand);
	if (!strcmp(kind, "cobs"))   return MPT_ENUM(EncodingCobs);
	if (!strcmp(kind, "cobs_r")) return MPT_ENUM(EncodingCobsInline);
	if (!strcmp(kind, "zpe"))    return MPT_ENUM(EncodingCobs) | MPT_ENUM(EncodingCompress);
	if (!strcmp(kind, "zpe_r"))  return MPT_ENUM(EncodingCobsInline) | MPT_ENUM(EncodingCompress);
	return -1;
}
static enc_fn get_enc(const char *kind, int m)
{
	/* shipped codecs: through the library's own selection (convert/encoder.c) */
	if (m == 0 || !strcmp(kind, "cmd")) return enc_code(kind) < 0 ? 0 : mpt_message_encoder(enc_code(kind));
	if (m == 5) {
		if (!strcmp(kind, "cobs"))   return seam_enc_cobs_5;
		if (!strcmp(kind, "cobs_r")) return seam_enc_cobs_r_5;
		if (!strcmp(kind, "zpe"))    return seam_enc_zpe_5;
		if (!strcmp(kind, "zpe_r"))  return seam_enc_zpe_r_5;
	}
	if (m == 3) {
		if (!strcmp(kind, "cobs"))   return seam_enc_cobs_3;
		if (!strcmp(kind, "cobs_r")) return seam_enc_cobs_r_3;
		if (!strcmp(kind, "zpe"))    return seam_enc_zpe_3;
		if (!strcmp(kind, "zpe_r"))  return seam_enc_zpe_r_3;
	}
	return 0;
}
static dec_fn get_dec(const char *kind, int m)
{
	/* shipped codecs: through the library's own selection (convert/decoder.c) */
	if (m == 0 || !strcmp(kind, "cmd")) return enc_code(kind) < 0 ? 0 : mpt_message_decoder(enc_code(kind));
	if (m == 5) {
		if (!strcmp(kind, "cobs"))   return seam_dec_cobs_5;
		if (!strcmp(kind, "cobs_r")) return seam_dec_cobs_r_5;
		if (!strcmp(kind, "zpe"))    return seam_dec_zpe_5;
		if (!strcmp(kind, "zpe_r"))  return seam_dec_zpe_r_5;
	}
	if (m == 3) {
		if (!strcmp(kind, "cobs"))   return seam_dec_cobs_3;
		if (!strcmp(kind, "cobs_r")) return seam_dec_cobs_r_3;
		if (!strcmp(kind, "zpe"))    return seam_dec_zpe_3;
		if (!strcmp(kind, "zpe_r"))  return seam_dec_zpe_r_3;
	}
	return 0;
}

/* guarded allocation: [GUARD][n bytes][GUARD]; start address = a mod 16 */
struct gbuf {
	uint8_t *raw;   /* malloc'd block */
	uint8_t *p;     /* user area */
	size_t n;
};
static void g_alloc(struct gbuf *g, size_t n, unsigned a)
{
	uintptr_t u;
	g->raw = (uint8_t *) malloc(n + 2 * GUARD + 32);
	u = (uintptr_t) (g->raw + GUARD);
	u = ((u + 15) & ~(uintptr_t) 15) + (a & 15);
	g->p = (uint8_t *) u;
	g->n = n;
	memset(g->raw, GBYTE, n + 2 * GUARD + 32);
}
static int g_ok(const struct gbuf *g)
{
	size_t i, tot = g->n + 2 * GUARD + 32;
	for (i = 0; g->raw + i < g->p; i++) if (g->raw[i] != GBYTE) return 0;
	for (i = (size_t) (g->p - g->raw) + g->n; i < tot; i++) if (g->raw[i] != GBYTE) return 0;
	return 1;
}
static void g_free(struct gbuf *g)
{
	free(g->raw);
	g->raw = g->p = 0; g->n = 0;
}

static const char *enc_class(ssize_t r)
{
	if (r >= 0) return "ok";
	if (r == MPT_ERROR(MissingBuffer)) return "nobuf";
	return "err";
}

/* ------------------------------------------------------------------ */
/* protocol-following decode of one stream with a given decoder        */
struct dres {
	const char *cls;     /* last class: msg, more, err, nobuf(gave up) */
	int code;
};
/* region handling shared by the step-wise decoder actions and `run` */
static uint8_t *reg;           /* logical region (caller's buffer) */
static size_t reg_len, reg_cap;
static MPT_STRUCT(decode_state) dst_state;
static dec_fn dfn;
static char dkind[16];
static int dm;
static int guards_good = 1;
static int last_nobuf;

static void reg_reserve(size_t n)
{
	if (n <= reg_cap) return;
	reg_cap = n * 2 + 64;
	reg = (uint8_t *) realloc(reg, reg_cap);
}
static void reg_insert(size_t pos, size_t k)
{
	reg_reserve(reg_len + k);
	memmove(reg + pos + k, reg + pos, reg_len - pos);
	memset(reg + pos, 0xEE, k);
	reg_len += k;
}

struct callres {
	int ret;
	const char *cls;
	long chg_lo, chg_hi;    /* lowest / highest changed region index, -1 none */
	int guards;
};
/* one decoder call on the region cut into segments */
static struct callres do_call(int seg, unsigned mis, int peek, int emp)
{
	struct callres cr;
	struct gbuf *g;
	struct iovec *vec;
	size_t *cut, *real, nseg = 1, nvec = 0, i, off;
	uint8_t *before;
	size_t start = dst_state.data.pos + dst_state.data.len;

	cut = (size_t *) calloc(reg_len + 3, sizeof(*cut));
	cut[0] = 0;
	if (peek || seg == 0 || reg_len < 2) {
		nseg = 1;
	} else if (seg == 2) {
		nseg = 2; cut[1] = reg_len / 2;
	} else if (seg == 3 && reg_len >= 3) {
		nseg = 3; cut[1] = reg_len / 3; cut[2] = reg_len - 1;
	} else if (seg == 4) {
		nseg = 2; cut[1] = 1;
	} else if (seg == 5) {
		nseg = 2; cut[1] = reg_len - 1;
	} else {
		nseg = reg_len;        /* every byte its own part */
		for (i = 1; i < nseg; i++) cut[i] = i;
	}
	cut[nseg] = reg_len;
	if (peek) emp = 0;         /* sourcelen = 0 means: one part */
	before = (uint8_t *) malloc(reg_len + 1);
	memcpy(before, reg, reg_len);

	/* parts of the vector: the real ones plus zero-length parts
	 * emp 1: one in front, between all parts and behind; 2: two in a row in front of
	 * every part; 3: only behind the last part; 4: only in front of the first */
	g    = (struct gbuf *) calloc(3 * nseg + 4, sizeof(*g));
	vec  = (struct iovec *) calloc(3 * nseg + 4, sizeof(*vec));
	real = (size_t *) calloc(3 * nseg + 4, sizeof(*real));
#define ADD_EMPTY() do { g_alloc(&g[nvec], 0, (unsigned) nvec); vec[nvec].iov_base = g[nvec].p; \
	vec[nvec].iov_len = 0; real[nvec] = (size_t) -1; nvec++; } while (0)
	for (i = 0; i < nseg; i++) {
		size_t n = cut[i + 1] - cut[i];
		/* the part holding the message start decides its address */
		unsigned a = (unsigned) i;
		if (start >= cut[i] && (start < cut[i + 1] || i + 1 == nseg)) {
			a = (unsigned) ((16 + (mis & 15) - ((start - cut[i]) & 15)) & 15);
		}
		if (emp == 1 || emp == 2 || (emp == 4 && !i)) ADD_EMPTY();
		if (emp == 2) ADD_EMPTY();
		g_alloc(&g[nvec], n, a);
		memcpy(g[nvec].p, reg + cut[i], n);
		vec[nvec].iov_base = g[nvec].p;
		vec[nvec].iov_len = n;
		real[nvec] = i;
		nvec++;
	}
	if (emp == 1 || emp == 3) ADD_EMPTY();
#undef ADD_EMPTY
	cr.ret = dfn(&dst_state, vec, peek ? 0 : nvec);
	cr.guards = 1;
	for (i = 0; i < nvec; i++) {
		if (real[i] != (size_t) -1) memcpy(reg + cut[real[i]], g[i].p, g[i].n);
		if (!g_ok(&g[i])) cr.guards = 0;
		g_free(&g[i]);
	}
	free(g); free(vec); free(real); free(cut);
	cr.chg_lo = cr.chg_hi = -1;
	for (off = 0; off < reg_len; off++) {
		if (before[off] != reg[off]) {
			if (cr.chg_lo < 0) cr.chg_lo = (long) off;
			cr.chg_hi = (long) off;
		}
	}
	free(before);
	if (cr.ret < 0) cr.cls = (cr.ret == MPT_ERROR(MissingBuffer)) ? "nobuf" : "err";
	else cr.cls = (dst_state.data.msg >= 0 && !peek) ? "msg" : "more";
	if (!cr.guards) guards_good = 0;
	last_nobuf = !strcmp(cr.cls, "nobuf");
	return cr;
}
static void emit_call(struct cmd *c, const struct callres *cr)
{
	size_t ml = 0, mp = 0;
	drv_begin(c);
	j_str("ret", cr->cls);
	if (!strcmp(cr->cls, "msg")) {
		mp = dst_state.data.pos; ml = (size_t) dst_state.data.msg;
		if (mp + ml > reg_len) { ml = 0; j_int("msg_outside", 1); }
	}
	j_bytes("msg", reg + mp, ml);
	j_int("curr", (long long) dst_state.curr);
	j_int("len", (long long) reg_len);
	j_int("chg_hi", cr->chg_hi);
	j_int("guards", cr->guards);
	j_int("slack", (long long) dst_state.curr - (long long) dst_state.data.pos - (long long) dst_state.data.len);
	drv_dbg();
	j_int("code", cr->ret);
	j_int("pos", (long long) dst_state.data.pos);
	j_int("dlen", (long long) dst_state.data.len);
	j_int("dmsg", (long long) dst_state.data.msg);
	j_int("ctx", (long long) (dst_state._ctx & 0xffff));
	j_int("chg_lo", cr->chg_lo);
	drv_end();
}
static void dec_setup(const char *kind, int m, size_t slack)
{
	static const MPT_STRUCT(decode_state) def = MPT_DECODE_INIT;
	snprintf(dkind, sizeof(dkind), "%s", kind);
	dm = m;
	dfn = get_dec(kind, m);
	dst_state = def;
	reg_len = 0;
	reg_reserve(slack + 16);
	memset(reg, 0xEE, slack);
	reg_len = slack;
	dst_state.curr = slack;
	guards_good = 1;
}

/* decode a complete stream following the protocol; results are appended
 * to the JSON record as list "res" of {"r":cls,"m":[..]} */
static int run_emp;      /* zero-length parts in the vectors of run_stream */
static void run_stream(const uint8_t *data, size_t n, size_t chunk, int seg, unsigned mis,
                       size_t grant, int maxres)
{
	int emp = run_emp;
	long nbslack = -1;    /* largest free room (curr - pos - len) at a MissingBuffer answer, -1 none */
	size_t fed = 0;
	int nres = 0, idle = 0, calls = 0, nobuf = 0;
	long margin = -1;       /* max over the calls of (highest changed offset - final curr), -1 none */
	const char *last = "more";

	j_arr_open("res");
	while (1) {
		struct callres cr;
		if (fed < n && (idle || !calls)) {
			size_t k = chunk ? chunk : n;
			if (k > n - fed) k = n - fed;
			reg_reserve(reg_len + k);
			memcpy(reg + reg_len, data + fed, k);
			reg_len += k; fed += k;
			idle = 0;
		} else if (idle) {
			break;
		}
		cr = do_call(seg, mis, 0, emp);
		++calls;
		last = cr.cls;
		if (strcmp(cr.cls, "nobuf")) nobuf = 0;
		if (cr.chg_hi >= 0) {
			long d = cr.chg_hi - (long) dst_state.curr;
			if (margin == -1 || d > margin) margin = d;
		}
		if (!strcmp(cr.cls, "msg")) {
			size_t mp = dst_state.data.pos, ml = (size_t) dst_state.data.msg;
			j_item_obj_open();
			j_str("r", "msg");
			if (mp + ml > reg_len) { ml = 0; j_int("outside", 1); }
			j_bytes("m", reg + mp, ml);
			j_close();
			if (++nres >= maxres) break;
		} else if (!strcmp(cr.cls, "err")) {
			j_item_obj_open();
			j_str("r", "err");
			j_int("code", cr.ret);
			j_close();
			break;
		} else if (!strcmp(cr.cls, "nobuf")) {
			long sl = (long) dst_state.curr - (long) dst_state.data.pos - (long) dst_state.data.len;
			if (sl > nbslack) nbslack = sl;
			/* the caller enlarges its grant while the decoder keeps asking */
			size_t g = grant << (nobuf < 6 ? nobuf : 6);
			if (dst_state.curr > reg_len) break;
			reg_insert(dst_state.curr, g);
			dst_state.curr += g;
			if (++nobuf > 64) break;
			continue;
		} else {
			idle = 1;   /* wants more input */
		}
		if (calls > 40000) { last = "spin"; break; }
	}
	j_arr_close();
	j_str("last", last);
	j_int("fed", (long long) fed);
	j_int("wr_margin", margin);
	j_int("nobuf_slack", nbslack);
	j_int("guards", guards_good);
	j_int("calls", calls);
}


/* the same through a decode_queue: bytes arrive with mpt_qpush, answers come
 * from mpt_queue_recv (which shifts consumed data away and makes room by
 * itself while the queue has free space); mpt_queue_peek is called in between */
static void run_queue(const uint8_t *data, size_t n, size_t chunk, size_t grant, int maxres, size_t ring)
{
	long wraps = 0, peeks = 0;
	MPT_STRUCT(decode_queue) dq = MPT_DECODE_QUEUE_INIT;
	size_t fed = 0;
	int nres = 0, calls = 0, idle = 1, nobuf = 0;
	const char *last = "more";

	dq._dec = dfn;
	j_arr_open("res");
	while (1) {
		int r;
		if (idle) {
			size_t k = chunk ? chunk : n, room;
			if (fed >= n) break;
			if (k > n - fed) k = n - fed;
			/* the ring keeps its size while anything fits: its content wraps */
			if (!dq.data.max && ring) mpt_queue_prepare(&dq.data, ring);
			room = dq.data.max - dq.data.len;
			if (!room) mpt_queue_prepare(&dq.data, k);
			else if (k > room) k = room;
			if (mpt_qpush(&dq.data, k, data + fed) < 0) { last = "qpush"; break; }
			fed += k;
			idle = 0;
		}
		if (dq.data.off + dq.data.len > dq.data.max) ++wraps;
		(void) mpt_queue_peek(&dq, 0, 0);
		{	/* preview with a target buffer of exactly the size passed */
			size_t pmax = (calls % 3) ? dq.data.len + 1 : 3;
			uint8_t *pb = (uint8_t *) malloc(pmax);
			ssize_t pr = mpt_queue_peek(&dq, pmax, pb);
			if (pr > 0) ++peeks;
			free(pb);
		}
		r = mpt_queue_recv(&dq);
		++calls;
		if (r != MPT_ERROR(MissingBuffer)) nobuf = 0;
		if (r > 0) {
			size_t mp = dq._state.data.pos, ml = (size_t) dq._state.data.msg;
			uint8_t *tmp = (uint8_t *) calloc(ml + 1, 1);
			j_item_obj_open();
			j_str("r", "msg");
			if (ml && mpt_queue_get(&dq.data, mp, ml, tmp) < 0) { ml = 0; j_int("outside", 1); }
			j_bytes("m", tmp, ml);
			j_close();
			free(tmp);
			last = "msg";
			if (++nres >= maxres) break;
		} else if (r == 0 || (r == MPT_ERROR(MissingData) && !dq.data.len)) {
			last = "more";
			idle = 1;
		} else if (r == MPT_ERROR(MissingBuffer)) {
			last = "nobuf";
			mpt_queue_prepare(&dq.data, (dq.data.max - dq.data.len) + (grant << (nobuf < 6 ? nobuf : 6)));
			if (++nobuf > 64) break;
			continue;
		} else {
			j_item_obj_open();
			j_str("r", "err");
			j_int("code", r);
			j_close();
			last = "err";
			break;
		}
		if (calls > 40000) { last = "spin"; break; }
	}
	j_arr_close();
	j_str("last", last);
	j_int("fed", (long long) fed);
	j_int("wr_margin", -1);
	j_int("nobuf_slack", -1);
	j_int("guards", 1);
	j_int("calls", calls);
	j_int("wraps", wraps);     /* calls made while the ring content was wrapped (dbg) */
	j_int("peeks", peeks);     /* previews that copied data (dbg) */
	free(dq.data.base);
}

/* ------------------------------------------------------------------ */
/* encoder side                                                        */
static char ekind[16], epath[16];
static int em;
static enc_fn efn;
static MPT_STRUCT(encode_state) est;
static struct gbuf eout;          /* direct path output space */
static size_t ecap, epre, econs;
static uint8_t *emsg; static size_t emsg_len, eacc;
static int efinished;
static MPT_STRUCT(encode_array) earr;
static MPT_STRUCT(encode_queue) equ;
static int earr_used, equ_used;

/* the array/queue paths call the encoder through this wrapper, which only
 * counts: calls, and calls that accepted bytes (installments) since the last reset */
static long enc_calls, enc_inst, enc_inst_max;
static ssize_t enc_counted(MPT_STRUCT(encode_state) *st, const struct iovec *to, const struct iovec *from)
{
	ssize_t r = efn(st, to, from);
	if (to) {
		++enc_calls;
		if (from && r > 0) ++enc_inst;
	}
	return r;
}

static void enc_cleanup(void)
{
	if (eout.raw) g_free(&eout);
	if (earr_used) {
		MPT_STRUCT(buffer) *b = earr._d._buf;
		if (b) b->_vptr->unref(b);
		memset(&earr, 0, sizeof(earr));
		earr_used = 0;
	}
	if (equ_used) {
		free(equ.data.base);
		memset(&equ, 0, sizeof(equ));
		equ_used = 0;
	}
	free(emsg); emsg = 0; emsg_len = eacc = 0;
	efinished = 0;
}
static void drv_reset(void)
{
	enc_cleanup();
	reg_len = 0;
	dfn = 0;
}

static void e_state(size_t *done, size_t *scratch)
{
	if (!strcmp(epath, "array")) { *done = earr._state.done; *scratch = earr._state.scratch; }
	else if (!strcmp(epath, "queue")) { *done = equ._state.done; *scratch = equ._state.scratch; }
	else { *done = est.done; *scratch = est.scratch; }
}
/* finished bytes of the output (after the pre-existing prefix) */
static uint8_t *e_frame(size_t *len)
{
	size_t done, scratch;
	uint8_t *tmp;
	e_state(&done, &scratch);
	*len = done >= epre ? done - epre : 0;
	tmp = (uint8_t *) calloc(*len + 1, 1);
	if (!strcmp(epath, "array")) {
		MPT_STRUCT(buffer) *b = earr._d._buf;
		/* the encoder area is the tail of the used data (consumed frames may sit in front) */
		if (b && b->_used >= done + scratch) memcpy(tmp, ((uint8_t *) (b + 1)) + (b->_used - done - scratch) + epre, *len);
		else *len = 0;
	} else if (!strcmp(epath, "queue")) {
		if (*len && mpt_queue_get(&equ.data, epre, *len, tmp) < 0) *len = 0;
	} else {
		memcpy(tmp, eout.p + epre, *len);
	}
	return tmp;
}
static void e_grow(size_t n)
{
	struct gbuf nb;
	g_alloc(&nb, ecap + n, (unsigned) (ecap + n));
	memcpy(nb.p, eout.p, ecap);
	if (!g_ok(&eout)) guards_good = 0;
	g_free(&eout);
	eout = nb;
	ecap += n;
}
/* the encoder asked for room: the caller's part of the protocol */
static void e_room(void)
{
	if (!strcmp(epath, "direct")) e_grow(1);
	else if (!strcmp(epath, "queue")) mpt_queue_prepare(&equ.data, (equ.data.max - equ.data.len) + 16);
	/* array: mpt_array_push grows by itself */
}
/* one offer of k bytes; returns encoder/push result */
static ssize_t e_offer(size_t k)
{
	ssize_t r;
	enc_inst = 0;
	if (!strcmp(epath, "array")) {
		r = mpt_array_push(&earr, k, emsg + eacc);
	} else if (!strcmp(epath, "queue")) {
		r = mpt_queue_push(&equ, k, emsg + eacc);
	} else {
		struct iovec to, from;
		to.iov_base = eout.p; to.iov_len = ecap;
		from.iov_base = emsg + eacc; from.iov_len = k;
		r = efn(&est, &to, &from);
		if (!g_ok(&eout)) guards_good = 0;
	}
	if (r > 0 && (size_t) r <= k) eacc += (size_t) r;
	if (enc_inst > enc_inst_max) enc_inst_max = enc_inst;
	return r;
}
static ssize_t e_term(void)
{
	ssize_t r;
	if (!strcmp(epath, "array")) {
		r = mpt_array_push(&earr, 0, 0);
	} else if (!strcmp(epath, "queue")) {
		r = mpt_queue_push(&equ, 0, 0);
	} else {
		struct iovec to;
		to.iov_base = eout.p; to.iov_len = ecap;
		r = efn(&est, &to, 0);
		if (!g_ok(&eout)) guards_good = 0;
	}
	return r;
}
/* decode the finished frame with the library decoder of the same kind */
static void emit_frame_and_dec(void)
{
	size_t flen;
	uint8_t *f = e_frame(&flen);
	j_bytes("frame", f, flen);
	/* protocol-following decode in a separate region */
	dec_setup(ekind, em, 0);
	j_open("dec");
	run_emp = 0;
	run_stream(f, flen, 0, 0, 0, 8, 2);
	j_close();
	free(f);
}
static void emit_enc_dbg(void)
{
	size_t done, scratch;
	e_state(&done, &scratch);
	drv_dbg();
	j_int("done", (long long) done);
	j_int("scratch", (long long) scratch);
	j_int("cap", (long long) ecap);
	j_int("acc", (long long) eacc);
	j_int("inst", enc_inst);          /* installments the encoder took the last offer in */
	j_int("inst_max", enc_inst_max);
	j_int("consumed", (long long) econs);
}

static void act_einit(struct cmd *c)
{
	const char *kind = drv_raw(c, "kind"), *path = drv_raw(c, "path");
	enc_cleanup();
	snprintf(ekind, sizeof(ekind), "%s", kind ? kind : "cobs");
	snprintf(epath, sizeof(epath), "%s", path ? path : "direct");
	em = (int) drv_int(c, "m", 0);
	efn = get_enc(ekind, em);
	ecap = (size_t) drv_uint(c, "cap", 0);
	epre = (size_t) drv_uint(c, "pre", 0);
	econs = (size_t) drv_uint(c, "consumed", 0);
	emsg = drv_bytes(c, "msg", &emsg_len);
	eacc = 0; efinished = 0; guards_good = 1;
	enc_calls = enc_inst = enc_inst_max = 0;
	memset(&est, 0, sizeof(est));
	if (!strcmp(epath, "array")) {
		earr_used = 1;
		earr._enc = efn ? enc_counted : 0;
		if (epre) {
			/* earlier finished output in the same array */
			static const uint8_t one = 0x11;
			size_t i;
			for (i = 0; i + 2 < epre; i++) if (mpt_array_push(&earr, 1, &one) != 1) break;
			if (mpt_array_push(&earr, 0, 0) < 0) efn = 0;
			/* the reader consumed part of the finished output: it stays in front of
			 * the encoder area, only the finished size shrinks (encode_array::shift(len)) */
			if (econs > earr._state.done) econs = earr._state.done;
			earr._state.done -= econs;
			epre = earr._state.done;
		}
	} else if (!strcmp(epath, "queue")) {
		equ_used = 1;
		equ._enc = efn ? enc_counted : 0;
		if (epre) {
			/* an earlier finished frame in the same queue */
			static const uint8_t one = 0x11;
			size_t i;
			mpt_queue_prepare(&equ.data, epre + epre / 100 + 16);
			for (i = 0; i + 2 < epre; i++) if (mpt_queue_push(&equ, 1, &one) != 1) break;
			if (mpt_queue_push(&equ, 0, 0) < 0) efn = 0;
			/* the reader wrote part of the finished output out (mpt_stream_flush):
			 * cropped from the queue, finished size reduced; the ring offset moves */
			if (econs > equ._state.done) econs = equ._state.done;
			if (econs && mpt_queue_crop(&equ.data, 0, econs) >= 0) equ._state.done -= econs;
			else econs = 0;
			epre = equ._state.done;
		}
		if (ecap) mpt_queue_prepare(&equ.data, ecap);
	} else {
		if (epre > ecap) epre = ecap;
		g_alloc(&eout, ecap, (unsigned) ecap);
		memset(eout.p, 0x11, epre);
		if (epre) eout.p[epre - 1] = 0;
		est.done = epre;
	}
	drv_begin(c);
	j_str("ret", efn ? "ok" : "nocodec");
	j_int("pre", (long long) epre);
	emit_enc_dbg();
	drv_end();
}
static void act_push(struct cmd *c)
{
	size_t k = (size_t) drv_uint(c, "k", 1);
	ssize_t r;
	if (k > emsg_len - eacc) k = emsg_len - eacc;
	if (efinished || !k) {
		drv_begin(c); j_str("ret", "skip"); j_int("n", 0); j_int("k", (long long) k);
		emit_enc_dbg(); drv_end();
		return;
	}
	r = e_offer(k);
	drv_begin(c);
	j_str("ret", enc_class(r));
	j_int("n", r > 0 ? (long long) r : 0);
	j_int("k", (long long) k);
	j_int("guards", guards_good);
	emit_enc_dbg();
	j_int("code", (long long) r);
	drv_end();
}
static void act_grow(struct cmd *c)
{
	size_t n = (size_t) drv_uint(c, "n", 1);
	if (!strcmp(epath, "direct") && !efinished) e_grow(n);
	drv_begin(c); j_str("ret", "ok"); emit_enc_dbg(); drv_end();
}
static void act_term(struct cmd *c, int fin)
{
	ssize_t r = 0;
	int drained = 0, spins = 0;
	int spin_max = 64 + 4 * (int) emsg_len;   /* far more room than any framing needs */
	const char *cls = "ok";
	if (!efinished) {
		/* everything must have been accepted before a frame can be finished */
		while (fin && eacc < emsg_len) {
			r = e_offer(emsg_len - eacc);
			drained = 1;
			if (r == MPT_ERROR(MissingBuffer)) {
				e_room();
			}
			else if (r < 0) break;
			if (++spins > spin_max) { cls = "spin"; break; }
		}
		if (eacc < emsg_len) {
			cls = (r < 0 && r != MPT_ERROR(MissingBuffer)) ? "err" : (spins > spin_max ? "spin" : "todo");
		} else {
			while (1) {
				r = e_term();
				if (r == MPT_ERROR(MissingBuffer) && fin && strcmp(epath, "array") && ++spins < spin_max) {
					e_room();
					continue;
				}
				break;
			}
			cls = enc_class(r);
			if (r >= 0) efinished = 1;
		}
	}
	drv_begin(c);
	j_str("ret", cls);
	j_int("acc", (long long) eacc);
	j_int("guards", guards_good);
	if (efinished) emit_frame_and_dec();
	emit_enc_dbg();
	j_int("code", (long long) r);
	j_int("drained", drained);
	drv_end();
}


/* ------------------------------------------------------------------ */
/* fixed-size encode ring (mpt_queue_push on a queue that never grows):
 *   qinit kind=K m=M cap=N        ring of exactly N bytes
 *   qsend msg=<bytes> fl=<ints>   push one message and terminate it; whenever the
 *                                 ring is full the reader takes the next size of
 *                                 fl (default: all finished bytes) from the front
 *   qflush n=N                    reader takes min(N, finished) bytes from the front
 *                                 (mpt_queue_get + mpt_queue_crop + done -= n, as
 *                                 mpt_stream_flush does)
 *   qend                          reader takes the rest; reports every byte the
 *                                 reader got ("wire") and what the library decoder
 *                                 makes of that byte stream
 */
static uint8_t *wire; static size_t wire_len, wire_cap;
static int ring_dead;

static size_t ring_flush(size_t n)
{
	size_t done = equ._state.done;
	if (n > done) n = done;
	if (!n) return 0;
	if (wire_len + n > wire_cap) wire = (uint8_t *) realloc(wire, wire_cap = (wire_len + n) * 2 + 64);
	if (mpt_queue_get(&equ.data, 0, n, wire + wire_len) < 0) return 0;
	if (mpt_queue_crop(&equ.data, 0, n) < 0) return 0;
	equ._state.done -= n;
	wire_len += n;
	return n;
}
static void ring_dbg(void)
{
	drv_dbg();
	j_int("max", (long long) equ.data.max);
	j_int("off", (long long) equ.data.off);
	j_int("len", (long long) equ.data.len);
	j_int("done", (long long) equ._state.done);
	j_int("scratch", (long long) equ._state.scratch);
	j_int("wire", (long long) wire_len);
}
static void act_qinit(struct cmd *c)
{
	const char *kind = drv_raw(c, "kind");
	size_t cap = (size_t) drv_uint(c, "cap", 16);
	enc_cleanup();
	snprintf(ekind, sizeof(ekind), "%s", kind ? kind : "cobs");
	snprintf(epath, sizeof(epath), "%s", "queue");
	em = (int) drv_int(c, "m", 0);
	efn = get_enc(ekind, em);
	equ_used = 1;
	equ._enc = efn ? enc_counted : 0;
	equ.data.base = malloc(cap ? cap : 1);     /* exact size: ASan sees any byte beyond */
	equ.data.max = cap;
	wire_len = 0; ring_dead = 0;
	drv_begin(c);
	j_str("ret", efn ? "ok" : "nocodec");
	ring_dbg();
	drv_end();
}
static void act_qsend(struct cmd *c)
{
	size_t n, nfl, fi = 0, acc = 0;
	uint8_t *m = drv_bytes(c, "msg", &n);
	long long *fl = drv_ints(c, "fl", &nfl);
	const char *cls = "ok";
	int spins = 0, wrapped = 0;
	ssize_t r = 0;

	if (ring_dead) cls = "skip";
	while (!ring_dead) {
		if (acc < n) r = mpt_queue_push(&equ, n - acc, m + acc);
		else r = mpt_queue_push(&equ, 0, 0);
		if (equ.data.off + equ.data.len > equ.data.max) wrapped = 1;
		if (r == MPT_ERROR(MissingBuffer)) {
			size_t want = fi < nfl ? (size_t) fl[fi++] : equ._state.done;
			if (!ring_flush(want ? want : 1)) { cls = "stuck"; ring_dead = 1; break; }
		}
		else if (r < 0) { cls = "err"; ring_dead = 1; break; }
		else if (acc < n) acc += (size_t) r;
		else break;         /* terminated */
		if (++spins > 10000) { cls = "spin"; ring_dead = 1; break; }
	}
	drv_begin(c);
	j_str("ret", cls);
	j_int("n", (long long) acc);
	ring_dbg();
	j_int("code", (long long) r);
	j_int("wrapped", wrapped);
	drv_end();
	free(m); free(fl);
}
static void act_qflush(struct cmd *c)
{
	size_t n = ring_flush((size_t) drv_uint(c, "n", 1));
	drv_begin(c);
	j_str("ret", "ok");
	j_int("n", (long long) n);
	ring_dbg();
	drv_end();
}
static void act_qend(struct cmd *c)
{
	uint8_t *w;
	size_t wl;
	ring_flush(equ._state.done);
	wl = wire_len;
	w = (uint8_t *) malloc(wl + 1);
	memcpy(w, wire, wl);
	drv_begin(c);
	j_str("ret", "ok");
	j_bytes("wire", w, wl);
	dec_setup(ekind, em, 0);
	j_open("dec");
	run_emp = 0;
	run_stream(w, wl, 0, 0, 0, 8, 1000);
	j_close();
	ring_dbg();
	drv_end();
	free(w);
}

/* ------------------------------------------------------------------ */
static void step_inner(struct cmd *c)
{
	const char *a = c->action;
	if (!strcmp(a, "einit")) act_einit(c);
	else if (!strcmp(a, "push")) act_push(c);
	else if (!strcmp(a, "grow")) act_grow(c);
	else if (!strcmp(a, "term")) act_term(c, 0);
	else if (!strcmp(a, "fin")) act_term(c, 1);
	else if (!strcmp(a, "qinit")) act_qinit(c);
	else if (!strcmp(a, "qsend")) act_qsend(c);
	else if (!strcmp(a, "qflush")) act_qflush(c);
	else if (!strcmp(a, "qend")) act_qend(c);
	else if (!strcmp(a, "dinit")) {
		dec_setup(drv_raw(c, "kind"), (int) drv_int(c, "m", 0), (size_t) drv_uint(c, "slack", 0));
		drv_begin(c); j_str("ret", dfn ? "ok" : "nocodec"); j_int("curr", (long long) dst_state.curr);
		j_int("len", (long long) reg_len); drv_dbg(); drv_end();
	}
	else if (!strcmp(a, "feed")) {
		size_t n; uint8_t *d = drv_bytes(c, "data", &n);
		reg_reserve(reg_len + n);
		memcpy(reg + reg_len, d, n);
		reg_len += n;
		free(d);
		drv_begin(c); j_str("ret", "ok"); j_int("curr", (long long) dst_state.curr);
		j_int("len", (long long) reg_len); drv_dbg(); drv_end();
	}
	else if (!strcmp(a, "call") || !strcmp(a, "peek")) {
		struct callres cr = do_call((int) drv_int(c, "seg", 0), (unsigned) drv_uint(c, "mis", 0), a[0] == 'p',
		                            (int) drv_int(c, "emp", 0));
		emit_call(c, &cr);
	}
	else if (!strcmp(a, "grant")) {
		size_t k = (size_t) drv_uint(c, "k", 1);
		size_t at = dst_state.curr <= reg_len ? dst_state.curr : reg_len;
		int doit = !drv_int(c, "cond", 0) || last_nobuf;   /* cond=1: only as answer to MissingBuffer */
		if (doit) {
			reg_insert(at, k);
			dst_state.curr += k;
		}
		drv_begin(c); j_str("ret", doit ? "ok" : "skip"); j_int("curr", (long long) dst_state.curr);
		j_int("len", (long long) reg_len); drv_dbg(); drv_end();
	}
	else if (!strcmp(a, "run")) {
		size_t n; uint8_t *d = drv_bytes(c, "data", &n);
		dec_setup(drv_raw(c, "kind"), (int) drv_int(c, "m", 0), (size_t) drv_uint(c, "slack", 0));
		drv_begin(c);
		run_emp = (int) drv_int(c, "emp", 0);
		if (!dfn) j_str("ret", "nocodec");
		else run_stream(d, n, (size_t) drv_uint(c, "chunk", 0), (int) drv_int(c, "seg", 0),
		                (unsigned) drv_uint(c, "mis", 0), (size_t) drv_uint(c, "grant", 8),
		                (int) drv_int(c, "maxres", 64));
		drv_dbg();
		drv_end();
		free(d);
	}
	else if (!strcmp(a, "qrun")) {
		size_t n; uint8_t *d = drv_bytes(c, "data", &n);
		dec_setup(drv_raw(c, "kind"), (int) drv_int(c, "m", 0), 0);
		drv_begin(c);
		if (!dfn) j_str("ret", "nocodec");
		else run_queue(d, n, (size_t) drv_uint(c, "chunk", 0), (size_t) drv_uint(c, "grant", 8),
		               (int) drv_int(c, "maxres", 64), (size_t) drv_uint(c, "ring", 0));
		drv_dbg();
		drv_end();
		free(d);
	}
	else {
		drv_begin(c); j_str("ret", "unknown-action"); drv_dbg(); drv_end();
	}
}

/* records are built in memory and written only when the library calls of
 * the step have returned (a crash never leaves half a line) */
static void drv_step(struct cmd *c)
{
	char *mbuf = 0; size_t mlen = 0;
	FILE *ms = open_memstream(&mbuf, &mlen), *save = drv_out;
	drv_out = ms;
	step_inner(c);
	fclose(ms);
	drv_out = save;
	fwrite(mbuf, 1, mlen, drv_out);
	fflush(drv_out);
	free(mbuf);
}

int main(int argc, char **argv)
{
	return drv_main(argc, argv);
}
