/*
 * Driver for spec/Config.tla (C10), C side: the process-wide configuration
 * (mpt_config_set/mpt_config_getp with a null configuration), a sub-tree view
 * of it (mpt_config_global(base)) and the path object (struct path).
 *
 * The process-wide configuration is process state (static nodeGlobal in
 * config_global.c).  That file is compiled into this program unchanged
 * (#include, source seam), so a behaviour starts from a really empty
 * configuration: drv_reset() sets nodeGlobal to null instead of asking the
 * code under test to clear itself, and no process per behaviour is needed
 * (a fork per behaviour costs 2..5 ms here; set VERIF_C10_FORK=1 to run every
 * behaviour in a process of its own nevertheless).  After each store call
 * every path of the universe given by the init step is queried from the root
 * (and, with a view, every relative path through the view).
 */
#undef malloc
#undef free
#undef calloc
#undef realloc

#include "drv.h"
#include <sys/uio.h>

/*
 * Allocation seam for node blocks only: node_new.c and node_destroy.c of the
 * repository are compiled into this program with -Dmalloc=vf_malloc
 * -Dfree=vf_free (no source change); every other file uses the C library
 * directly.  node_blocks = elements of the store that are allocated.
 */
static long node_blocks;
void *vf_malloc(size_t n)
{
	void *p = malloc(n);
	if (p) node_blocks++;
	return p;
}
void vf_free(void *p)
{
	if (p) node_blocks--;
	free(p);
}
void *vf_calloc(size_t a, size_t b) { return calloc(a, b); }
void *vf_realloc(void *p, size_t n) { return realloc(p, n); }

#include "config/config_global.c"   /* the repository's file, unchanged */

#include "meta.h"
#include "types.h"
#include "config.h"

#include "config_common.h"

static MPT_INTERFACE(metatype) *viewmt;
static MPT_INTERFACE(config) *viewcfg;
static int usep = '.';

/* path object under test; strings given to it stay allocated */
static MPT_STRUCT(path) po = MPT_PATH_INIT;

static void drv_reset(void)
{
	static const MPT_STRUCT(path) empty = MPT_PATH_INIT;
	nodeGlobal = 0;           /* previous behaviour's elements are simply dropped */
	node_blocks = 0;
	viewmt = 0;
	viewcfg = 0;
	po = empty;
	nuni = nrel = 0;
}

/* value at a path string (separator sep) or null; str null = no path (the view's base itself) */
static int grab_cb(void *ctx, MPT_INTERFACE(convertable) *val, const MPT_INTERFACE(collection) *sub)
{
	(void) sub;
	return grab_text(val, (struct grab *) ctx);
}
static char *lookup(const MPT_INTERFACE(config) *cfg, const char *str, int sep)
{
	MPT_STRUCT(path) p = MPT_PATH_INIT;
	struct grab g = { 0, 0 };
	p.sep = (char) sep;
	p.assign = 0;
	if (str) mpt_path_set(&p, str, -1);
	if (mpt_config_query(cfg, &p, grab_cb, &g) < 0 || !g.found) {
		free(g.text);
		return 0;
	}
	return g.text;
}
/*
 * The same question as a TYPED query (target type + destination) through
 * mpt_config_getp (useget = 0) or mpt_config_get (useget = 1, separator '.'):
 * type 's' first; when that is answered with an error the character vector
 * (the type long values convert to).  The destination is preset with a marker
 * so that "success without writing the destination" is seen.
 * Returns a code (see j_item_typed) and the text.
 */
static int lookup_typed(const MPT_INTERFACE(config) *cfg, const char *str, int sep, int useget, char **text)
{
	static const char marker[] = "<untouched>";
	MPT_STRUCT(path) p = MPT_PATH_INIT;
	const char *val = marker;
	struct iovec vec;
	int r;
	*text = 0;
	p.sep = (char) sep;
	if (str && !useget) mpt_path_set(&p, str, -1);
	r = useget ? mpt_config_get(cfg, str, 's', &val) : mpt_config_getp(cfg, &p, 's', &val);
	if (r >= 0) {
		if (val == marker) return -2;
		if (!val) return -3;
		*text = copy_text(val, (size_t) -1);
		return 0;
	}
	vec.iov_base = (void *) marker;
	vec.iov_len = 0;
	r = useget ? mpt_config_get(cfg, str, MPT_type_toVector('c'), &vec)
	           : mpt_config_getp(cfg, &p, MPT_type_toVector('c'), &vec);
	if (r < 0) return -1;
	if (vec.iov_base == (void *) marker) return -2;
	if (!vec.iov_base) return vec.iov_len ? -3 : (*text = copy_text("", 0), 0);
	*text = copy_text((const char *) vec.iov_base, vec.iov_len);
	return 0;
}
static void emit_typed(const char *key, const MPT_INTERFACE(config) *cfg, char **list, int n, int useget)
{
	int i;
	j_arr_open(key);
	for (i = 0; i < n; i++) {
		char *t = 0;
		int code = lookup_typed(cfg, list[i], usep, useget, &t);
		j_item_typed(code, t);
		free(t);
	}
	j_arr_close();
}
/* the same question through mpt_config_get / mpt_config_getp with type 's' (diagnostic) */
static int lookup_s(const MPT_INTERFACE(config) *cfg, const char *str, int sep)
{
	MPT_STRUCT(path) p = MPT_PATH_INIT;
	const char *val = 0;
	if (str && sep == '.') return mpt_config_get(cfg, str, 's', &val) >= 0 && val;
	p.sep = (char) sep;
	if (str) mpt_path_set(&p, str, -1);
	return mpt_config_getp(cfg, &p, 's', &val) >= 0 && val;
}

static void emit_store(struct cmd *c, const char *ret, const char *retval, int isval)
{
	int i, present = 0, as_s = 0;
	drv_begin(c);
	if (drv_int(c, "q", 0)) {      /* prefix step of a replayed behaviour: executed, not logged */
		drv_dbg();
		drv_end();
		return;
	}
	if (isval) j_val("ret", retval);
	else j_str("ret", ret);
	j_int("nodes", node_blocks);
	j_arr_open("all");
	for (i = 0; i < nuni; i++) {
		char *v = lookup(0, uni[i], usep);
		j_item_val(v);
		if (v) { present++; if (lookup_s(0, uni[i], usep)) as_s++; }
		free(v);
	}
	j_arr_close();
	j_arr_open("rel");
	for (i = 0; i < nrel; i++) {
		char *v = viewcfg ? lookup(viewcfg, reluni[i], usep) : 0;
		j_item_val(v);
		free(v);
	}
	j_arr_close();
	/* every path once more through the typed entry points */
	emit_typed("typed", 0, uni, nuni, 0);
	if (usep == '.') emit_typed("tget", 0, uni, nuni, 1);
	if (viewcfg) {
		emit_typed("relt", viewcfg, reluni, nrel, 0);
		if (usep == '.') emit_typed("reltget", viewcfg, reluni, nrel, 1);
	}
	drv_dbg();
	j_int("present", present);     /* paths of the universe that have a value ... */
	j_int("as_s", as_s);           /* ... and how many of them mpt_config_get(.., 's') answers */
	/* diagnostic only: does the first top-level node carry a (stale) prev link? */
	j_int("headprev", (nodeGlobal && nodeGlobal->prev) ? 1 : 0);
	drv_end();
}

static void emit_path(struct cmd *c, int isnum, long long num, const char *str)
{
	MPT_STRUCT(path) w = po;   /* walk a copy of the struct */
	int guard = 0;
	drv_begin(c);
	if (drv_int(c, "q", 0)) {
		drv_dbg();
		drv_end();
		return;
	}
	if (isnum) j_int("ret", num);
	else j_str("ret", str);
	j_arr_open("els");
	while (w.len && guard++ < 100000) {
		const char *start = w.base + w.off;
		int l = mpt_path_next(&w);
		if (l < 0) break;
		j_item_bytes(start, (size_t) l);
	}
	j_arr_close();
	drv_dbg();
	j_int("off", (long long) po.off);
	j_int("len", (long long) po.len);
	j_int("first", po.first);
	j_int("flags", po.flags);
	drv_end();
}

static void drv_step(struct cmd *c)
{
	const char *a = c->action;

	if (!strcmp(a, "init")) {
		const char *braw = drv_raw(c, "base");
		int hasview = braw && strcmp(braw, "0");     /* base=0: no view; base=- : view at the element "" */
		char *base = arg_str(c, "base");
		usep = (int) drv_int(c, "sep", '.');
		po.sep = (char) usep;      /* the path object starts empty with the history's separator */
		nuni = parse_list(drv_raw(c, "uni"), uni);
		nrel = parse_list(drv_raw(c, "rel"), reluni);
		if (hasview) {
			MPT_STRUCT(path) bp = MPT_PATH_INIT;
			bp.sep = (char) usep;
			mpt_path_set(&bp, base, -1);
			viewmt = mpt_config_global(&bp);
			if (viewmt) MPT_metatype_convert(viewmt, MPT_ENUM(TypeConfigPtr), &viewcfg);
		}
		emit_store(c, "ok", 0, 0);
		return;
	}
	if (!strcmp(a, "assign") || !strcmp(a, "remove") || !strcmp(a, "query")) {
		const char *via = drv_raw(c, "via");
		MPT_INTERFACE(config) *cfg = (via && !strcmp(via, "view")) ? viewcfg : 0;
		char *path = arg_str(c, "path");
		int sep = (int) drv_int(c, "sep", '.');
		if (via && !strcmp(via, "view") && !viewcfg) {
			emit_store(c, "noview", 0, 0);
		}
		else if (a[0] == 'a') {
			char *val = arg_str(c, "val");
			int r = mpt_config_set(cfg, path, val, sep, (int) drv_int(c, "end", 0));
			emit_store(c, r < 0 ? "refused" : "ok", 0, 0);
			free(val);
		}
		else if (a[0] == 'r') {
			int r = mpt_config_set(cfg, path, 0, sep, 0);
			emit_store(c, r < 0 ? "refused" : "ok", 0, 0);
		}
		else {
			char *v = lookup(cfg, path, sep);
			emit_store(c, 0, v, 1);
			free(v);
		}
		free(path);
		return;
	}
	if (!strcmp(a, "assignself")) {
		char *val = arg_str(c, "val");
		int r = viewcfg ? mpt_config_set(viewcfg, 0, val, usep, 0) : -1;
		emit_store(c, r < 0 ? "refused" : "ok", 0, 0);
		free(val);
		return;
	}
	if (!strcmp(a, "clearbelow")) {
		int r = viewcfg ? mpt_config_set(viewcfg, 0, 0, usep, 0) : -1;
		emit_store(c, r < 0 ? "refused" : "ok", 0, 0);
		return;
	}
	if (!strcmp(a, "clearall")) {
		int r = mpt_config_set(0, 0, 0, usep, 0);
		emit_store(c, r < 0 ? "refused" : "ok", 0, 0);
		return;
	}
	/* ---- path object ---- */
	if (!strcmp(a, "pset")) {
		char *str = arg_str(c, "str");    /* stays allocated: the path refers to it */
		po.sep = (char) drv_int(c, "sep", '.');
		po.assign = (char) drv_int(c, "asg", 0);
		(void) mpt_path_set(&po, str, -1);
		emit_path(c, 0, 0, "ok");
		return;
	}
	if (!strcmp(a, "pnext")) {
		int r = mpt_path_next(&po);
		emit_path(c, 1, r < 0 ? -1 : r, 0);
		return;
	}
	if (!strcmp(a, "plast")) {
		int r = mpt_path_last(&po);
		emit_path(c, 1, r < 0 ? -1 : r, 0);
		return;
	}
	if (!strcmp(a, "pdel")) {
		int r = mpt_path_del(&po);
		emit_path(c, 1, r < 0 ? -1 : r, 0);
		return;
	}
	if (!strcmp(a, "paddelem")) {
		size_t len = 0, i;
		uint8_t *e = drv_bytes(c, "elem", &len);
		int valid = 0, r = 0;
		for (i = 0; i < len && r >= 0; i++) {
			if ((r = mpt_path_addchar(&po, e[i])) >= 0) valid = mpt_path_valid(&po);
		}
		if (r >= 0) r = mpt_path_add(&po, len ? valid : 0);
		emit_path(c, 0, 0, r < 0 ? "refused" : "ok");
		free(e);
		return;
	}
	drv_begin(c);
	j_str("ret", "unknown-action");
	drv_dbg();
	drv_end();
}

int main(int argc, char **argv)
{
	drv_fresh_per_behaviour = getenv("VERIF_C10_FORK") ? 1 : 0;
	return drv_main(argc, argv);
}
