/*
 * X30 (extension of C15): driver for spec/Creators.tla.
 *
 * One source, two executables:
 *   creators_c    linked with libmptcore only: mpt_node_new / mpt_meta_new /
 *                 mpt_meta_buffer are the C definitions,
 *   creators      (with -DX30_CXX, plus creators.cpp) linked with libmpt++
 *                 BEFORE libmptcore: the definitions of libmpt++ interpose the
 *                 C ones for every caller, also inside libmptcore.
 * All calls go through the C interface (vtable of the metatype, mpt_node_*),
 * i.e. the C side consumes whatever the creators handed out.
 *
 * Allocation seam: the sanitizer runtime's malloc/free hooks.  Every block
 * allocated while a library call runs is recorded; an object is "gone" when
 * the block holding it is released.  Nothing is judged here: the driver
 * reports which registered object a pointer is (0 = none, -1 = not a heap
 * block, i.e. a static), which objects were released by the call and how
 * many recorded blocks remain.
 */
#define _GNU_SOURCE
#include "drv.h"

#include <sys/uio.h>
#include <dlfcn.h>

#include "core.h"
#include "types.h"
#include "meta.h"
#include "array.h"
#include "node.h"
#include "config.h"

extern int __sanitizer_install_malloc_and_free_hooks(void (*mh)(const volatile void *, size_t), void (*fh)(const volatile void *));
extern int __sanitizer_get_ownership(const volatile void *p);
extern size_t __sanitizer_get_allocated_size(const volatile void *p);

#ifdef X30_CXX
extern int x30_cxx_set_metatype(void *node, void *mt);
extern long x30_cxx_print(void *mt);
extern void *x30_cxx_new_encoded(void);
#endif

#ifdef X30_SEAM
/* executable "creators_seam": the allocating sources of mptcore are compiled in with malloc/realloc/calloc/free
 * renamed to these; arg.fail = k refuses the k-th allocation of the step.  Everything else is forwarded, so the
 * sanitizer runtime (and its hooks above) still sees every block. */
#include <errno.h>
static long fail_after = -1;
static int fired;
static int vf_refuse(void)
{
	if (fail_after < 0 || fail_after-- > 0) return 0;
	fired = 1; errno = ENOMEM;
	return 1;
}
void *vf_malloc(size_t n) { return vf_refuse() ? 0 : malloc(n); }
void *vf_calloc(size_t a, size_t b) { return vf_refuse() ? 0 : calloc(a, b); }
void *vf_realloc(void *p, size_t n) { return (n && vf_refuse()) ? 0 : realloc(p, n); }
void vf_free(void *p) { free(p); }
#endif

#define MAXH 8
#define MAXO 32
#define MAXBLK 4096

enum { TNone = 0, TMeta, TNode };

static struct { const void *p; size_t n; } blk[MAXBLK];
static int nblk;
static int tracking;
static long badfree;

static void *obj[MAXO + 1];       /* registered objects, 1-based, in creation order */
static int   otype[MAXO + 1];
static int   olive[MAXO + 1];
static int   made;
static int   gone[MAXO + 1], ngone;

static void *hnd[MAXH];
static int   htype[MAXH];
static int   nh = 2, nobj = 4;
static char  kindname[8];

static void hook_malloc(const volatile void *p, size_t n)
{
	if (!tracking || !p || nblk >= MAXBLK) return;
	blk[nblk].p = (const void *) p;
	blk[nblk].n = n;
	nblk++;
}
static void hook_free(const volatile void *p)
{
	int i;
	if (!p) return;
	for (i = nblk; i-- > 0; ) {
		if (blk[i].p == (const void *) p) {
			const char *s = (const char *) blk[i].p;
			size_t n = blk[i].n ? blk[i].n : 1;
			int o;
			for (o = 1; o <= made; o++) {
				if (olive[o] && (const char *) obj[o] >= s && (const char *) obj[o] < s + n) {
					olive[o] = 0;
					if (ngone < MAXO) gone[ngone++] = o;
				}
			}
			blk[i] = blk[--nblk];
			return;
		}
	}
}

/* which registered object is p?  unknown heap pointers become the next object */
static int ident(void *p, int type)
{
	int o;
	if (!p) return 0;
	for (o = 1; o <= made; o++) if (olive[o] && obj[o] == p) return o;
	if (!__sanitizer_get_ownership(p)) return -1;
	if (made >= MAXO) return -2;
	++made;
	obj[made] = p; otype[made] = type; olive[made] = 1;
	return made;
}
static int lookup(void *p)
{
	int o;
	if (!p) return 0;
	for (o = 1; o <= made; o++) if (olive[o] && obj[o] == p) return o;
	if (!__sanitizer_get_ownership(p)) return -1;
	return -3;
}

static char longtext[1024];
static MPT_INTERFACE(metatype) *make_meta(const char *sz)
{
	MPT_STRUCT(value) v;
	const char *ptr;
	if (!strcmp(sz, "null")) {
		return mpt_meta_new(0);
	}
	if (!strcmp(sz, "enc")) {
		/* buffer metatype of libmpt++ with a message in progress in its encoder */
#ifdef X30_CXX
		return (MPT_INTERFACE(metatype) *) x30_cxx_new_encoded();
#else
		return 0;
#endif
	}
	if (!strcmp(sz, "buf")) {
		MPT_STRUCT(array) a = MPT_ARRAY_INIT;
		MPT_INTERFACE(metatype) *mt;
		mpt_array_append(&a, 4, "abc\0");
		mt = mpt_meta_buffer(&a);
		mpt_array_clone(&a, 0);
		return mt;
	}
	ptr = !strcmp(sz, "big") ? longtext : "val";
	MPT_value_set(&v, 's', &ptr);
	return mpt_meta_new(&v);
}
static int set_value(MPT_STRUCT(node) *n, const char *sz)
{
	MPT_STRUCT(value) v;
	const char *ptr;
	if (!strcmp(sz, "null")) {
		return mpt_meta_set(&n->_meta, 0);
	}
	ptr = !strcmp(sz, "big") ? longtext : "other";
	MPT_value_set(&v, 's', &ptr);
	return mpt_meta_set(&n->_meta, &v);
}

static void release_all(void)
{
	int i;
	for (i = 0; i < MAXH; i++) {
		if (!hnd[i]) continue;
		if (htype[i] == TNode) {
			mpt_node_destroy((MPT_STRUCT(node) *) hnd[i]);
		} else {
			MPT_INTERFACE(metatype) *mt = (MPT_INTERFACE(metatype) *) hnd[i];
			mt->_vptr->unref(mt);
		}
		hnd[i] = 0; htype[i] = TNone;
	}
}
static void warmup(void)
{
	/* process-global tables (type registry, traits) are set up by the first objects of each make */
	static const char *sz[] = { "small", "big", "buf" };
	int i;
	for (i = 0; i < 3; i++) {
		MPT_INTERFACE(metatype) *mt = make_meta(sz[i]), *c;
		MPT_STRUCT(node) *n, *k;
		if (!mt) continue;
		MPT_metatype_convert(mt, 0, 0);
		if ((c = mt->_vptr->clone(mt))) c->_vptr->unref(c);
		if (mt->_vptr->addref(mt)) mt->_vptr->unref(mt);
#ifdef X30_CXX
		x30_cxx_print(mt);     /* stream / locale set-up of the C++ runtime */
#endif
		if ((n = mpt_node_new(4))) {
			mpt_identifier_set(&n->ident, "warm", 4);
			n->_meta = mt;
			set_value(n, "small");
			set_value(n, "null");
			if ((k = mpt_node_clone(n))) mpt_node_destroy(k);
			mpt_node_destroy(n);
		} else {
			mt->_vptr->unref(mt);
		}
	}
}

static void drv_reset(void)
{
	static int hooked;
	tracking = 0;
	if (!hooked) {
		memset(longtext, 'x', sizeof(longtext) - 1);
		__sanitizer_install_malloc_and_free_hooks(hook_malloc, hook_free);
		hooked = 1;
	}
	release_all();
	warmup();
	nblk = 0;
	made = 0;
	ngone = 0;
	badfree = 0;
	memset(olive, 0, sizeof(olive));
	memset(hnd, 0, sizeof(hnd));
	memset(htype, 0, sizeof(htype));
}

static void emit(struct cmd *c, const char *ret)
{
	long long v[MAXO + 1];
	int i, any = 0;
	drv_begin(c);
	j_str("ret", ret);
	for (i = 0; i < nh; i++) v[i] = lookup(hnd[i]);
	j_ints("href", v, nh);
	for (i = 1; i <= nobj; i++) { v[i - 1] = (i <= made && olive[i]) ? 1 : 0; any |= (int) v[i - 1]; }
	j_ints("alive", v, nobj);
	for (i = 0; i < ngone; i++) v[i] = gone[i];
	j_ints("gone", v, ngone);
	for (i = 1; i <= nobj; i++) {
		v[i - 1] = (i <= made && olive[i] && otype[i] == TNode) ? lookup(((MPT_STRUCT(node) *) obj[i])->_meta) : 0;
	}
	j_ints("nmeta", v, nobj);
	for (i = 1; i <= nobj; i++) {
		v[i - 1] = (i <= made && olive[i] && otype[i] == TNode) ? lookup(((MPT_STRUCT(node) *) obj[i])->parent) : 0;
	}
	j_ints("par", v, nobj);
	j_int("badfree", badfree);
	j_int("quiet", nblk);
#ifdef X30_SEAM
	j_int("fired", fired);
#endif
	drv_dbg();
	j_int("made", made);
	j_int("blocks", nblk);
	j_int("anylive", any);
	drv_end();
}

static MPT_STRUCT(node) *node_of(long o)
{
	if (o < 1 || o > made || !olive[o] || otype[o] != TNode) return 0;
	return (MPT_STRUCT(node) *) obj[o];
}
static MPT_INTERFACE(metatype) *meta_of_handle(long h)
{
	if (h < 1 || h > nh || !hnd[h - 1] || htype[h - 1] != TMeta) return 0;
	return (MPT_INTERFACE(metatype) *) hnd[h - 1];
}

static void drv_step(struct cmd *c)
{
	const char *a = c->action;
	const char *ret = "ok";
	long h = drv_int(c, "h", 0), g = drv_int(c, "g", 0), n = drv_int(c, "n", 0);
	ngone = 0;

	if (!strcmp(a, "init")) {
		Dl_info info;
		const char *k = drv_raw(c, "kind");
		nh = (int) drv_int(c, "nh", 2);
		nobj = (int) drv_int(c, "nobj", 4);
		if (nh > MAXH) nh = MAXH;
		if (nobj > MAXO) nobj = MAXO;
		/* which definition of the creator is bound: the one of libmpt++ or the one of libmptcore */
		snprintf(kindname, sizeof(kindname), "%s", "c");
		if (dladdr((void *) mpt_node_new, &info) && info.dli_fname && strstr(info.dli_fname, "mpt++")) {
			snprintf(kindname, sizeof(kindname), "%s", "cxx");
		}
		if (!k || strcmp(k, kindname)) ret = "baddrv";
		emit(c, ret);
		return;
	}
#ifdef X30_SEAM
	fired = 0;
	fail_after = drv_int(c, "fail", 0) > 0 ? (long) drv_int(c, "fail", 0) - 1 : -1;
#endif
	tracking = 1;
	if (!strcmp(a, "newmeta")) {
		const char *sz = drv_raw(c, "sz");
		MPT_INTERFACE(metatype) *mt;
		if (h < 1 || h > nh || hnd[h - 1] || !sz) ret = "baddrv";
		else if (!(mt = make_meta(sz))) ret = "refused";
		else { hnd[h - 1] = mt; htype[h - 1] = TMeta; ident(mt, TMeta); }
	}
	else if (!strcmp(a, "newnode")) {
		const char *nm = drv_raw(c, "nm");
		int len = (nm && !strcmp(nm, "long")) ? 300 : 3;    /* "long": beyond what mpt_node_new reserves inline (0x100 for the whole node) */
		MPT_STRUCT(node) *nd;
		if (h < 1 || h > nh || hnd[h - 1]) ret = "baddrv";
		else if (!(nd = mpt_node_new(len + 1))) ret = "refused";
		else {
			hnd[h - 1] = nd; htype[h - 1] = TNode; ident(nd, TNode);
			if (!mpt_identifier_set(&nd->ident, longtext + (sizeof(longtext) - 1 - len), len)) ret = "noident";
		}
	}
	else if (!strcmp(a, "clonemeta")) {
		MPT_INTERFACE(metatype) *mt = meta_of_handle(h), *cl;
		if (!mt || g < 1 || g > nh || hnd[g - 1]) ret = "baddrv";
		else if (!(cl = mt->_vptr->clone(mt))) ret = "refused";
		else { hnd[g - 1] = cl; htype[g - 1] = TMeta; ident(cl, TMeta); }
	}
	else if (!strcmp(a, "addref") || !strcmp(a, "takemeta")) {
		MPT_INTERFACE(metatype) *mt;
		if (!strcmp(a, "addref")) mt = meta_of_handle(h);
		else { MPT_STRUCT(node) *nd = node_of(n); mt = nd ? nd->_meta : 0; }
		if (!mt || g < 1 || g > nh || hnd[g - 1]) ret = "baddrv";
		else if (!mt->_vptr->addref(mt)) ret = "refused";
		else { hnd[g - 1] = mt; htype[g - 1] = TMeta; }
	}
	else if (!strcmp(a, "unref")) {
		MPT_INTERFACE(metatype) *mt = meta_of_handle(h);
		if (!mt) ret = "baddrv";
		else { hnd[h - 1] = 0; htype[h - 1] = TNone; mt->_vptr->unref(mt); }
	}
	else if (!strcmp(a, "setvalue")) {
		MPT_STRUCT(node) *nd = node_of(n);
		const char *sz = drv_raw(c, "sz");
		if (!nd || !sz) ret = "baddrv";
		else if (set_value(nd, sz) < 0) ret = "refused";
		else ident(nd->_meta, TMeta);
	}
	else if (!strcmp(a, "movemeta")) {
		MPT_STRUCT(node) *nd = node_of(n);
		MPT_INTERFACE(metatype) *mt = meta_of_handle(h), *old;
		const char *via = drv_raw(c, "via");
		if (!nd || !mt || !via) ret = "baddrv";
		else {
			hnd[h - 1] = 0; htype[h - 1] = TNone;
			if (!strcmp(via, "cxx")) {
#ifdef X30_CXX
				x30_cxx_set_metatype(nd, mt);
#else
				ret = "baddrv";
#endif
			} else {
				if ((old = nd->_meta)) old->_vptr->unref(old);
				nd->_meta = mt;
			}
		}
	}
	else if (!strcmp(a, "addchild")) {
		MPT_STRUCT(node) *p = node_of(drv_int(c, "p", 0));
		if (!p || h < 1 || h > nh || !hnd[h - 1] || htype[h - 1] != TNode) ret = "baddrv";
		else {
			MPT_STRUCT(node) *ch = (MPT_STRUCT(node) *) hnd[h - 1];
			if (mpt_gnode_insert(p, 0, ch) < 0) ret = "refused";
			else { hnd[h - 1] = 0; htype[h - 1] = TNone; }
		}
	}
	else if (!strcmp(a, "unlink")) {
		MPT_STRUCT(node) *ch = node_of(drv_int(c, "c", 0));
		if (!ch || g < 1 || g > nh || hnd[g - 1]) ret = "baddrv";
		else { mpt_node_unlink(ch); hnd[g - 1] = ch; htype[g - 1] = TNode; }
	}
	else if (!strcmp(a, "clonenode")) {
		MPT_STRUCT(node) *nd = node_of(n), *cl;
		if (!nd || g < 1 || g > nh || hnd[g - 1]) ret = "baddrv";
		else if (!(cl = mpt_node_clone(nd))) ret = "refused";
		else { hnd[g - 1] = cl; htype[g - 1] = TNode; ident(cl, TNode); ident(cl->_meta, TMeta); }
	}
	else if (!strcmp(a, "destroy")) {
		if (h < 1 || h > nh || !hnd[h - 1] || htype[h - 1] != TNode) ret = "baddrv";
		else {
			MPT_STRUCT(node) *nd = (MPT_STRUCT(node) *) hnd[h - 1];
			hnd[h - 1] = 0; htype[h - 1] = TNone;
			if (mpt_node_destroy(nd)) { ret = "refused"; hnd[h - 1] = nd; htype[h - 1] = TNode; }
		}
	}
	else if (!strcmp(a, "destroyinner")) {
		MPT_STRUCT(node) *nd = node_of(n);
		if (!nd) ret = "baddrv";
		else if (mpt_node_destroy(nd)) ret = "refused";
	}
	else if (!strcmp(a, "clear")) {
		MPT_STRUCT(node) *nd = node_of(n);
		if (!nd) ret = "baddrv";
		else mpt_node_clear(nd);
	}
	else if (!strcmp(a, "assign")) {
		/* as configAssign (mptcore/config/config_global.c) does it below a base node */
		MPT_STRUCT(node) *nd = node_of(n), *t, *r, *up[8];
		const char *sz = drv_raw(c, "sz"), *p = drv_raw(c, "p");
		if (!nd || !sz || !p) ret = "baddrv";
		else {
			MPT_STRUCT(path) where = MPT_PATH_INIT;
			MPT_STRUCT(value) v;
			const char *ptr = !strcmp(sz, "big") ? longtext : "assigned";
			int nup = 0;
			MPT_value_set(&v, 's', &ptr);
			mpt_path_set(&where, p, -1);
			t = nd->children ? 0 : nd;
			r = mpt_node_assign(&nd->children, &where, strcmp(sz, "null") ? &v : 0);
			if (t && t->children) t->children->parent = t;
			if (!r) ret = "refused";
			else {
				/* the metatype was made first, then the elements from the top down */
				MPT_STRUCT(node) *w;
				ident(r->_meta, TMeta);
				for (w = r; w && lookup(w) == -3 && nup < 8; w = w->parent) up[nup++] = w;
				while (nup) ident(up[--nup], TNode);
			}
		}
	}
	else if (!strcmp(a, "print")) {
		MPT_INTERFACE(metatype) *mt = meta_of_handle(h);
		if (!mt) ret = "baddrv";
		else {
#ifdef X30_CXX
			if (x30_cxx_print(mt) < 0) ret = "bad";
#else
			ret = "baddrv";
#endif
		}
	}
	else if (!strcmp(a, "teardown")) {
		release_all();
	}
	else {
		ret = "baddrv";
	}
	tracking = 0;
#ifdef X30_SEAM
	fail_after = -1;
#endif
	emit(c, ret);
}

int main(int argc, char *argv[])
{
	return drv_main(argc, argv);
}
