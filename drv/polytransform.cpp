/*
 * Driver for spec/PolyTransform.tla (X18, extension of C18):
 *   init data=<positions> data2=<positions> lo= hi= lmin2= lmax2= ranged= lim= kind=<k1>[,<k2>]
 *        a position is the value itself in a linear dimension and the exponent e of the
 *        value 10^e in a logarithmic one (-1048576: the value 0, -1048577: the value -10);
 *        kind log2: positions, lo, hi count half decades: even P is 10^(P/2), odd P the value
 *        3*10^((P-1)/2) between the decades.  lmin2/2, lmax2/2 are the limit exponents given to a
 *        logarithmic dimension (default 2 lo, 2 hi); a linear one is given [lo, hi].
 *   tapply   fresh linepart::array, apply(transform3, d, values) per dimension -> parts
 *   tpoly    polyline::set(transform3, value stores) -> parts, device coordinates of
 *            points() of every part the iterator visits, end points of line()
 * Dimension d (1, 2) is mapped to x (y) by
 *   lin+  scale  d, add -d*lo      lin-  scale -d, add d*hi      log  scale d, add -d*lo on log10(value)
 * with limit [lo, hi] (for log: exponents) when ranged.
 */
#include "drv.h"

#include <math.h>

#include "values.h"
#include "layout.h"

using namespace mpt;

#define POS_ZERO (-1048576LL)
#define POS_NEG  (-1048577LL)

static double *data[2];
static size_t dlen[2];
static int dims;
static int kind[2];          /* 0 lin+, 1 lin-, 2 log, 3 log2 */
static long long lo, hi, lmin2, lmax2;
static int badpos;           /* a position without value was given */
static int ranged;

static const double n10[] = {
	1e0, 1e-1, 1e-2, 1e-3, 1e-4, 1e-5, 1e-6, 1e-7, 1e-8, 1e-9, 1e-10, 1e-11, 1e-12
};
static const double p10[] = {
	1e0, 1e1, 1e2, 1e3, 1e4, 1e5, 1e6, 1e7, 1e8, 1e9, 1e10, 1e11,
	1e12, 1e13, 1e14, 1e15, 1e16, 1e17, 1e18, 1e19, 1e20, 1e21, 1e22
};

static void drv_reset(void)
{
	free(data[0]); free(data[1]);
	data[0] = data[1] = 0;
	dlen[0] = dlen[1] = 0;
	dims = 1; kind[0] = kind[1] = 0;
	ranged = 1; lo = hi = 0;
}

static double value_of(long long pos, int k)
{
	double f = 1.0;
	if (k < 2) return (double) pos;
	if (pos == POS_ZERO) return 0.0;
	if (pos == POS_NEG) return -10.0;
	if (k == 3) {   /* half decades */
		if (pos % 2) { f = 3.0; pos -= 1; }
		pos /= 2;
	}
	if (pos < -12 || pos > 22) { badpos = 1; return 1.0; }
	return f * (pos < 0 ? n10[-pos] : p10[pos]);
}

static void setup(layout::graph::transform3 &tr)
{
	for (int d = 0; d < 3; d++) {
		tr._dim[d].to.x = tr._dim[d].to.y = 0;
	}
	for (int d = 0; d < dims; d++) {
		int f = d + 1;
		tr._dim[d].scale = kind[d] == 1 ? -f : f;
		tr._dim[d].add = (float) (kind[d] == 1 ? f * hi : kind[d] == 3 ? -f * (lo / 2) : -f * lo);
		if (d == 0) tr._dim[d].to.x = 1; else tr._dim[d].to.y = 1;
		tr._dim[d]._flags = (ranged ? TransformLimit : 0) | (kind[d] >= 2 ? TransformLg : 0);
		tr._dim[d].limit.min = kind[d] >= 2 ? (double) lmin2 / 2 : (double) lo;
		tr._dim[d].limit.max = kind[d] >= 2 ? (double) lmax2 / 2 : (double) hi;
	}
	tr._base.x = tr._base.y = 0;
}

static void emit_parts(span<const linepart> ps)
{
	j_arr_open("parts");
	for (const linepart *p = ps.begin(), *e = ps.end(); p < e; ++p) {
		j_sep();
		fprintf(drv_out, "[%d,%d,%d,%d]", p->raw, p->usr, p->_cut, p->_trim);
	}
	j_arr_close();
}
static void bad(struct cmd *c, const char *why)
{
	drv_begin(c);
	j_str("ret", why);
	drv_dbg();
	drv_end();
}
/* device coordinate times f as integer; *ok = 0 when it is not one */
static long long whole(double x, double f, int *ok)
{
	double u = x * f;
	if (!(u == u) || u != floor(u) || fabs(u) > 1e9) { *ok = 0; return 0; }
	return (long long) u;
}

static void drv_step(struct cmd *c)
{
	const char *a = c->action;

	if (!strcmp(a, "init")) {
		const char *k;
		drv_reset();
		k = drv_raw(c, "kind");
		dims = 0;
		while (k && *k && dims < 2) {
			kind[dims++] = !strncmp(k, "lin-", 4) ? 1 : !strncmp(k, "log2", 4) ? 3 : !strncmp(k, "log", 3) ? 2 : 0;
			k = strchr(k, ',');
			if (k) ++k;
		}
		if (!dims) dims = 1;
		lo = drv_int(c, "lo", 0);
		hi = drv_int(c, "hi", 0);
		lmin2 = drv_int(c, "lmin2", 2 * lo);
		lmax2 = drv_int(c, "lmax2", 2 * hi);
		badpos = 0;
		ranged = (int) drv_int(c, "ranged", 1);
		for (int d = 0; d < 2; d++) {
			size_t n, i;
			long long *v = drv_ints(c, d ? "data2" : "data", &n);
			data[d] = (double *) malloc(n ? n * sizeof(double) : 1);
			for (i = 0; i < n; i++) data[d][i] = value_of(v[i], kind[d]);
			free(v);
			dlen[d] = n;
		}
		drv_begin(c);
		j_int("x", badpos);
		drv_dbg();
		j_int("len", (long long) dlen[0]);
		j_int("len2", (long long) dlen[1]);
		j_int("dims", dims);
		drv_end();
		return;
	}
	if (!strcmp(a, "tapply")) {
		layout::graph::transform3 tr;
		linepart::array arr;
		bool ok[2] = { false, false };
		setup(tr);
		for (int d = 0; d < dims; d++) {
			ok[d] = arr.apply(tr, d, span<const double>(data[d], (long) dlen[d]));
		}
		drv_begin(c);
		emit_parts(arr.elements());
		drv_dbg();
		j_int("ret", ok[0]);
		j_int("ret2", ok[1]);
		j_int("raw", arr.length_raw());
		j_int("usr", arr.length_user());
		drv_end();
		return;
	}
	if (!strcmp(a, "tpoly")) {
		layout::graph::transform3 tr;
		value_store st[2];
		polyline pl;
		bool ok;
		size_t total = dlen[0] > dlen[1] ? dlen[0] : dlen[1];
		size_t pfx = dims == 2 && dlen[1] < dlen[0] ? dlen[1] : dlen[0];
		int full = total <= 4096;
		long npoints = 0, nparts = 0, inexact = 0;
		setup(tr);
		for (int d = 0; d < dims; d++) {
			if (!st[d].set(span<const double>(data[d], (long) dlen[d]))) { bad(c, "bad-store"); return; }
		}
		ok = pl.set(tr, span<const value_store>(st, dims));
		drv_begin(c);
		j_str("ret", ok ? "ok" : "refused");
		emit_parts(pl.parts());
		/* per visited part: [x,y] of points() */
		j_arr_open("pts");
		for (polyline::iterator it = pl.begin(), e = pl.end(); it != e; ++it) {
			polyline::part p = *it;
			span<const polyline::point> pt = p.points();
			++nparts;
			npoints += pt.size();
			if (!full) continue;
			j_sep();
			fputc('[', drv_out);
			for (long i = 0; i < pt.size(); ++i) {
				int okx = 1, oky = 1;
				long long x = whole(pt.begin()[i].x, 1.0, &okx);
				long long y = whole(pt.begin()[i].y, 1.0, &oky);
				if (!okx) { x = 999999999LL; ++inexact; }
				if (!oky) { y = 999999999LL; ++inexact; }
				fprintf(drv_out, i ? ",[%lld,%lld]" : "[%lld,%lld]", x, y);
			}
			fputc(']', drv_out);
		}
		j_arr_close();
		/* per visited part: [known, 65536 x, 65536 y, known, 65536 x, 65536 y] of the ends of line() */
		j_arr_open("ends");
		{
			span<const linepart> ps = pl.parts();
			const linepart *lp = ps.begin();
			size_t start = 0;
			for (polyline::iterator it = pl.begin(), e = pl.end(); full && it != e; ++it, ++lp) {
				polyline::part p = *it;
				span<const polyline::point> ln = p.line();
				long long v[6] = { 0, 0, 0, 0, 0, 0 };
				/* not projected: no line, a line that reaches beyond a dimension, a cut line of one point */
				int skip = !lp->usr || start + lp->usr > pfx || (lp->usr < 2 && (lp->_cut || lp->_trim));
				if (!skip && ln.size() > 0) {
					for (int k = 0; k < 2; k++) {
						const polyline::point &q = ln.begin()[k ? ln.size() - 1 : 0];
						int okq = 1;
						long long x = whole(q.x, 65536.0, &okq);
						long long y = whole(q.y, 65536.0, &okq);
						if (okq) { v[3 * k] = 1; v[3 * k + 1] = x; v[3 * k + 2] = y; }
					}
				}
				start += lp->raw;
				j_sep();
				fprintf(drv_out, "[%lld,%lld,%lld,%lld,%lld,%lld]", v[0], v[1], v[2], v[3], v[4], v[5]);
			}
		}
		j_arr_close();
		j_int("full", full);
		drv_dbg();
		j_int("nparts", nparts);
		j_int("npoints", npoints);
		j_int("inexact", inexact);
		j_int("total", pl.points().size());
		drv_end();
		return;
	}
	bad(c, "unknown-action");
}

int main(int argc, char **argv)
{
	return drv_main(argc, argv);
}
