/*
 * X30 (extension of C15): C++ half of the creators driver (spec/Creators.tla).
 * The executable "creators" is drv/creators_c.c (compiled as C with -DX30_CXX,
 * all calls through the C interface) plus this file, linked with libmpt++
 * before libmptcore, so that mpt++/meta_new.cpp, node_new.cpp and
 * meta_buffer.cpp are the creators every caller is bound to.  Here: the
 * operations only the C++ view of the objects offers.
 */
#include <sstream>
#include <sys/uio.h>

#include "core.h"
#include "types.h"
#include "meta.h"
#include "node.h"

/* mpt++/std_cout.cpp: operator<<(std::ostream &, mpt::convertable &); answers the number of characters, -1 when the
 * stream went bad */
extern "C" long x30_cxx_print(void *m)
{
	std::ostringstream os;
	os << *static_cast<mpt::convertable *>(static_cast<mpt::metatype *>(m));
	return os.good() ? static_cast<long>(os.str().size()) : -1;
}

/* node::set_metatype: releases what the node holds, takes over the caller's reference */
extern "C" int x30_cxx_set_metatype(void *n, void *m)
{
	static_cast<mpt::node *>(n)->set_metatype(static_cast<mpt::metatype *>(m));
	return 0;
}
