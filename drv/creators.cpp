/*
 * X30 (extension of C15): C++ half of the creators driver (spec/Creators.tla).
 * The executable "creators" is drv/creators_c.c (compiled as C with -DX30_CXX,
 * all calls through the C interface) plus this file, linked with libmpt++
 * before libmptcore, so that mpt++/meta_new.cpp, node_new.cpp and
 * meta_buffer.cpp are the creators every caller is bound to.  Here: the
 * operations only the C++ view of the objects offers.
 */
#include <sstream>
#include <sys/uio.h>

#include "core.h"
#include "types.h"
#include "meta.h"
#include "node.h"
#include "convert.h"
#include "array.h"
#include "io.h"

/* mpt++/std_cout.cpp: operator<<(std::ostream &, mpt::convertable &); answers the number of characters, -1 when the
 * stream went bad */
extern "C" long x30_cxx_print(void *m)
{
	std::ostringstream os;
	os << *static_cast<mpt::convertable *>(static_cast<mpt::metatype *>(m));
	return os.good() ? static_cast<long>(os.str().size()) : -1;
}

/* node::set_metatype: releases what the node holds, takes over the caller's reference */
extern "C" int x30_cxx_set_metatype(void *n, void *m)
{
	static_cast<mpt::node *>(n)->set_metatype(static_cast<mpt::metatype *>(m));
	return 0;
}

/* io::buffer::metatype with an active message encoder and a message in progress (unfinished data / encoder
 * context): the state in which clone() refuses.  The class is abstract about its reference: a subclass supplies it. */
class x30_encoded : public mpt::io::buffer::metatype
{
public:
	x30_encoded() : metatype(mpt::array(0))
	{
		_enc = mpt::mpt_encode_cobs;
	}
	void unref() __MPT_OVERRIDE
	{
		delete this;
	}
	bool pending() const
	{
		return _state.scratch || _state._ctx;
	}
};
extern "C" void *x30_cxx_new_encoded(void)
{
	x30_encoded *e = new x30_encoded;
	if (e->push(2, "de") < 0 || !e->pending()) {
		delete e;
		return 0;
	}
	return static_cast<mpt::metatype *>(e);
}
