/*
 * Source seam for drv/rawstream.cpp (X02): the unmodified COBS sources of the
 * repository compiled at block code 5 (same seam as drv/stream.c), exported
 * under non-static names so that the C++ driver can plug them into the queues.
 */
#include <stdint.h>
#include <string.h>
#include <sys/types.h>
#include <sys/uio.h>

#include "message.h"
#include "convert.h"
#include "queue.h"

#define MPT_COBS_MAXLEN 5
static ssize_t enc5(MPT_STRUCT(encode_state) *info, const struct iovec *cobs, const struct iovec *base)
#include "convert/encode_cobs.c"
#define MPT_encode_cobs_regular(i,c,d) enc5(i, c, d)
static ssize_t enc5r(MPT_STRUCT(encode_state) *info, const struct iovec *cobs, const struct iovec *base)
#include "convert/encode_cobs_r.c"
#define MPT_cobs_dec_regular _decode
#include "convert/decode_cobs.c"

extern ssize_t x02_enc5(MPT_STRUCT(encode_state) *info, const struct iovec *cobs, const struct iovec *base)
{
	return enc5(info, cobs, base);
}
extern ssize_t x02_enc5r(MPT_STRUCT(encode_state) *info, const struct iovec *cobs, const struct iovec *base)
{
	return enc5r(info, cobs, base);
}
extern int x02_dec5(MPT_STRUCT(decode_state) *dec, const struct iovec *source, size_t sourcelen)
{
	return _decode(dec, source, sourcelen);
}
extern int x02_dec5r(MPT_STRUCT(decode_state) *dec, const struct iovec *source, size_t sourcelen)
{
	return _decode_r(dec, source, sourcelen);
}
