/*
 * Driver for spec/Dispatch.tla (C11), C binding: mpt_dispatch_* / mpt_command_*.
 *
 * One harness handler serves every registration; its arg is the token of the
 * registration.  Each invocation is recorded (token, end-of-life or event,
 * ev->id as seen, message present); for an event it returns what the step
 * scripted (r = flags or negative, clear = reset ev->id first).
 * Ids travel as four 16-bit limbs, least significant first.
 */
#include "drv.h"

#include <sys/uio.h>

#include "core.h"
#include "array.h"
#include "message.h"
#include "event.h"

#define MAXCALLS 64

static MPT_STRUCT(dispatch) disp;
static MPT_STRUCT(array) snapshot;      /* second handle on the command table (array copy of disp._d) */
static int have;

static struct call {
	long      tok;
	int       fin;
	uintptr_t id;
	int       msg;
} calls[MAXCALLS];
static int ncalls;
static int hr_r, hr_clear;


/* message <<cmd, sep>> \o payload cut into fragments at the given positions;
 * every fragment lives in its own exact-size allocation */
#define MAXFRAG 8
static struct iovec frag_vec[MAXFRAG];
static uint8_t *frag_mem[MAXFRAG + 1];
static int nfrag;
static void frag_free(void)
{
	int i;
	for (i = 0; i < nfrag; i++) free(frag_mem[i]);
	nfrag = 0;
}

static int handler(void *arg, MPT_STRUCT(event) *ev)
{
	if (ncalls < MAXCALLS) {
		struct call *c = &calls[ncalls++];
		c->tok = (long) (intptr_t) arg;
		c->fin = ev ? 0 : 1;
		c->id  = ev ? ev->id : 0;
		c->msg = (ev && ev->msg) ? 1 : 0;
	}
	if (!ev) return 0;
	if (hr_clear) ev->id = 0;
	return hr_r;
}

static void drv_reset(void)
{
	/* the previous behaviour's dispatcher is abandoned (leak checking is off) */
	memset(&disp, 0, sizeof(disp));
	memset(&snapshot, 0, sizeof(snapshot));
	have = 0;
	ncalls = 0;
}

static void limbs_item(uintptr_t v)
{
	j_sep();
	fprintf(drv_out, "[%u,%u,%u,%u]", (unsigned) (v & 0xffff), (unsigned) ((v >> 16) & 0xffff),
	        (unsigned) ((v >> 32) & 0xffff), (unsigned) ((v >> 48) & 0xffff));
}
static void limbs_out(const char *key, uintptr_t v)
{
	j_sep();
	fprintf(drv_out, "\"%s\":[%u,%u,%u,%u]", key, (unsigned) (v & 0xffff), (unsigned) ((v >> 16) & 0xffff),
	        (unsigned) ((v >> 32) & 0xffff), (unsigned) ((v >> 48) & 0xffff));
}
static uintptr_t limbs_in(struct cmd *c, const char *key)
{
	size_t n = 0, i;
	long long *l = drv_ints(c, key, &n);
	uint64_t v = 0;
	for (i = 0; i < n && i < 4; i++) v |= ((uint64_t) (l[i] & 0xffff)) << (16 * i);
	free(l);
	return (uintptr_t) v;
}

static int by_tok(const void *a, const void *b)
{
	const MPT_STRUCT(command) *x = a, *y = b;
	return ((intptr_t) x->arg > (intptr_t) y->arg) - ((intptr_t) x->arg < (intptr_t) y->arg);
}

/* common tail of every record: calls, default id, registrations in token order */
static void emit_rest(void)
{
	MPT_STRUCT(buffer) *buf = disp._d._buf;
	MPT_STRUCT(command) *cmd, *live;
	size_t n = 0, i, nl = 0;
	int k;

	j_arr_open("calls");
	for (k = 0; k < ncalls; k++) {
		j_item_obj_open();
		j_int("tok", calls[k].tok);
		j_int("fin", calls[k].fin);
		limbs_out("id", calls[k].id);
		j_int("msg", calls[k].msg);
		j_close();
	}
	j_arr_close();
	limbs_out("def", disp._def);

	if (buf) n = buf->_used / sizeof(*cmd);
	cmd = buf ? (MPT_STRUCT(command) *) (buf + 1) : 0;
	live = (MPT_STRUCT(command) *) calloc(n + 1, sizeof(*live));
	for (i = 0; i < n; i++) {
		if (cmd[i].cmd) live[nl++] = cmd[i];
	}
	qsort(live, nl, sizeof(*live), by_tok);
	j_arr_open("table");
	for (i = 0; i < nl; i++) {
		j_item_obj_open();
		j_int("tok", (long) (intptr_t) live[i].arg);
		limbs_out("id", live[i].id);
		j_close();
	}
	j_arr_close();
	free(live);

	drv_dbg();
	j_str("kind", !buf ? "none" : buf->_content_traits ? "cmd" : "raw");
	j_int("slots", (long long) n);
	j_int("err", disp._err.cmd == handler ? (long) (intptr_t) disp._err.arg : disp._err.cmd ? -1 : 0);
	j_arr_open("slotids");
	for (i = 0; i < n; i++) limbs_item(cmd[i].id);
	j_arr_close();
	j_str("snap", !snapshot._buf ? "none" : snapshot._buf == buf ? "same" : "own");
	j_int("snapslots", snapshot._buf ? (long long) (snapshot._buf->_used / sizeof(*cmd)) : 0);
}
static void answer_str(struct cmd *c, const char *ret)
{
	drv_begin(c);
	j_str("ret", ret);
	emit_rest();
	drv_end();
}
static void answer_int(struct cmd *c, int r)
{
	drv_begin(c);
	j_int("ret", r < 0 ? -1 : r);
	emit_rest();
	drv_end();
}

static void drv_step(struct cmd *c)
{
	const char *a = c->action;

	ncalls = 0;
	hr_r = (int) drv_int(c, "r", 0);
	hr_clear = (int) drv_int(c, "clear", 0);

	if (!strcmp(a, "init")) {
		drv_reset();
		mpt_dispatch_init(&disp);
		have = 1;
		answer_str(c, "ok");
		return;
	}
	if (!strcmp(a, "set")) {
		int r = mpt_dispatch_set(&disp, limbs_in(c, "id"), handler, (void *) (intptr_t) drv_int(c, "tok", 0));
		answer_str(c, r < 0 ? "refused" : "ok");
	}
	else if (!strcmp(a, "settext")) {
		size_t len = 0;
		uint8_t *t = drv_bytes(c, "text", &len);
		int r = mpt_dispatch_set(&disp, mpt_hash(t, (int) len), handler, (void *) (intptr_t) drv_int(c, "tok", 0));
		answer_str(c, r < 0 ? "refused" : "ok");
		free(t);
	}
	else if (!strcmp(a, "clear")) {
		int r = mpt_dispatch_set(&disp, limbs_in(c, "id"), 0, 0);
		answer_str(c, r < 0 ? "refused" : "ok");
	}
	else if (!strcmp(a, "cmdset")) {
		int n = (int) drv_int(c, "new", 1);
		int r = mpt_command_set(&disp._d, limbs_in(c, "id"), n ? (int (*)(void *, void *)) handler : 0,
		                        n ? (void *) (intptr_t) drv_int(c, "tok", 0) : 0);
		answer_str(c, r < 0 ? "refused" : "ok");
	}
	else if (!strcmp(a, "seterror")) {
		/* what mpt++ dispatch::set_error does (no C function exists for it) */
		if (disp._err.cmd) disp._err.cmd(disp._err.arg, 0);
		disp._err.cmd = handler;
		disp._err.arg = (void *) (intptr_t) drv_int(c, "tok", 0);
		answer_str(c, "ok");
	}
	else if (!strcmp(a, "setdefault")) {
		/* what mpt++ dispatch::set_default is for (no C function exists): a registered id becomes the default */
		uintptr_t id = limbs_in(c, "id");
		if (mpt_command_get(&disp._d, id)) {
			disp._def = id;
			answer_str(c, "ok");
		} else {
			answer_str(c, "refused");
		}
	}
	else if (!strcmp(a, "reserve")) {
		MPT_STRUCT(command) *cmd = mpt_command_reserve(&disp._d, drv_uint(c, "w", 1));
		if (!cmd) {
			answer_str(c, "refused");
		} else {
			uintptr_t id = cmd->id;
			/* take the slot over, as mpt_connection_await does */
			cmd->cmd = (int (*)(void *, void *)) handler;
			cmd->arg = (void *) (intptr_t) drv_int(c, "tok", 0);
			drv_begin(c);
			j_str("ret", "ok");
			limbs_out("id", id);
			emit_rest();
			drv_end();
		}
	}
	else if (!strcmp(a, "fini")) {
		mpt_dispatch_fini(&disp);
		answer_str(c, "ok");
	}
	else if (!strcmp(a, "clearall")) {
		mpt_command_clear(&disp._d);
		answer_str(c, "ok");
	}
	else if (!strcmp(a, "drop")) {
		/* only a buffer that carries the command traits notifies on release;
		 * seeded histories cannot know which kind is in place: not called otherwise */
		if (disp._d._buf && !disp._d._buf->_content_traits) {
			drv_begin(c); j_str("ret", "skipped"); drv_dbg(); drv_end();
			return;
		}
		mpt_array_clone(&disp._d, 0);
		answer_str(c, "ok");
	}
	else if (!strcmp(a, "snapshot")) {
		/* a snapshot handle on the table: array copy of the public _d member.  One at a time
		 * (seeded histories cannot know whether one is held: not called then) */
		int r;
		if (snapshot._buf) {
			drv_begin(c); j_str("ret", "skipped"); drv_dbg(); drv_end();
			return;
		}
		r = mpt_array_clone(&snapshot, &disp._d);
		answer_str(c, r < 0 ? "refused" : r ? "ok" : "none");
	}
	else if (!strcmp(a, "dropsnapshot")) {
		int r = mpt_array_clone(&snapshot, 0);
		answer_str(c, r < 0 ? "refused" : r ? "ok" : "none");
	}
	else if (!strcmp(a, "emit")) {
		MPT_STRUCT(event) ev = MPT_EVENT_INIT;
		ev.id = limbs_in(c, "id");
		answer_int(c, mpt_dispatch_emit(&disp, &ev));
	}
	else if (!strcmp(a, "emitmsg")) {
		MPT_STRUCT(event) ev = MPT_EVENT_INIT;
		MPT_STRUCT(message) msg = MPT_MESSAGE_INIT;
		size_t len = 0;
		uint8_t *data = drv_bytes(c, "data", &len);
		int r;
		msg.base = data; msg.used = len;
		ev.msg = &msg;
		r = mpt_dispatch_emit(&disp, &ev);
		answer_int(c, r);
		free(data);
	}
	else if (!strcmp(a, "emitnone")) {
		answer_int(c, mpt_dispatch_emit(&disp, 0));
	}
	else if (!strcmp(a, "hash")) {
		MPT_STRUCT(event) ev = MPT_EVENT_INIT;
		MPT_STRUCT(message) msg = MPT_MESSAGE_INIT;
		size_t len = 0, ncut = 0, total, pos = 0, k;
		uint8_t *pay = drv_bytes(c, "payload", &len);
		long long *cuts = drv_ints(c, "cuts", &ncut);
		uint8_t *all = (uint8_t *) malloc(len + 2);
		int r;
		all[0] = (uint8_t) drv_uint(c, "cmd", 4);
		all[1] = (uint8_t) drv_uint(c, "sep", 0);
		memcpy(all + 2, pay, len);
		total = len + 2;
		nfrag = 0;
		for (k = 0; k <= ncut && nfrag < MAXFRAG; k++) {
			size_t end = (k < ncut && nfrag < MAXFRAG - 1) ? (size_t) cuts[k] : total;
			size_t n;
			if (end > total) end = total;
			if (end < pos) end = pos;
			n = end - pos;
			if (!n && nfrag) continue;       /* only the first fragment (base) may be empty */
			frag_mem[nfrag] = (uint8_t *) malloc(n ? n : 1);
			memcpy(frag_mem[nfrag], all + pos, n);
			if (nfrag) { frag_vec[nfrag - 1].iov_base = frag_mem[nfrag]; frag_vec[nfrag - 1].iov_len = n; }
			else { msg.base = frag_mem[0]; msg.used = n; }
			nfrag++;
			pos = end;
		}
		if (nfrag > 1) { msg.cont = frag_vec; msg.clen = (size_t) (nfrag - 1); }
		ev.msg = &msg;
		r = mpt_dispatch_hash(&disp, &ev);
		answer_int(c, r);
		free(pay); free(all); free(cuts); frag_free();
	}
	else {
		drv_begin(c); j_str("ret", "unknown-action"); drv_dbg(); drv_end();
	}
}

int main(int argc, char **argv)
{
	return drv_main(argc, argv);
}
