/*
 * Driver for spec/TreeUse.tla (X14, extension of C14): the remaining
 * operations of mptcore/node and the users of node trees.
 *
 * Compiled twice:
 *   treeuse      (C)    the node sources, misc/identifier.c, config/node_assign.c,
 *                       config/node_query.c, parse/node_append.c, parse/parse_node.c,
 *                       parse/node_parse.c of the repository are compiled into this
 *                       program with -Dmalloc=vf_malloc ... (allocation seam, no
 *                       source change); config/config_global.c is #included so
 *                       that its nodeGlobal can be pointed at any top-level list.
 *   treeuse_cxx  (C++)  drv/treeuse_cxx.cpp includes this file with TU_CXX: nodes
 *                       are made by mpt::node::create (mpt++/node.cpp, node_new.cpp
 *                       #included behind the seam: the creator every C function
 *                       gets in a program linked with libmpt++), values are set
 *                       with node::set_metatype, read with node::data(), "drop"
 *                       runs node::~node.
 *
 * Handles as in drv/nodetree.c: table slot 1..n -> node; new nodes take the
 * smallest unused slots in the order in which they were allocated (the seam
 * numbers the blocks).  After each call all four links of every live node
 * are logged as handles (0 = null, -1 = a pointer that is no live handle).
 *
 * Value objects are counted: those the driver attaches and those the library
 * makes (mpt_meta_new is defined here, so node_assign.c / node_append.c /
 * mpt_meta_set get this counting object); values are read back with the
 * library's own getter (mpt_node_data / node::data).
 */
#undef malloc
#undef free
#undef calloc
#undef realloc

#include "drv.h"

#include <sys/uio.h>
#include <sys/stat.h>

#ifdef TU_CXX
# include <limits>
# include <cstdlib>
# include <cstring>
# include "queue.h"
# include "array.h"
# include "collection.h"
# include "layout.h"
#endif
#include "meta.h"
#include "node.h"
#include "convert.h"
#include "types.h"
#include "config.h"
#include "parse.h"

#ifdef TU_CXX
# define TU_EXTERN extern "C"
typedef mpt::node tnode;
# define DECL_PATH(p) mpt::path p
# define PATH_SET(p, str) (p).set((str), -1, '.', 0)
# define PATH_MORE(p) (!(p).empty())
# define DECL_PARSE(p) mpt::parser_context p
#else
# define TU_EXTERN
typedef MPT_STRUCT(node) tnode;
# define DECL_PATH(p) MPT_STRUCT(path) p = MPT_PATH_INIT
# define PATH_SET(p, str) ((p).sep = '.', (p).assign = 0, (void) mpt_path_set(&(p), (str), -1))
# define PATH_MORE(p) ((p).len != 0)
# define DECL_PARSE(p) MPT_STRUCT(parser_context) p = MPT_PARSER_INIT
#endif

#define MAXN 256

/* ---------- allocation seam ---------- */
#define MAXALLOC 8192
static struct { void *p; long serial; } allocs[MAXALLOC];
static size_t nallocs;
static long alloc_serial;
static long badfree;

static tnode *tab[MAXN + 1];
static int tabstate[MAXN + 1];   /* 0 unused, 1 live, 2 released during this step */
static int nmax;
static int freed[4 * MAXN];
static int nfreed;

static void alloc_add(void *p)
{
	if (p && nallocs < MAXALLOC) { allocs[nallocs].p = p; allocs[nallocs++].serial = ++alloc_serial; }
}
static int alloc_del(void *p)
{
	size_t i;
	for (i = 0; i < nallocs; i++) {
		if (allocs[i].p == p) { allocs[i] = allocs[--nallocs]; return 1; }
	}
	return 0;
}
static long alloc_serial_of(const void *p)
{
	size_t i;
	for (i = 0; i < nallocs; i++) if (allocs[i].p == p) return allocs[i].serial;
	return 0;
}
static long fail_countdown;   /* >0: the n-th allocation from now fails (once) */
static int fail_fired;
static int fail_now(void)
{
	if (fail_countdown > 0 && !--fail_countdown) { fail_fired = 1; return 1; }
	return 0;
}
TU_EXTERN void *vf_malloc(size_t n)
{
	void *p;
	if (fail_now()) return 0;
	p = malloc(n ? n : 1);
	alloc_add(p);
	return p;
}
TU_EXTERN void *vf_calloc(size_t a, size_t b)
{
	void *p;
	if (fail_now()) return 0;
	p = calloc(a ? a : 1, b ? b : 1);
	alloc_add(p);
	return p;
}
TU_EXTERN void *vf_realloc(void *o, size_t n)
{
	void *p;
	long serial = 0;
	if (!o) return vf_malloc(n);
	serial = alloc_serial_of(o);
	if (!alloc_del(o)) { badfree++; return 0; }
	p = realloc(o, n ? n : 1);
	if (p && nallocs < MAXALLOC) { allocs[nallocs].p = p; allocs[nallocs++].serial = serial; }
	return p;
}
TU_EXTERN void vf_free(void *p)
{
	int i, known;
	if (!p) return;
	/* a node handle? (also when it has been released during this step already) */
	for (i = 1; i <= nmax; i++) {
		if (tabstate[i] && tab[i] == p) {
			if (nfreed < (int) (sizeof(freed) / sizeof(*freed))) freed[nfreed++] = i;
			tabstate[i] = 2;
		}
	}
	known = alloc_del(p);
	if (!known) { badfree++; return; }
	free(p);
}

#ifdef TU_CXX
/* the node creator of libmpt++, compiled behind the seam (no source change) */
# define malloc vf_malloc
# define free vf_free
# include "node.cpp"
# include "node_new.cpp"
# undef malloc
# undef free
using namespace mpt;
#endif

/* ---------- counting value object ---------- */
#define MAXMETA 4096
static long nmetas, badunref;
static long metafail_countdown;   /* >0: the n-th value object made from now fails (once) */

#ifndef TU_CXX
struct cmeta {
	MPT_INTERFACE(metatype) mt;
	long payload;
	char text[24];
};
static struct cmeta *metas[MAXMETA];
static MPT_INTERFACE(metatype) *cm_new(long payload);

static int cm_convert(MPT_INTERFACE(convertable) *c, MPT_TYPE(type) t, void *dest)
{
	struct cmeta *m = (struct cmeta *) c;
	if (!t) {
		if (dest) *((const uint8_t **) dest) = 0;
		return 's';
	}
	if (t == 's') {
		if (dest) *((const char **) dest) = m->text;
		return 's';
	}
	if (t == MPT_type_toVector('c')) {
		struct iovec *vec = (struct iovec *) dest;
		if (vec) { vec->iov_base = m->text; vec->iov_len = strlen(m->text); }
		return 's';
	}
	return MPT_ERROR(BadType);
}
static void cm_unref(MPT_INTERFACE(metatype) *m)
{
	long i;
	for (i = 0; i < nmetas; i++) {
		if ((void *) metas[i] == (void *) m) {
			metas[i] = metas[--nmetas];
			free(m);
			return;
		}
	}
	badunref++;
}
static uintptr_t cm_addref(MPT_INTERFACE(metatype) *m)
{
	(void) m;
	return 0;   /* not shareable: holders must clone */
}
static MPT_INTERFACE(metatype) *cm_clone(const MPT_INTERFACE(metatype) *m)
{
	return cm_new(((const struct cmeta *) m)->payload);
}
static const MPT_INTERFACE_VPTR(metatype) cm_vptr = { { cm_convert }, cm_unref, cm_addref, cm_clone };
static MPT_INTERFACE(metatype) *cm_new(long payload)
{
	struct cmeta *c;
	if (metafail_countdown > 0 && !--metafail_countdown) { fail_fired = 1; return 0; }
	if (nmetas >= MAXMETA) return 0;
	c = (struct cmeta *) malloc(sizeof(*c));
	c->mt._vptr = &cm_vptr;
	c->payload = payload;
	snprintf(c->text, sizeof(c->text), "%ld", payload);
	metas[nmetas++] = c;
	return &c->mt;
}
# define META_KNOWN(m, i) ((const void *) metas[i] == (const void *) (m))
#else
class cmeta;
static cmeta *metas[MAXMETA];
static metatype *cm_new(long payload);
class cmeta : public metatype
{
public:
	cmeta(long p) : payload(p)
	{ snprintf(text, sizeof(text), "%ld", p); }
	virtual ~cmeta()
	{ }
	int convert(type_t t, void *dest) __MPT_OVERRIDE
	{
		if (!t) {
			if (dest) *((const uint8_t **) dest) = 0;
			return 's';
		}
		if (t == 's') {
			if (dest) *((const char **) dest) = text;
			return 's';
		}
		if (t == MPT_type_toVector('c')) {
			struct iovec *vec = (struct iovec *) dest;
			if (vec) { vec->iov_base = text; vec->iov_len = strlen(text); }
			return 's';
		}
		return BadType;
	}
	void unref() __MPT_OVERRIDE
	{
		long i;
		for (i = 0; i < nmetas; i++) {
			if (metas[i] == this) {
				metas[i] = metas[--nmetas];
				delete this;
				return;
			}
		}
		badunref++;
	}
	uintptr_t addref() __MPT_OVERRIDE
	{ return 0; }
	metatype *clone() const __MPT_OVERRIDE
	{ return cm_new(payload); }
	long payload;
	char text[24];
};
static metatype *cm_new(long payload)
{
	cmeta *c;
	if (metafail_countdown > 0 && !--metafail_countdown) { fail_fired = 1; return 0; }
	if (nmetas >= MAXMETA) return 0;
	c = new cmeta(payload);
	metas[nmetas++] = c;
	return c;
}
# define META_KNOWN(m, i) ((const void *) static_cast<metatype *>(metas[i]) == (const void *) (m))
#endif

/* the library's value creator: every value the library itself attaches to a
 * node (node_assign.c, node_append.c, mpt_meta_set) is a counting object */
TU_EXTERN MPT_INTERFACE(metatype) *mpt_meta_new(const MPT_STRUCT(value) *val)
{
	const void *src;
	const char *text;
	size_t len = 0;
	char buf[32];
#ifdef TU_CXX
	src = val->data();
	text = mpt_data_tostring(&src, val->type(), &len);
#else
	src = val->_addr;
	text = mpt_data_tostring(&src, val->_type, &len);
#endif
	if (!text) return 0;
	if (len >= sizeof(buf)) len = sizeof(buf) - 1;
	memcpy(buf, text, len);
	buf[len] = 0;
	return cm_new(strtol(buf, 0, 10));
}

/* value of a node, read with the library's getter; -1 = a value object that does not exist (any more) */
static long node_value(const tnode *n)
{
	const char *txt;
	long i;
	if (!n->_meta) return 0;
	for (i = 0; i < nmetas; i++) if (META_KNOWN(n->_meta, i)) break;
	if (i >= nmetas) return -1;
#ifdef TU_CXX
	txt = n->data();
#else
	txt = mpt_node_data(n, 0);
#endif
	return txt ? strtol(txt, 0, 10) : -2;
}

/* ---------- the process-wide configuration of the library ---------- */
#ifndef TU_CXX
# include "config/config_global.c"    /* the repository's file, unchanged: nodeGlobal is visible here */
#endif

/* ---------- handles ---------- */
static int id_of(const tnode *p)
{
	int i;
	if (!p) return 0;
	for (i = 1; i <= nmax; i++) {
		if (tabstate[i] == 1 && tab[i] == p) return i;
	}
	return -1;
}
static tnode *ptr_of(long long id)
{
	if (id < 1 || id > nmax || tabstate[id] != 1) return 0;
	return tab[id];
}
static int enter(tnode *p)
{
	int i;
	if (!p) return 0;
	if ((i = id_of(p)) > 0) return i;
	for (i = 1; i <= nmax; i++) {
		if (!tabstate[i]) { tab[i] = p; tabstate[i] = 1; return i; }
	}
	return -1;
}
/* enter a freshly made structure in pre-order (bounded walk) */
static void enter_list(tnode *p, int *budget)
{
	for (; p && *budget > 0; p = p->next) {
		if (id_of(p) > 0) return;     /* runs into known nodes: stop */
		--*budget;
		if (enter(p) < 0) return;
		enter_list(p->children, budget);
	}
}
/* nodes the library made during a call: everything reachable (over next and
 * children) from the given start and from the live handles that is not in
 * the table is entered in the order of allocation */
static tnode *found[4 * MAXN];
static int nfound;
static long find_budget;
static void find_list(tnode *p, int depth)
{
	int k = 0;
	for (; p && k < 4 * MAXN && depth < 64 && find_budget > 0; p = p->next, k++) {
		--find_budget;
		int i, seen = 0;
		if (!alloc_serial_of(p)) return;        /* not a block of the seam: do not follow */
		if (id_of(p) < 0) {
			for (i = 0; i < nfound; i++) if (found[i] == p) seen = 1;
			if (seen) return;
			if (nfound < (int) (sizeof(found) / sizeof(*found))) found[nfound++] = p;
		}
		find_list(p->children, depth + 1);
	}
}
static void discover(tnode *start)
{
	int i, j;
	nfound = 0;
	find_budget = 64 * MAXN;
	find_list(start, 0);
	for (i = 1; i <= nmax; i++) {
		if (tabstate[i] == 1) { find_list(tab[i]->children, 1); find_list(tab[i]->next, 1); }
	}
	for (i = 0; i < nfound; i++) {
		for (j = i + 1; j < nfound; j++) {
			if (alloc_serial_of(found[j]) < alloc_serial_of(found[i])) { tnode *t = found[i]; found[i] = found[j]; found[j] = t; }
		}
	}
	for (i = 0; i < nfound; i++) enter(found[i]);
}

#ifdef TU_CXX
static int nobjs, objs_made, objs_released, badobj;
#endif
static void drv_reset(void)
{
	int i;
	for (i = 0; i <= MAXN; i++) { tab[i] = 0; tabstate[i] = 0; }
	nallocs = 0; badfree = 0; nfreed = 0; alloc_serial = 0;
	nmetas = 0; badunref = 0;
	nmax = 0;
#ifdef TU_CXX
	nobjs = objs_made = objs_released = badobj = 0;
#endif
	fail_countdown = metafail_countdown = 0;
#ifndef TU_CXX
	nodeGlobal = 0;
#endif
}

static long long alloc_mark;   /* allocated blocks before a call that must leave nothing behind */
static int quiet;   /* step given with q=1: execute, log nothing but the step itself */
static int with_grow, with_fired, with_blocks;

static void release_slots(void)
{
	int i;
	for (i = 1; i <= nmax; i++) {
		if (tabstate[i] == 2) { tabstate[i] = 0; tab[i] = 0; }
	}
	nfreed = 0;
	with_grow = with_fired = with_blocks = 0;
}

/* the state after the call (everything but "ret") */
static int skipped;
static void emit_state(void)
{
	int i, j, k;
	j_int("skip", skipped);
	skipped = 0;
	if (with_fired) j_int("fired", fail_fired);
	if (with_grow) j_int("grow", (long long) nallocs - alloc_mark);
	if (with_blocks) j_int("blocks", (long long) nallocs);
	/* released handles, ascending (duplicates stay) */
	for (i = 0; i < nfreed; i++) {
		for (j = i + 1; j < nfreed; j++) {
			if (freed[j] < freed[i]) { k = freed[i]; freed[i] = freed[j]; freed[j] = k; }
		}
	}
	j_arr_open("freed");
	for (i = 0; i < nfreed; i++) j_item_int(freed[i]);
	j_arr_close();
	j_arr_open("links");
	for (i = 1; i <= nmax; i++) {
		j_sep();
		fputc('[', drv_out);
		if (tabstate[i] == 1) {
			const tnode *n = tab[i];
			fprintf(drv_out, "%d,%d,%d,%d", id_of(n->next), id_of(n->prev), id_of(n->parent), id_of(n->children));
		}
		fputc(']', drv_out);
		drv_first = 0;
	}
	j_arr_close();
	j_arr_open("names");
	for (i = 1; i <= nmax; i++) {
		char buf[1024];
		buf[0] = 0;
		if (tabstate[i] == 1) {
			/* the library's getter (null for a node without name) */
			const char *d = mpt_node_ident(tab[i]);
			if (d) {
				size_t l = strlen(d);
				if (l >= sizeof(buf)) l = sizeof(buf) - 1;
				memcpy(buf, d, l);
				buf[l] = 0;
			}
		}
		j_item_str(buf);
	}
	j_arr_close();
	j_arr_open("vals");
	for (i = 1; i <= nmax; i++) {
		j_item_int(tabstate[i] == 1 ? node_value(tab[i]) : 0);
	}
	j_arr_close();
	j_int("metas", nmetas);
	drv_dbg();
	j_int("badfree", badfree);
	j_int("badunref", badunref);
	j_int("allocs", (long long) nallocs);
	drv_end();
	release_slots();
}
static int emit_quiet(struct cmd *c)
{
	if (!quiet) return 0;
	drv_begin(c);
	drv_dbg();
	drv_end();
	release_slots();
	return 1;
}
static void emit(struct cmd *c, int isnum, long long num, const char *str,
                 const long long *seq, size_t seqlen)
{
	if (emit_quiet(c)) return;
	drv_begin(c);
	if (seq) j_ints("ret", seq, seqlen);
	else if (isnum) j_int("ret", num);
	else j_str("ret", str);
	emit_state();
}
#define RET_NUM(c, v)  emit(c, 1, (long long) (v), 0, 0, 0)
#define RET_STR(c, s)  emit(c, 0, 0, s, 0, 0)
static void emit_skip(struct cmd *c)
{
	if (emit_quiet(c)) return;
	drv_begin(c);
	j_str("ret", "skipped");
	skipped = 1;
	emit_state();
}

static const char *arg_name(const struct cmd *c, const char *key)
{
	const char *r = drv_raw(c, key);
	if (!r || !strcmp(r, "-")) return "";
	return r;
}
/* path argument "a,b,c" -> "a.b.c" (malloc'd; "-" = no element) */
static char *arg_path(const struct cmd *c, const char *key)
{
	const char *r = drv_raw(c, key);
	char *s, *p;
	if (!r || !strcmp(r, "-")) r = "";
	s = strdup(r);
	for (p = s; *p; p++) if (*p == ',') *p = '.';
	return s;
}

/* traversal callback: note the visited handles and depths, stop at the k-th call */
struct visit {
	long long seq[4 * MAXN];
	long long depth[4 * MAXN];
	size_t n;
	size_t stop;
};
static int visit_node(tnode *n, void *ctx, size_t depth)
{
	struct visit *v = (struct visit *) ctx;
	if (v->n >= sizeof(v->seq) / sizeof(*v->seq)) return 1;
	v->seq[v->n] = id_of(n);
	v->depth[v->n++] = (long long) depth;
	return (v->stop && v->n >= v->stop) ? 1 : 0;
}

/* clear parent and prev below a node (the caller chained nodes by hand) */
static void scramble(tnode *n, int *budget)
{
	tnode *c;
	for (c = n->children; c && *budget > 0; c = c->next) {
		--*budget;
		c->parent = 0;
		c->prev = 0;
		scramble(c, budget);
	}
}


#ifdef TU_CXX
/* ---------- item trees (mpt++/item_group.cpp, collection.cpp) ----------
 * Tracked group / leaf objects: construction and destruction are counted per
 * object; a second destruction of an object that is not alive is counted
 * (badobj) -- ASan reports it as well.
 */
#define MAXOBJ 1024
static const void *objs[MAXOBJ];
static void obj_add(const void *p)
{
	if (nobjs < MAXOBJ) objs[nobjs++] = p;
	objs_made++;
}
static void obj_del(const void *p)
{
	int i;
	for (i = 0; i < nobjs; i++) {
		if (objs[i] == p) { objs[i] = objs[--nobjs]; objs_released++; return; }
	}
	badobj++;
}
class tleaf : public metatype
{
public:
	tleaf() { obj_add(this); }
	virtual ~tleaf() { obj_del(this); }
	int convert(type_t t, void *dest) __MPT_OVERRIDE
	{
		if (!t) {
			if (dest) *((const uint8_t **) dest) = 0;
			return 'y';
		}
		if (t == 'y') {
			if (dest) *((const void **) dest) = this;
			return 'y';
		}
		return BadType;
	}
	void unref() __MPT_OVERRIDE { delete this; }
	metatype *clone() const __MPT_OVERRIDE { return new tleaf; }
};
class tgroup : public item_group
{
public:
	tgroup() { obj_add(this); }
	virtual ~tgroup() { obj_del(this); }
	class metatype *create(const char *type, int len = -1) __MPT_OVERRIDE
	{
		if (len < 0) len = type ? (int) strlen(type) : 0;
		if (len == 1 && type[0] == 'g') return new tgroup;
		if (len == 1 && type[0] == 'l') return new tleaf;
		return 0;
	}
};
/* node names "<kind> <name>": kind g for a node without value, l for one with a value */
static void items_rename(tnode *p, int *budget)
{
	for (; p && *budget > 0; p = p->next) {
		char buf[1100];
		const char *nm = mpt_node_ident(p);
		--*budget;
		snprintf(buf, sizeof(buf), "%c %s", p->_meta ? 'l' : 'g', nm ? nm : "");
		p->ident.set_name(buf, (int) strlen(buf));
		items_rename(p->children, budget);
	}
}
struct item_walk {
	const relation *rel;
	const char *const *keys;
	int nkeys;
	int *index;                 /* pre-order number of the items */
	char *finds; size_t flen, fcap;
	int depth;
};
static const void *item_order[MAXOBJ];
static int nitem_order;
static void buf_add(struct item_walk *w, const char *txt)
{
	size_t l = strlen(txt);
	if (w->flen + l + 1 > w->fcap) {
		w->fcap = (w->flen + l + 1) * 2;
		w->finds = (char *) realloc(w->finds, w->fcap);
	}
	memcpy(w->finds + w->flen, txt, l + 1);
	w->flen += l;
}
static int item_number(const void *p)
{
	int i;
	for (i = 0; i < nitem_order; i++) if (item_order[i] == p) return i + 1;
	return -1;
}
/* first pass: number the items in pre-order, print the nested tree */
static int item_print(void *ctx, const identifier *id, convertable *conv, const collection *)
{
	(void) ctx;
	metatype *mt = static_cast<metatype *>(conv);       /* items of an item_group are metatypes */
	group *g = 0;
	const char *nm = id ? id->name() : 0;
	j_sep();
	fputc('[', drv_out); drv_first = 1;
	j_item_str(nm ? nm : "");
	if (mt && nitem_order < MAXOBJ) item_order[nitem_order++] = mt;
	if (mt && (g = *mt)) {
		j_item_str("g");
		j_sep(); fputc('[', drv_out); drv_first = 1;
		g->each(item_print, 0);
		fputc(']', drv_out); drv_first = 0;
	} else {
		j_item_str(mt ? "l" : "?");
		j_sep(); fputs("[]", drv_out); drv_first = 0;
	}
	fputc(']', drv_out); drv_first = 0;
	return 0;
}
/* second pass: for every group (pre-order) what its relation finds for each key, as group and as leaf */
static void item_finds(struct item_walk *w, const group *g, const relation *parent);
static int item_descend(void *ctx, const identifier *, convertable *conv, const collection *)
{
	struct item_walk *w = (struct item_walk *) ctx;
	metatype *mt = static_cast<metatype *>(conv);
	group *g;
	if (mt && (g = *mt)) item_finds(w, g, w->rel);
	return 0;
}
static void item_finds(struct item_walk *w, const group *g, const relation *parent)
{
	collection::relation rel(*g, parent);
	const relation *save = w->rel;
	int k, pass;
	char tmp[32];
	buf_add(w, w->flen ? ",[" : "[");
	for (pass = 0; pass < 2; pass++) {
		type_t type = pass ? (type_t) 'y' : (type_t) type_properties<group *>::id(true);
		buf_add(w, pass ? ",[" : "[");
		for (k = 0; k < w->nkeys; k++) {
			convertable *c = rel.find(type, w->keys[k], -1);
			snprintf(tmp, sizeof(tmp), "%s%d", k ? "," : "", c ? item_number(static_cast<metatype *>(c)) : 0);
			buf_add(w, tmp);
		}
		buf_add(w, "]");
	}
	buf_add(w, "]");
	w->rel = &rel;
	g->each(item_descend, w);
	w->rel = save;
}
/* chain of node relations along the parent links: anc[0] = the node itself, anc[d - 1] = its root */
static convertable *nrel_find(const tnode **anc, int i, const relation *parent, const char *key)
{
	node_relation rel(anc[i], parent);
	if (i == 0) return rel.find(0, key, -1);
	return nrel_find(anc, i - 1, &rel, key);
}
struct item_stop { int n, stop; };
static int item_count_stop(void *ctx, const identifier *, convertable *, const collection *)
{
	struct item_stop *s = (struct item_stop *) ctx;
	s->n++;
	return (s->stop && s->n >= s->stop) ? TraverseStop : 0;
}
/* ---------- config::root (mpt++/config.cpp): item tree of a configuration with its own store ---------- */
struct croot_ctx {
	config::root *cr;
	char last[4096];
	long lastval;
	char first[1100];
};
static void croot_assign(config::root *cr, const char *p, long v)
{
	char txt[32];
	const char *tp = txt;
	mpt::path pp;
	value val;
	snprintf(txt, sizeof(txt), "%ld", v);
	val.set('s', &tp);
	pp.set(p, -1, '.', 0);
	(void) cr->assign(&pp, &val);
}
static void croot_fill(struct croot_ctx *c, const tnode *x, const char *prefix, int *budget)
{
	for (; x && *budget > 0; x = x->next) {
		char p[4096];
		const char *nm = mpt_node_ident(x);
		--*budget;
		if (!nm || !*nm) continue;        /* a node without name cannot be addressed by a path */
		snprintf(p, sizeof(p), "%s%s%s", prefix, *prefix ? "." : "", nm);
		if (!*prefix && !c->first[0]) snprintf(c->first, sizeof(c->first), "%s", nm);
		if (x->_meta) {
			long v = node_value(x);
			croot_assign(c->cr, p, v);
			if (!c->last[0]) {           /* the first path that has a value */
				snprintf(c->last, sizeof(c->last), "%s", p);
				c->lastval = v;
			}
		}
		croot_fill(c, x->children, p, budget);
	}
}
static int croot_item(void *ctx, const identifier *id, convertable *conv, const collection *sub)
{
	const char *nm = id ? id->name() : 0, *txt;
	(void) ctx;
	if (!nm) return 0;                        /* unused slot */
	j_sep();
	fputc('[', drv_out); drv_first = 1;
	j_item_str(nm);
	txt = conv ? mpt_convertable_data(conv, 0) : 0;
	j_item_int(txt ? strtol(txt, 0, 10) : 0);
	j_sep(); fputc('[', drv_out); drv_first = 1;
	if (sub) sub->each(croot_item, 0);
	fputc(']', drv_out); drv_first = 0;
	fputc(']', drv_out); drv_first = 0;
	return 0;
}
static int croot_top(void *ctx, convertable *, const collection *top)
{
	(void) ctx;
	if (top) top->each(croot_item, 0);
	return 0;
}
#endif

/* ---------- caller obligations (steps given with g=1) ---------- */
static int isolated(const tnode *n)
{
	return !n->next && !n->prev && !n->parent;
}
static int below_or_same(const tnode *x, const tnode *top)
{
	int k;
	for (k = 0; x && k <= MAXN; k++, x = x->parent) {
		if (x == top) return 1;
	}
	return 0;
}
static const tnode *list_head_of_root(const tnode *x)
{
	int k;
	for (k = 0; x->parent && k <= MAXN; k++) x = x->parent;
	for (k = 0; x->prev && k <= MAXN; k++) x = x->prev;
	return x;
}
static int count_tree(const tnode *n, int budget);
static int count_list(const tnode *n, int budget)
{
	int cnt = 0;
	for (; n && cnt <= budget; n = n->next) cnt += count_tree(n, budget - cnt);
	return cnt;
}
static int count_tree(const tnode *n, int budget)
{
	return 1 + count_list(n->children, budget - 1);
}
static int free_slots(void)
{
	int i, cnt = 0;
	for (i = 1; i <= nmax; i++) if (!tabstate[i]) cnt++;
	return cnt;
}
static int can_attach(const tnode *n, const tnode *target)
{
	return n && target && isolated(n) && !below_or_same(target, n);
}
static int path_elems(const char *p)
{
	int n = 1;
	if (!*p) return 0;
	for (; *p; p++) if (*p == '.') n++;
	return n;
}
/* how many elements of the path a search from hd on does not find (mpt_node_query itself is asked) */
static int path_missing(tnode *hd, const char *path)
{
	DECL_PATH(p);
	int rest = 0;
	PATH_SET(p, path);
	if (hd) (void) mpt_node_query(hd, &p);
	while (PATH_MORE(p) && mpt_path_next(&p) >= 0) rest++;
	return rest;
}
static int guard_ok(const struct cmd *c)
{
	const char *a = c->action;
	long long pn = drv_int(c, "p", 0);
	tnode *n = ptr_of(drv_int(c, "n", 0)), *p = ptr_of(pn);

	if (!strcmp(a, "new")) return free_slots() > 0;
	if (!strcmp(a, "ginsert") || !strcmp(a, "ninsert")) return can_attach(n, p);
	if (!strcmp(a, "gadd") || !strcmp(a, "nadd")) return can_attach(n, ptr_of(drv_int(c, "first", 0)));
	if (!strcmp(a, "after") || !strcmp(a, "before")) {
		return n && isolated(n) && (pn == 0 || p == n || can_attach(n, p));
	}
	if (!strcmp(a, "clonefail")) {
		const char *kind = arg_name(c, "kind");
		if (!strcmp(kind, "clonenode")) return n && free_slots() >= 1;
		if (!strcmp(kind, "clonetree")) return n && free_slots() >= count_tree(n, MAXN);
		if (!strcmp(kind, "clonelist")) return n && free_slots() >= count_list(n, MAXN);
		return 0;
	}
	if (!strcmp(a, "clonenode")) return n && free_slots() >= 1;
	if (!strcmp(a, "clonetree")) return n && free_slots() >= count_tree(n, MAXN);
	if (!strcmp(a, "clonelist")) return n && free_slots() >= count_list(n, MAXN);
	if (!strcmp(a, "move")) {
		tnode *s = ptr_of(drv_int(c, "s", 0)), *d = ptr_of(drv_int(c, "d", 0));
		return s && d && list_head_of_root(s) != list_head_of_root(d);
	}
	if (!strcmp(a, "swap") || !strcmp(a, "switch")) {
		tnode *x = ptr_of(drv_int(c, "a", 0)), *y = ptr_of(drv_int(c, "b", 0));
		return x && y && (x == y || (!below_or_same(x, y) && !below_or_same(y, x)));
	}
	if (!strcmp(a, "find")) return p != 0;
	if (!strcmp(a, "assign") || !strcmp(a, "assignfail") || !strcmp(a, "cfgset") || !strcmp(a, "cfgdel")) {
		long long h = drv_int(c, "h", 0);
		tnode *hd = ptr_of(h);
		char *path = arg_path(c, "path"), *base = arg_path(c, "base"), *full;
		int ok, miss;
		full = (char *) malloc(strlen(path) + strlen(base) + 2);
		sprintf(full, "%s%s%s", base, (*base && *path) ? "." : "", path);
		miss = path_missing(hd, full);
		ok = (h == 0 || hd) && *path;
		if (a[0] == 'a') {
			if (free_slots() < miss) ok = 0;
			if (!drv_int(c, "val", 0) && !miss) ok = 0;
		} else {
			if (hd && (hd->parent || hd->prev)) ok = 0;
			if (a[3] == 's' && (!drv_int(c, "val", 0) || free_slots() < miss)) ok = 0;
			if (a[3] == 'd' && !hd) ok = 0;
		}
		if (!strcmp(a, "assignfail")) {
			long long m = drv_int(c, "failat", 0);
			if (m < 0 || m > miss || (m == 0 && !drv_int(c, "val", 0))) ok = 0;
		}
		free(path); free(base); free(full);
		return ok;
	}
	if (!strcmp(a, "parse") || !strcmp(a, "parsex")) return n && free_slots() >= (int) drv_int(c, "cnt", 0);
	if (!strcmp(a, "teardown")) return 1;
	if (!strcmp(a, "cfgload")) {
		long long h = drv_int(c, "h", 0);
		tnode *hd = ptr_of(h);
		return (h == 0 || (hd && !hd->parent && !hd->prev)) && free_slots() >= (int) drv_int(c, "cnt", 0);
	}
	return n != 0;
}

/* text -> FILE */
static FILE *text_file(const uint8_t *txt, size_t len)
{
	FILE *fp = tmpfile();
	if (!fp) return 0;
	if (len && fwrite(txt, 1, len, fp) != len) { fclose(fp); return 0; }
	rewind(fp);
	return fp;
}

static void drv_step(struct cmd *c)
{
	const char *a = c->action;
	tnode *n = ptr_of(drv_int(c, "n", 0));

	quiet = (int) drv_int(c, "q", 0);
	if (drv_int(c, "g", 0) && strcmp(a, "init") && !guard_ok(c)) {
		emit_skip(c);
		return;
	}
	if (!strcmp(a, "init")) {
		drv_reset();
		nmax = (int) drv_int(c, "n", 4);
		if (nmax > MAXN) nmax = MAXN;
		RET_STR(c, "ok");
	}
	else if (!strcmp(a, "new")) {
		const char *name = arg_name(c, "name");
		long v = (long) drv_int(c, "val", 0);
		size_t len = strlen(name);
		int id = 0;
#ifdef TU_CXX
		tnode *nn = node::create(name, (int) len);
		if (nn) {
			if (v) nn->set_metatype(cm_new(v));
			id = enter(nn);
		}
#else
		tnode *nn = mpt_node_new(len + 1);
		if (nn) {
			mpt_identifier_set(&nn->ident, name, (int) len);
			if (v) nn->_meta = cm_new(v);
			id = enter(nn);
		}
#endif
		RET_NUM(c, id);
	}
	else if (!strcmp(a, "ginsert") || !strcmp(a, "ninsert")) {
		tnode *p = ptr_of(drv_int(c, "p", 0));
		int pos = (int) drv_int(c, "pos", 0), r;
		r = (a[0] == 'g') ? mpt_gnode_insert(p, pos, n) : mpt_node_insert(p, pos, n);
		RET_STR(c, r < 0 ? "refused" : "ok");
	}
	else if (!strcmp(a, "gadd") || !strcmp(a, "nadd")) {
		tnode *f = ptr_of(drv_int(c, "first", 0)), *r;
		int pos = (int) drv_int(c, "pos", 0);
		r = (a[0] == 'g') ? mpt_gnode_add(f, pos, n) : mpt_node_add(f, pos, n);
		RET_NUM(c, id_of(r));
	}
	else if (!strcmp(a, "after") || !strcmp(a, "before")) {
		tnode *p = ptr_of(drv_int(c, "p", 0)), *r;
		r = (a[0] == 'a') ? mpt_gnode_after(p, n) : mpt_gnode_before(p, n);
		RET_NUM(c, id_of(r));
	}
	else if (!strcmp(a, "unlink")) {
		tnode *r = mpt_node_unlink(n);
		RET_NUM(c, id_of(r));
	}
	else if (!strcmp(a, "destroy")) {
		tnode *r = mpt_node_destroy(n);
		RET_NUM(c, r ? id_of(r) : 0);
	}
	else if (!strcmp(a, "clear")) {
		mpt_node_clear(n);
		RET_STR(c, "ok");
	}
	else if (!strcmp(a, "clonenode") || !strcmp(a, "clonetree") || !strcmp(a, "clonelist")) {
		tnode *r;
		int budget = MAXN;
		r = (a[5] == 'n') ? mpt_node_clone(n) : (a[5] == 't') ? mpt_tree_clone(n) : mpt_list_clone(n);
		enter_list(r, &budget);
		RET_NUM(c, id_of(r));
	}
	else if (!strcmp(a, "clonefail")) {
		const char *kind = arg_name(c, "kind");
		tnode *r;
		int budget = MAXN;
		alloc_mark = (long long) nallocs;
		fail_fired = 0;
		fail_countdown = (long) drv_int(c, "failat", 0);
		metafail_countdown = (long) drv_int(c, "failmeta", 0);
		r = !strcmp(kind, "clonenode") ? mpt_node_clone(n) : !strcmp(kind, "clonetree") ? mpt_tree_clone(n) : mpt_list_clone(n);
		fail_countdown = metafail_countdown = 0;
		enter_list(r, &budget);
		with_fired = with_grow = 1;
		RET_NUM(c, id_of(r));
	}
	else if (!strcmp(a, "move")) {
		tnode *from = ptr_of(drv_int(c, "s", 0)), *d = ptr_of(drv_int(c, "d", 0));
		tnode **fp = &from;
		if (from && from->parent && from->parent->children == from) {
			fp = &from->parent->children;
		}
		(void) mpt_node_move(fp, d);
		RET_NUM(c, id_of(*fp));
	}
	else if (!strcmp(a, "swap")) {
		mpt_gnode_swap(ptr_of(drv_int(c, "a", 0)), ptr_of(drv_int(c, "b", 0)));
		RET_STR(c, "ok");
	}
	else if (!strcmp(a, "relink")) {
		int budget = 4 * MAXN;
		scramble(n, &budget);
		mpt_gnode_relink(n);
		RET_STR(c, "ok");
	}
	else if (!strcmp(a, "pos")) {
		RET_NUM(c, id_of(mpt_gnode_pos(n, (int) drv_int(c, "pos", 0))));
	}
	else if (!strcmp(a, "locate")) {
		const char *key = arg_name(c, "key");
		RET_NUM(c, id_of(mpt_node_locate(n, (int) drv_int(c, "pos", 0), key, strlen(key), -1)));
	}
	else if (!strcmp(a, "find")) {
		const char *key = arg_name(c, "key");
		RET_NUM(c, id_of(mpt_node_find(ptr_of(drv_int(c, "p", 0)), key, (int) drv_int(c, "pos", 0))));
	}
	else if (!strcmp(a, "next")) {
		const char *key = arg_name(c, "key");
		RET_NUM(c, id_of(mpt_node_next(n, key)));
	}
	else if (!strcmp(a, "traverse")) {
		static struct visit v;
		const char *ord = arg_name(c, "ord");
		int flags = MPT_ENUM(TraverseAll);
		flags |= !strcmp(ord, "pre") ? MPT_ENUM(TraversePreOrder)
		       : !strcmp(ord, "post") ? MPT_ENUM(TraversePostOrder) : MPT_ENUM(TraverseInOrder);
		v.n = 0; v.stop = 0;
		(void) mpt_gnode_traverse(n, flags, visit_node, &v);
		emit(c, 0, 0, 0, v.seq, v.n);
	}
	/* ---------- the calls of TreeUse ---------- */
	else if (!strcmp(a, "switch")) {
		mpt_gnode_switch(ptr_of(drv_int(c, "a", 0)), ptr_of(drv_int(c, "b", 0)));
		RET_STR(c, "ok");
	}
	else if (!strcmp(a, "travx")) {
		static struct visit v;
		const char *ord = arg_name(c, "ord"), *sel = arg_name(c, "sel");
		tnode *r;
		int flags = !strcmp(sel, "leaf") ? MPT_ENUM(TraverseLeafs)
		          : !strcmp(sel, "inner") ? MPT_ENUM(TraverseNonLeafs) : MPT_ENUM(TraverseAll);
		flags |= !strcmp(ord, "pre") ? MPT_ENUM(TraversePreOrder)
		       : !strcmp(ord, "post") ? MPT_ENUM(TraversePostOrder)
		       : !strcmp(ord, "in") ? MPT_ENUM(TraverseInOrder) : MPT_ENUM(TraverseLevelOrder);
		v.n = 0; v.stop = (size_t) drv_int(c, "stop", 0);
		r = mpt_gnode_traverse(n, flags, visit_node, &v);
		if (emit_quiet(c)) return;
		drv_begin(c);
		j_open("ret");
		j_int("node", id_of(r));
		j_ints("seq", v.seq, v.n);
		j_ints("depth", v.depth, v.n);
		j_close();
		emit_state();
	}
	else if (!strcmp(a, "samelevel")) {
		RET_NUM(c, id_of(mpt_gnode_samelevel(n, (size_t) drv_int(c, "up", 0))));
	}
	else if (!strcmp(a, "sublevel")) {
		RET_NUM(c, id_of(mpt_gnode_sublevel(n, (size_t) drv_int(c, "up", 0))));
	}
	else if (!strcmp(a, "query")) {
		char *path = arg_path(c, "path");
		DECL_PATH(p);
		tnode *r;
		int rest = 0;
		PATH_SET(p, path);
		r = mpt_node_query(n, &p);
		while (PATH_MORE(p) && mpt_path_next(&p) >= 0) rest++;
		if (!emit_quiet(c)) {
			drv_begin(c);
			j_open("ret");
			j_int("node", id_of(r));
			j_int("rest", rest);
			j_close();
			emit_state();
		}
		free(path);
	}
	else if (!strcmp(a, "assign") || !strcmp(a, "assignfail")) {
		char *path = arg_path(c, "path");
		long v = (long) drv_int(c, "val", 0);
		char txt[32];
		const char *tp = txt;
		DECL_PATH(p);
		tnode *base = ptr_of(drv_int(c, "h", 0)), *r;
#ifdef TU_CXX
		value val;
		val.set('s', &tp);
#else
		MPT_STRUCT(value) val = MPT_VALUE_INIT('s', &tp);
#endif
		snprintf(txt, sizeof(txt), "%ld", v);
		PATH_SET(p, path);
		fail_fired = 0;
		if (a[6] == 'f') {
			long m = (long) drv_int(c, "failat", 0);
			if (m) fail_countdown = m; else metafail_countdown = 1;
			with_fired = 1;
		}
		r = mpt_node_assign(&base, &p, v ? &val : 0);
		fail_countdown = metafail_countdown = 0;
		discover(base);
		RET_NUM(c, id_of(r));
		free(path);
	}
	else if (!strcmp(a, "setval")) {
		long v = (long) drv_int(c, "val", 0);
#ifdef TU_CXX
		n->set_metatype(v ? cm_new(v) : 0);
		RET_STR(c, "ok");
#else
		char txt[32];
		const char *tp = txt;
		MPT_STRUCT(value) val = MPT_VALUE_INIT('s', &tp);
		int r;
		snprintf(txt, sizeof(txt), "%ld", v);
		r = mpt_meta_set(&n->_meta, &val);
		RET_STR(c, r < 0 ? "refused" : "ok");
#endif
	}
#ifndef TU_CXX
	else if (!strcmp(a, "cfgset") || !strcmp(a, "cfgdel")) {
		/* the process-wide configuration is the list that starts at handle h */
		char *path = arg_path(c, "path"), *base = arg_path(c, "base");
		long v = (long) drv_int(c, "val", 0);
		char txt[32];
		int r;
		snprintf(txt, sizeof(txt), "%ld", v);
		nodeGlobal = ptr_of(drv_int(c, "h", 0));
		if (*base) {
			MPT_STRUCT(path) bp = MPT_PATH_INIT;
			MPT_INTERFACE(metatype) *mt;
			MPT_INTERFACE(config) *cfg = 0;
			bp.sep = '.'; bp.assign = 0;
			mpt_path_set(&bp, base, -1);
			r = -1000;
			if ((mt = mpt_config_global(&bp))) {
				if (MPT_metatype_convert(mt, MPT_ENUM(TypeConfigPtr), &cfg) >= 0 && cfg) {
					r = mpt_config_set(cfg, path, a[3] == 's' ? txt : 0, '.', 0);
				}
				mt->_vptr->unref(mt);
			}
		} else {
			r = mpt_config_set(0, path, a[3] == 's' ? txt : 0, '.', 0);
		}
		discover(nodeGlobal);
		if (!emit_quiet(c)) {
			drv_begin(c);
			j_open("ret");
			if (a[3] == 's') j_str("r", r < 0 ? "refused" : "ok");
			else j_int("r", r);
			j_int("head", id_of(nodeGlobal));
			j_close();
			emit_state();
		}
		nodeGlobal = 0;
		free(path); free(base);
	}
	else if (!strcmp(a, "cfgload")) {
		/* mpt_config_load(top, <dir>) with <dir>/mpt.conf = text */
		size_t tlen = 0;
		uint8_t *txt = drv_bytes(c, "text", &tlen);
		char dir[256], fn[300];
		FILE *fp;
		int r = -1000;
		MPT_INTERFACE(metatype) *mt;
		MPT_INTERFACE(config) *cfg = 0;
		nodeGlobal = ptr_of(drv_int(c, "h", 0));
		snprintf(dir, sizeof(dir), "/tmp/x14-load-%ld", (long) getpid());
		mkdir(dir, 0700);
		snprintf(fn, sizeof(fn), "%s/mpt.conf", dir);
		if ((fp = fopen(fn, "w"))) {
			fwrite(txt, 1, tlen, fp);
			fclose(fp);
			if ((mt = mpt_config_global(0))
			    && MPT_metatype_convert(mt, MPT_ENUM(TypeConfigPtr), &cfg) >= 0 && cfg) {
				r = mpt_config_load(cfg, dir, 0);
			}
		}
		unlink(fn);
		rmdir(dir);
		discover(nodeGlobal);
		if (!emit_quiet(c)) {
			drv_begin(c);
			j_open("ret");
			j_str("r", r < 0 ? "refused" : "ok");
			j_int("head", id_of(nodeGlobal));
			j_close();
			emit_state();
		}
		nodeGlobal = 0;
		free(txt);
	}
#endif
	else if (!strcmp(a, "parse") || !strcmp(a, "parsex")) {
		/* mode=merge: mpt_parse_node; mode=replace: mpt_node_parse */
		size_t tlen = 0;
		uint8_t *txt = drv_bytes(c, "text", &tlen);
		const char *mode = arg_name(c, "mode");
		const char *fraw = drv_raw(c, "fmt");
		const char *fmt = (fraw && strcmp(fraw, "0") && strcmp(fraw, "-")) ? fraw : 0;
		FILE *fp = text_file(txt, tlen);
		int r = -1000;
		alloc_mark = (long long) nallocs;
		fail_fired = 0;
		fail_countdown = (long) drv_int(c, "failat", 0);
		if (fp) {
			if (!strcmp(mode, "replace")) {
				r = mpt_node_parse(n, fp, fmt, 0, 0);
			} else {
				DECL_PARSE(parse);
				parse.src.getc = (int (*)(void *)) mpt_getchar_stdio;
				parse.src.arg = fp;
				r = mpt_parse_node(n, &parse, fmt);
			}
			fclose(fp);
		}
		fail_countdown = 0;
		discover(n->children);
		if (drv_int(c, "failat", 0)) with_fired = 1;
		if (r < 0) with_grow = 1;
		RET_STR(c, r < 0 ? "refused" : "ok");
		free(txt);
	}
#ifdef TU_CXX
	else if (!strcmp(a, "nrel")) {
		const tnode *anc[MAXN + 1];
		const tnode *x;
		convertable *cv;
		int d = 0, i, hit = 0;
		for (x = n; x && d <= MAXN; x = x->parent) anc[d++] = x;
		cv = nrel_find(anc, d - 1, 0, arg_name(c, "key"));
		if (cv) {
			hit = -1;
			for (i = 1; i <= nmax; i++) {
				if (tabstate[i] == 1 && tab[i]->_meta && static_cast<convertable *>(tab[i]->_meta) == cv) hit = i;
			}
		}
		RET_NUM(c, hit);
	}
	else if (!strcmp(a, "croot")) {
		/* the values below n assigned path by path to a config::root, (del=1) the first top-level element
		 * removed and the first path assigned again; then the store is walked */
		static struct croot_ctx cc;
		int budget = 4 * MAXN;
		memset(&cc, 0, sizeof(cc));
		cc.cr = new config::root;
		croot_fill(&cc, n->children, "", &budget);
		if (drv_int(c, "del", 0) && cc.first[0]) {
			mpt::path pp;
			pp.set(cc.first, -1, '.', 0);
			(void) cc.cr->remove(&pp);
			if (cc.last[0]) croot_assign(cc.cr, cc.last, cc.lastval);
		}
		if (!emit_quiet(c)) {
			drv_begin(c);
			j_arr_open("ret");
			cc.cr->query(0, croot_top, 0);
			j_arr_close();
			emit_state();
		}
		delete cc.cr;
	}
#endif
#ifdef TU_CXX
	else if (!strcmp(a, "items")) {
		/* add_items(group, children of n): the forest below n read as item descriptions */
		const char *kraw = arg_name(c, "ks");
		char *kbuf = strdup(kraw), *keys[16], *tok, *save = 0;
		int nkeys = 0, budget = 4 * MAXN, made0, rel0, cleared = 0, alive_before;
		tnode *copy = n->children ? mpt_list_clone(n->children) : 0, *t, *next;
		struct item_walk w;
		struct item_stop st;
		tgroup *root;
		for (tok = strtok_r(kbuf, ",", &save); tok && nkeys < 16; tok = strtok_r(0, ",", &save)) keys[nkeys++] = tok;
		items_rename(copy, &budget);
		made0 = objs_made; rel0 = objs_released;
		root = new tgroup;
		(void) add_items(*root, copy, 0, 0);
		nitem_order = 0;
		memset(&w, 0, sizeof(w));
		w.keys = keys; w.nkeys = nkeys;
		st.n = 0; st.stop = (int) drv_int(c, "stop", 0);
		root->each(item_count_stop, &st);
		if (emit_quiet(c)) {
			root->unref();
		} else {
			drv_begin(c);
			j_open("ret");
			j_arr_open("tree");
			root->each(item_print, 0);
			j_arr_close();
			item_finds(&w, root, 0);
			j_sep(); fprintf(drv_out, "\"find\":[%s]", w.finds ? w.finds : ""); drv_first = 0;
			free(w.finds);
			j_int("visited", st.n);
			j_int("made", objs_made - made0 - 1);
			/* the first item is taken out of the group: it and everything below it is released */
			alive_before = nobjs;
			if (root->items().size()) {
				metatype *first = root->items().begin()->instance();
				if (first) root->clear(first);
			}
			cleared = alive_before - nobjs;
			j_int("cleared", cleared);
			root->unref();
			j_int("released", objs_released - rel0 - 1);
			j_int("alive", nobjs);
			j_int("bad", badobj);
			j_close();
		}
		for (t = copy; t; t = next) {
			next = t->next;
			mpt_node_unlink(t);
			mpt_node_destroy(t);
		}
		free(kbuf);
		if (!quiet) emit_state();
	}
#endif
	else if (!strcmp(a, "drop")) {
#ifdef TU_CXX
		n->~node();
		vf_free(n);
#else
		mpt_node_unlink(n);
		mpt_node_destroy(n);
#endif
		RET_STR(c, "ok");
	}
	else if (!strcmp(a, "teardown")) {
		int i;
		for (i = 1; i <= nmax; i++) {
			if (tabstate[i] == 1 && !tab[i]->parent) {
				mpt_node_unlink(tab[i]);
				mpt_node_destroy(tab[i]);
			}
		}
		with_blocks = 1;
		RET_STR(c, "ok");
	}
	else {
		RET_STR(c, "unknown-action");
	}
}

int main(int argc, char **argv)
{
	return drv_main(argc, argv);
}
