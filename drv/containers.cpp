/*
 * Driver for spec/Containers.tla (extension of C05/C04), C++ binding:
 *   kind=ref    reference_array<Obj>      (Obj: counted harness object, larger than a pointer)
 *   kind=item   item_array<Obj>, item<Obj>
 *   kind=group  item_group (append / clear / clone / each) and add_items()
 *               over counted harness metatypes
 * Every addref/unref of the harness objects is counted; after each call the
 * driver reports what every handle reads ([name, object, []] per element),
 * the objects' reference counters, releases of an object nobody holds
 * (under) and -- on "final" -- the number of heap blocks still alive beyond
 * the ones alive at "init" (malloc/free hooks of the sanitizer runtime).
 * No judgement here.
 */
#include "drv.h"

#include <sanitizer/allocator_interface.h>

#include "types.h"
#include "array.h"
#include "meta.h"
#include "node.h"
#include "collection.h"
#include "layout.h"

using namespace mpt;

extern "C" {
void seam_set_psize(int);
long seam_refcount(const buffer *);
int seam_is_alloc(const buffer *);
void seam_fail_at(long);
long seam_fired(void);
}

/* the k-th allocation (buffers, name storage) made by the library inside the scope fails */
struct Inject {
	Inject(long k) { fired = 0; seam_fail_at(k); }
	~Inject() { fired = seam_fired(); seam_fail_at(0); }
	static long fired;
};
long Inject::fired;

#define MAXH 8
#define MAXO 8
#define MAXN 8

/* ---------- heap blocks alive ---------- */
static volatile long heap_live;
static void hook_malloc(const volatile void *p, size_t n) { (void) n; if (p) ++heap_live; }
static void hook_free(const volatile void *p) { if (p) --heap_live; }
static long heap_base;

/* ---------- counted harness objects ---------- */
/* solo: the object refuses further references (addref answers 0, as the library's small text metatypes do);
 * its counter starts at 0 and is 1 while its single owner holds it */
struct Obj {
	long refs, under;
	int  id, solo;
	void unref() { if (refs <= 0) ++under; else --refs; }
	uintptr_t addref() { return solo ? 0 : (uintptr_t) ++refs; }
};
static Obj objs[MAXO + 1];

class HMeta : public metatype
{
public:
	long refs, under;
	int solo;
	HMeta() : refs(1), under(0), solo(0) { }
	virtual ~HMeta() { }
	void unref() __MPT_OVERRIDE { if (refs <= 0) ++under; else --refs; }
	uintptr_t addref() __MPT_OVERRIDE { return solo ? 0 : (uintptr_t) ++refs; }
	metatype *clone() const __MPT_OVERRIDE { return 0; }
};
static HMeta *metas[MAXO + 1];

static char long_name[70000];      /* cannot be stored: identifiers carry a 16 bit length */
static const char *name_of(long n)
{
	extern const char *names[];
	if (n == 99) {
		if (!long_name[0]) memset(long_name, 'x', sizeof(long_name) - 1);
		return long_name;
	}
	return (n >= 1 && n <= MAXN) ? names[n] : 0;
}
const char *names[MAXN + 1] = {
	0, "a", "the-second-name-is-too-long-for-inline-storage", "c3", "d", "e5-long-long-long-long-long-long-long", "f", "g", "h"
};
static long name_index(const identifier &id)
{
	const char *n = id.name();
	if (!n || !*n) return n ? 0 : (id.equal(0, 0) ? 0 : -1);
	for (int k = 1; k <= MAXN; k++) if (!strcmp(n, names[k])) return k;
	return -1;
}

/* ---------- handles ---------- */
struct RA : public reference_array<Obj> {
	RA(int len = -1) : reference_array<Obj>(len) { }
	mpt::content<reference<Obj> > *c() const { return _ref.instance(); }
};
struct IA : public item_array<Obj> {
	IA(int len = -1) : item_array<Obj>(len) { }
	mpt::content<item<Obj> > *c() const { return _ref.instance(); }
};
struct GA : public item_array<metatype> {
	static const buffer *of(const item_array<metatype> &a) { return static_cast<const GA &>(a)._ref.instance(); }
};
struct HG : public item_group {
	const buffer *c() const { return GA::of(_items); }
};

enum { K_REF, K_ITEM, K_GROUP };
static int kind, nh, no;
static RA *R;
static IA *I;
static HG *G[MAXH];

static void drv_reset(void)
{
	R = 0; I = 0;                       /* abandoned, not destroyed */
	for (int i = 0; i < MAXH; i++) G[i] = 0;
	nh = 0;
	seam_set_psize(0);
}

static const buffer *hbuf(int i)
{
	const buffer *b = 0;
	if (kind == K_REF) b = R[i].c();
	else if (kind == K_ITEM) b = I[i].c();
	else if (G[i]) b = G[i]->c();
	return (b && seam_is_alloc(b)) ? b : 0;
}
static bool hshared(int i) { const buffer *b = hbuf(i); return b && seam_refcount(b) > 1; }

static long obj_index(const void *p)
{
	if (!p) return 0;
	for (int k = 1; k <= no; k++) {
		if (kind == K_GROUP ? (p == (const void *) metas[k]) : (p == (const void *) &objs[k])) return k;
	}
	return -1;
}

struct each_ctx { int first; };
static int each_item(void *ptr, const identifier *id, convertable *conv, const collection *)
{
	each_ctx *ctx = static_cast<each_ctx *>(ptr);
	if (!conv) return 0;               /* no instance: not an item of the group */
	fprintf(drv_out, "%s[%ld,%ld,[]]", ctx->first ? "" : ",", id ? name_index(*id) : 0L, obj_index(static_cast<metatype *>(conv)));
	ctx->first = 0;
	return 0;
}

static void emit_all(const char *ret, long long out, bool final)
{
	long under = 0;
	j_str("ret", ret);
	j_int("out", out);
	j_arr_open("vals");
	for (int i = 0; i < nh; i++) {
		j_sep();
		fputc('[', drv_out);
		if (kind == K_REF) {
			long n = R[i].length();
			const reference<Obj> *e = R[i].begin();
			for (long s = 0; s < n; s++) fprintf(drv_out, "%s[0,%ld,[]]", s ? "," : "", obj_index(e[s].instance()));
		}
		else if (kind == K_ITEM) {
			long n = I[i].length();
			const item<Obj> *e = I[i].begin();
			for (long s = 0; s < n; s++) fprintf(drv_out, "%s[%ld,%ld,[]]", s ? "," : "", name_index(e[s]), obj_index(e[s].instance()));
		}
		else if (G[i]) {
			each_ctx ctx = { 1 };
			G[i]->each(each_item, &ctx);
		}
		fputc(']', drv_out);
		drv_first = 0;
	}
	j_arr_close();
	j_arr_open("refs");
	for (int k = 1; k <= no; k++) {
		if (kind == K_GROUP) { j_item_int(metas[k]->refs); under += metas[k]->under; }
		else { j_item_int(objs[k].refs); under += objs[k].under; }
	}
	j_arr_close();
	j_arr_open("fin");
	j_arr_close();
	j_int("under", under);
	j_int("leak", final ? heap_live - heap_base : -1);
}
static void emit_dbg(long long rc)
{
	drv_dbg();
	j_int("rc", rc);
	j_int("heap", heap_live - heap_base);
	j_int("fired", Inject::fired);
	j_arr_open("refs");
	for (int i = 0; i < nh; i++) j_item_int(seam_refcount(hbuf(i)));
	j_arr_close();
	j_arr_open("null");
	for (int i = 0; i < nh; i++) j_item_int(hbuf(i) ? 0 : 1);
	j_arr_close();
	j_arr_open("lens");
	for (int i = 0; i < nh; i++) {
		j_item_int(kind == K_REF ? R[i].length() : kind == K_ITEM ? I[i].length() : (G[i] ? (long) G[i]->items().size() : 0));
	}
	j_arr_close();
}
static void answer(struct cmd *c, const char *ret, long long out, long long rc = 0, bool final = false)
{
	drv_begin(c);
	emit_all(ret, out, final);
	emit_dbg(rc);
	drv_end();
}

/* a reference of its own for the callee; of a non-shareable object the only one (busy() says when it is taken) */
static Obj *obj_take(long o)
{
	if (o < 1 || o > no) return 0;
	if (objs[o].solo) objs[o].refs = 1;
	else objs[o].addref();
	return &objs[o];
}
static HMeta *meta_take(long o)
{
	if (o < 1 || o > no) return 0;
	if (metas[o]->solo) metas[o]->refs = 1;
	else metas[o]->addref();
	return metas[o];
}
static bool busy(long o)
{
	if (o < 1 || o > no) return false;
	return kind == K_GROUP ? (metas[o]->solo && metas[o]->refs > 0) : (objs[o].solo && objs[o].refs > 0);
}

static void step_ref(struct cmd *c, int h)
{
	const char *a = c->action;
	RA &ar = R[h];
	long pos = (long) drv_int(c, "pos", 0);
	long o = (long) drv_int(c, "o", 0);
	long f = (long) drv_int(c, "f", 0);

	if (!strcmp(a, "rinsert")) {
		Obj *p = obj_take(o);
		bool r;
		{ Inject inj(f); r = ar.insert(pos, p); }
		if (!r && p) p->unref();
		answer(c, r ? "ok" : "refused", 0);
	}
	else if (!strcmp(a, "rset")) {
		Obj *p = obj_take(o);
		bool r = ar.set(pos, p);
		if (!r && p) p->unref();
		answer(c, r ? "ok" : "refused", 0);
	}
	else if (!strcmp(a, "rclear")) {
		long r = ar.clear((o >= 1 && o <= no) ? &objs[o] : 0);
		answer(c, "ok", r, r);
	}
	else if (!strcmp(a, "rcompact")) {
		ar.compact();
		answer(c, "ok", 0);
	}
	else if (!strcmp(a, "count")) {
		answer(c, "ok", ar.count());
	}
	else if (!strcmp(a, "resize")) {
		bool r;
		{ Inject inj(f); r = ar.resize((long) drv_int(c, "len", 0)); }
		answer(c, r ? "ok" : "refused", 0);
	}
	else if (!strcmp(a, "reserve")) {
		bool r = ar.reserve((long) drv_int(c, "len", 0));
		answer(c, r ? "ok" : "refused", 0);
	}
	else {
		drv_begin(c); j_str("ret", "unknown-action"); drv_dbg(); drv_end();
	}
}

static void step_item(struct cmd *c, int h)
{
	const char *a = c->action;
	IA &ar = I[h];
	long pos = (long) drv_int(c, "pos", 0);
	long o = (long) drv_int(c, "o", 0);
	long n = (long) drv_int(c, "n", 0);
	long f = (long) drv_int(c, "f", 0);
	const char *name = name_of(n);

	if (!strcmp(a, "iappend")) {
		Obj *p = obj_take(o);
		item<Obj> *it;
		{ Inject inj(f); it = ar.append(p, name); }
		if (!it && p) p->unref();          /* the caller's release after a failed append */
		answer(c, it ? "ok" : "refused", 0);
	}
	else if (!strcmp(a, "iinsert")) {
		item<Obj> *it;
		{ Inject inj(f); it = ar.insert(pos); }
		answer(c, it ? "ok" : "refused", 0);
	}
	else if (!strcmp(a, "iset")) {
		bool r;
		{
			item<Obj> src(obj_take(o));     /* the source keeps (and releases) its own reference */
			if (name) src.set_name(name);
			Inject inj(f);
			r = ar.set(pos, src);
		}
		answer(c, r ? "ok" : "refused", 0);
	}
	else if (!strcmp(a, "ielem")) {
		item<Obj> *it;
		if (hshared(h) || pos < 0 || !(it = ar.get(pos))) { answer(c, "skipped", 0); return; }
		it->set_instance(obj_take(o));
		answer(c, "ok", 0);
	}
	else if (!strcmp(a, "icompact")) {
		bool r = ar.compact();
		answer(c, "ok", r ? 1 : 0);
	}
	else if (!strcmp(a, "count")) {
		answer(c, "ok", ar.count());
	}
	else if (!strcmp(a, "resize")) {
		bool r;
		{ Inject inj(f); r = ar.resize((long) drv_int(c, "len", 0)); }
		answer(c, r ? "ok" : "refused", 0);
	}
	else if (!strcmp(a, "reserve")) {
		bool r = ar.reserve((long) drv_int(c, "len", 0));
		answer(c, r ? "ok" : "refused", 0);
	}
	else {
		drv_begin(c); j_str("ret", "unknown-action"); drv_dbg(); drv_end();
	}
}

static void step_group(struct cmd *c, int h)
{
	const char *a = c->action;
	long o = (long) drv_int(c, "o", 0);
	long n = (long) drv_int(c, "n", 0);
	long f = (long) drv_int(c, "f", 0);
	const char *name = name_of(n);

	if (!strcmp(a, "gappend")) {
		HMeta *p = meta_take(o);
		int r;
		{
			identifier id;
			if (name) id.set_name(name);
			Inject inj(f);
			r = G[h]->append(name ? &id : 0, p);
		}
		if (r < 0 && p) p->unref();
		answer(c, r < 0 ? "refused" : "ok", r, r);
	}
	else if (!strcmp(a, "gadd")) {
		bool r;
		{
			node nd(meta_take(o));            /* the node owns one reference and releases it */
			if (name) nd.ident.set_name(name);
			{ Inject inj(f); r = add_items(*G[h], &nd, 0, 0); }
		}
		answer(c, r ? "ok" : "refused", 0);
	}
	else if (!strcmp(a, "gclear")) {
		size_t r = G[h]->clear((o >= 1 && o <= no) ? metas[o] : 0);
		answer(c, "ok", (long long) r, (long long) r);
	}
	else {
		drv_begin(c); j_str("ret", "unknown-action"); drv_dbg(); drv_end();
	}
}

static void drv_step(struct cmd *c)
{
	const char *a = c->action;
	int h = (int) drv_int(c, "h", 1) - 1;

	if (!strcmp(a, "init")) {
		const char *k = drv_raw(c, "kind");
		drv_reset();
		nh = (int) drv_int(c, "n", 2);
		no = (int) drv_int(c, "no", 2);
		if (nh > MAXH) nh = MAXH;
		if (no > MAXO) no = MAXO;
		kind = (k && !strcmp(k, "item")) ? K_ITEM : (k && !strcmp(k, "group")) ? K_GROUP : K_REF;
		for (int i = 0; i <= MAXO; i++) {
			objs[i].refs = 1; objs[i].under = 0; objs[i].id = i; objs[i].solo = 0;
			if (!metas[i]) metas[i] = new HMeta;
			metas[i]->refs = 1; metas[i]->under = 0; metas[i]->solo = 0;
		}
		{
			size_t nl = 0;
			uint8_t *sl = drv_bytes(c, "solo", &nl);
			for (size_t i = 0; i < nl; i++) {
				if (sl[i] >= 1 && sl[i] <= MAXO) {
					objs[sl[i]].solo = 1; objs[sl[i]].refs = 0;
					metas[sl[i]]->solo = 1; metas[sl[i]]->refs = 0;
				}
			}
			free(sl);
		}
		if (kind == K_REF) R = new RA[MAXH];
		if (kind == K_ITEM) I = new IA[MAXH];
		heap_base = heap_live;
		if (kind == K_GROUP) for (int i = 0; i < nh; i++) G[i] = static_cast<HG *>(new item_group);
		answer(c, "ok", 0);
		return;
	}
	if (!strcmp(a, "final")) {
		for (int i = 0; i < nh; i++) {
			if (kind == K_REF) R[i] = RA();
			else if (kind == K_ITEM) I[i] = IA();
			else if (G[i]) { G[i]->unref(); G[i] = 0; }
		}
		answer(c, "ok", 0, 0, true);
		return;
	}
	if (h < 0 || h >= nh || (kind == K_GROUP && !G[h])) {
		drv_begin(c); j_str("ret", "bad-handle"); drv_dbg(); drv_end();
		return;
	}
	if (drv_has(c, "o") && busy((long) drv_int(c, "o", 0))
	    && strcmp(a, "rclear") && strcmp(a, "gclear")) {
		answer(c, "skipped", 0);          /* the non-shareable object has its owner: nothing to hand over */
		return;
	}
	if (!strcmp(a, "copy")) {
		int g = (int) drv_int(c, "from", 0) - 1;
		if (g < 0 || g >= nh || g == h) { answer(c, "skipped", 0); return; }
		if (kind == K_REF) R[h] = R[g];
		else if (kind == K_ITEM) I[h] = I[g];
		else {
			item_group *cl = G[g]->clone();
			G[h]->unref();
			G[h] = static_cast<HG *>(cl);
		}
		answer(c, "ok", 0);
	}
	else if (!strcmp(a, "ctor") && kind != K_GROUP) {
		int len = (int) drv_int(c, "len", -1);
		if (hbuf(h)) { answer(c, "skipped", 0); return; }
		if (kind == K_REF) R[h] = RA(len);
		else I[h] = IA(len);
		answer(c, "ok", 0);
	}
	else if (!strcmp(a, "release")) {
		if (kind == K_REF) R[h] = RA();
		else if (kind == K_ITEM) I[h] = IA();
		else G[h]->clear(0);
		answer(c, "ok", 0);
	}
	else if (kind == K_REF) step_ref(c, h);
	else if (kind == K_ITEM) step_item(c, h);
	else step_group(c, h);
}

/* first use of the library's process-wide tables (type registry, static empty buffers) must not
 * count as storage left behind by a behaviour */
static void warm_up(void)
{
	struct cmd c;
	static char l0[] = "init kind=group n=2 no=2";
	static char l1[] = "gadd h=1 o=1 n=2";
	static char l2[] = "gappend h=2 o=1 n=1";
	static char l3[] = "final";
	static char *ls[] = { l0, l1, l2, l3 };
	FILE *save = drv_out;
	drv_out = fopen("/dev/null", "w");
	for (unsigned i = 0; i < sizeof(ls) / sizeof(*ls); i++) {
		if (drv_parse(ls[i], &c)) drv_step(&c);
	}
	{ RA a; a.insert(0, 0); IA b; b.append(0, names[2]); b.compact(); }
	fclose(drv_out);
	drv_out = save;
}

int main(int argc, char **argv)
{
	static char outbuf[1 << 16];
	setvbuf(stdout, outbuf, _IOFBF, sizeof(outbuf));
	__sanitizer_install_malloc_and_free_hooks(hook_malloc, hook_free);
	drv_out = stdout;
	warm_up();
	return drv_main(argc, argv);
}
