/*
 * Allocation seam for the C++ drivers: mptcore/array/buffer_alloc.c compiled
 * as C into the driver (interposing the library's copy) with access to the
 * allocation granularity and the reference count.
 */
#include "types.h"
#include "array.h"

#include "array/buffer_alloc.c"

void seam_set_psize(int n)
{
	_mpt_buffer_alloc_psize = n;
}
long seam_refcount(const MPT_STRUCT(buffer) *b)
{
	const MPT_STRUCT(bufferData) *bd;
	if (!b) return 1;
	bd = MPT_baseaddr(bufferData, b, buf);
	return (long) bd->_ref._val;
}
/* identity of the allocator serving a buffer (the empty default instances of the
 * C++ templates are static objects, not allocations) */
int seam_is_alloc(const MPT_STRUCT(buffer) *b)
{
	return b && b->_vptr->unref == _mpt_buffer_alloc_unref;
}
