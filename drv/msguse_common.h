/*
 * Shared part of drv/msguse.c and drv/msguse_cxx.cpp (X17): the message under
 * test as exactly sized heap fragments, lists of byte strings, the record tail.
 *
 * The including file defines (before inclusion, optional)
 *     MSGUSE_READ(m, n, dest)   how to read        (default mpt_message_read)
 *     MSGUSE_LENGTH(m)          how to measure     (default mpt_message_length)
 */
#ifndef MSGUSE_COMMON_H
#define MSGUSE_COMMON_H

#ifndef MSGUSE_READ
# define MSGUSE_READ(m, n, dest) mpt_message_read((m), (n), (dest))
#endif
#ifndef MSGUSE_LENGTH
# define MSGUSE_LENGTH(m) mpt_message_length(m)
#endif

#define FILL 238

static MPT_STRUCT(message) msg;
static uint8_t **blocks;          /* fragment allocations of the current message */
static size_t *blens;
static size_t nblocks;
static struct iovec *contbase;    /* allocation holding msg.cont */
static uint8_t *orig;             /* the bytes the message was made of */
static size_t orig_len;

static uint8_t *dup_bytes(const void *src, size_t len)
{
	uint8_t *p = (uint8_t *) malloc(len ? len : 1);
	if (len && src) memcpy(p, src, len);
	return p;
}

static void msg_reset(void)
{
	size_t i;
	for (i = 0; i < nblocks; i++) free(blocks[i]);
	free(blocks); blocks = 0;
	free(blens); blens = 0; nblocks = 0;
	free(contbase); contbase = 0;
	free(orig); orig = 0; orig_len = 0;
	memset(&msg, 0, sizeof(msg));
}

/* fragments from (data, cut): the first is base/used, the others cont[];
 * no fragment at all: the all-zero cursor */
static void set_message(const uint8_t *data, size_t dlen, const long long *cut, size_t ncut)
{
	size_t i, pos = 0;
	msg_reset();
	orig = dup_bytes(data, dlen);
	orig_len = dlen;
	if (!ncut) return;
	blocks = (uint8_t **) calloc(ncut, sizeof(*blocks));
	blens = (size_t *) calloc(ncut, sizeof(*blens));
	nblocks = ncut;
	if (ncut > 1) contbase = (struct iovec *) malloc((ncut - 1) * sizeof(*contbase));
	for (i = 0; i < ncut; i++) {
		size_t l = (size_t) cut[i];
		if (pos + l > dlen) l = dlen - pos;
		blocks[i] = (uint8_t *) malloc(l);       /* exact size: a read behind it is seen by ASan */
		if (l) memcpy(blocks[i], data + pos, l);
		blens[i] = l;
		if (!i) {
			msg.base = blocks[i];
			msg.used = l;
		} else {
			contbase[i - 1].iov_base = blocks[i];
			contbase[i - 1].iov_len = l;
		}
		pos += l;
	}
	msg.cont = contbase;
	msg.clen = ncut - 1;
}

/* bytes the cursor stands for (walks the struct, no library call) */
static uint8_t *flatten(const MPT_STRUCT(message) *m, size_t *len)
{
	size_t total = m->used, i, pos = 0;
	uint8_t *out;
	for (i = 0; i < m->clen; i++) total += m->cont[i].iov_len;
	out = (uint8_t *) malloc(total + 1);
	if (m->used) memcpy(out, m->base, m->used);
	pos = m->used;
	for (i = 0; i < m->clen; i++) {
		if (m->cont[i].iov_len) memcpy(out + pos, m->cont[i].iov_base, m->cont[i].iov_len);
		pos += m->cont[i].iov_len;
	}
	*len = total;
	return out;
}
static void content_out(void)
{
	size_t n;
	uint8_t *fl = flatten(&msg, &n);
	j_bytes("content", fl, n);
	free(fl);
}
/* iovec view of the cursor: exactly 1 + clen entries; a message made of no fragment: no entry
 * (a valid address with room for none, so that looking at an entry is seen by ASan) */
static struct iovec *frag_view(size_t *n)
{
	struct iovec *v;
	size_t i;
	if (!nblocks) {
		*n = 0;
		return (struct iovec *) malloc(1);
	}
	v = (struct iovec *) malloc((1 + msg.clen) * sizeof(*v));
	v[0].iov_base = (void *) msg.base;
	v[0].iov_len = msg.used;
	for (i = 0; i < msg.clen; i++) v[i + 1] = msg.cont[i];
	*n = 1 + msg.clen;
	return v;
}

/* ---------- lists of byte strings ---------- */
struct items {
	uint8_t **p;
	size_t *l;
	size_t n;
};
#define ITEMS_INIT { 0, 0, 0 }

static void items_add(struct items *it, const void *src, size_t len)
{
	it->p = (uint8_t **) realloc(it->p, (it->n + 1) * sizeof(*it->p));
	it->l = (size_t *) realloc(it->l, (it->n + 1) * sizeof(*it->l));
	it->p[it->n] = dup_bytes(src, len);
	it->l[it->n] = len;
	it->n++;
}
static void items_clear(struct items *it)
{
	size_t i;
	for (i = 0; i < it->n; i++) free(it->p[i]);
	free(it->p); free(it->l);
	it->p = 0; it->l = 0; it->n = 0;
}
static int items_has(const struct items *it, const void *src, size_t len)
{
	size_t i;
	for (i = 0; i < it->n; i++) {
		if (it->l[i] == len && (!len || !memcmp(it->p[i], src, len))) return 1;
	}
	return 0;
}
static void items_out(const char *key, const struct items *it)
{
	size_t i, k;
	j_sep();
	fprintf(drv_out, "\"%s\":[", key);
	for (i = 0; i < it->n; i++) {
		fputs(i ? ",[" : "[", drv_out);
		for (k = 0; k < it->l[i]; k++) fprintf(drv_out, k ? ",%u" : "%u", it->p[i][k]);
		fputc(']', drv_out);
	}
	fputc(']', drv_out);
}
/* elements of a library iterator: text elements as their bytes, character
 * vectors as their bytes, anything else as <<255, type>> */
#ifdef __cplusplus
# define IT_VALUE(it)    (it)->value()
# define IT_ADVANCE(it)  (it)->advance()
# define V_TYPE(v)       (v)->type()
# define V_ADDR(v)       (v)->data()
#else
# define IT_VALUE(it)    (it)->_vptr->value(it)
# define IT_ADVANCE(it)  (it)->_vptr->advance(it)
# define V_TYPE(v)       (v)->_type
# define V_ADDR(v)       (v)->_addr
#endif
static void items_walk(struct items *out, MPT_INTERFACE(iterator) *it)
{
	int guard = 0;
	while (it && guard++ < 100000) {
		const MPT_STRUCT(value) *v = IT_VALUE(it);
		if (!v) break;
		if (V_TYPE(v) == 's' && V_ADDR(v)) {
			const char *s = *((const char * const *) V_ADDR(v));
			items_add(out, s ? s : "", s ? strlen(s) : 0);
		}
		else if (V_TYPE(v) == MPT_type_toVector('c') && V_ADDR(v)) {
			const struct iovec *vec = (const struct iovec *) V_ADDR(v);
			items_add(out, vec->iov_base, vec->iov_len);
		}
		else {
			uint8_t mark[2];
			mark[0] = 255; mark[1] = (uint8_t) V_TYPE(v);
			items_add(out, mark, 2);
		}
		if (IT_ADVANCE(it) <= 0) break;
	}
}

/* every substring of the bytes the cursor stands for whose hash is id (normally one) */
static void hash_candidates(struct items *out, uintptr_t id)
{
	size_t s, l, n;
	uint8_t *fl = flatten(&msg, &n);
	if (id == mpt_hash("", 0)) items_add(out, "", 0);
	for (s = 0; s < n; s++) {
		for (l = 1; s + l <= n; l++) {
			if (mpt_hash(fl + s, (int) l) == id && !items_has(out, fl + s, l)) {
				items_add(out, fl + s, l);
			}
		}
	}
	free(fl);
}

/* ---------- calls shared by both drivers ---------- */
static void plain_answer(struct cmd *c, const char *ret, const long long *val, size_t nval, const void *out, size_t outlen)
{
	drv_begin(c);
	j_str("ret", ret);
	j_ints("val", val, nval);
	j_bytes("out", out, outlen);
	content_out();
	drv_dbg();
	j_int("clen", (long long) msg.clen);
	drv_end();
}

static int msg_common_step(struct cmd *c)
{
	const char *a = c->action;
	if (!strcmp(a, "none")) {
		msg_reset();
		plain_answer(c, "ok", 0, 0, 0, 0);
		return 1;
	}
	if (!strcmp(a, "init")) {
		size_t dl, nc;
		uint8_t *data = drv_bytes(c, "data", &dl);
		long long *cut = drv_ints(c, "cut", &nc);
		set_message(data, dl, cut, nc);
		plain_answer(c, "ok", 0, 0, 0, 0);
		free(data); free(cut);
		return 1;
	}
	if (!strcmp(a, "read")) {
		size_t n = drv_uint(c, "n", 0);
		int dest = (int) drv_int(c, "dest", 1);
		uint8_t *tmp = (uint8_t *) malloc(n);
		long long r = (long long) MSGUSE_READ(&msg, n, dest ? tmp : 0);
		plain_answer(c, "ok", &r, 1, tmp, dest && r >= 0 && (size_t) r <= n ? (size_t) r : 0);
		free(tmp);
		return 1;
	}
	if (!strcmp(a, "length")) {
		long long r = (long long) MSGUSE_LENGTH(&msg);
		plain_answer(c, "ok", &r, 1, 0, 0);
		return 1;
	}
	return 0;
}

#endif /* MSGUSE_COMMON_H */
