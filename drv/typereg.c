/*
 * Driver for spec/TypeReg.tla (C06): one command per public registry call.
 * The registry is process-global: every behaviour runs in a fresh process.
 *
 * The driver judges nothing: it calls, copies sizes/names/ids and maps
 * results to classes (ok / refused).  The table "built-in id -> sizeof of the
 * C type it stands for" (command "sizes") is data taken from the comments
 * and declarations of mptcore/types.h.
 */
#include "seam.h"   /* allocation seam: mptcore/types/type_traits.c is compiled into this driver with malloc -> vf_malloc */
#include "drv.h"

#include <ctype.h>
#include <sys/uio.h>

#include "types.h"
#include "meta.h"
#include "object.h"
#include "array.h"
#include "event.h"
#include "convert.h"
#include "node.h"
#include "message.h"

static void drv_reset(void)
{
}

struct fixed { int id; size_t size; int managed; };
static const struct fixed fixed_tab[] = {
	/* core */
	{ MPT_ENUM(TypeUnixSocket),   sizeof(int), 0 },
	{ MPT_ENUM(TypeFilePtr),      sizeof(FILE *), 0 },
	{ MPT_ENUM(TypeAddressPtr),   sizeof(void *), 0 },
	{ MPT_ENUM(TypeReplyDataPtr), sizeof(MPT_STRUCT(reply_data) *), 0 },
	{ MPT_ENUM(TypeNodePtr),      sizeof(MPT_STRUCT(node) *), 0 },
	{ MPT_ENUM(TypeBufferPtr),    sizeof(MPT_STRUCT(buffer) *), 0 },
	{ MPT_ENUM(TypeValFmt),       sizeof(MPT_STRUCT(value_format)), 0 },
	{ MPT_ENUM(TypeValue),        sizeof(MPT_STRUCT(value)), 0 },
	{ MPT_ENUM(TypeProperty),     sizeof(MPT_STRUCT(property)), 0 },
	/* scalars */
	{ 'c', sizeof(char), 0 },
	{ 'b', sizeof(int8_t), 0 },  { 'y', sizeof(uint8_t), 0 },
	{ 'n', sizeof(int16_t), 0 }, { 'q', sizeof(uint16_t), 0 },
	{ 'i', sizeof(int32_t), 0 }, { 'u', sizeof(uint32_t), 0 },
	{ 'x', sizeof(int64_t), 0 }, { 't', sizeof(uint64_t), 0 },
	{ 'f', sizeof(float), 0 },   { 'd', sizeof(double), 0 },
	{ 's', sizeof(const char *), 0 },
#ifdef _MPT_FLOAT_EXTENDED_H
	{ 'e', sizeof(long double), 0 }, { 'E', sizeof(struct iovec), 0 },
#endif
	/* vectors of the scalars */
	{ 'C', sizeof(struct iovec), 0 },
	{ 'B', sizeof(struct iovec), 0 }, { 'Y', sizeof(struct iovec), 0 },
	{ 'N', sizeof(struct iovec), 0 }, { 'Q', sizeof(struct iovec), 0 },
	{ 'I', sizeof(struct iovec), 0 }, { 'U', sizeof(struct iovec), 0 },
	{ 'X', sizeof(struct iovec), 0 }, { 'T', sizeof(struct iovec), 0 },
	{ 'F', sizeof(struct iovec), 0 }, { 'D', sizeof(struct iovec), 0 },
	{ 'S', sizeof(struct iovec), 0 },
	/* static types with managed content */
	{ MPT_ENUM(TypeIdentifier), sizeof(MPT_STRUCT(identifier)), 1 },
	{ MPT_ENUM(TypeMetaRef),    sizeof(MPT_INTERFACE(metatype) *), 1 },
	{ MPT_ENUM(TypeArray),      sizeof(MPT_STRUCT(array)), 1 },
	{ MPT_ENUM(TypeCommand),    sizeof(MPT_STRUCT(command)), 1 },
};

/* traits objects handed to mpt_type_add must stay alive */
static int g_init(void *p, const void *q) { (void) p; (void) q; return 0; }
static void g_fini(void *p) { (void) p; }

/* memory denied to a registration: fail=k refuses the k-th allocation the library asks for during
 * the call (0 = none).  The window is exactly the registration call. */
static int g_oom;        /* the armed failure was consumed by the last registration */
static long g_allocs;    /* allocations the last registration asked for (granted ones) */
static void arm(const struct cmd *c)
{
	long k = (long) drv_int(c, "fail", 0);
	vf_step();
	vf_fail_after = k > 0 ? k - 1 : -1;
}
static void disarm(const struct cmd *c)
{
	long k = (long) drv_int(c, "fail", 0);
	g_oom = k > 0 && vf_fail_after < 0;
	g_allocs = vf_step_allocs;
	vf_fail_after = -1;
}

static long long small(size_t v)
{
	return v > 0x3fffffff ? -1 : (long long) v;
}

static void describe(MPT_TYPE(type) id)
{
	const MPT_STRUCT(type_traits) *t = mpt_type_traits(id);
	const MPT_STRUCT(named_traits) *n = 0;
	if (MPT_type_isInterface(id)) n = mpt_interface_traits(id);
	else if (MPT_type_isMetaPtr(id)) n = mpt_metatype_traits(id);
	j_int("present", t ? 1 : 0);
	j_int("size", t ? small(t->size) : 0);
	j_int("managed", t && (t->init || t->fini) ? 1 : 0);
	j_str("name", n && n->name ? n->name : "");
	j_int("ntype", n ? (long long) n->type : 0);
}
static void answer_named(struct cmd *c, const MPT_STRUCT(named_traits) *e)
{
	drv_begin(c);
	if (!e) {
		j_str("ret", "refused");
		j_ints("val", 0, 0);
		j_str("name", "");
		j_int("size", 0);
	} else {
		long long id = (long long) e->type;
		j_str("ret", "ok");
		j_ints("val", &id, 1);
		j_str("name", e->name ? e->name : "");
		j_int("size", e->traits ? small(e->traits->size) : 0);
	}
	j_int("oom", g_oom);
	drv_dbg();
	j_int("allocs", g_allocs);
	drv_end();
}
static void answer_id(struct cmd *c, int id)
{
	drv_begin(c);
	if (id < 0) {
		j_str("ret", "refused");
		j_ints("val", 0, 0);
		j_str("name", "");
		j_int("size", 0);
	} else {
		const MPT_STRUCT(type_traits) *t = mpt_type_traits(id);
		long long v = id;
		j_str("ret", "ok");
		j_ints("val", &v, 1);
		j_str("name", "");
		j_int("size", t ? small(t->size) : 0);
	}
	j_int("oom", g_oom);
	drv_dbg();
	j_int("allocs", g_allocs);
	drv_end();
}
static const char *name_arg(const struct cmd *c, const char *key)
{
	const char *r = drv_raw(c, key);
	if (!r || !strcmp(r, "-")) return "";
	return r;
}

static void drv_step(struct cmd *c)
{
	const char *a = c->action;

	if (!strcmp(a, "boot")) {
		drv_begin(c);
		j_int("x", 0);
		drv_dbg();
		drv_end();
	}
	else if (!strcmp(a, "sizes")) {
		size_t i;
		drv_begin(c);
		j_int("ptr", sizeof(void *));
		j_arr_open("fixed");
		for (i = 0; i < sizeof(fixed_tab) / sizeof(*fixed_tab); i++) {
			j_item_obj_open();
			j_int("id", fixed_tab[i].id);
			j_int("size", (long long) fixed_tab[i].size);
			j_int("managed", fixed_tab[i].managed);
			j_close();
		}
		j_arr_close();
		/* the same table indexed by id (0 = no built-in type) */
		{
			long long *sz = (long long *) calloc(0x804, sizeof(*sz)), *mn = (long long *) calloc(0x804, sizeof(*mn));
			for (i = 0; i < sizeof(fixed_tab) / sizeof(*fixed_tab); i++) {
				sz[fixed_tab[i].id] = (long long) fixed_tab[i].size;
				mn[fixed_tab[i].id] = fixed_tab[i].managed;
			}
			j_ints("fixsize", sz, 0x804);
			j_ints("fixman", mn, 0x804);
			free(sz); free(mn);
		}
		/* range constants of types.h */
		j_int("ifbase", MPT_ENUM(_TypeInterfaceBase));
		j_int("ifadd", MPT_ENUM(_TypeInterfaceAdd) - MPT_ENUM(_TypeInterfaceBase));
		j_int("ifcap", MPT_ENUM(_TypeInterfaceMax) - MPT_ENUM(_TypeInterfaceBase) + 1);
		j_int("dynbase", MPT_ENUM(_TypeDynamicBase));
		j_int("dyncap", MPT_ENUM(_TypeDynamicMax) - MPT_ENUM(_TypeDynamicBase) + 1);
		j_int("metabase", MPT_ENUM(_TypeMetaPtrBase));
		j_int("metacap", MPT_ENUM(_TypeMetaPtrMax) - MPT_ENUM(_TypeMetaPtrBase) + 1);
		j_int("genbase", MPT_ENUM(_TypeValueAdd));
		j_int("gencap", MPT_ENUM(_TypeValueMax) - MPT_ENUM(_TypeValueAdd) + 1);
		/* byte order bit of the transport format codes on this machine (message.h) */
		j_int("fmtnative", MPT_MESGVAL(ByteOrderNative));
		drv_dbg();
		drv_end();
	}
	else if (!strcmp(a, "addbasic")) {
		int r;
		arm(c);
		r = mpt_type_basic_add(drv_uint(c, "size", 0));
		disarm(c);
		answer_id(c, r);
	}
	else if (!strcmp(a, "addgeneric")) {
		size_t size = drv_uint(c, "size", 0);
		int managed = (int) drv_int(c, "managed", 0);
		MPT_STRUCT(type_traits) *t = (MPT_STRUCT(type_traits) *) malloc(sizeof(*t));
		const MPT_STRUCT(type_traits) init = { managed ? g_init : 0, managed ? g_fini : 0, size };
		int r;
		memcpy(t, &init, sizeof(*t));
		arm(c);
		r = mpt_type_add(t);
		disarm(c);
		answer_id(c, r);
	}
	else if (!strcmp(a, "addiface") || !strcmp(a, "addmeta")) {
		const char *name = name_arg(c, "name");
		const MPT_STRUCT(named_traits) *e;
		arm(c);
		e = (a[3] == 'i') ? mpt_type_interface_add(*name ? name : 0) : mpt_type_metatype_add(*name ? name : 0);
		disarm(c);
		answer_named(c, e);
	}
	else if (!strcmp(a, "byid")) {
		MPT_TYPE(type) id = (MPT_TYPE(type)) drv_uint(c, "id", 0);
		drv_begin(c);
		describe(id);
		drv_dbg();
		drv_end();
	}
	else if (!strcmp(a, "scan")) {
		MPT_TYPE(type) lo = (MPT_TYPE(type)) drv_uint(c, "lo", 0), hi = (MPT_TYPE(type)) drv_uint(c, "hi", 0), id;
		/* look every id up first, then print */
		size_t n = 0, i;
		MPT_TYPE(type) *hit = (MPT_TYPE(type) *) malloc((hi - lo + 2) * sizeof(*hit));
		for (id = lo; id <= hi; id++) {
			if (mpt_type_traits(id)) hit[n++] = id;
		}
		drv_begin(c);
		j_arr_open("list");
		for (i = 0; i < n; i++) {
			const MPT_STRUCT(type_traits) *t = mpt_type_traits(hit[i]);
			const MPT_STRUCT(named_traits) *nt = 0;
			if (MPT_type_isInterface(hit[i])) nt = mpt_interface_traits(hit[i]);
			else if (MPT_type_isMetaPtr(hit[i])) nt = mpt_metatype_traits(hit[i]);
			j_item_obj_open();
			j_int("id", (long long) hit[i]);
			j_int("size", small(t->size));
			j_int("managed", (t->init || t->fini) ? 1 : 0);
			j_str("name", nt && nt->name ? nt->name : "");
			j_int("ntype", nt ? (long long) nt->type : 0);
			j_close();
		}
		j_arr_close();
		drv_dbg();
		j_int("count", (long long) n);
		drv_end();
		free(hit);
	}
	else if (!strcmp(a, "fmtsweep")) {
		/* transport format codes: native type of all 256 code bytes, code and carried element size of the listed type ids */
		size_t nt = 0, i;
		long long *types = drv_ints(c, "types", &nt);
		long long ids[256], *codes = (long long *) calloc(nt + 1, sizeof(*codes)), *sizes = (long long *) calloc(nt + 1, sizeof(*sizes));
		for (i = 0; i < 256; i++) {
			int t = mpt_msgvalfmt_typeid((uint8_t) i);
			ids[i] = t < 0 ? -1 : t;
		}
		for (i = 0; i < nt; i++) {
			int code = mpt_msgvalfmt_code((int) types[i]);
			codes[i] = code < 0 ? -1 : code;
			sizes[i] = code < 0 ? 0 : (long long) mpt_msgvalfmt_size((uint8_t) code);
		}
		drv_begin(c);
		j_int("nat", MPT_MESGVAL(ByteOrderNative));
		j_ints("ids", ids, 256);
		j_ints("codes", codes, nt);
		j_ints("sizes", sizes, nt);
		drv_dbg();
		drv_end();
		free(codes); free(sizes); free(types);
	}
	else if (!strcmp(a, "byname")) {
		const char *text = name_arg(c, "text");
		int len = (int) drv_int(c, "len", -1);
		const MPT_STRUCT(named_traits) *e = mpt_named_traits(text, len);
		long long id = e ? (long long) e->type : 0;
		drv_begin(c);
		j_ints("val", &id, e ? 1 : 0);
		drv_dbg();
		drv_end();
	}
	else if (!strcmp(a, "alias")) {
		const char *name = name_arg(c, "name"), *sym = name_arg(c, "sym");
		size_t pad = drv_uint(c, "pad", 0), i, l = strlen(name);
		int sep = (int) drv_int(c, "sep", 0);
		char *text = (char *) malloc(l + 2 * pad + strlen(sym) + 2);
		const char *end = 0;
		int r;
		long long id;
		memcpy(text, name, l);
		if (sep) {
			for (i = 0; i < pad; i++) text[l++] = ' ';
			text[l++] = ':';
			for (i = 0; i < pad; i++) text[l++] = ' ';
			memcpy(text + l, sym, strlen(sym));
			l += strlen(sym);
		}
		text[l] = 0;
		r = mpt_alias_typeid(text, &end);
		id = r;
		drv_begin(c);
		j_ints("val", &id, r >= 0 ? 1 : 0);
		drv_dbg();
		j_int("rest", end && r >= 0 ? (long long) (end - text) : -1);
		j_str("text", text);
		drv_end();
		free(text);
	}
	else {
		drv_begin(c);
		j_str("ret", "unknown-action");
		drv_dbg();
		drv_end();
	}
}

int main(int argc, char **argv)
{
	drv_fresh_per_behaviour = 1;
	return drv_main(argc, argv);
}
