/*
 * Driver for spec/TypedBuf.tla (C05), C++ binding: typed_array<T> and
 * unique_array<T> over a tracked class T, and the buffer members
 * trim/skip/copy/move.  Every constructor, copy constructor, assignment and
 * destructor call of T is recorded; after each call the driver reports which
 * elements are alive, where they sit and the anomalies it counted.
 * "init api=<xtyped|xunique>".  Counts/positions are in elements.
 */
#include "drv.h"

#include "types.h"
#include "array.h"

using namespace mpt;

extern "C" {
void seam_set_psize(int);
long seam_refcount(const buffer *);
int seam_is_alloc(const buffer *);
}

#define MAXH 8
#define MAXV 8
#define MAXID 100000
#define M_LIVE 0x4c495645u
#define M_DEAD 0x44454144u

static uint8_t live[MAXID];     /* 0 = not alive, else 1 + value */
static uint32_t next_id;
static long n_bad, n_init, n_copy, n_fini, n_assign;

struct Tracked {
	uint32_t magic, id, val, pad;
	void born(uint32_t v) {
		++n_init;
		magic = M_LIVE; id = ++next_id; val = v; pad = 0;
		if (id < MAXID) live[id] = (uint8_t) (1 + v);
	}
	Tracked() { born(0); }
	explicit Tracked(uint32_t v) { born(v); }
	Tracked(const Tracked &s) {
		++n_copy;
		if (s.magic != M_LIVE || s.id >= MAXID || !live[s.id]) ++n_bad;   /* copy of something that is no live element */
		born(s.val);
	}
	Tracked &operator=(const Tracked &s) {
		++n_assign;
		if (magic != M_LIVE || id >= MAXID || !live[id]) ++n_bad;          /* assignment to something that is no live element */
		else { val = s.val; live[id] = (uint8_t) (1 + val); }
		return *this;
	}
	~Tracked() {
		++n_fini;
		if (magic != M_LIVE || id >= MAXID || !live[id]) { ++n_bad; return; }
		live[id] = 0;
		magic = M_DEAD;
	}
};

struct TA : public typed_array<Tracked> {
	TA(long len = -1) : typed_array<Tracked>(len) { }
	mpt::content<Tracked> *c() const { return _ref.instance(); }
};
struct UA : public unique_array<Tracked> {
	UA(long len = -1) : unique_array<Tracked>(len) { }
	mpt::content<Tracked> *c() const { return _ref.instance(); }
};

static TA *T;
static UA *U;
static int nh, nv, unique;
static const size_t esize = sizeof(Tracked);

static buffer *hbuf(int i)
{
	buffer *b = unique ? static_cast<buffer *>(U[i].c()) : static_cast<buffer *>(T[i].c());
	return (b && seam_is_alloc(b)) ? b : 0;
}
static size_t bused(const buffer *b) { return static_cast<const array::content *>(b)->length(); }
static size_t bsize(const buffer *b) { const array::content *c = static_cast<const array::content *>(b); return c->length() + c->left(); }
static uint8_t *bdata(const buffer *b) { return (uint8_t *) static_cast<const array::content *>(b)->data(); }

static void drv_reset(void)
{
	T = 0; U = 0;       /* abandoned, not destroyed */
	nh = 0;
	memset(live, 0, sizeof(live));
	next_id = 0;
	seam_set_psize(0);
}
static int first_holder(int i)
{
	for (int k = 0; k < i; k++) if (hbuf(k) && hbuf(k) == hbuf(i)) return k;
	return i;
}


/* "ok" while every buffer's reference count equals the number of handles holding it */
static const char *refs_state(void)
{
	for (int i = 0; i < nh; i++) {
		buffer *b = hbuf(i);
		long n = 0;
		if (!b) continue;
		for (int k = 0; k < nh; k++) if (hbuf(k) == b) ++n;
		if (seam_refcount(b) != n) return "bad";
	}
	return "ok";
}

static void emit_all(const char *ret)
{
	long dead = 0, dup = 0, orph = 0, nlive = 0;
	static uint8_t seen[MAXID];
	long counts[MAXV + 2];
	memset(seen, 0, next_id < MAXID ? next_id + 1 : MAXID);
	memset(counts, 0, sizeof(counts));

	j_str("ret", ret);
	j_arr_open("vals");
	for (int i = 0; i < nh; i++) {
		const buffer *b = hbuf(i);
		size_t n = b ? (bused(b) <= bsize(b) ? bused(b) : bsize(b)) / esize : 0;
		int count_here = (first_holder(i) == i);
		j_sep();
		fputc('[', drv_out);
		for (size_t s = 0; s < n; s++) {
			const Tracked *e = (const Tracked *) (bdata(b) + s * esize);
			long v;
			if (e->magic == M_LIVE && e->id < MAXID && live[e->id]) {
				v = e->val;
				if (count_here) { if (seen[e->id]) ++dup; seen[e->id] = 1; }
			} else {
				v = -1;
				if (count_here) ++dead;
			}
			fprintf(drv_out, s ? ",%ld" : "%ld", v);
		}
		fputc(']', drv_out);
		drv_first = 0;
	}
	j_arr_close();
	j_arr_open("lens");
	for (int i = 0; i < nh; i++) j_item_int(hbuf(i) ? (long long) (bused(hbuf(i)) / esize) : 0);
	j_arr_close();
	j_arr_open("typs");
	for (int i = 0; i < nh; i++) j_item_str(hbuf(i) ? "elem" : "none");
	j_arr_close();
	j_str("refok", refs_state());
	for (uint32_t id = 1; id <= next_id && id < MAXID; id++) {
		if (!live[id]) continue;
		++nlive;
		if (live[id] - 1 <= MAXV) counts[live[id] - 1]++;
		if (!seen[id]) ++orph;
	}
	j_arr_open("irefs");
	for (int k = 1; k <= nv; k++) j_item_int(1 + counts[k]);
	j_arr_close();
	j_int("nlive", nlive);
	j_int("bad", n_bad);
	j_int("dead", dead);
	j_int("dup", dup);
	j_int("orph", orph);
}
static void emit_dbg(size_t size0, size_t used0, long long rc)
{
	drv_dbg();
	j_int("size0", (long long) size0);
	j_int("used0", (long long) used0);
	j_int("rc", rc);
	j_int("ninit", n_init); j_int("ncopy", n_copy); j_int("nfini", n_fini); j_int("nassign", n_assign);
	j_arr_open("sizes");
	for (int i = 0; i < nh; i++) j_item_int(hbuf(i) ? (long long) (bsize(hbuf(i)) / esize) : 0);
	j_arr_close();
	j_arr_open("refs");
	for (int i = 0; i < nh; i++) j_item_int(seam_refcount(hbuf(i)));
	j_arr_close();
	j_arr_open("flags");
	for (int i = 0; i < nh; i++) j_item_int(hbuf(i) ? (long long) hbuf(i)->get_flags() : 0);
	j_arr_close();
}
static void answer(struct cmd *c, const char *ret, size_t size0, size_t used0, long long rc)
{
	drv_begin(c);
	emit_all(ret);
	emit_dbg(size0, used0, rc);
	drv_end();
}

/* a source object for value v that is alive only during the call */
struct Src {
	Tracked *t;
	long i0, c0, f0;
	Src(uint32_t v) { i0 = n_init; c0 = n_copy; f0 = n_fini; t = new Tracked(v); n_init = i0; }
	~Src() { long f = n_fini; delete t; n_fini = f; }
};

template <typename ARR>
static void step_typed(struct cmd *c, ARR *arrs, int h, uint32_t v, size_t size0, size_t used0)
{
	const char *a = c->action;
	ARR &ar = arrs[h];
	long pos = (long) drv_int(c, "pos", 0);
	buffer *b = hbuf(h);

	if (!strcmp(a, "tctor")) {
		if (b) { answer(c, "skipped", size0, used0, 0); return; }
		ar = ARR((long) drv_int(c, "len", -1));
		answer(c, "ok", size0, used0, 0);
	}
	else if (!strcmp(a, "clone")) {
		int g = (int) drv_int(c, "from", 0) - 1;
		if (g >= 0 && g < nh) ar = arrs[g];
		else ar = ARR();
		answer(c, "ok", size0, used0, 0);
	}
	else if (!strcmp(a, "tset")) {
		bool r;
		{ Src s(v); r = ar.set(pos, *s.t); }
		answer(c, r ? "ok" : "refused", size0, used0, 0);
	}
	else if (!strcmp(a, "treserve")) {
		bool r = ar.reserve((long) drv_int(c, "len", 0));
		answer(c, r ? "ok" : "refused", size0, used0, 0);
	}
	else if (!strcmp(a, "tresize")) {
		bool r = ar.resize((long) drv_int(c, "len", 0));
		answer(c, r ? "ok" : "refused", size0, used0, 0);
	}
	else if (!strcmp(a, "xtrim")) {
		if (!b || b->shared() || b->immutable()) { answer(c, "skipped", size0, used0, 0); return; }
		size_t n = drv_uint(c, "n", 0) * esize;
		bool r = drv_int(c, "front", 0) ? b->skip(n) : b->trim(n);
		answer(c, r ? "ok" : "refused", size0, used0, 0);
	}
	else if (!strcmp(a, "xcopy")) {
		int g = (int) drv_int(c, "from", 0) - 1;
		buffer *q = (g >= 0 && g < nh) ? hbuf(g) : 0;
		if (!b || !q || q == b || b->shared() || q->shared() || b->immutable() || q->immutable()) {
			answer(c, "skipped", size0, used0, 0); return;
		}
		bool r = drv_int(c, "move", 0) ? b->move(*q) : b->copy(*q);
		answer(c, r ? "ok" : "refused", size0, used0, 0);
	}
	else {
		drv_begin(c); j_str("ret", "unknown-action"); drv_dbg(); drv_end();
	}
}

static void drv_step(struct cmd *c)
{
	const char *a = c->action;
	size_t dl = 0, size0 = 0, used0 = 0;
	uint8_t *data = 0;
	int h = (int) drv_int(c, "h", 1) - 1;
	uint32_t v;

	n_bad = n_init = n_copy = n_fini = n_assign = 0;
	if (!strcmp(a, "init")) {
		const char *ap = drv_raw(c, "api");
		int g = (int) drv_int(c, "grane", 0);
		drv_reset();
		nh = (int) drv_int(c, "n", 3);
		nv = (int) drv_int(c, "nv", 2);
		if (nh > MAXH) nh = MAXH;
		if (nv > MAXV) nv = MAXV;
		unique = ap && !strcmp(ap, "xunique");
		if (unique) U = new UA[MAXH]; else T = new TA[MAXH];
		seam_set_psize(g * (int) esize);
		answer(c, "ok", 0, 0, 0);
		return;
	}
	if (h < 0 || h >= nh) {
		drv_begin(c); j_str("ret", "bad-handle"); drv_dbg(); drv_end();
		return;
	}
	if (hbuf(h)) {
		size0 = bsize(hbuf(h)) / esize;
		used0 = bused(hbuf(h)) / esize;
	}
	if (drv_has(c, "data")) data = drv_bytes(c, "data", &dl);
	v = dl ? data[0] : 0;

	if (!strcmp(a, "tinsert")) {
		long pos = (long) drv_int(c, "pos", 0);
		bool r;
		if (unique) r = U[h].insert(pos) != 0;                       /* default constructed element */
		else { Src s(v); r = T[h].insert(pos, *s.t); }
		answer(c, r ? "ok" : "refused", size0, used0, 0);
	}
	else if (unique) step_typed<UA>(c, U, h, v, size0, used0);
	else step_typed<TA>(c, T, h, v, size0, used0);
	free(data);
}

int main(int argc, char **argv)
{
	return drv_main(argc, argv);
}
