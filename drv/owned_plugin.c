/*
 * Tiny shared object for the Owned driver (X15): exports a counted
 * constructor, as a solver/client module would.  The instance is a metatype
 * counting its own references; its storage comes from the allocator the
 * driver hands in (the allocation seam), so its destruction is observable.
 */
#include <stdint.h>
#include <stddef.h>

#include "core.h"
#include "meta.h"
#include "types.h"

struct x15_inst {
	MPT_INTERFACE(metatype) _mt;
	uintptr_t ref;
};
static void *(*x15_alloc)(size_t);
static void (*x15_release)(void *);
static long x15_made, x15_gone;
static long x15_left = -1;   /* constructions still granted (instance limit); < 0: no limit */

static int inst_conv(MPT_INTERFACE(convertable) *val, MPT_TYPE(type) type, void *ptr)
{
	if (!type) {
		static const uint8_t fmt[] = { 0 };
		if (ptr) *((const uint8_t **) ptr) = fmt;
		return MPT_ENUM(TypeMetaPtr);
	}
	if (type == MPT_ENUM(TypeMetaPtr)) {
		if (ptr) *((void **) ptr) = val;
		return MPT_ENUM(TypeMetaPtr);
	}
	return MPT_ERROR(BadType);
}
static void inst_unref(MPT_INTERFACE(metatype) *mt)
{
	struct x15_inst *in = (struct x15_inst *) mt;
	if (in->ref && --in->ref) return;
	x15_gone++;
	x15_release(in);
}
static uintptr_t inst_addref(MPT_INTERFACE(metatype) *mt)
{
	struct x15_inst *in = (struct x15_inst *) mt;
	if (!in->ref || in->ref == UINTPTR_MAX) return 0;
	return ++in->ref;
}
static MPT_INTERFACE(metatype) *inst_clone(const MPT_INTERFACE(metatype) *mt)
{
	(void) mt;
	return 0;
}
static const MPT_INTERFACE_VPTR(metatype) inst_vptr = { { inst_conv }, inst_unref, inst_addref, inst_clone };

extern void x15_bind(void *(*a)(size_t), void (*r)(void *))
{
	x15_alloc = a;
	x15_release = r;
}
extern void *x15_make(void)
{
	struct x15_inst *in;
	if (!x15_left) return 0;
	if (!x15_alloc || !(in = (struct x15_inst *) x15_alloc(sizeof(*in)))) return 0;
	in->_mt._vptr = &inst_vptr;
	in->ref = 1;
	x15_made++;
	if (x15_left > 0) x15_left--;
	return in;
}
extern void x15_budget(long n)
{
	x15_left = n;
}
extern long x15_stat(int what)
{
	return what ? x15_gone : x15_made;
}
