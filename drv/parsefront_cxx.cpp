/*
 * C++ build of drv/parsefront.c (X09): class mpt::config_parser (set_format, open, read, reset) with
 * libmpt++ first on the link line (its node and metatype creators are the ones an application gets);
 * see the head of parsefront.c.
 */
#define PF_CXX 1
#include "parsefront.c"
