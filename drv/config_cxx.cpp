/*
 * Driver for spec/Config.tla (C10), C++ side: a private mpt::config::root
 * (mpt++/config.cpp, config_item arrays).  Same script language as
 * drv/config.c; only "top" calls exist.  After each call every path of the
 * universe given by the init step is queried.
 */
#include "drv.h"

#include "meta.h"
#include "types.h"
#include "config.h"

#include "config_common.h"

static mpt::config::root *conf;
static int usep = '.';

static void drv_reset(void)
{
	/* a fresh configuration per behaviour (the old one is not torn down:
	 * tearing down is not part of what is replayed) */
	conf = new mpt::config::root;
}

static int grab_cb(void *ctx, mpt::convertable *val, const mpt::collection *sub)
{
	(void) sub;
	return grab_text(val, (struct grab *) ctx);
}
static char *lookup(const char *str, int sep)
{
	mpt::path p(str, sep, 0);
	struct grab g = { 0, 0 };
	if (conf->query(&p, grab_cb, &g) < 0 || !g.found) {
		free(g.text);
		return 0;
	}
	return g.text;
}
/* the same question as a typed query: config::get<const char *>(path, destination); see j_item_typed */
static int lookup_typed(const char *str, int sep, char **text)
{
	static const char marker[] = "<untouched>";
	mpt::path p(str, sep, 0);
	const char *val = marker;
	*text = 0;
	if (!conf->get(p, val)) return -1;
	if (val == marker) return -2;
	if (!val) return -3;
	*text = copy_text(val, (size_t) -1);
	return 0;
}
/* the same question through config::get with a text target (diagnostic) */
static int lookup_s(const char *str, int sep)
{
	mpt::path p(str, sep, 0);
	const char *val = 0;
	return conf->get(p, val) && val;
}

static void emit_store(struct cmd *c, const char *ret, const char *retval, int isval)
{
	int i, present = 0, as_s = 0;
	drv_begin(c);
	if (drv_int(c, "q", 0)) {
		drv_dbg();
		drv_end();
		return;
	}
	if (isval) j_val("ret", retval);
	else j_str("ret", ret);
	j_arr_open("all");
	for (i = 0; i < nuni; i++) {
		char *v = lookup(uni[i], usep);
		j_item_val(v);
		if (v) { present++; if (lookup_s(uni[i], usep)) as_s++; }
		free(v);
	}
	j_arr_close();
	j_arr_open("rel");
	j_arr_close();
	j_arr_open("typed");
	for (i = 0; i < nuni; i++) {
		char *t = 0;
		int code = lookup_typed(uni[i], usep, &t);
		j_item_typed(code, t);
		free(t);
	}
	j_arr_close();
	drv_dbg();
	j_int("present", present);
	j_int("as_s", as_s);
	drv_end();
}

static void drv_step(struct cmd *c)
{
	const char *a = c->action;

	if (!strcmp(a, "init")) {
		usep = (int) drv_int(c, "sep", '.');
		nuni = parse_list(drv_raw(c, "uni"), uni);
		emit_store(c, "ok", 0, 0);
		return;
	}
	if (!strcmp(a, "assign") || !strcmp(a, "remove") || !strcmp(a, "query")) {
		char *path = arg_str(c, "path");
		int sep = (int) drv_int(c, "sep", '.');
		if (a[0] == 'a') {
			char *val = arg_str(c, "val");
			bool r = conf->set(path, val, sep);
			emit_store(c, r ? "ok" : "refused", 0, 0);
			free(val);
		}
		else if (a[0] == 'r') {
			bool r = conf->set(path, 0, sep);
			emit_store(c, r ? "ok" : "refused", 0, 0);
		}
		else {
			char *v = lookup(path, sep);
			emit_store(c, 0, v, 1);
			free(v);
		}
		free(path);
		return;
	}
	if (!strcmp(a, "clearall")) {
		mpt::path e;
		int r = conf->remove(&e);
		emit_store(c, r < 0 ? "refused" : "ok", 0, 0);
		return;
	}
	drv_begin(c);
	j_str("ret", "unknown-action");
	drv_dbg();
	drv_end();
}

int main(int argc, char **argv)
{
	return drv_main(argc, argv);
}
