/*
 * Second driver for spec/Layout.tla (C20): the C++ wrappers of mpt++
 * (layout::graph::axis, layout::line, layout::text, layout::graph,
 * layout::graph::world).  Same protocol and encodings as drv/layout.c;
 * values go through object::set(name, text|value), generic assignment
 * through set_property(0|"", sibling), clone() and object::set(object),
 * colours are printed by operator<<(ostream, color).
 */
#include "drv.h"

#include <stddef.h>
#include <sys/uio.h>

#include <sstream>
#include <string>

#include "layout.h"

#include "layout_common.h"

enum { K_AXIS, K_LINE, K_TEXT, K_GRAPH, K_WORLD, K_NONE };
static const char *kind_name[] = { "axis", "line", "text", "graph", "world" };

struct lobj {
	int kind;
	mpt::metatype *mt;       /* owner reference */
	mpt::object *o;
	mpt::convertable *c;
	mpt::layout::graph::axis  *axis;
	mpt::layout::line         *line;
	mpt::layout::text         *text;
	mpt::layout::graph        *graph;
	mpt::layout::graph::world *world;
};
static struct lobj obj[2];
static int cur_kind = K_NONE;

static void obj_bind(struct lobj *l, int kind, mpt::metatype *mt)
{
	memset(l, 0, sizeof(*l));
	l->kind = kind;
	l->mt = mt;
	switch (kind) {
	  case K_AXIS:  l->axis  = static_cast<mpt::layout::graph::axis *>(mt);  l->o = l->axis;  break;
	  case K_LINE:  l->line  = static_cast<mpt::layout::line *>(mt);         l->o = l->line;  break;
	  case K_TEXT:  l->text  = static_cast<mpt::layout::text *>(mt);         l->o = l->text;  break;
	  case K_GRAPH: l->graph = static_cast<mpt::layout::graph *>(mt);        l->o = l->graph; break;
	  case K_WORLD: l->world = static_cast<mpt::layout::graph::world *>(mt); l->o = l->world; break;
	  default:;
	}
	l->c = mt;
}
static mpt::metatype *obj_new(int kind)
{
	switch (kind) {
	  case K_AXIS:  return new mpt::layout::graph::axis;
	  case K_LINE:  return new mpt::layout::line;
	  case K_TEXT:  return new mpt::layout::text;
	  case K_GRAPH: return new mpt::layout::graph;
	  case K_WORLD: return new mpt::layout::graph::world;
	  default: return 0;
	}
}
static void obj_release(struct lobj *l)
{
	if (l->mt) l->mt->unref();
	memset(l, 0, sizeof(*l));
	l->kind = K_NONE;
}
/* string members (read accessors of the plain structs) */
static int obj_strings(struct lobj *l, const char **out)
{
	switch (l->kind) {
	  case K_AXIS:  out[0] = l->axis->title(); return 1;
	  case K_TEXT:  out[0] = static_cast<mpt::text *>(l->text)->value(); out[1] = static_cast<mpt::text *>(l->text)->font(); return 2;
	  case K_GRAPH: out[0] = static_cast<mpt::graph *>(l->graph)->axes(); out[1] = static_cast<mpt::graph *>(l->graph)->worlds(); return 2;
	  case K_WORLD: out[0] = l->world->alias(); return 1;
	  default: return 0;
	}
}

static void drv_reset(void)
{
	if (cur_kind != K_NONE) {
		obj_release(&obj[0]);
		obj_release(&obj[1]);
	}
	cur_kind = K_NONE;
}

static void enc_value(const mpt::value *val)
{
	const void *a = val->data();
	mpt::type_t t = val->type();
	int ct = mpt::mpt_color_typeid(), ft = mpt::mpt_fpoint_typeid();
	vlen = 0;
	if (!a) { v_put(-1); return; }
	if (t == 's') { enc_string(*((const char * const *) a)); return; }
	if (t == 'y') { v_put(*((const uint8_t *) a)); return; }
	if (t == 'c') { v_put(*((const unsigned char *) a)); return; }
	if (t == 'n') { v_put(*((const int16_t *) a)); return; }
	if (t == 'u') { uint32_t u = *((const uint32_t *) a); v_put(u >> 16); v_put(u & 0xffff); return; }
	if (t == 'f') { float f = *((const float *) a); enc_real(f, 1, f); return; }
	if (t == 'd') { enc_real(*((const double *) a), 0, 0); return; }
	if (ct > 0 && t == (mpt::type_t) ct) {
		const mpt::color *c = static_cast<const mpt::color *>(a);
		v_put(c->alpha); v_put(c->red); v_put(c->green); v_put(c->blue);
		return;
	}
	if (ft > 0 && t == (mpt::type_t) ft) {
		const mpt::fpoint *p = static_cast<const mpt::fpoint *>(a);
		enc_real(p->x, 1, p->x);
		enc_real(p->y, 1, p->y);
		return;
	}
	v_put(-1);
}

static void emit_props(const char *key, struct lobj *l)
{
	int pos;
	j_open(key);
	for (pos = 0; pos < 64; pos++) {
		mpt::property pr((size_t) pos);
		int r = l->o->property(&pr);
		if (!pr.name) break;
		if (r < 0) { vlen = 0; v_put(-1); }
		else enc_value(&pr.val);
		j_ints(pr.name, vbuf, vlen);
	}
	if (l->kind == K_TEXT) {
		static const char *xy[] = { "x", "y" };
		int i;
		for (i = 0; i < 2; i++) {
			mpt::property pr(xy[i]);
			int r = l->o->property(&pr);
			if (r < 0) { vlen = 0; v_put(-1); }
			else enc_value(&pr.val);
			j_ints(xy[i], vbuf, vlen);
		}
	}
	j_close();
}
static int shared_strings(void)
{
	const char *a[4], *b[4];
	int na = obj_strings(&obj[0], a), nb = obj_strings(&obj[1], b), i, j, n = 0;
	for (i = 0; i < na; i++) for (j = 0; j < nb; j++) {
		if (a[i] && a[i] == b[j]) n++;
	}
	return n;
}
static void answer(struct cmd *c, int rc)
{
	drv_begin(c);
	j_str("ret", rc < 0 ? "refused" : "ok");
	emit_props("p0", &obj[0]);
	emit_props("p1", &obj[1]);
	j_int("shared", shared_strings());
	drv_dbg();
	j_int("rc", rc);
	drv_end();
}

/* text source handed to mpt_object_set_property */
class text_src : public mpt::convertable
{
public:
	text_src(const char *t) : _txt(t) { }
	int convert(mpt::type_t type, void *ptr) __MPT_OVERRIDE
	{
		if (type == 's') {
			if (ptr) *static_cast<const char **>(ptr) = _txt;
			return (_txt && *_txt) ? 's' : 0;
		}
		return mpt::BadType;
	}
private:
	const char *_txt;
};
/* source that offers a span of a longer buffer as character vector (and the rest of the buffer as text) */
class vec_src : public mpt::convertable
{
public:
	vec_src(char *b, size_t l) : _base(b), _len(l) { }
	int convert(mpt::type_t type, void *ptr) __MPT_OVERRIDE
	{
		using namespace mpt;        /* the type macros name the enumerators unqualified */
		if (type == MPT_type_toVector('c')) {
			struct iovec *vec = static_cast<struct iovec *>(ptr);
			if (vec) { vec->iov_base = _base; vec->iov_len = _len; }
			return 's';
		}
		if (type == 's') {
			if (ptr) *static_cast<const char **>(ptr) = _base;
			return 's';
		}
		return mpt::BadType;
	}
private:
	char *_base;
	size_t _len;
};
static int set_by_property(struct lobj *l, const char *name, const char *text, int reset)
{
	mpt::identifier id;
	text_src src(text);
	if (name && !id.set_name(name)) {
		return mpt::BadOperation;
	}
	return mpt::mpt_object_set_property(l->o, mpt::TraverseChange | mpt::TraverseDefault | mpt::TraverseEmpty,
	                                    name ? &id : 0, reset ? 0 : &src);
}

static int do_set(struct lobj *l, const char *name, const struct cmd *c)
{
	const char *f = drv_raw(c, "f");
	size_t nn = 0;
	long long *n = drv_ints(c, "n", &nn);
	int rc = mpt::BadOperation;
	if (!f) f = "null";
	if (!strcmp(f, "null")) {
		rc = l->o->set_property(name, 0);
	}
	else if (!strcmp(f, "pnull")) {
		rc = set_by_property(l, name, 0, 1);
	}
	else if (!strcmp(f, "pnum") && nn >= 2) {
		char buf[64];
		const char *sty = drv_raw(c, "sty");
		render_num(buf, sizeof(buf), twice(n), sty ? sty : "dec");
		rc = set_by_property(l, name, buf, 0);
	}
	else if (!strcmp(f, "ptxt") || !strcmp(f, "prle")) {
		char *t = f[1] == 't' ? arg_text(c, "c") : arg_rle(c, "c");
		rc = set_by_property(l, name, t, 0);
		memset(t, 'Q', strlen(t));
		free(t);
	}
	else if (!strcmp(f, "num") && nn >= 2) {
		char buf[64];
		const char *sty = drv_raw(c, "sty");
		render_num(buf, sizeof(buf), twice(n), sty ? sty : "dec");
		rc = l->o->set(name, buf, 0) ? 0 : -1;
	}
	else if (!strcmp(f, "num2") && nn >= 4) {
		char a[64], b[64], buf[130];
		render_num(a, sizeof(a), twice(n), "dec");
		render_num(b, sizeof(b), twice(n + 2), "dec");
		snprintf(buf, sizeof(buf), "%s %s", a, b);
		rc = l->o->set(name, buf, 0) ? 0 : -1;
	}
	else if (!strcmp(f, "vec") && nn >= 2) {
		char *body = arg_rle(c, "c");
		size_t bl = strlen(body), pre = (size_t) n[0], post = (size_t) n[1];
		char *buf = (char *) malloc(pre + bl + post + 1);
		memset(buf, 'P', pre);
		memcpy(buf + pre, body, bl);
		memset(buf + pre + bl, 'S', post);
		buf[pre + bl + post] = 0;
		vec_src src(buf + pre, bl);
		rc = l->o->set_property(name, &src);
		memset(buf, 'Q', pre + bl + post);
		free(buf);
		free(body);
	}
	else if (!strcmp(f, "txt") || !strcmp(f, "s")) {
		char *t = arg_text(c, "c");
		rc = l->o->set(name, t, 0) ? 0 : -1;
		free(t);
	}
	else if (!strcmp(f, "rle")) {
		char *t = arg_rle(c, "c");
		rc = l->o->set(name, t, 0) ? 0 : -1;
		memset(t, 'Q', strlen(t));
		free(t);
	}
	else if (!strcmp(f, "col")) {
		size_t cn;
		uint8_t *cb = drv_bytes(c, "c", &cn);
		mpt::color col;
		mpt::value v;
		if (cn >= 4) { col.alpha = cb[0]; col.red = cb[1]; col.green = cb[2]; col.blue = cb[3]; }
		v.set(mpt::mpt_color_typeid(), &col);
		rc = l->o->set(name, v, 0) ? 0 : -1;
		free(cb);
	}
	else if (!strcmp(f, "fpt") && nn >= 4) {
		mpt::fpoint p((float) ((double) twice(n) / 2.0), (float) ((double) twice(n + 2) / 2.0));
		mpt::value v;
		v.set(mpt::mpt_fpoint_typeid(), &p);
		rc = l->o->set(name, v, 0) ? 0 : -1;
	}
	else if (f[0] && !f[1] && nn >= 2 && strchr("iyunfdbq", f[0])) {
		long long t = twice(n);
		union { int8_t b; uint8_t y; int16_t n; uint16_t q; int32_t i; uint32_t u; float f; double d; } d;
		mpt::value v;
		switch (f[0]) {
		  case 'b': d.b = (int8_t) (t / 2); break;
		  case 'y': d.y = (uint8_t) (t / 2); break;
		  case 'n': d.n = (int16_t) (t / 2); break;
		  case 'q': d.q = (uint16_t) (t / 2); break;
		  case 'i': d.i = (int32_t) (t / 2); break;
		  case 'u': d.u = (uint32_t) (t / 2); break;
		  case 'f': d.f = (float) ((double) t / 2.0); break;
		  default:  d.d = (double) t / 2.0;
		}
		v.set(f[0], &d);
		rc = l->o->set(name, v, 0) ? 0 : -1;
	}
	free(n);
	return rc;
}

static int kind_of(const char *s)
{
	int i;
	for (i = 0; i < K_NONE; i++) if (s && !strcmp(s, kind_name[i])) return i;
	return K_NONE;
}
static char *arg_name(const struct cmd *c)
{
	const char *r = drv_raw(c, "name");
	if (!r || !strcmp(r, "null")) return 0;
	return arg_text(c, "name");
}

static void drv_step(struct cmd *c)
{
	const char *a = c->action;
	int o = (int) drv_int(c, "o", 0) & 1;

	if (!strcmp(a, "init")) {
		int k = kind_of(drv_raw(c, "kind"));
		drv_reset();
		cur_kind = k;
		obj_bind(&obj[0], k, obj_new(k));
		obj_bind(&obj[1], k, obj_new(k));
		answer(c, k == K_NONE ? -1 : 0);
		return;
	}
	if (cur_kind == K_NONE) {
		drv_begin(c); j_str("ret", "no-object"); drv_dbg(); drv_end();
		return;
	}
	if (!strcmp(a, "set") || !strcmp(a, "reset") || !strcmp(a, "auto")) {
		char *name = strcmp(a, "auto") ? arg_name(c) : 0;
		int rc = do_set(&obj[o], name, c);
		answer(c, rc);
		free(name);
	}
	else if (!strcmp(a, "get")) {
		char *name = arg_name(c);
		mpt::property pr(name);
		int r = obj[o].o->property(&pr);
		if (r < 0) vlen = 0;
		else enc_value(&pr.val);
		drv_begin(c);
		j_str("ret", r < 0 ? "refused" : "ok");
		j_str("cname", r < 0 ? "" : pr.name);
		j_ints("val", vbuf, vlen);
		emit_props("p0", &obj[0]);
		emit_props("p1", &obj[1]);
		j_int("shared", shared_strings());
		drv_dbg();
		j_int("rc", r);
		drv_end();
		free(name);
	}
	else if (!strcmp(a, "copy")) {
		int from = (int) drv_int(c, "from", 1) & 1;
		const char *mode = drv_raw(c, "mode");
		int rc;
		if (mode && !strcmp(mode, "clone")) {        /* metatype::clone of the sibling */
			mpt::metatype *m = obj[from].mt->clone();
			rc = m ? 0 : -1;
			if (m && from != o) {
				obj_release(&obj[o]);
				obj_bind(&obj[o], cur_kind, m);
			}
			else if (m) {
				m->unref();
			}
		}
		else if (mode && !strcmp(mode, "props")) {   /* object::set(const object &) */
			rc = obj[o].o->set(*obj[from].o) ? 0 : -1;   /* default logger: goes on after a refused property */
		}
		else {
			rc = obj[o].o->set_property((mode && !strcmp(mode, "empty")) ? "" : 0, obj[from].c);
		}
		answer(c, rc);
	}
	else if (!strcmp(a, "scribble")) {
		const char *s[4];
		int n = obj_strings(&obj[o], s), i;
		for (i = 0; i < n; i++) {
			if (s[i]) memset(const_cast<char *>(s[i]), 'Z', strlen(s[i]));
		}
		answer(c, 0);
	}
	else if (!strcmp(a, "fini")) {
		obj_release(&obj[o]);
		obj_bind(&obj[o], cur_kind, obj_new(cur_kind));
		answer(c, 0);
	}
	else if (!strcmp(a, "cparse")) {
		char *t = arg_text(c, "c");
		mpt::color col(2, 3, 4, 1);
		int r = mpt::mpt_color_parse(&col, t);
		long long cv[4];
		cv[0] = col.alpha; cv[1] = col.red; cv[2] = col.green; cv[3] = col.blue;
		drv_begin(c);
		j_str("ret", r < 0 ? "refused" : "ok");
		j_ints("col", cv, 4);
		drv_dbg();
		j_int("rc", r);
		drv_end();
		free(t);
	}
	else if (!strcmp(a, "cprint")) {              /* operator<< then parse again */
		size_t cn;
		uint8_t *cb = drv_bytes(c, "c", &cn);
		mpt::color col, back(2, 3, 4, 1);
		std::ostringstream os;
		std::string s;
		long long tv[64], cv[4];
		size_t i, tl;
		int r;
		if (cn >= 4) { col.alpha = cb[0]; col.red = cb[1]; col.green = cb[2]; col.blue = cb[3]; }
		os << col;
		s = os.str();
		tl = s.size() < 64 ? s.size() : 64;
		for (i = 0; i < tl; i++) tv[i] = (unsigned char) s[i];
		r = mpt::mpt_color_parse(&back, s.c_str());
		cv[0] = back.alpha; cv[1] = back.red; cv[2] = back.green; cv[3] = back.blue;
		drv_begin(c);
		j_str("ret", r < 0 ? "refused" : "ok");
		j_ints("txt", tv, tl);
		j_ints("col", cv, 4);
		drv_dbg();
		j_int("rc", r);
		drv_end();
		free(cb);
	}
	else {
		drv_begin(c); j_str("ret", "unknown-action"); drv_dbg(); drv_end();
	}
}

int main(int argc, char **argv)
{
	return drv_main(argc, argv);
}
