/*
 * Driver for spec/Reply.tla (C12), mode "stream": the reply context of a
 * stream input (mptio/stream/stream_input.c, stream_reply.c).
 *
 * A socket pair connects the input under test with a peer stream of the same
 * library (COBS framing on both ends).  A step writes one frame at the peer,
 * lets the input read and dispatch it to the harness handler, flushes the
 * input's output and collects the frames that arrive at the peer.  The
 * handler answers as the step scripted (act = none | reply | reply2) and
 * records what it was given (ev->id, reply context present, payload).
 */
#include "drv.h"

#include <poll.h>
#include <sys/socket.h>
#include <sys/uio.h>

#include "meta.h"
#include "message.h"
#include "convert.h"
#include "event.h"
#include "connection.h"
#include "notify.h"
#include "stream.h"

#define MAXF 8

static MPT_INTERFACE(input) *in;
static MPT_STRUCT(connection) con;       /* via=conn: connection with a stream backend */
static MPT_STRUCT(stream) *cs;
static int via_conn;
static MPT_STRUCT(stream) peer;
static int have_peer;
static size_t idlen;
static MPT_INTERFACE(reply_context) *saved_rc;
#define MAXH 16
static MPT_INTERFACE(reply_context_detached) *hd[MAXH + 1];
static int defer_slot, got_handle;

/* what the handler saw / was told to do */
static struct seen {
	uintptr_t id;
	int       reply;
	uint8_t   payload[512];
	size_t    plen;
} seen[MAXF];
static int nseen;
static const char *act;
static uint8_t *rdata;
static size_t rlen;
static int hret, r1, r2, have_r2;

/* frames that arrived at the peer */
static struct frame {
	uint8_t data[1024];
	size_t  len;
} frames[MAXF];
static int nframes;

static void fill_msg(MPT_STRUCT(message) *msg, struct iovec *vec)
{
	static const MPT_STRUCT(message) empty = MPT_MESSAGE_INIT;
	*msg = empty;
	msg->base = rdata;
	msg->used = rlen < 2 ? rlen : 2;
	if (rlen > 2) {
		vec->iov_base = rdata + 2; vec->iov_len = rlen - 2;
		msg->cont = vec; msg->clen = 1;
	}
}
static int send_reply(MPT_INTERFACE(reply_context) *rc)
{
	MPT_STRUCT(message) msg = MPT_MESSAGE_INIT;
	struct iovec vec;
	/* first two bytes in the base part, the rest as continuation */
	msg.base = rdata;
	msg.used = rlen < 2 ? rlen : 2;
	if (rlen > 2) {
		vec.iov_base = rdata + 2; vec.iov_len = rlen - 2;
		msg.cont = &vec; msg.clen = 1;
	}
	return rc->_vptr->reply(rc, &msg);
}

static int handler(void *arg, MPT_STRUCT(event) *ev)
{
	(void) arg;
	if (!ev) return 0;
	if (nseen < MAXF) {
		struct seen *s = &seen[nseen++];
		s->id = ev->id;
		s->reply = ev->reply ? 1 : 0;
		s->plen = 0;
		if (ev->msg) {
			MPT_STRUCT(message) m = *ev->msg;
			s->plen = mpt_message_read(&m, sizeof(s->payload), s->payload);
		}
	}
	if (ev->reply) {
		saved_rc = ev->reply;
		if (!strcmp(act, "defer")) {
			MPT_INTERFACE(reply_context_detached) *d = ev->reply->_vptr->defer(ev->reply);
			got_handle = d ? 1 : 0;
			if (d && defer_slot >= 1 && defer_slot <= MAXH) hd[defer_slot] = d;
		}
		else if (!strcmp(act, "reply") || !strcmp(act, "reply2")) {
			r1 = send_reply(ev->reply);
			if (!strcmp(act, "reply2")) {
				r2 = send_reply(ev->reply);
				have_r2 = 1;
			}
		}
	}
	return hret;
}

static int collect(void *arg, const MPT_STRUCT(message) *msg)
{
	(void) arg;
	if (nframes < MAXF) {
		MPT_STRUCT(message) m = *msg;
		frames[nframes].len = mpt_message_read(&m, sizeof(frames[nframes].data), frames[nframes].data);
		nframes++;
	}
	return 0;
}

static int sv[2] = { -1, -1 };
static void drv_reset(void)
{
	/* objects of the previous behaviour are abandoned; their descriptors are closed */
	if (sv[0] >= 0) close(sv[0]);
	if (sv[1] >= 0) close(sv[1]);
	sv[0] = sv[1] = -1;
	in = 0; have_peer = 0; saved_rc = 0; idlen = 0;
	cs = 0; via_conn = 0;
	memset(hd, 0, sizeof(hd));
}

static void limbs_out(const char *key, uintptr_t v)
{
	j_sep();
	fprintf(drv_out, "\"%s\":[%u,%u,%u,%u]", key, (unsigned) (v & 0xffff), (unsigned) ((v >> 16) & 0xffff),
	        (unsigned) ((v >> 32) & 0xffff), (unsigned) ((v >> 48) & 0xffff));
}

/* output of the input under test -> socket -> peer frames */
static uint8_t wire[256];
static ssize_t nwire;
static void pump_back(void)
{
	int r, guard = 0;
	nframes = 0;
	/* flush pending output */
	if (via_conn) mpt_stream_poll(cs, POLLOUT, -1);
	else in->_vptr->next(in, POLLOUT);
	nwire = recv(sv[1], wire, sizeof(wire), MSG_PEEK | MSG_DONTWAIT);   /* diagnostic only */
	if (mpt_stream_poll(&peer, POLLIN, 0) < 0) return;
	do {
		r = mpt_stream_dispatch(&peer, collect, 0);
	} while (r >= 0 && (r & MPT_EVENTFLAG(Retry)) && ++guard < MAXF);
}

static void emit_frames(void)
{
	int i;
	j_arr_open("frames");
	for (i = 0; i < nframes; i++) {
		size_t il = frames[i].len < idlen ? frames[i].len : idlen;
		j_item_obj_open();
		j_bytes("id", frames[i].data, il);
		j_bytes("data", frames[i].data + il, frames[i].len - il);
		j_close();
	}
	j_arr_close();
}
static void emit_seen(void)
{
	int i;
	j_arr_open("seen");
	for (i = 0; i < nseen; i++) {
		j_item_obj_open();
		limbs_out("id", seen[i].id);
		j_int("reply", seen[i].reply);
		j_bytes("payload", seen[i].payload, seen[i].plen);
		j_close();
	}
	j_arr_close();
}

/* one frame from the peer into the input and through its dispatcher */
static int feed(const uint8_t *id, size_t il, const uint8_t *pay, size_t pl)
{
	int r;
	if (il && mpt_stream_push(&peer, il, id) < 0) return -100;
	if (pl && mpt_stream_push(&peer, pl, pay) < 0) return -101;
	if (mpt_stream_push(&peer, 0, 0) < 0) return -102;
	if (mpt_stream_flush(&peer) < 0) return -103;
	if (via_conn) {
		if ((r = mpt_stream_poll(cs, POLLIN, -1)) < 0) return -104;
		return mpt_connection_dispatch(&con, handler, 0);
	}
	if ((r = in->_vptr->next(in, POLLIN)) < 0) return -104;
	return in->_vptr->dispatch(in, handler, 0);
}

static void drv_step(struct cmd *c)
{
	const char *a = c->action;
	size_t il = 0, pl = 0;
	uint8_t *id = 0, *pay = 0;

	nseen = 0; nframes = 0; have_r2 = 0; r1 = r2 = 0; got_handle = -1;
	defer_slot = (int) drv_int(c, "h", 0);
	act = drv_raw(c, "act");
	if (!act) act = "none";
	hret = (int) drv_int(c, "hret", 0);
	rdata = drv_bytes(c, "data", &rlen);

	if (!strcmp(a, "init")) {
		MPT_STRUCT(socket) s;
		static const MPT_STRUCT(stream) fresh = MPT_STREAM_INIT;
		drv_reset();
		idlen = drv_uint(c, "max", 1);
		if (socketpair(AF_UNIX, SOCK_STREAM, 0, sv) < 0) {
			drv_begin(c); j_str("ret", "nosocket"); drv_dbg(); drv_end();
			free(rdata);
			return;
		}
		s._id = sv[0];
		if (drv_raw(c, "via") && !strcmp(drv_raw(c, "via"), "conn")) {
			/* what mpt_connection_open sets up for a stream target */
			static const MPT_STRUCT(connection) cfresh = MPT_CONNECTION_INIT;
			via_conn = 1;
			con = cfresh;
			cs = (MPT_STRUCT(stream) *) malloc(sizeof(*cs));
			*cs = fresh;
			cs->_rd._dec = mpt_message_decoder(MPT_ENUM(EncodingCobs));
			cs->_wd._enc = mpt_message_encoder(MPT_ENUM(EncodingCobs));
			if (mpt_stream_dopen(cs, &s, MPT_STREAMFLAG(RdWr) | MPT_STREAMFLAG(Buffer)) < 0) {
				cs = 0;
			} else {
				con.out.buf._buf = (void *) cs;
				con.out._idlen = (uint8_t) idlen;
			}
		} else {
			in = mpt_stream_input(&s, MPT_STREAMFLAG(RdWr) | MPT_STREAMFLAG(Write) | MPT_STREAMFLAG(Buffer),
			                      MPT_ENUM(EncodingCobs), idlen);
		}
		peer = fresh;
		peer._rd._dec = mpt_message_decoder(MPT_ENUM(EncodingCobs));
		peer._wd._enc = mpt_message_encoder(MPT_ENUM(EncodingCobs));
		s._id = sv[1];
		have_peer = mpt_stream_dopen(&peer, &s, MPT_STREAMFLAG(RdWr) | MPT_STREAMFLAG(Buffer)) >= 0;
		drv_begin(c);
		j_str("ret", ((in || cs) && have_peer) ? "ok" : "noinput");
		drv_dbg();
		drv_end();
		free(rdata);
		return;
	}
	if ((!in && !cs) || !have_peer) {
		drv_begin(c); j_str("ret", "noinput"); drv_dbg(); drv_end();
		free(rdata);
		return;
	}
	if (!strcmp(a, "srequest") && !strcmp(act, "defer")
	    && (!via_conn || defer_slot < 1 || defer_slot > MAXH || hd[defer_slot])) {
		drv_begin(c); j_str("ret", "skipped"); drv_dbg(); drv_end();
		free(rdata);
		return;
	}
	if (!strcmp(a, "srequest") || !strcmp(a, "sanswer")) {
		int r;
		id = drv_bytes(c, "id", &il);
		pay = drv_bytes(c, "payload", &pl);
		r = feed(id, il, pay, pl);
		pump_back();
		drv_begin(c);
		emit_seen();
		emit_frames();
		j_str("r2", got_handle >= 0 ? (got_handle ? "handle" : "nohandle") : !have_r2 ? "none" : r2 < 0 ? "refused" : "ok");
		drv_dbg();
		j_int("dispatch", r);
		j_int("r1", r1);
		j_bytes("wire", wire, nwire > 0 ? (size_t) nwire : 0);
		drv_end();
	}
	else if (!strcmp(a, "sdreply")) {
		int h = (int) drv_int(c, "h", 0), r;
		if (h < 1 || h > MAXH || !hd[h]) {
			drv_begin(c); j_str("ret", "skipped"); drv_dbg(); drv_end();
		} else {
			MPT_STRUCT(message) msg; struct iovec vec;
			fill_msg(&msg, &vec);
			r = hd[h]->_vptr->reply(hd[h], &msg);
			if (r >= 0) hd[h] = 0;
			pump_back();
			drv_begin(c);
			j_str("ret", r < 0 ? "refused" : "ok");
			emit_frames();
			drv_dbg();
			drv_end();
		}
	}
	else if (!strcmp(a, "slate")) {
		int r;
		if (!saved_rc) {
			drv_begin(c); j_str("ret", "skipped"); drv_dbg(); drv_end();
		} else {
			r = send_reply(saved_rc);
			pump_back();
			drv_begin(c);
			j_str("ret", r < 0 ? "refused" : "ok");
			emit_frames();
			drv_dbg();
			drv_end();
		}
	}
	else {
		drv_begin(c); j_str("ret", "unknown-action"); drv_dbg(); drv_end();
	}
	free(id); free(pay); free(rdata);
}

int main(int argc, char **argv)
{
	signal(SIGPIPE, SIG_IGN);
	return drv_main(argc, argv);
}
