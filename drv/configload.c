/*
 * Driver for spec/ConfigLoad.tla (extension X10 of C10): the ways values
 * ARRIVE in and LEAVE the process-wide configuration other than by single
 * mpt_config_set calls.
 *
 *   init   base= sep= uni= rel=             as drv/config.c (path universe, optional sub-tree view)
 *   assign/remove/query via= path= sep= [end=] [val=]      single calls, as drv/config.c
 *   load   cfg=null|top|view how=root|prefix file=<bytes|none> dir=<bytes|none>
 *          a fresh directory is made under $VERIF_X10_TMP / $TMPDIR / /tmp; `file` is written to
 *          <root>/mpt.conf, `dir` to <root>/mpt.conf.d/10-x.conf; mpt_config_load(cfg, root) is called
 *          (how=prefix: MPT_PREFIX=<dir>, files below <dir>/etc, root = null); cfg=null is the
 *          library's own target (sub-tree "mpt" of the process-wide configuration)
 *   environ cfg=top|view|null how=array|environ pat=<bytes|0> sep=<char> vars=<hex;hex..>
 *          mpt_config_environ(); how=environ: the variables are put into the process environment
 *   args   cfg=top|view log=0|1 items=<hex;..>      mpt_config_args() with an iterator over the strings
 *   clear  cfg=top|view items=<hex;..>              mpt_config_clear()
 *   msgset cfg=null|top|view hdr=0|1 split=<n> els=<hex;..|none> val=<bytes>     mpt_message_assign()
 *   msgget cfg=null|top|view sep=<char> split=<n> paths=<hex;..>                 mpt_config_reply()
 *   nodeparse base=<bytes> bsep=<char> fmt=<bytes|0> acc=<bytes|0> text=<bytes>  mpt_node_parse() (replace)
 *   parsenode ...same...                                                         mpt_parse_node() (merge)
 *          on the node of the process-wide configuration that the library hands out for the base path
 *   pset/pnext/plast/pdel/paddelem          path object, as drv/config.c
 *   pfputs seps=<bytes|0>                   mpt_path_fputs() of the path object into a stream
 *   pdata                                   mpt_path_data() / mpt_path_valid(): bytes behind the path
 *   ppost  bytes=<bytes>                    mpt_path_addchar() for every byte (pending, not added)
 *
 * After every store call every path of the universe is queried (from the root and through the view).
 * The driver moves bytes and maps return codes to classes; it holds no expectation.
 */
#define _GNU_SOURCE
#undef malloc
#undef free
#undef calloc
#undef realloc

#include "drv.h"

#include <sys/stat.h>
#include <sys/uio.h>
#include <fcntl.h>
#include <dirent.h>

#include "config/config_global.c"   /* the repository's file, unchanged: nodeGlobal can be reset per behaviour */

#include "meta.h"
#include "types.h"
#include "config.h"
#include "message.h"
#include "event.h"
#include "output.h"
#include "node.h"
#include "parse.h"
#include <stdarg.h>

#include "config_common.h"

extern char **environ;

static MPT_INTERFACE(metatype) *viewmt;
static MPT_INTERFACE(config) *viewcfg;
static int usep = '.';
static MPT_STRUCT(path) po = MPT_PATH_INIT;
static long seq;

static void drv_reset(void)
{
	static const MPT_STRUCT(path) empty = MPT_PATH_INIT;
	nodeGlobal = 0;
	viewmt = 0;
	viewcfg = 0;
	po = empty;
	nuni = nrel = 0;
}

/* ---------- observation of the store ---------- */
static int grab_cb(void *ctx, MPT_INTERFACE(convertable) *val, const MPT_INTERFACE(collection) *sub)
{
	(void) sub;
	return grab_text(val, (struct grab *) ctx);
}
static char *lookup(const MPT_INTERFACE(config) *cfg, const char *str, int sep)
{
	MPT_STRUCT(path) p = MPT_PATH_INIT;
	struct grab g = { 0, 0 };
	p.sep = (char) sep;
	p.assign = 0;
	if (str) mpt_path_set(&p, str, -1);
	if (mpt_config_query(cfg, &p, grab_cb, &g) < 0 || !g.found) {
		free(g.text);
		return 0;
	}
	return g.text;
}
static long count_nodes(const MPT_STRUCT(node) *n)
{
	long c = 0;
	for (; n; n = n->next) c += 1 + count_nodes(n->children);
	return c;
}
/* parent/prev links that do not designate the node an element is listed under */
static long bad_links(const MPT_STRUCT(node) *n, const MPT_STRUCT(node) *parent)
{
	const MPT_STRUCT(node) *prev = 0;
	long bad = 0;
	for (; n; prev = n, n = n->next) {
		if (n->parent != parent || n->prev != prev) bad++;
		bad += bad_links(n->children, n);
	}
	return bad;
}
static void emit_all(void)
{
	int i;
	j_arr_open("all");
	for (i = 0; i < nuni; i++) {
		char *v = lookup(0, uni[i], usep);
		j_item_val(v);
		free(v);
	}
	j_arr_close();
	j_arr_open("rel");
	for (i = 0; i < nrel; i++) {
		char *v = viewcfg ? lookup(viewcfg, reluni[i], usep) : 0;
		j_item_val(v);
		free(v);
	}
	j_arr_close();
}
static void emit_store(struct cmd *c, const char *ret, long n)
{
	drv_begin(c);
	if (drv_int(c, "q", 0)) {
		drv_dbg();
		drv_end();
		return;
	}
	j_str("ret", ret);
	emit_all();
	drv_dbg();
	j_int("n", n);
	j_int("nodes", count_nodes(nodeGlobal));
	j_int("links", bad_links(nodeGlobal, 0));
	drv_end();
}

static MPT_INTERFACE(config) *which_cfg(const struct cmd *c, int *bad)
{
	const char *w = drv_raw(c, "cfg");
	*bad = 0;
	if (!w || !strcmp(w, "null")) return 0;
	if (!strcmp(w, "view")) {
		if (!viewcfg) *bad = 1;
		return viewcfg;
	}
	/* "top": the process-wide configuration as an explicit object */
	{
		MPT_INTERFACE(metatype) *mt = mpt_config_global(0);
		MPT_INTERFACE(config) *cfg = 0;
		if (!mt || MPT_metatype_convert(mt, MPT_ENUM(TypeConfigPtr), &cfg) < 0 || !cfg) *bad = 1;
		return cfg;
	}
}

/* ---------- files ---------- */
static const char *tmp_base(void)
{
	const char *t = getenv("VERIF_X10_TMP");
	if (!t || !*t) t = getenv("TMPDIR");
	if (!t || !*t) t = "/tmp";
	return t;
}
static int write_file(const char *path, const uint8_t *data, size_t len)
{
	FILE *f = fopen(path, "wb");
	if (!f) return -1;
	if (len && fwrite(data, len, 1, f) != 1) { fclose(f); return -1; }
	return fclose(f);
}
static int is_none(const struct cmd *c, const char *key)
{
	const char *r = drv_raw(c, key);
	return !r || !strcmp(r, "none");
}

/* ---------- string iterator (mpt_config_args, mpt_config_clear) ---------- */
struct str_iter {
	MPT_INTERFACE(iterator) it;
	MPT_STRUCT(value) val;
	const char *curr;
	char **items;
	int n, pos;
};
static const MPT_STRUCT(value) *sit_value(MPT_INTERFACE(iterator) *it)
{
	struct str_iter *s = (struct str_iter *) it;
	if (s->pos >= s->n) return 0;
	s->curr = s->items[s->pos];
	s->val._type = 's';
	s->val._addr = &s->curr;
	return &s->val;
}
static int sit_advance(MPT_INTERFACE(iterator) *it)
{
	struct str_iter *s = (struct str_iter *) it;
	if (s->pos >= s->n) return MPT_ERROR(MissingData);
	if (++s->pos >= s->n) return 0;
	return 's';
}
static int sit_reset(MPT_INTERFACE(iterator) *it)
{
	struct str_iter *s = (struct str_iter *) it;
	s->pos = 0;
	return s->n;
}
static const MPT_INTERFACE_VPTR(iterator) sit_vptr = { sit_value, sit_advance, sit_reset };

/* ---------- silent logger ---------- */
struct cnt_log {
	MPT_INTERFACE(logger) lg;
	long msgs;
};
static int cl_log(MPT_INTERFACE(logger) *lg, const char *from, int type, const char *fmt, va_list va)
{
	(void) from; (void) type; (void) fmt; (void) va;
	((struct cnt_log *) lg)->msgs++;
	return 0;
}
static const MPT_INTERFACE_VPTR(logger) cl_vptr = { cl_log };

/* ---------- reply context capturing the answer ---------- */
struct cap_reply {
	MPT_INTERFACE(reply_context) rc;
	uint8_t *data;
	size_t len;
	int calls;
};
static int cr_reply(MPT_INTERFACE(reply_context) *rc, const MPT_STRUCT(message) *msg)
{
	struct cap_reply *c = (struct cap_reply *) rc;
	size_t i, total = 0, pos = 0;
	c->calls++;
	free(c->data);
	c->data = 0;
	c->len = 0;
	if (!msg) return 0;
	total = msg->used;
	for (i = 0; i < msg->clen; i++) total += msg->cont[i].iov_len;
	c->data = (uint8_t *) malloc(total + 1);
	if (msg->used) memcpy(c->data, msg->base, msg->used);
	pos = msg->used;
	for (i = 0; i < msg->clen; i++) {
		if (msg->cont[i].iov_len) memcpy(c->data + pos, msg->cont[i].iov_base, msg->cont[i].iov_len);
		pos += msg->cont[i].iov_len;
	}
	c->len = total;
	return 0;
}
static MPT_INTERFACE(reply_context_detached) *cr_defer(MPT_INTERFACE(reply_context) *rc)
{
	(void) rc;
	return 0;
}
static const MPT_INTERFACE_VPTR(reply_context) cr_vptr = { cr_reply, cr_defer };

static int setConfig_drv(void *ptr, const MPT_STRUCT(path) *p, const MPT_STRUCT(value) *val)
{
	MPT_INTERFACE(config) *cfg = (MPT_INTERFACE(config) *) ptr;
	return cfg->_vptr->assign(cfg, p, val);
}
/* message over a buffer, the part from `split` on in a continuation vector */
static void mk_message(MPT_STRUCT(message) *msg, struct iovec *cont, uint8_t *buf, size_t len, size_t split)
{
	if (split > len) split = len;
	msg->base = buf;
	msg->used = split;
	msg->cont = 0;
	msg->clen = 0;
	if (split < len) {
		cont->iov_base = buf + split;
		cont->iov_len = len - split;
		msg->cont = cont;
		msg->clen = 1;
	}
}

static void emit_path(struct cmd *c, int isnum, long long num, const char *str)
{
	MPT_STRUCT(path) w = po;
	int guard = 0;
	drv_begin(c);
	if (drv_int(c, "q", 0)) {
		drv_dbg();
		drv_end();
		return;
	}
	if (isnum) j_int("ret", num);
	else j_str("ret", str);
	j_arr_open("els");
	while (w.len && guard++ < 100000) {
		const char *start = w.base + w.off;
		int l = mpt_path_next(&w);
		if (l < 0) break;
		j_item_bytes(start, (size_t) l);
	}
	j_arr_close();
	drv_dbg();
	j_int("off", (long long) po.off);
	j_int("len", (long long) po.len);
	j_int("first", po.first);
	j_int("flags", po.flags);
	drv_end();
}

static void drv_step(struct cmd *c)
{
	const char *a = c->action;
	int bad = 0;

	if (!strcmp(a, "init")) {
		const char *braw = drv_raw(c, "base");
		int hasview = braw && strcmp(braw, "0");
		char *base = arg_str(c, "base");
		usep = (int) drv_int(c, "sep", '.');
		po.sep = (char) usep;
		nuni = parse_list(drv_raw(c, "uni"), uni);
		nrel = parse_list(drv_raw(c, "rel"), reluni);
		if (hasview) {
			MPT_STRUCT(path) bp = MPT_PATH_INIT;
			bp.sep = (char) usep;
			mpt_path_set(&bp, base, -1);
			viewmt = mpt_config_global(&bp);
			if (viewmt) MPT_metatype_convert(viewmt, MPT_ENUM(TypeConfigPtr), &viewcfg);
		}
		emit_store(c, "ok", 0);
		return;
	}
	if (!strcmp(a, "assign") || !strcmp(a, "remove") || !strcmp(a, "query")) {
		const char *via = drv_raw(c, "via");
		MPT_INTERFACE(config) *cfg = (via && !strcmp(via, "view")) ? viewcfg : 0;
		char *path = arg_str(c, "path");
		int sep = (int) drv_int(c, "sep", '.');
		if (via && !strcmp(via, "view") && !viewcfg) {
			emit_store(c, "noview", 0);
		}
		else if (a[0] == 'a') {
			char *val = arg_str(c, "val");
			int r = mpt_config_set(cfg, path, val, sep, (int) drv_int(c, "end", 0));
			emit_store(c, r < 0 ? "refused" : "ok", r);
			free(val);
		}
		else if (a[0] == 'r') {
			int r = mpt_config_set(cfg, path, 0, sep, 0);
			emit_store(c, r < 0 ? "refused" : "ok", r);
		}
		else {
			char *v = lookup(cfg, path, sep);
			drv_begin(c);
			if (!drv_int(c, "q", 0)) {
				j_val("ret", v);
				emit_all();
			}
			drv_dbg();
			drv_end();
			free(v);
		}
		free(path);
		return;
	}
	if (!strcmp(a, "load")) {
		MPT_INTERFACE(config) *cfg = which_cfg(c, &bad);
		const char *how = drv_raw(c, "how");
		int prefix = how && !strcmp(how, "prefix");
		char root[512], etc[600], dir[700], f1[800], f2[800];
		size_t flen = 0, dlen = 0;
		uint8_t *ftxt = drv_bytes(c, "file", &flen), *dtxt = drv_bytes(c, "dir", &dlen);
		int r;
		snprintf(root, sizeof(root), "%s/x10-%ld-%ld", tmp_base(), (long) getpid(), seq++);
		mkdir(root, 0700);
		if (prefix) {
			snprintf(etc, sizeof(etc), "%s/etc", root);
			mkdir(etc, 0700);
		} else {
			snprintf(etc, sizeof(etc), "%s", root);
		}
		snprintf(dir, sizeof(dir), "%s/mpt.conf.d", etc);
		snprintf(f1, sizeof(f1), "%s/mpt.conf", etc);
		snprintf(f2, sizeof(f2), "%s/10-x.conf", dir);
		if (!is_none(c, "file")) write_file(f1, ftxt, flen);
		if (!is_none(c, "dir")) {
			mkdir(dir, 0700);
			write_file(f2, dtxt, dlen);
		}
		if (bad) r = -1000;
		else if (prefix) {
			setenv("MPT_PREFIX", root, 1);
			r = mpt_config_load(cfg, 0, 0);
			unsetenv("MPT_PREFIX");
		}
		else {
			r = mpt_config_load(cfg, root, 0);
		}
		unlink(f1);
		unlink(f2);
		rmdir(dir);
		if (prefix) rmdir(etc);
		rmdir(root);
		emit_store(c, r < 0 ? "refused" : "ok", r);
		free(ftxt);
		free(dtxt);
		return;
	}
	if (!strcmp(a, "environ")) {
		MPT_INTERFACE(config) *cfg = which_cfg(c, &bad);
		const char *how = drv_raw(c, "how");
		const char *praw = drv_raw(c, "pat");
		char *pat = (praw && strcmp(praw, "0")) ? arg_str(c, "pat") : 0;
		char *vars[MAXUNI + 1];
		int n = parse_list(drv_raw(c, "vars"), vars), i, r;
		int sep = (int) drv_int(c, "sep", 0);
		vars[n] = 0;
		if (bad) r = -1000;
		else if (how && !strcmp(how, "environ")) {
			clearenv();
			for (i = 0; i < n; i++) {
				char *eq = vars[i] ? strchr(vars[i], '=') : 0;
				if (!eq) continue;
				*eq = 0;
				setenv(vars[i], eq + 1, 1);
				*eq = '=';
			}
			r = mpt_config_environ(cfg, pat, sep, 0);
			clearenv();
		}
		else {
			r = mpt_config_environ(cfg, pat, sep, vars);
		}
		emit_store(c, r < 0 ? "refused" : "ok", r);
		free(pat);
		return;
	}
	if (!strcmp(a, "args") || !strcmp(a, "clear")) {
		MPT_INTERFACE(config) *cfg = which_cfg(c, &bad);
		struct str_iter si;
		struct cnt_log lg;
		char *items[MAXUNI];
		int r;
		si.it._vptr = &sit_vptr;
		si.items = items;
		si.n = parse_list(drv_raw(c, "items"), items);
		si.pos = 0;
		lg.lg._vptr = &cl_vptr;
		lg.msgs = 0;
		if (bad || !cfg) r = -1000;
		else if (a[0] == 'a') r = mpt_config_args(cfg, si.n ? &si.it : 0, drv_int(c, "log", 0) ? &lg.lg : 0);
		else r = mpt_config_clear(cfg, si.n ? &si.it : 0, drv_int(c, "log", 0) ? &lg.lg : 0);
		emit_store(c, r < 0 ? "refused" : "ok", r);
		return;
	}
	if (!strcmp(a, "msgset")) {
		MPT_INTERFACE(config) *cfg = which_cfg(c, &bad);
		char *els[MAXUNI];
		int n = parse_list(drv_raw(c, "els"), els), i, r, hdr = (int) drv_int(c, "hdr", 0);
		size_t vlen = 0, len = 0, cap = 4;
		uint8_t *val = drv_bytes(c, "val", &vlen), *buf;
		MPT_STRUCT(message) msg = MPT_MESSAGE_INIT;
		struct iovec cont;
		for (i = 0; i < n; i++) cap += strlen(els[i]) + 1;
		buf = (uint8_t *) malloc(cap + vlen + 1);
		if (hdr) {
			buf[len++] = MPT_MESGTYPE(ParamSet);
			buf[len++] = (uint8_t) n;
		}
		for (i = 0; i < n; i++) {
			size_t l = strlen(els[i]) + 1;
			memcpy(buf + len, els[i], l);
			len += l;
		}
		if (vlen) memcpy(buf + len, val, vlen);
		len += vlen;
		mk_message(&msg, &cont, buf, len, (size_t) drv_int(c, "split", 1 << 20));
		if (bad) r = -1000;
		else if (cfg) r = mpt_message_assign(&msg, hdr ? -1 : n, setConfig_drv, cfg);
		else r = mpt_message_assign(&msg, hdr ? -1 : n, 0, 0);
		emit_store(c, r < 0 ? "refused" : "ok", r);
		free(buf);
		free(val);
		return;
	}
	if (!strcmp(a, "msgget")) {
		MPT_INTERFACE(config) *cfg = which_cfg(c, &bad);
		char *paths[MAXUNI];
		int n = parse_list(drv_raw(c, "paths"), paths), i, r, sep = (int) drv_int(c, "sep", 0);
		size_t len = 0, cap = 4, pos;
		uint8_t *buf;
		MPT_STRUCT(message) msg = MPT_MESSAGE_INIT;
		struct iovec cont;
		struct cap_reply cr;
		for (i = 0; i < n; i++) cap += strlen(paths[i]) + 1;
		buf = (uint8_t *) malloc(cap);
		for (i = 0; i < n; i++) {
			size_t l = strlen(paths[i]);
			memcpy(buf + len, paths[i], l);
			len += l;
			if (i + 1 < n || drv_int(c, "term", 0)) buf[len++] = (uint8_t) sep;
		}
		mk_message(&msg, &cont, buf, len, (size_t) drv_int(c, "split", 1 << 20));
		cr.rc._vptr = &cr_vptr;
		cr.data = 0;
		cr.len = 0;
		cr.calls = 0;
		r = bad ? -1000 : mpt_config_reply(&cr.rc, cfg, sep, &msg);
		drv_begin(c);
		if (!drv_int(c, "q", 0)) {
			/* the answer: kind by its header command, values = the NUL separated fields behind the header */
			const char *kind = !cr.calls ? "none" : (cr.len >= 2 && cr.data[0] == MPT_MESGTYPE(ParamGet)) ? "values" : "absent";
			j_str("ret", kind);
			j_arr_open("vals");
			if (!strcmp(kind, "values")) {
				pos = 2;
				while (1) {
					size_t e = pos;
					while (e < cr.len && cr.data[e]) e++;
					j_item_bytes(cr.data + pos, e - pos);
					if (e >= cr.len) break;
					pos = e + 1;
				}
			}
			j_arr_close();
			emit_all();
		}
		drv_dbg();
		j_int("n", r);
		j_int("calls", cr.calls);
		j_int("code", (cr.calls && cr.len >= 2) ? (int8_t) cr.data[1] : 0);
		drv_end();
		free(cr.data);
		free(buf);
		return;
	}
	if (!strcmp(a, "nodeparse") || !strcmp(a, "parsenode")) {
		char *base = arg_str(c, "base");
		const char *fraw = drv_raw(c, "fmt"), *araw = drv_raw(c, "acc");
		char *fmt = (fraw && strcmp(fraw, "0")) ? arg_str(c, "fmt") : 0;
		char *acc = (araw && strcmp(araw, "0")) ? arg_str(c, "acc") : 0;
		size_t tlen = 0;
		uint8_t *txt = drv_bytes(c, "text", &tlen);
		MPT_STRUCT(path) bp = MPT_PATH_INIT;
		MPT_INTERFACE(metatype) *mt;
		MPT_STRUCT(node) *node = 0;
		char fn[600];
		FILE *fp;
		int r = -1000;
		bp.sep = (char) drv_int(c, "bsep", usep);
		mpt_path_set(&bp, base, -1);
		snprintf(fn, sizeof(fn), "%s/x10-%ld-%ld.conf", tmp_base(), (long) getpid(), seq++);
		write_file(fn, txt, tlen);
		fp = fopen(fn, "r");
		if ((mt = mpt_config_global(&bp))
		    && MPT_metatype_convert(mt, MPT_ENUM(TypeNodePtr), &node) >= 0
		    && node && fp) {
			if (a[0] == 'n') {
				r = mpt_node_parse(node, fp, fmt, acc, 0);
			} else {
				MPT_STRUCT(parser_context) parse = MPT_PARSER_INIT;
				parse.src.getc = (int (*)(void *)) mpt_getchar_stdio;
				parse.src.arg = fp;
				if (acc) mpt_parse_accept(&parse.name, acc);
				r = mpt_parse_node(node, &parse, fmt);
			}
		}
		if (fp) fclose(fp);
		unlink(fn);
		if (mt) mt->_vptr->unref(mt);
		emit_store(c, r < 0 ? "refused" : "ok", r);
		free(base); free(fmt); free(acc); free(txt);
		return;
	}
	/* ---- path object ---- */
	if (!strcmp(a, "pset")) {
		char *str = arg_str(c, "str");
		po.sep = (char) drv_int(c, "sep", '.');
		po.assign = (char) drv_int(c, "asg", 0);
		(void) mpt_path_set(&po, str, -1);
		emit_path(c, 0, 0, "ok");
		return;
	}
	if (!strcmp(a, "pnext")) {
		int r = mpt_path_next(&po);
		emit_path(c, 1, r < 0 ? -1 : r, 0);
		return;
	}
	if (!strcmp(a, "plast")) {
		int r = mpt_path_last(&po);
		emit_path(c, 1, r < 0 ? -1 : r, 0);
		return;
	}
	if (!strcmp(a, "pdel")) {
		int r = mpt_path_del(&po);
		emit_path(c, 1, r < 0 ? -1 : r, 0);
		return;
	}
	if (!strcmp(a, "paddelem")) {
		size_t len = 0, i;
		uint8_t *e = drv_bytes(c, "elem", &len);
		int valid = 0, r = 0;
		for (i = 0; i < len && r >= 0; i++) {
			if ((r = mpt_path_addchar(&po, e[i])) >= 0) valid = mpt_path_valid(&po);
		}
		if (r >= 0) r = mpt_path_add(&po, len ? valid : 0);
		emit_path(c, 0, 0, r < 0 ? "refused" : "ok");
		free(e);
		return;
	}
	if (!strcmp(a, "pfputs")) {
		const char *sraw = drv_raw(c, "seps");
		char *seps = (sraw && strcmp(sraw, "0")) ? arg_str(c, "seps") : 0;
		char *mem = 0;
		size_t mlen = 0;
		FILE *f = open_memstream(&mem, &mlen);
		int r = mpt_path_fputs(&po, f, seps);
		fclose(f);
		drv_begin(c);
		if (!drv_int(c, "q", 0)) {
			j_int("ret", r);
			j_bytes("text", mem, mlen);
		}
		drv_dbg();
		drv_end();
		free(mem);
		free(seps);
		return;
	}
	if (!strcmp(a, "ppost")) {
		size_t len = 0, i;
		uint8_t *e = drv_bytes(c, "bytes", &len);
		int r = 0;
		for (i = 0; i < len && r >= 0; i++) r = mpt_path_addchar(&po, e[i]);
		emit_path(c, 0, 0, r < 0 ? "refused" : "ok");
		free(e);
		return;
	}
	if (!strcmp(a, "pdata")) {
		const char *d = mpt_path_data(&po);
		int v = mpt_path_valid(&po);
		drv_begin(c);
		if (!drv_int(c, "q", 0)) {
			j_int("valid", v);
			/* bytes behind the path: the pending ones of an array backed path, the rest of the string otherwise */
			if (!d) j_bytes("post", "", 0);
			else if (po.flags & MPT_PATHFLAG(HasArray)) j_bytes("post", d, v > 0 ? (size_t) v : 0);
			/* the byte that ended the path is the string's terminator: nothing follows */
			else if (!po.len || !po.base[po.off + po.len - 1]) j_bytes("post", "", 0);
			else j_bytes("post", d, strlen(d));
		}
		drv_dbg();
		drv_end();
		return;
	}
	drv_begin(c);
	j_str("ret", "unknown-action");
	drv_dbg();
	drv_end();
}

int main(int argc, char **argv)
{
	return drv_main(argc, argv);
}
