/*
 * Mapping seam for drv/mapbuf.c (X23): mptcore/array/buffer_map.c compiled
 * into the driver with
 *   - the page size settable per behaviour (scaled models),
 *   - mmap/munmap routed through wrappers that put an inaccessible guard page
 *     behind every mapping (a write behind a page-multiple capacity faults)
 *     and, where the requested length is not a multiple of the machine's page
 *     size (scaled page), fill the slack with a canary pattern the library
 *     has no business writing (mapseam_check reports damage).
 * No judgement here.
 */
#include <string.h>
#include <stdint.h>
#include <unistd.h>
#include <sys/mman.h>

#define MAPSEAM_MAX 256
#define MAPSEAM_CANARY 0xA5

static struct mapseam_region {
	uint8_t *base;
	size_t len;      /* requested */
	size_t real;     /* data pages (without the guard page) */
} mapseam_regions[MAPSEAM_MAX];
static int mapseam_count = 0;
static long mapseam_calls = 0;

static size_t mapseam_page(void)
{
	static size_t p = 0;
	if (!p) p = (size_t) sysconf(_SC_PAGESIZE);
	return p;
}
static void *mapseam_mmap(void *addr, size_t len, int prot, int flags, int fd, off_t off)
{
	size_t pg = mapseam_page(), real;
	uint8_t *base;
	(void) addr;
	mapseam_calls++;
	if (len > ((size_t) 1 << 40)) {      /* no machine here maps a terabyte; same answer as the kernel's */
		return MAP_FAILED;
	}
	real = ((len + pg - 1) / pg) * pg;
	if (!real) real = pg;
	base = mmap(0, real + pg, prot, flags, fd, off);
	if (base == MAP_FAILED) return MAP_FAILED;
	mprotect(base + real, pg, PROT_NONE);
	if (real > len) memset(base + len, MAPSEAM_CANARY, real - len);
	if (mapseam_count < MAPSEAM_MAX) {
		struct mapseam_region *r = &mapseam_regions[mapseam_count++];
		r->base = base; r->len = len; r->real = real;
	}
	return base;
}
static int mapseam_munmap(void *addr, size_t len)
{
	size_t pg = mapseam_page();
	int i;
	(void) len;
	for (i = 0; i < mapseam_count; i++) {
		if (mapseam_regions[i].base == (uint8_t *) addr) {
			size_t real = mapseam_regions[i].real;
			mapseam_regions[i] = mapseam_regions[--mapseam_count];
			return munmap(addr, real + pg);
		}
	}
	return munmap(addr, len);
}

#define mmap   mapseam_mmap
#define munmap mapseam_munmap

#include "types.h"
#include "array.h"

#include "array/buffer_map.c"

#undef mmap
#undef munmap

void mapseam_set_psize(int n)
{
	_mpt_buffer_map_psize = n;
}
/* forget (and release) every mapping of the previous behaviour */
void mapseam_reset(void)
{
	size_t pg = mapseam_page();
	while (mapseam_count > 0) {
		struct mapseam_region *r = &mapseam_regions[--mapseam_count];
		munmap(r->base, r->real + pg);
	}
}
/* 0: every canary byte behind a live mapping's requested length is intact */
int mapseam_check(void)
{
	int i;
	for (i = 0; i < mapseam_count; i++) {
		const struct mapseam_region *r = &mapseam_regions[i];
		size_t k;
		for (k = r->len; k < r->real; k++) {
			if (r->base[k] != MAPSEAM_CANARY) return 1;
		}
	}
	return 0;
}
int mapseam_live(void)
{
	return mapseam_count;
}
