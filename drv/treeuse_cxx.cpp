/*
 * C++ build of drv/treeuse.c (X14): class node of mpt++ (node::create,
 * set_metatype, data(), ~node) with the node creator of libmpt++ compiled
 * behind the allocation seam; see the head of treeuse.c.
 */
#define TU_CXX 1
#include "treeuse.c"
