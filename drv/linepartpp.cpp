/*
 * Driver for spec/Linepart.tla (C18), C++ binding:
 *   init data=<ints> lo= hi= ranged= lim= [shift=]
 *   apply mode=fresh|set   linepart::array (after set(length) for mode=set),
 *                          apply(transform3 with limit, 0, data) -> list of parts
 *   poly                   polyline::set(transform3, one value_store) -> parts,
 *                          points() of every part, end points of line()
 * The transform maps dimension 0 to x unchanged (scale 1, add 0).
 */
#include "drv.h"

#include <math.h>

#include "values.h"
#include "layout.h"

using namespace mpt;

static double *data, *data2;
static size_t dlen, dlen2;
static struct range rng;
static int ranged;
static int shift;
static linepart::array *arr;   /* parts of the last apply/poly (for join) */

static void drv_reset(void)
{
	free(data); data = 0; dlen = 0;
	free(data2); data2 = 0; dlen2 = 0;
	ranged = 1; shift = 0;
	delete arr; arr = 0;
}

static void setup(layout::graph::transform3 &tr)
{
	tr._dim[0].scale = 1.0;
	tr._dim[0].add = 0.0f;
	tr._dim[0].to.x = 1;
	tr._dim[0].to.y = 0;
	tr._dim[0]._flags = ranged ? TransformLimit : 0;
	tr._dim[0].limit = rng;
	tr._dim[1].to.x = tr._dim[1].to.y = 0;
	tr._dim[2].to.x = tr._dim[2].to.y = 0;
	tr._base.x = tr._base.y = 0;
}

static void emit_parts(span<const linepart> ps)
{
	j_arr_open("parts");
	for (const linepart *p = ps.begin(), *e = ps.end(); p < e; ++p) {
		long long v[4];
		v[0] = p->raw; v[1] = p->usr; v[2] = p->_cut; v[3] = p->_trim;
		j_sep();
		fprintf(drv_out, "[%lld,%lld,%lld,%lld]", v[0], v[1], v[2], v[3]);
	}
	j_arr_close();
}
static void bad(struct cmd *c, const char *why)
{
	drv_begin(c);
	j_str("ret", why);
	drv_dbg();
	drv_end();
}
/* coordinate -> integer in input units (exact for input values) */
static long long unit(double x, int *exact)
{
	double u = ldexp(x, shift);
	if (u != floor(u) || fabs(u) > 1e15) *exact = 0;
	return (long long) floor(u);
}

static void drv_step(struct cmd *c)
{
	const char *a = c->action;

	if (!strcmp(a, "init")) {
		size_t n, i;
		long long *v;
		double f;
		drv_reset();
		v = drv_ints(c, "data", &n);
		shift = (int) drv_int(c, "shift", 0);
		f = ldexp(1.0, -shift);
		data = (double *) malloc(n ? n * sizeof(*data) : 1);
		for (i = 0; i < n; i++) data[i] = (double) v[i] * f;
		free(v);
		dlen = n;
		v = drv_ints(c, "data2", &n);
		data2 = (double *) malloc(n ? n * sizeof(*data2) : 1);
		for (i = 0; i < n; i++) data2[i] = (double) v[i] * f;
		free(v);
		dlen2 = n;
		rng.min = (double) drv_int(c, "lo", 0) * f;
		rng.max = (double) drv_int(c, "hi", 0) * f;
		ranged = (int) drv_int(c, "ranged", 1);
		drv_begin(c);
		j_int("x", 0);
		drv_dbg();
		j_int("len", (long long) dlen);
		drv_end();
		return;
	}
	if (!strcmp(a, "apply")) {
		const char *mode = drv_raw(c, "mode");
		layout::graph::transform3 tr;
		bool ok, sok = true;
		setup(tr);
		delete arr;
		arr = new linepart::array;
		if (mode && !strncmp(mode, "set", 3)) {
			sok = arr->set((long) dlen);
			if (sok && !strcmp(mode, "set2")) {
				sok = arr->set(-1);     /* re-chunk from the existing parts */
			}
		}
		ok = arr->apply(tr, 0, span<const double>(data, (long) dlen));
		drv_begin(c);
		emit_parts(arr->elements());
		drv_dbg();
		j_int("ret", ok);
		j_int("set", sok);
		j_int("raw", arr->length_raw());
		j_int("usr", arr->length_user());
		drv_end();
		return;
	}
	if (!strcmp(a, "apply2")) {
		/* both dimensions: the second applied onto the parts of the first; polyline::set on two stores */
		const char *mode = drv_raw(c, "mode");
		layout::graph::transform3 tr;
		value_store st[2];
		polyline pl;
		bool ok;
		setup(tr);
		tr._dim[1].scale = 1.0;
		tr._dim[1].add = 0.0f;
		tr._dim[1].to.x = 0;
		tr._dim[1].to.y = 1;
		tr._dim[1]._flags = ranged ? TransformLimit : 0;
		tr._dim[1].limit = rng;
		delete arr;
		arr = new linepart::array;
		if (mode && !strcmp(mode, "set")) arr->set((long) dlen);
		arr->apply(tr, 0, span<const double>(data, (long) dlen));
		linepart::array first(*arr);   /* parts of the first dimension (diagnostics) */
		arr->apply(tr, 1, span<const double>(data2, (long) dlen2));
		if (!st[0].set(span<const double>(data, (long) dlen)) || !st[1].set(span<const double>(data2, (long) dlen2))) { bad(c, "bad-store"); return; }
		ok = pl.set(tr, span<const value_store>(st, 2));
		drv_begin(c);
		emit_parts(arr->elements());
		j_arr_open("pparts");
		{
			span<const linepart> ps = pl.parts();
			for (const linepart *p = ps.begin(), *e = ps.end(); p < e; ++p) {
				j_sep();
				fprintf(drv_out, "[%d,%d,%d,%d]", p->raw, p->usr, p->_cut, p->_trim);
			}
		}
		j_arr_close();
		j_arr_open("np");
		for (polyline::iterator it = pl.begin(), e = pl.end(); it != e; ++it) {
			polyline::part p = *it;
			long n = p.points().size();
			j_item_int(n < 0 || n > 1000000000L ? -1 : n);
		}
		j_arr_close();
		drv_dbg();
		j_int("ret", ok);
		j_arr_open("parts0");
		{
			span<const linepart> ps = first.elements();
			for (const linepart *p = ps.begin(), *e = ps.end(); p < e; ++p) {
				j_sep();
				fprintf(drv_out, "[%d,%d,%d,%d]", p->raw, p->usr, p->_cut, p->_trim);
			}
		}
		j_arr_close();
		drv_end();
		return;
	}
	if (!strcmp(a, "join")) {
		long n = arr ? arr->length() : 0;
		linepart *b, *r;
		if (n < 2) {
			drv_begin(c);
			j_str("ret", "none");
			drv_dbg();
			drv_end();
			return;
		}
		b = arr->begin();
		r = b[n - 2].join(b[n - 1]);
		drv_begin(c);
		j_str("ret", r ? "ok" : "refused");
		j_open("to");
		j_int("raw", b[n - 2].raw);
		j_int("usr", b[n - 2].usr);
		j_int("cut", b[n - 2]._cut);
		j_int("trim", b[n - 2]._trim);
		j_close();
		drv_dbg();
		j_int("same", r == 0 || r == &b[n - 2]);
		drv_end();
		if (r) arr->resize(n - 1);
		return;
	}
	if (!strcmp(a, "poly")) {
		layout::graph::transform3 tr;
		value_store st;
		polyline pl;
		bool ok;
		int full = dlen <= 4096;
		long npoints = 0, nparts = 0;
		setup(tr);
		if (!st.set(span<const double>(data, (long) dlen))) { bad(c, "bad-store"); return; }
		ok = pl.set(tr, span<const value_store>(&st, 1));
		delete arr;
		arr = new linepart::array;
		{
			span<const linepart> ps = pl.parts();
			for (long i = 0; i < ps.size(); ++i) arr->insert(i, ps.begin()[i]);
		}
		drv_begin(c);
		j_str("ret", ok ? "ok" : "refused");
		emit_parts(pl.parts());
		/* per part: values of points(), then [known, x0*65536, known, x1*65536] of line() in input units */
		j_arr_open("pts");
		for (polyline::iterator it = pl.begin(), e = pl.end(); it != e; ++it) {
			polyline::part p = *it;
			span<const polyline::point> pt = p.points();
			++nparts;
			npoints += pt.size();
			if (!full) continue;
			j_sep();
			fputc('[', drv_out);
			for (long i = 0; i < pt.size(); ++i) {
				int ex = 1;
				long long u = unit(pt.begin()[i].x, &ex);
				fprintf(drv_out, i ? ",%lld" : "%lld", ex ? u : 999999999LL);
			}
			fputc(']', drv_out);
		}
		j_arr_close();
		j_arr_open("ends");
		for (polyline::iterator it = pl.begin(), e = pl.end(); full && it != e; ++it) {
			polyline::part p = *it;
			span<const polyline::point> ln = p.line();
			long long v[4] = { 0, 0, 0, 0 };
			if (ln.size() > 0) {
				int ex = 1;
				double x0 = ln.begin()[0].x * 65536.0, x1 = ln.begin()[ln.size() - 1].x * 65536.0;
				long long u0 = unit(x0, &ex);
				if (ex && fabs((double) u0) < 1e9) { v[0] = 1; v[1] = u0; }
				ex = 1;
				u0 = unit(x1, &ex);
				if (ex && fabs((double) u0) < 1e9) { v[2] = 1; v[3] = u0; }
			}
			j_sep();
			fprintf(drv_out, "[%lld,%lld,%lld,%lld]", v[0], v[1], v[2], v[3]);
		}
		j_arr_close();
		j_int("full", full);
		drv_dbg();
		j_int("nparts", nparts);
		j_int("npoints", npoints);
		j_int("total", pl.points().size());
		drv_end();
		return;
	}
	bad(c, "unknown-action");
}

int main(int argc, char **argv)
{
	return drv_main(argc, argv);
}
