/*
 * Driver for spec/CowArray.tla (C04), C++ binding: the array, slice,
 * typed_array, unique_array, pointer_array and map templates of
 * mptcore/array.h / mpt++/array.cpp.  "init api=<xarr|xtyped|xunique|xptr|xmap>"
 * selects the handle class; after every call the content, length and type of
 * EVERY handle is read back.  The allocator (drv/alloc_seam.c = the
 * repository's buffer_alloc.c) runs at the granularity given to init.
 * No judgement here.
 */
#include "drv.h"

#include <sys/uio.h>

#include "types.h"
#include "array.h"

using namespace mpt;

extern "C" {
void seam_set_psize(int);
long seam_refcount(const buffer *);
int seam_is_alloc(const buffer *);
}

#define MAXH 8

/* sizes at the limits are written symbolically: "max-k" = SIZE_MAX-k, "smax-k" = LONG_MAX-k, "smax+k" */
#include <limits.h>
static size_t drv_size(const struct cmd *c, const char *key, size_t def)
{
	const char *r = drv_raw(c, key);
	if (!r || !*r) return def;
	if (!strncmp(r, "max-", 4)) return SIZE_MAX - (size_t) strtoull(r + 4, 0, 0);
	if (!strncmp(r, "smax-", 5)) return (size_t) LONG_MAX - (size_t) strtoull(r + 5, 0, 0);
	if (!strncmp(r, "smax+", 5)) return (size_t) LONG_MAX + (size_t) strtoull(r + 5, 0, 0);
	return (size_t) strtoull(r, 0, 0);
}
static long drv_long(const struct cmd *c, const char *key, long def)
{
	const char *r = drv_raw(c, key);
	if (!r || !*r) return def;
	if (!strncmp(r, "smax-", 5)) return LONG_MAX - strtol(r + 5, 0, 0);
	return strtol(r, 0, 0);
}
static int huge_len;

struct Dummy { int x; };

/* accessors for protected members (no behaviour added) */
struct XArr : public array {
	XArr() : array() { }
	content *c() const { return _buf.instance(); }
};
struct XSlice : public slice {
	XSlice(const array &a) : slice(a) { }
	size_t off() const { return _off; }
	size_t len() const { return _len; }
};
struct TA : public typed_array<uint8_t> {
	TA(long len = -1) : typed_array<uint8_t>(len) { }
	mpt::content<uint8_t> *c() const { return _ref.instance(); }
};
struct UA : public unique_array<uint8_t> {
	UA(long len = -1) : unique_array<uint8_t>(len) { }
	mpt::content<uint8_t> *c() const { return _ref.instance(); }
};
struct PA : public pointer_array<Dummy> {
	PA(long len = -1) : pointer_array<Dummy>(len) { }
	mpt::content<Dummy *> *c() const { return _ref.instance(); }
};
typedef map<uint8_t, uint8_t> bmap;
struct MP : public bmap {
	mpt::content<bmap::entry> *c() const {
		struct acc : public typed_array<bmap::entry> { mpt::content<bmap::entry> *c() const { return _ref.instance(); } };
		return static_cast<const acc &>(_d).c();
	}
};

static XArr *A;
static TA *T;
static UA *U;
static PA *P;
static MP *M;
static int nh;
static char api[16];
static size_t esize = 1;

static struct snap { const buffer *buf; uint8_t *bytes; size_t used; } snaps[64];
static int nsnaps;

/* the buffer behind handle i (0 for none / the static empty default instance) */
static buffer *hbuf(int i)
{
	buffer *b = 0;
	if (!strcmp(api, "xarr")) b = A[i].c();
	else if (!strcmp(api, "xtyped")) b = T[i].c();
	else if (!strcmp(api, "xunique")) b = U[i].c();
	else if (!strcmp(api, "xptr")) b = P[i].c();
	else if (!strcmp(api, "xmap")) b = M[i].c();
	return (b && seam_is_alloc(b)) ? b : 0;
}
/* used/size through the public accessors of the raw content view */
static size_t bused(const buffer *b) { return static_cast<const array::content *>(b)->length(); }
static size_t bsize(const buffer *b) { const array::content *c = static_cast<const array::content *>(b); return c->length() + c->left(); }
static uint8_t *bdata(const buffer *b) { return (uint8_t *) static_cast<const array::content *>(b)->data(); }

static const char *name_of(const buffer *b)
{
	const struct type_traits *t;
	if (!b) return "none";
	if (!(t = b->content_traits())) return "raw";
	if (t == type_traits::get('c')) return "c";
	if (!strcmp(api, "xtyped") || !strcmp(api, "xunique")) return t == type_properties<uint8_t>::traits() ? "y" : "other";
	if (!strcmp(api, "xptr")) return t == type_properties<Dummy *>::traits() ? "p" : "other";
	if (!strcmp(api, "xmap")) return t == type_properties<bmap::entry>::traits() ? "kv" : "other";
	return "other";
}

static void drv_reset(void)
{
	/* previous objects are abandoned, not destroyed (see cowarray.c) */
	A = 0; T = 0; U = 0; P = 0; M = 0;
	nh = 0;
	nsnaps = 0;
	api[0] = 0;
	seam_set_psize(0);
}

static int referenced(const buffer *b)
{
	for (int i = 0; i < nh; i++) if (hbuf(i) == b) return 1;
	return 0;
}
static const char *frozen_state(void)
{
	const char *ret = "ok";
	int k = 0;
	for (int i = 0; i < nsnaps; i++) {
		struct snap *s = &snaps[i];
		if (!referenced(s->buf) || !(const_cast<buffer *>(s->buf)->get_flags() & BufferImmutable)) continue;
		if (bused(s->buf) != s->used || (s->used && memcmp(bdata(s->buf), s->bytes, s->used))) ret = "changed";
		snaps[k++] = *s;
	}
	nsnaps = k;
	return ret;
}

static long elem_at(const buffer *b, size_t k)
{
	const uint8_t *p = bdata(b) + k * esize;
	if (!strcmp(api, "xptr")) return (long) (uintptr_t) *(Dummy * const *) p;
	if (!strcmp(api, "xmap")) { const bmap::entry *e = (const bmap::entry *) p; return e->key * 16 + e->value; }
	return *p;
}


/* "ok" while every buffer's reference count equals the number of handles holding it */
static const char *refs_state(void)
{
	for (int i = 0; i < nh; i++) {
		buffer *b = hbuf(i);
		long n = 0;
		if (!b) continue;
		for (int k = 0; k < nh; k++) if (hbuf(k) == b) ++n;
		if (seam_refcount(b) != n) return "bad";
	}
	return "ok";
}

static void emit_all(const char *ret, const long *out, size_t outlen)
{
	const char *fr = frozen_state();
	j_str("ret", ret);
	j_arr_open("out");
	for (size_t k = 0; k < outlen; k++) j_item_int(out[k]);
	j_arr_close();
	j_arr_open("vals");
	for (int i = 0; i < nh; i++) {
		const buffer *b = hbuf(i);
		size_t n = b ? (bused(b) <= bsize(b) ? bused(b) : bsize(b)) / esize : 0;
		j_sep();
		fputc('[', drv_out);
		for (size_t k = 0; k < n; k++) fprintf(drv_out, k ? ",%ld" : "%ld", elem_at(b, k));
		fputc(']', drv_out);
		drv_first = 0;
	}
	j_arr_close();
	j_arr_open("lens");
	for (int i = 0; i < nh; i++) j_item_int(hbuf(i) ? (long long) (bused(hbuf(i)) / esize) : 0);
	j_arr_close();
	j_arr_open("typs");
	for (int i = 0; i < nh; i++) j_item_str(name_of(hbuf(i)));
	j_arr_close();
	j_str("frozen", fr);
	j_str("refok", refs_state());
}
static void emit_dbg(size_t size0, size_t used0, long long rc)
{
	drv_dbg();
	j_int("size0", (long long) size0);
	j_int("used0", (long long) used0);
	j_int("rc", rc);
	j_arr_open("sizes");
	for (int i = 0; i < nh; i++) j_item_int(hbuf(i) ? (long long) (bsize(hbuf(i)) / esize) : 0);
	j_arr_close();
	j_arr_open("refs");
	for (int i = 0; i < nh; i++) j_item_int(seam_refcount(hbuf(i)));
	j_arr_close();
	j_arr_open("flags");
	for (int i = 0; i < nh; i++) j_item_int(hbuf(i) ? (long long) hbuf(i)->get_flags() : 0);
	j_arr_close();
}
static void answer(struct cmd *c, const char *ret, const long *out, size_t outlen, size_t size0, size_t used0, long long rc)
{
	drv_begin(c);
	emit_all(ret, out, outlen);
	emit_dbg(size0, used0, rc);
	drv_end();
}
static void answer_bytes(struct cmd *c, const char *ret, const uint8_t *out, size_t outlen, size_t size0, size_t used0, long long rc)
{
	long *tmp = (long *) calloc(outlen + 1, sizeof(long));
	for (size_t k = 0; k < outlen; k++) tmp[k] = out[k];
	answer(c, ret, tmp, outlen, size0, used0, rc);
	free(tmp);
}

static void step_xarr(struct cmd *c, int h, uint8_t *data, size_t dl, size_t size0, size_t used0)
{
	const char *a = c->action;
	XArr &ar = A[h];
	buffer *b = hbuf(h);
	int zero = huge_len || (int) drv_int(c, "zero", 0);

	if (!strcmp(a, "xctor")) {
		if (b) { answer(c, "skipped", 0, 0, size0, used0, 0); return; }
		static_cast<array &>(ar) = array(drv_size(c, "cap", 0));
		answer(c, "ok", 0, 0, size0, used0, 0);
	}
	else if (!strcmp(a, "new")) {
		int flags = (drv_int(c, "imm", 0) ? BufferImmutable : 0) | (drv_int(c, "nc", 0) ? BufferNoCopy : 0);
		if (b) { answer(c, "skipped", 0, 0, size0, used0, 0); return; }
		buffer *nb = _mpt_buffer_alloc(dl, flags);
		void *p = nb->append(dl);
		if (p && dl) memcpy(p, data, dl);
		{
			reference<buffer> r(nb);
			ar.set(r);
		}
		if ((flags & BufferImmutable) && nsnaps < 64) {
			snaps[nsnaps].buf = nb;
			snaps[nsnaps].used = dl;
			snaps[nsnaps].bytes = (uint8_t *) malloc(dl + 1);
			memcpy(snaps[nsnaps].bytes, data, dl);
			nsnaps++;
		}
		answer(c, "ok", 0, 0, size0, used0, 0);
	}
	else if (!strcmp(a, "append")) {
		void *p = ar.append(dl, zero ? 0 : data);
		answer(c, p ? "ok" : "refused", 0, 0, size0, used0, 0);
	}
	else if (!strcmp(a, "xinsert")) {
		void *p = ar.insert(drv_size(c, "pos", 0), dl, zero ? 0 : data);
		answer(c, p ? "ok" : "refused", 0, 0, size0, used0, 0);
	}
	else if (!strcmp(a, "xset")) {
		void *p = ar.set(dl, zero ? 0 : data);
		answer(c, p ? "ok" : "refused", 0, 0, size0, used0, 0);
	}
	else if (!strcmp(a, "xsetlength")) {
		if (!b || b->shared() || b->immutable()) { answer(c, "skipped", 0, 0, size0, used0, 0); return; }
		bool r = static_cast<array::content *>(b)->set_length(drv_size(c, "len", 0));
		answer(c, r ? "ok" : "refused", 0, 0, size0, used0, 0);
	}
	else if (!strcmp(a, "xsetvalue")) {
		value v;
		const char *str = (const char *) data;
		data[dl] = 0;
		v.set('s', &str);
		int r = ar.set(v);
		answer(c, r < 0 ? "refused" : "ok", 0, 0, size0, used0, r);
	}
	else if (!strcmp(a, "clone")) {
		int g = (int) drv_int(c, "from", 0) - 1;
		if (g >= 0 && g < nh) static_cast<array &>(ar) = static_cast<const array &>(A[g]);
		else static_cast<array &>(ar) = array();
		answer(c, "ok", 0, 0, size0, used0, 0);
	}
	else if (!strcmp(a, "printf")) {
		data[dl] = 0;
		int r = ar.printf("%s", (char *) data);
		answer(c, r < 0 ? "refused" : "ok", 0, 0, size0, used0, r);
	}
	else if (!strcmp(a, "string")) {
		char *s = ar.string();
		if (!s) answer(c, "refused", 0, 0, size0, used0, 0);
		else {
			size_t n = strlen(s);
			uint8_t *keep = (uint8_t *) malloc(n + 1);
			memcpy(keep, s, n);
			answer_bytes(c, "ok", keep, n, size0, used0, 0);
			free(keep);
		}
	}
	else if (!strcmp(a, "slicewrite")) {
		size_t off = drv_size(c, "off", 0), len = drv_size(c, "len", 0);
		/* the slice takes the array over (sole holder of what the handle held), its
		 * window is set with shift/trim, and the handle gets the slice's array back */
		XSlice *sl = new XSlice(ar);
		size_t total = sl->len();   /* what the slice class regards as the data (raw content) */
		if (off + len > total) { delete sl; answer(c, "skipped", 0, 0, size0, used0, 0); return; }
		static_cast<array &>(ar) = array();
		bool w = sl->shift((ssize_t) off) && sl->trim((ssize_t) (total - off - len));
		ssize_t r = w ? sl->write(drv_size(c, "nblk", 0), zero ? 0 : data, drv_size(c, "esz", 1)) : -1000;
		static_cast<array &>(ar) = static_cast<const array &>(*sl);
		span<const uint8_t> d = sl->data();
		size_t dn = r < 0 ? 0 : d.size();
		uint8_t *keep = (uint8_t *) calloc(dn + 1, 1);
		if (dn) memcpy(keep, d.begin(), dn);
		delete sl;                  /* the handle is the only holder again */
		if (r < 0) answer(c, w ? "refused" : "window", 0, 0, size0, used0, r);
		else answer_bytes(c, "ok", keep, dn, size0, used0, r);
		free(keep);
	}
	else if (!strcmp(a, "xwin")) {
		/* slice window arithmetic: a slice over the whole array, then shift/trim calls (k: 0 shift, 1 trim);
		 * after every call: accepted?, window offset, window length */
		size_t nl = 0;
		long long *ops = drv_ints(c, "ops", &nl);
		long out[32];
		size_t no = 0;
		XSlice *sl = new XSlice(ar);
		for (size_t k = 0; k + 1 < nl && no + 3 <= 32; k += 2) {
			bool r = ops[k] ? sl->trim((ssize_t) ops[k + 1]) : sl->shift((ssize_t) ops[k + 1]);
			out[no++] = r ? 1 : 0;
			out[no++] = (long) sl->off();
			out[no++] = (long) sl->len();
		}
		delete sl;
		free(ops);
		answer(c, "ok", out, no, size0, used0, 0);
	}
	else if (!strcmp(a, "bufinsert")) {
		if (!b || b->shared()) { answer(c, "skipped", 0, 0, size0, used0, 0); return; }
		void *p = b->insert(drv_size(c, "pos", 0), dl);
		if (p && dl && !huge_len) memcpy(p, data, dl);
		answer(c, p ? "ok" : "refused", 0, 0, size0, used0, 0);
	}
	else {
		drv_begin(c); j_str("ret", "unknown-action"); drv_dbg(); drv_end();
	}
}

static bool do_insert(TA &a, long pos, long v) { return a.insert(pos, (uint8_t) v); }
static bool do_insert(PA &a, long pos, long v) { return a.insert(pos, (Dummy *) v); }
static bool do_insert(UA &a, long pos, long v)
{
	uint8_t *p = a.insert(pos);   /* new element, assigned by the caller */
	if (!p) return false;
	*p = (uint8_t) v;
	return true;
}

template <typename ARR, typename ELEM>
static void step_typed(struct cmd *c, ARR *arrs, int h, uint8_t *data, size_t dl, size_t size0, size_t used0, int unique)
{
	const char *a = c->action;
	ARR &ar = arrs[h];
	long v = dl ? data[0] : 0;
	long pos = drv_long(c, "pos", 0);

	if (!strcmp(a, "tctor")) {
		if (hbuf(h)) { answer(c, "skipped", 0, 0, size0, used0, 0); return; }
		ar = ARR((long) drv_int(c, "len", -1));
		answer(c, "ok", 0, 0, size0, used0, 0);
	}
	else if (!strcmp(a, "clone")) {
		int g = (int) drv_int(c, "from", 0) - 1;
		if (g >= 0 && g < nh) ar = arrs[g];
		else ar = ARR();
		answer(c, "ok", 0, 0, size0, used0, 0);
	}
	else if (!strcmp(a, "tinsert")) {
		bool r = do_insert(ar, pos, v);
		answer(c, r ? "ok" : "refused", 0, 0, size0, used0, 0);
	}
	else if (!strcmp(a, "tset")) {
		bool r = ar.set(pos, (ELEM) v);
		answer(c, r ? "ok" : "refused", 0, 0, size0, used0, 0);
	}
	else if (!strcmp(a, "tget")) {
		ELEM *p = ar.get(pos);
		long o = p ? (long) (uintptr_t) *p : 0;
		answer(c, p ? "ok" : "refused", &o, p ? 1 : 0, size0, used0, 0);
	}
	else if (!strcmp(a, "treserve")) {
		bool r = ar.reserve(drv_long(c, "len", 0));
		answer(c, r ? "ok" : "refused", 0, 0, size0, used0, 0);
	}
	else if (!strcmp(a, "tresize")) {
		bool r = ar.resize(drv_long(c, "len", 0));
		answer(c, r ? "ok" : "refused", 0, 0, size0, used0, 0);
	}
	else {
		drv_begin(c); j_str("ret", "unknown-action"); drv_dbg(); drv_end();
	}
}

static void step_map(struct cmd *c, int h, size_t size0, size_t used0)
{
	const char *a = c->action;
	MP &m = M[h];
	uint8_t k = (uint8_t) drv_uint(c, "key", 0), v = (uint8_t) drv_uint(c, "value", 0);
	if (!strcmp(a, "clone")) {
		int g = (int) drv_int(c, "from", 0) - 1;
		if (g >= 0 && g < nh) static_cast<bmap &>(m) = static_cast<const bmap &>(M[g]);
		else static_cast<bmap &>(m) = bmap();
		answer(c, "ok", 0, 0, size0, used0, 0);
	}
	else if (!strcmp(a, "mapset")) {
		bool r = drv_int(c, "app", 0) ? m.append(k, v) : m.set(k, v);
		answer(c, r ? "ok" : "refused", 0, 0, size0, used0, 0);
	}
	else if (!strcmp(a, "mapget")) {
		uint8_t *p = m.get(k);
		long o = p ? *p : 0;
		answer(c, p ? "ok" : "refused", &o, p ? 1 : 0, size0, used0, 0);
	}
	else if (!strcmp(a, "mapvalues")) {
		typed_array<uint8_t> vals = k ? m.values(k) : m.values();
		long n = vals.length();
		long *o = (long *) calloc(n + 1, sizeof(long));
		for (long i = 0; i < n; i++) o[i] = *vals.get(i);
		answer(c, "ok", o, n, size0, used0, 0);
		free(o);
	}
	else {
		drv_begin(c); j_str("ret", "unknown-action"); drv_dbg(); drv_end();
	}
}

static void drv_step(struct cmd *c)
{
	const char *a = c->action;
	size_t dl = 0, size0 = 0, used0 = 0;
	uint8_t *data = 0;
	int h = (int) drv_int(c, "h", 1) - 1;

	if (!strcmp(a, "init")) {
		const char *ap = drv_raw(c, "api");
		int g = (int) drv_int(c, "gran", 0);
		drv_reset();
		nh = (int) drv_int(c, "n", 3);
		if (nh > MAXH) nh = MAXH;
		snprintf(api, sizeof(api), "%s", ap ? ap : "xarr");
		esize = 1;
		if (!strcmp(api, "xarr")) A = new XArr[MAXH];
		else if (!strcmp(api, "xtyped")) T = new TA[MAXH];
		else if (!strcmp(api, "xunique")) U = new UA[MAXH];
		else if (!strcmp(api, "xptr")) { P = new PA[MAXH]; esize = sizeof(Dummy *); }
		else if (!strcmp(api, "xmap")) { M = new MP[MAXH]; esize = sizeof(bmap::entry); }
		seam_set_psize(g * (int) esize);
		answer(c, "ok", 0, 0, 0, 0, 0);
		return;
	}
	if (h < 0 || h >= nh) {
		drv_begin(c); j_str("ret", "bad-handle"); drv_dbg(); drv_end();
		return;
	}
	if (hbuf(h)) {
		size0 = bsize(hbuf(h)) / esize;
		used0 = bused(hbuf(h)) / esize;
	}
	if (drv_has(c, "data")) data = drv_bytes(c, "data", &dl);
	huge_len = 0;
	if (drv_size(c, "hl", 0)) {          /* a length at the limits: no data exists for it */
		dl = drv_size(c, "hl", 0);
		huge_len = 1;
	}

	if (!strcmp(api, "xarr")) step_xarr(c, h, data, dl, size0, used0);
	else if (!strcmp(api, "xtyped")) step_typed<TA, uint8_t>(c, T, h, data, dl, size0, used0, 0);
	else if (!strcmp(api, "xunique")) step_typed<UA, uint8_t>(c, U, h, data, dl, size0, used0, 1);
	else if (!strcmp(api, "xptr")) {
		if (!strcmp(a, "pcompact")) {
			P[h].compact();
			answer(c, "ok", 0, 0, size0, used0, 0);
		}
		else step_typed<PA, Dummy *>(c, P, h, data, dl, size0, used0, 0);
	}
	else if (!strcmp(api, "xmap")) step_map(c, h, size0, used0);
	free(data);
}

int main(int argc, char **argv)
{
	return drv_main(argc, argv);
}
