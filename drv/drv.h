/*
 * Common frame of the conformance drivers.
 *
 * Input (stdin): one command per line
 *     B <id>                       start behaviour <id> (fresh state)
 *     <action> key=value ...       one step
 * values: decimal integers, byte lists "1,2,3" ("-" = empty),
 *         "rep:<byte>:<count>", "hex:<hexdigits>", or text "s:<text>".
 * Output (stdout): one JSON object per step
 *     {"b":<id>,"i":<step>,"a":"<action>","obs":{...},"dbg":{...}}
 *
 * Every behaviour batch runs in a forked child; when the child dies
 * (signal, sanitizer abort) or hangs, the parent emits
 *     {"b":<id>,"i":<step>,"a":"Crash","sig":<n>}  /  "Hang"
 * for the behaviour that was running and restarts after it, so one fault
 * costs one behaviour only and process-global state is fresh per batch.
 *
 * A module driver defines:
 *     static void drv_reset(void);            fresh state for a behaviour
 *     static void drv_step(struct cmd *c);    execute one step, emit obs
 * and includes this header once, then calls  return drv_main(argc, argv);
 */
#ifndef VERIF_DRV_H
#define VERIF_DRV_H

#include <stdio.h>
#include <stdlib.h>
#include <string.h>
#include <stdint.h>
#include <signal.h>
#include <unistd.h>
#include <errno.h>
#include <sys/types.h>
#include <sys/wait.h>

#define DRV_MAXARG 32

struct drv_val {
	const char *key;
	const char *raw;
};
struct cmd {
	const char *action;
	int nargs;
	struct drv_val arg[DRV_MAXARG];
};

static FILE *drv_out;
static long drv_beh = -1;
static long drv_stepno = 0;
static int drv_first;
static int drv_fresh_per_behaviour = 0; /* module may set: fork per behaviour */

/* ---------- argument access ---------- */
static const char *drv_raw(const struct cmd *c, const char *key)
{
	int i;
	for (i = 0; i < c->nargs; i++) {
		if (!strcmp(c->arg[i].key, key)) return c->arg[i].raw;
	}
	return 0;
}
static int drv_has(const struct cmd *c, const char *key)
{
	return drv_raw(c, key) != 0;
}
static long long drv_int(const struct cmd *c, const char *key, long long def)
{
	const char *r = drv_raw(c, key);
	if (!r || !*r) return def;
	return strtoll(r, 0, 0);
}
static unsigned long long drv_uint(const struct cmd *c, const char *key, unsigned long long def)
{
	const char *r = drv_raw(c, key);
	if (!r || !*r) return def;
	return strtoull(r, 0, 0);
}
/* byte list -> malloc'd buffer (always at least 1 byte allocated) */
static uint8_t *drv_bytes(const struct cmd *c, const char *key, size_t *len)
{
	const char *r = drv_raw(c, key);
	uint8_t *buf;
	size_t n = 0, cap = 16;
	*len = 0;
	if (!r || !*r || !strcmp(r, "-")) {
		return (uint8_t *) calloc(1, 1);
	}
	if (!strncmp(r, "rep:", 4)) {
		char *end;
		long b = strtol(r + 4, &end, 0);
		size_t cnt = (*end == ':') ? strtoull(end + 1, 0, 0) : 0;
		buf = (uint8_t *) malloc(cnt + 1);
		memset(buf, (int) b, cnt);
		*len = cnt;
		return buf;
	}
	if (!strncmp(r, "hex:", 4)) {
		size_t l = strlen(r + 4) / 2, i;
		buf = (uint8_t *) malloc(l + 1);
		for (i = 0; i < l; i++) {
			unsigned v;
			sscanf(r + 4 + 2 * i, "%2x", &v);
			buf[i] = (uint8_t) v;
		}
		*len = l;
		return buf;
	}
	if (!strncmp(r, "s:", 2)) {
		size_t l = strlen(r + 2);
		buf = (uint8_t *) malloc(l + 1);
		memcpy(buf, r + 2, l + 1);
		*len = l;
		return buf;
	}
	buf = (uint8_t *) malloc(cap);
	while (*r) {
		char *end;
		long v = strtol(r, &end, 0);
		if (end == r) break;
		if (n + 1 >= cap) buf = (uint8_t *) realloc(buf, cap *= 2);
		buf[n++] = (uint8_t) v;
		r = (*end == ',') ? end + 1 : end;
	}
	*len = n;
	return buf;
}
/* integer list -> malloc'd long long array */
static long long *drv_ints(const struct cmd *c, const char *key, size_t *len)
{
	const char *r = drv_raw(c, key);
	long long *buf;
	size_t n = 0, cap = 16;
	*len = 0;
	buf = (long long *) malloc(cap * sizeof(*buf));
	if (!r || !*r || !strcmp(r, "-")) return buf;
	while (*r) {
		char *end;
		long long v = strtoll(r, &end, 0);
		if (end == r) break;
		if (n + 1 >= cap) buf = (long long *) realloc(buf, (cap *= 2) * sizeof(*buf));
		buf[n++] = v;
		r = (*end == ',') ? end + 1 : end;
	}
	*len = n;
	return buf;
}

/* ---------- JSON output ---------- */
static void j_sep(void)
{
	if (!drv_first) fputc(',', drv_out);
	drv_first = 0;
}
static void j_open(const char *key)   /* nested object */
{
	j_sep();
	fprintf(drv_out, "\"%s\":{", key);
	drv_first = 1;
}
static void j_close(void)
{
	fputc('}', drv_out);
	drv_first = 0;
}
static void j_int(const char *key, long long v)
{
	j_sep();
	fprintf(drv_out, "\"%s\":%lld", key, v);
}
static void j_str(const char *key, const char *s)
{
	j_sep();
	fprintf(drv_out, "\"%s\":\"", key);
	for (; s && *s; s++) {
		unsigned char ch = (unsigned char) *s;
		if (ch == '"' || ch == '\\') fprintf(drv_out, "\\%c", ch);
		else if (ch < 0x20 || ch >= 0x7f) fprintf(drv_out, "\\u%04x", ch);
		else fputc(ch, drv_out);
	}
	fputc('"', drv_out);
}
static void j_bytes(const char *key, const void *p, size_t n)
{
	const uint8_t *b = (const uint8_t *) p;
	size_t i;
	j_sep();
	fprintf(drv_out, "\"%s\":[", key);
	for (i = 0; i < n; i++) fprintf(drv_out, i ? ",%u" : "%u", b[i]);
	fputc(']', drv_out);
}
static void j_ints(const char *key, const long long *p, size_t n)
{
	size_t i;
	j_sep();
	fprintf(drv_out, "\"%s\":[", key);
	for (i = 0; i < n; i++) fprintf(drv_out, i ? ",%lld" : "%lld", p[i]);
	fputc(']', drv_out);
}
static void j_arr_open(const char *key)
{
	j_sep();
	fprintf(drv_out, "\"%s\":[", key);
	drv_first = 1;
}
static void j_arr_close(void)
{
	fputc(']', drv_out);
	drv_first = 0;
}
static void j_item_obj_open(void)
{
	j_sep();
	fputc('{', drv_out);
	drv_first = 1;
}
static void j_item_int(long long v)
{
	j_sep();
	fprintf(drv_out, "%lld", v);
}
static void j_item_str(const char *s)
{
	j_sep();
	fputc('"', drv_out);
	for (; s && *s; s++) {
		unsigned char ch = (unsigned char) *s;
		if (ch == '"' || ch == '\\') fprintf(drv_out, "\\%c", ch);
		else if (ch < 0x20 || ch >= 0x7f) fprintf(drv_out, "\\u%04x", ch);
		else fputc(ch, drv_out);
	}
	fputc('"', drv_out);
}
/* begin/end of one step record; obs object is opened */
static void drv_begin(const struct cmd *c)
{
	fprintf(drv_out, "{\"b\":%ld,\"i\":%ld,\"a\":\"%s\",\"obs\":{", drv_beh, drv_stepno, c->action);
	drv_first = 1;
}
static void drv_dbg(void)   /* close obs, open dbg */
{
	fputs("},\"dbg\":{", drv_out);
	drv_first = 1;
}
static void drv_end(void)
{
	fputs("}}\n", drv_out);
	fflush(drv_out);
}

/* ---------- main loop ---------- */
static void drv_reset(void);
static void drv_step(struct cmd *c);

static int drv_parse(char *line, struct cmd *c)
{
	char *save = 0, *tok;
	c->nargs = 0;
	c->action = strtok_r(line, " \t\r\n", &save);
	if (!c->action) return 0;
	while ((tok = strtok_r(0, " \t\r\n", &save))) {
		char *eq = strchr(tok, '=');
		if (c->nargs >= DRV_MAXARG) break;
		if (!eq) continue;
		*eq = 0;
		c->arg[c->nargs].key = tok;
		c->arg[c->nargs].raw = eq + 1;
		c->nargs++;
	}
	return 1;
}

static int drv_main(int argc, char **argv)
{
	char **lines = 0;
	size_t nlines = 0, cap = 0, pos = 0;
	char *line = 0;
	size_t lcap = 0;
	ssize_t got;
	int status_pipe[2];
	int hangs = 0;
	(void) argc; (void) argv;

	drv_out = stdout;
	while ((got = getline(&line, &lcap, stdin)) > 0) {
		if (nlines == cap) lines = (char **) realloc(lines, (cap = cap ? cap * 2 : 1024) * sizeof(*lines));
		lines[nlines++] = strdup(line);
	}
	free(line);

	while (pos < nlines) {
		pid_t pid;
		int st;
		long prog[3]; /* last line index started, behaviour id, step */
		if (pipe(status_pipe) < 0) return 2;
		fflush(stdout);
		pid = fork();
		if (pid < 0) return 2;
		if (!pid) {
			size_t i;
			int started = 0;
			close(status_pipe[0]);
			for (i = pos; i < nlines; i++) {
				struct cmd c;
				char *copy = strdup(lines[i]);
				if (!drv_parse(copy, &c)) { free(copy); continue; }
				if (!strcmp(c.action, "B")) {
					if (started && drv_fresh_per_behaviour) {
						/* hand back: parent restarts at this line */
						long p2[3]; p2[0] = (long) i; p2[1] = -2; p2[2] = 0;
						if (write(status_pipe[1], p2, sizeof(p2)) < 0) _exit(3);
						fflush(stdout);
						_exit(0);
					}
					drv_beh = strtol(lines[i] + 1, 0, 10);
					drv_stepno = 0;
					started = 1;
					prog[0] = (long) i; prog[1] = drv_beh; prog[2] = 0;
					if (write(status_pipe[1], prog, sizeof(prog)) < 0) _exit(3);
					alarm(45);   /* per behaviour; generous because 20 checks may share the machine */
					drv_reset();
					free(copy);
					continue;
				}
				prog[0] = (long) i; prog[1] = drv_beh; prog[2] = drv_stepno;
				if (write(status_pipe[1], prog, sizeof(prog)) < 0) _exit(3);
				drv_step(&c);
				drv_stepno++;
				free(copy);
			}
			prog[0] = (long) nlines; prog[1] = -1; prog[2] = 0;
			if (write(status_pipe[1], prog, sizeof(prog)) < 0) _exit(3);
			fflush(stdout);
			_exit(0);
		}
		close(status_pipe[1]);
		prog[0] = (long) pos; prog[1] = -1; prog[2] = 0;
		{
			long tmp[3];
			while (read(status_pipe[0], tmp, sizeof(tmp)) == (ssize_t) sizeof(tmp)) {
				memcpy(prog, tmp, sizeof(prog));
			}
		}
		close(status_pipe[0]);
		waitpid(pid, &st, 0);
		if (prog[1] == -2) {           /* fresh-process hand back */
			pos = (size_t) prog[0];
			continue;
		}
		if (prog[0] >= (long) nlines && WIFEXITED(st) && WEXITSTATUS(st) == 0) {
			break;
		}
		/* child died at line prog[0] of behaviour prog[1] */
		{
			int sig = WIFSIGNALED(st) ? WTERMSIG(st) : (WIFEXITED(st) ? 1000 + WEXITSTATUS(st) : -1);
			printf("{\"b\":%ld,\"i\":%ld,\"a\":\"%s\",\"sig\":%d}\n", prog[1], prog[2],
			       sig == SIGALRM ? "Hang" : "Crash", sig);
			fflush(stdout);
			/* a change that breaks progress hangs every behaviour: stop after a few (45 s each) */
			if (sig == SIGALRM && ++hangs >= 6) {
				break;
			}
		}
		/* resume after the failed behaviour */
		pos = (size_t) prog[0] + 1;
		while (pos < nlines && strncmp(lines[pos], "B ", 2)) pos++;
	}
	return 0;
}

#endif /* VERIF_DRV_H */
