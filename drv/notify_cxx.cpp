/*
 * Driver for spec/Notify.tla (extension of C11), C++ binding: the mpt++ notify
 * class (mpt++/notify.cpp: add, set_handler, wait, next, destructor) feeding an
 * mpt++ dispatch object, with inputs derived from the C++ input interface.
 * Same script and record format as drv/notify.c; kinds h (harness class HIn
 * derived from mpt::input) and s (mpt_stream_input over a socket pair); no
 * listeners, no mpt_loop.
 *
 * The notifier does not own the dispatcher here (notify::set_handler): where
 * the model finalises the dispatcher (re-attach, teardown) this driver destroys
 * the dispatch object right after the notifier let go of it, as a C++ scope
 * would.
 */
#include "drv.h"

#include <new>
#include <poll.h>
#include <sys/stat.h>
#include <sys/socket.h>
#include <sys/ioctl.h>
#include <sys/uio.h>

#include "core.h"
#include "meta.h"
#include "array.h"
#include "message.h"
#include "convert.h"
#include "event.h"
#include "types.h"
#include "connection.h"
#include "stream.h"
#include "notify.h"

#define MAXIN   96
#define MAXLEN  96
#define MAXCALLS 64
#define REFUSED_TOK 99
/* MPT_EVENTFLAG(Flags / Retry / CtlError) */
#define EV_FLAGS    0xffff
#define EV_RETRY    0x10000
#define EV_CTLERROR 0x20000

/* C view of the buffer header in front of array data (mptcore/array.h) */
struct rawbuf { const void *vptr; const void *traits; size_t size; size_t used; };

struct probe : public mpt::dispatch
{
	uintptr_t def() const { return _def; }
};
struct NX : public mpt::notify
{
	mpt::event_handler_t cmd() const { return _disp.cmd; }
	void *arg() const { return _disp.arg; }
	const rawbuf *slots() const { return *reinterpret_cast<rawbuf * const *>(&_slot); }
	const rawbuf *waits() const { return *reinterpret_cast<rawbuf * const *>(&_wait); }
	int sysfd() const { return _sysfd; }
};
alignas(NX) static unsigned char nstore[sizeof(NX)];
static NX *no;
static probe *disp;

static int nexts[MAXCALLS], nnexts;
static int rels[MAXCALLS], nrels;
static struct call { long tok; int fin; uintptr_t id; int msg; } calls[MAXCALLS];
static int ncalls;
static struct { uint8_t d[MAXLEN]; size_t n; } datas[MAXCALLS];
static int ndatas;
static int hr_r, hr_clear;

static int handler(void *arg, mpt::event *ev)
{
	if (ncalls < MAXCALLS) {
		struct call *c = &calls[ncalls++];
		c->tok = (long) (intptr_t) arg;
		c->fin = ev ? 0 : 1;
		c->id  = ev ? ev->id : 0;
		c->msg = (ev && ev->msg) ? 1 : 0;
	}
	if (!ev) return 0;
	if (ev->msg && ndatas < MAXCALLS) {
		mpt::message m = *ev->msg;
		datas[ndatas].n = mpt::mpt_message_read(&m, MAXLEN, datas[ndatas].d);
		ndatas++;
	}
	if (hr_clear) ev->id = 0;
	return hr_r;
}

struct slot;
static struct slot *slot_of(int tok);

/* harness input: a class of the C++ input interface */
class HIn : public mpt::input
{
public:
	HIn(int t, int f, int c) : tok(t), fd(f), claim(c), rv(1), unrefs(0), nraw(0) { }
	int convert(mpt::type_t type, void *ptr) __MPT_OVERRIDE
	{
		const mpt::named_traits *traits = mpt::mpt_input_type_traits();
		int me = traits ? traits->type : (int) mpt::TypeMetaPtr;
		if (traits && type == (mpt::type_t) me) {
			if (ptr) *((void **) ptr) = static_cast<mpt::input *>(this);
			return mpt::TypeUnixSocket;
		}
		if (!type) {
			static const char fmt[] = { mpt::TypeUnixSocket, 0 };
			if (ptr) *((const char **) ptr) = fmt;
			return me;
		}
		if (type == mpt::TypeMetaPtr) {
			if (ptr) *((void **) ptr) = static_cast<mpt::metatype *>(this);
			return mpt::TypeUnixSocket;
		}
		if (type == mpt::TypeUnixSocket) {
			if (ptr) *((int32_t *) ptr) = claim;
			return me;
		}
		return mpt::BadType;
	}
	void unref() __MPT_OVERRIDE;
	uintptr_t addref() __MPT_OVERRIDE { return 0; }
	HIn *clone() const __MPT_OVERRIDE { return 0; }
	int next(int) __MPT_OVERRIDE
	{
		ssize_t got;
		if (nnexts < MAXCALLS) nexts[nnexts++] = tok;
		while (!unrefs && nraw < sizeof(raw)
		       && (got = recv(fd, raw + nraw, sizeof(raw) - nraw, MSG_DONTWAIT)) > 0) {
			nraw += (size_t) got;
		}
		return rv;
	}
	int dispatch(mpt::event_handler_t cmd, void *arg) __MPT_OVERRIDE
	{
		mpt::event ev;
		uint8_t *copy;
		size_t len;
		int r, more;
		if (unrefs && nnexts < MAXCALLS) nexts[nnexts++] = -tok;
		if (!nraw || nraw < (size_t) raw[0] + 1) return 0;
		len = raw[0];
		copy = (uint8_t *) malloc(len ? len : 1);
		memcpy(copy, raw + 1, len);
		memmove(raw, raw + 1 + len, nraw - 1 - len);
		nraw -= 1 + len;
		more = nraw && nraw >= (size_t) raw[0] + 1;
		if (!cmd) { free(copy); return more ? EV_RETRY : 0; }
		mpt::message msg(copy, len);
		ev.msg = &msg;
		r = cmd(arg, &ev);
		free(copy);
		if (r < 0) return EV_CTLERROR | (more ? EV_RETRY : 0);
		return (r & EV_FLAGS) | (more ? EV_RETRY : 0);
	}
	int tok, fd, claim, rv, unrefs;
	uint8_t raw[4096];
	size_t nraw;
};

static struct slot {
	int kind;
	mpt::input *in;
	HIn *h;
	int fd, peer;
	ino_t ino;
	int released;
	long wire_total, wire_end[512];
	int nwire;
} tab[MAXIN + 1];
static int nin;
static mpt::input *cur;
static int fds[1024];
static int nfds;
static void track(int fd) { if (fd >= 0 && nfds < 1024) fds[nfds++] = fd; }

void HIn::unref()
{
	if (nrels < MAXCALLS) rels[nrels++] = tok;
	if (!unrefs++ && fd >= 0) close(fd);
	if (tok >= 1 && tok <= MAXIN) tab[tok].released = 1;
}

static int tok_of(const void *p)
{
	int i, dead = 0;
	if (!p) return 0;
	for (i = nin; i >= 1; i--) {
		if (tab[i].kind && (const void *) tab[i].in == p) {
			if (!tab[i].released) return i;
			if (!dead) dead = i;
		}
	}
	return dead ? dead : -1;
}

static void limbs_out(const char *key, uintptr_t v)
{
	j_sep();
	fprintf(drv_out, "\"%s\":[%u,%u,%u,%u]", key, (unsigned) (v & 0xffff), (unsigned) ((v >> 16) & 0xffff),
	        (unsigned) ((v >> 32) & 0xffff), (unsigned) ((v >> 48) & 0xffff));
}
static uintptr_t limbs_in(struct cmd *c, const char *key)
{
	size_t n = 0, i;
	long long *l = drv_ints(c, key, &n);
	uint64_t v = 0;
	for (i = 0; i < n && i < 4; i++) v |= ((uint64_t) (l[i] & 0xffff)) << (16 * i);
	free(l);
	return (uintptr_t) v;
}
static int cmp_int(const void *a, const void *b) { return (*(const int *) a > *(const int *) b) - (*(const int *) a < *(const int *) b); }
static void int_list(const char *key, int *v, int n)
{
	int i;
	qsort(v, (size_t) n, sizeof(*v), cmp_int);
	j_arr_open(key);
	for (i = 0; i < n; i++) j_item_int(v[i]);
	j_arr_close();
}
struct entry { long tok; uintptr_t id; };
static int by_tok(const void *a, const void *b)
{
	const entry *x = (const entry *) a, *y = (const entry *) b;
	return (x->tok > y->tok) - (x->tok < y->tok);
}
static void discover(void)
{
	int t;
	for (t = 1; t <= nin; t++) {
		struct stat st;
		if (!tab[t].kind || tab[t].kind == 'h' || tab[t].released || tab[t].fd < 0) continue;
		if (fstat(tab[t].fd, &st) < 0 || st.st_ino != tab[t].ino) {
			tab[t].released = 1;
			if (nrels < MAXCALLS) rels[nrels++] = t;
		}
	}
}
static const char *d_ret_str;
static void emit_tail(const char *ret, int dint, int dret)
{
	const rawbuf *b;
	int regs[MAXIN + 8], nregs = 0, wl[MAXIN + 8], nwl = 0, i;
	discover();
	if (cur && (i = tok_of(cur)) > 0 && tab[i].released) cur = 0;
	j_str("ret", ret);
	j_int("cur", tok_of(cur));
	int_list("nexts", nexts, nnexts);
	int_list("rel", rels, nrels);
	if (no && (b = no->slots())) {
		size_t k, n = b->used / sizeof(void *);
		void * const *p = (void * const *) (b + 1);
		for (k = 0; k < n && nregs < MAXIN; k++) if (p[k]) regs[nregs++] = tok_of(p[k]);
	}
	int_list("reg", regs, nregs);
	if (no && (b = no->waits())) {
		size_t k, n = b->used / sizeof(void *);
		void * const *p = (void * const *) (b + 1);
		for (k = 0; k < n && nwl < MAXIN; k++) if (p[k]) wl[nwl++] = tok_of(p[k]);
	}
	int_list("waiting", wl, nwl);
	j_arr_open("unread");
	for (i = 1; i <= nin; i++) {
		int n = 0;
		if (!tab[i].kind || tab[i].kind == 'h' || tab[i].released || tab[i].fd < 0 || ioctl(tab[i].fd, FIONREAD, &n) < 0) n = 0;
		j_item_int(n);
	}
	j_arr_close();
	j_arr_open("got");
	for (i = 1; i <= nin; i++) {
		int n = 0, k, g = 0;
		if (tab[i].kind && tab[i].kind != 'h' && !tab[i].released && tab[i].fd >= 0 && ioctl(tab[i].fd, FIONREAD, &n) >= 0) {
			for (k = 0; k < tab[i].nwire; k++) if (tab[i].wire_end[k] <= tab[i].wire_total - n) g++;
		}
		j_item_int(g);
	}
	j_arr_close();
	j_arr_open("data");
	for (i = 0; i < ndatas; i++) {
		size_t k;
		j_sep(); fputc('[', drv_out);
		for (k = 0; k < datas[i].n; k++) fprintf(drv_out, k ? ",%u" : "%u", datas[i].d[k]);
		fputc(']', drv_out); drv_first = 0;
	}
	j_arr_close();
	j_open("d");
	if (dint) j_int("ret", dret); else j_str("ret", d_ret_str ? d_ret_str : "ok");
	d_ret_str = 0;
	j_arr_open("calls");
	for (i = 0; i < ncalls; i++) {
		j_item_obj_open();
		j_int("tok", calls[i].tok);
		j_int("fin", calls[i].fin);
		limbs_out("id", calls[i].id);
		j_int("msg", calls[i].msg);
		j_close();
	}
	j_arr_close();
	limbs_out("def", disp ? disp->def() : 0);
	j_arr_open("table");
	if (disp) {
		const mpt::command *cmd = disp->begin();
		long n = disp->length(), k, nl = 0;
		entry *live = (entry *) calloc(n + 1, sizeof(*live));
		for (k = 0; k < n; k++) {
			if (cmd[k].cmd) { live[nl].tok = (long) (intptr_t) cmd[k].arg; live[nl].id = cmd[k].id; nl++; }
		}
		qsort(live, nl, sizeof(*live), by_tok);
		for (k = 0; k < nl; k++) {
			j_item_obj_open();
			j_int("tok", live[k].tok);
			limbs_out("id", live[k].id);
			j_close();
		}
		free(live);
	}
	j_arr_close();
	j_close();
}
static void clear_logs(void) { nnexts = nrels = ncalls = ndatas = 0; }
static int disp_class(int r) { return (r < 0 || (r & EV_CTLERROR)) ? -1 : (r & EV_FLAGS); }
static void answer(struct cmd *c, const char *ret, int dint, int dret, int raw)
{
	drv_begin(c);
	emit_tail(ret, dint, dret);
	drv_dbg();
	j_int("r", raw);
	j_int("used", no ? (long long) no->used() : 0);
	drv_end();
	clear_logs();
}

/* the peer frames its messages itself (COBS: code byte = distance to the next zero, delimiter 0) */
static size_t cobs_frame(const uint8_t *in, size_t n, uint8_t *out)
{
	size_t code_pos = 0, o = 1, i;
	uint8_t code = 1;
	for (i = 0; i < n; i++) {
		if (!in[i]) { out[code_pos] = code; code_pos = o++; code = 1; }
		else { out[o++] = in[i]; code++; }
	}
	out[code_pos] = code;
	out[o++] = 0;
	return o;
}

static void drv_reset(void)
{
	int i;
	for (i = 0; i < nfds; i++) close(fds[i]);
	nfds = 0;
	if (no && no->sysfd() >= 0) close(no->sysfd());
	/* objects of the previous behaviour are abandoned (leak checking is off) */
	no = 0; disp = 0; cur = 0;
	memset(tab, 0, sizeof(tab));
	nin = 0;
	clear_logs();
}

static void set_rvs(struct cmd *c)
{
	size_t n = 0, i;
	long long *v = drv_ints(c, "rvs", &n);
	for (i = 1; i <= (size_t) nin; i++) {
		if (tab[i].kind == 'h' && tab[i].h) tab[i].h->rv = (i <= n) ? (int) v[i - 1] : 1;
	}
	free(v);
}

static void drv_step(struct cmd *c)
{
	const char *a = c->action;

	hr_r = (int) drv_int(c, "r", 0);
	hr_clear = (int) drv_int(c, "clear", 0);

	if (!strcmp(a, "init")) {
		drv_reset();
		memset(nstore, 0, sizeof(nstore));
		no = new (nstore) NX;
		answer(c, "ok", 0, 0, 0);
		return;
	}
	if (!no) {
		drv_begin(c); j_str("ret", "skipped"); drv_dbg(); drv_end();
		return;
	}
	if (!strcmp(a, "attach")) {
		probe *old = disp;
		disp = new probe;
		no->set_handler(disp);
		if (old) delete old;       /* the dispatcher the notifier let go of ends here */
		answer(c, "ok", 0, 0, 0);
	}
	else if (!strcmp(a, "set")) {
		bool r = disp ? disp->set_handler(limbs_in(c, "id"), handler, (void *) (intptr_t) drv_int(c, "tok", 0)) : false;
		/* mpt_dispatch_set refuses a taken id; set_handler replaces: only used on free ids by the model's Set */
		d_ret_str = r ? "ok" : "refused";
		answer(c, "ok", 0, 0, r);
	}
	else if (!strcmp(a, "clear")) {
		bool r = disp ? disp->set_handler(limbs_in(c, "id"), 0, 0) : false;
		d_ret_str = r ? "ok" : "refused";
		answer(c, "ok", 0, 0, r);
	}
	else if (!strcmp(a, "seterror")) {
		if (disp) disp->set_error(handler, (void *) (intptr_t) drv_int(c, "tok", 0));
		answer(c, "ok", 0, 0, 0);
	}
	else if (!strcmp(a, "add")) {
		const char *k = drv_raw(c, "k");
		int t = (int) drv_int(c, "tok", 0), sv[2];
		bool r = false;
		if (t != nin + 1 || t > MAXIN || !k || (k[0] != 'h' && k[0] != 's')
		    || socketpair(AF_UNIX, SOCK_STREAM, 0, sv) < 0) {
			drv_begin(c); j_str("ret", "skipped"); drv_dbg(); drv_end();
			return;
		}
		nin = t;
		struct slot *s = &tab[t];
		struct stat st;
		memset(s, 0, sizeof(*s));
		s->kind = k[0]; s->fd = sv[0]; s->peer = sv[1];
		track(sv[0]); track(sv[1]);
		s->ino = fstat(sv[0], &st) < 0 ? 0 : st.st_ino;
		if (k[0] == 'h') {
			s->h = new HIn(t, sv[0], sv[0]);
			s->in = s->h;
		} else {
			int32_t sockid = sv[0];     /* struct socket is its descriptor (the class would close it when leaving scope) */
			s->in = mpt::mpt_stream_input(reinterpret_cast<const mpt::socket *>(&sockid),
			                              mpt::stream::Read | mpt::stream::ReadBuf, mpt::EncodingCobs, 0);
		}
		r = s->in && no->add(s->in);
		answer(c, r ? "ok" : "refused", 0, 0, r ? 1 : (s->in ? mpt::mpt_notify_add(no, POLLIN, s->in) : -999));
	}
	else if (!strcmp(a, "addsame") || !strcmp(a, "addbad")) {
		int of = (int) drv_int(c, "of", 0);
		HIn *h = new HIn(REFUSED_TOK, -1, (a[3] == 's' && of >= 1 && of <= nin && !tab[of].released) ? tab[of].fd : -1);
		bool r = no->add(h);
		answer(c, r ? "ok" : "refused", 0, 0, r);
	}
	else if (!strcmp(a, "send")) {
		int i = (int) drv_int(c, "i", 0), r = -9;
		size_t n = 0;
		uint8_t *d = drv_bytes(c, "data", &n);
		if (i >= 1 && i <= nin && tab[i].kind && tab[i].peer >= 0 && !tab[i].released) {
			struct slot *s = &tab[i];
			if (s->kind == 'h') {
				uint8_t frame[MAXLEN + 1];
				if (n > MAXLEN) n = MAXLEN;
				frame[0] = (uint8_t) n;
				memcpy(frame + 1, d, n);
				r = send(s->peer, frame, n + 1, MSG_NOSIGNAL | MSG_DONTWAIT) == (ssize_t) (n + 1) ? 0 : -2;
			}
			else {
				uint8_t frame[2 * MAXLEN + 8];
				int before = 0, after = 0;
				size_t fl;
				if (n > MAXLEN) n = MAXLEN;
				fl = cobs_frame(d, n, frame);
				ioctl(s->fd, FIONREAD, &before);
				r = send(s->peer, frame, fl, MSG_NOSIGNAL | MSG_DONTWAIT) == (ssize_t) fl ? 0 : -2;
				if (!r && ioctl(s->fd, FIONREAD, &after) >= 0 && s->nwire < 512) {
					s->wire_total += after - before;
					s->wire_end[s->nwire++] = s->wire_total;
				}
			}
		}
		free(d);
		answer(c, r < 0 ? "refused" : "ok", 0, 0, r);
	}
	else if (!strcmp(a, "shut")) {
		int i = (int) drv_int(c, "i", 0), r = -9;
		const char *how = drv_raw(c, "how");
		if (i >= 1 && i <= nin && tab[i].kind && tab[i].peer >= 0) {
			if (how && !strcmp(how, "close")) { r = close(tab[i].peer); tab[i].peer = -1; }
			else r = shutdown(tab[i].peer, SHUT_WR);
		}
		answer(c, r < 0 ? "refused" : "ok", 0, 0, r);
	}
	else if (!strcmp(a, "wait")) {
		int r;
		set_rvs(c);
		r = no->wait((int) drv_int(c, "what", -1), 0);
		answer(c, r < 0 ? "refused" : "ok", 0, 0, r);
	}
	else if (!strcmp(a, "next")) {
		cur = no->next();
		answer(c, cur ? "ok" : "none", 0, 0, 0);
	}
	else if (!strcmp(a, "dispatch")) {
		int r = 0, t = tok_of(cur);
		if (cur && t > 0 && !tab[t].released) r = cur->dispatch(no->cmd(), no->arg());
		answer(c, "ok", 1, disp_class(r), r);
	}
	else if (!strcmp(a, "default")) {
		mpt::event ev;
		int r = no->cmd() ? no->cmd()(no->arg(), &ev) : 0;
		answer(c, "ok", 1, r < 0 ? -1 : (r & EV_FLAGS), r);
	}
	else if (!strcmp(a, "unreg")) {
		int i = (int) drv_int(c, "i", 0), r;
		if (i < 1 || i > nin || !tab[i].kind || tab[i].released || tab[i].fd < 0) {
			drv_begin(c); j_str("ret", "skipped"); drv_dbg(); drv_end(); clear_logs();
			return;
		}
		if (cur == tab[i].in) cur = 0;
		r = mpt::mpt_notify_clear(no, tab[i].fd);
		answer(c, r < 0 ? "refused" : "ok", 0, 0, r);
	}
	else if (!strcmp(a, "fini")) {
		/* the destructors, in the order a scope holding dispatcher then notifier would run them */
		no->~NX();
		if (disp) delete disp;
		disp = 0; cur = 0;
		answer(c, "ok", 0, 0, 0);
		/* the model's notifier can be used again: a fresh object */
		memset(nstore, 0, sizeof(nstore));
		no = new (nstore) NX;
	}
	else {
		drv_begin(c); j_str("ret", "skipped"); drv_dbg(); drv_end();
	}
}

int main(int argc, char **argv)
{
	signal(SIGPIPE, SIG_IGN);
	return drv_main(argc, argv);
}
