/*
 * Driver for spec/Linepart.tla (C18), C binding:
 *   init data=<ints> lo= hi= ranged= lim= [shift=]   coordinates = integer * 2^-shift
 *   part n=<count>      mpt_linepart_linear on the next n values, advance by raw
 *   join                mpt_linepart_join of the last two recorded parts
 *   encode a= b=        mpt_linepart_code(a/b), mpt_linepart_real
 * lim=65535 uses the library functions; lim=DRV_LIMIT uses the same source
 * files compiled with UINT16_MAX = DRV_LIMIT (scaled per-part limit).
 */
#include "drv.h"

#include <math.h>

#include "values.h"

#ifdef DRV_LIMIT
# undef UINT16_MAX
# define UINT16_MAX DRV_LIMIT
# define mpt_linepart_linear scaled_linepart_linear
# define mpt_linepart_join   scaled_linepart_join
# include "values/linepart_linear.c"
# include "values/linepart_join.c"
# undef mpt_linepart_linear
# undef mpt_linepart_join
# undef UINT16_MAX
# define UINT16_MAX 65535
#endif

static double *data;
static size_t dlen, pos;
static MPT_STRUCT(range) rng;
static int ranged;
static long limit;
static MPT_STRUCT(linepart) *parts;
static size_t nparts, cparts;

static void drv_reset(void)
{
	free(data); data = 0; dlen = pos = 0;
	free(parts); parts = 0; nparts = cparts = 0;
	ranged = 1; limit = 65535;
}

static void emit_part(const MPT_STRUCT(linepart) *p)
{
	j_int("raw", p->raw);
	j_int("usr", p->usr);
	j_int("cut", p->_cut);
	j_int("trim", p->_trim);
}
static void bad(struct cmd *c, const char *why)
{
	drv_begin(c);
	j_str("ret", why);
	drv_dbg();
	drv_end();
}

static void drv_step(struct cmd *c)
{
	const char *a = c->action;

	if (!strcmp(a, "init")) {
		size_t n, i;
		long long *v;
		double f;
		drv_reset();
		v = drv_ints(c, "data", &n);
		f = ldexp(1.0, -(int) drv_int(c, "shift", 0));
		/* exact allocation: any access outside is seen by ASan */
		data = (double *) malloc(n ? n * sizeof(*data) : 1);
		for (i = 0; i < n; i++) data[i] = (double) v[i] * f;
		free(v);
		dlen = n;
		rng.min = (double) drv_int(c, "lo", 0) * f;
		rng.max = (double) drv_int(c, "hi", 0) * f;
		ranged = (int) drv_int(c, "ranged", 1);
		limit = (long) drv_int(c, "lim", 65535);
		drv_begin(c);
		j_int("x", 0);
		drv_dbg();
		j_int("len", (long long) dlen);
		drv_end();
		return;
	}
	if (!strcmp(a, "part")) {
		size_t n = drv_uint(c, "n", 0);
		MPT_STRUCT(linepart) p;
		if (!drv_has(c, "n")) {   /* offer a percentage of what remains (at least one value) */
			size_t rem = dlen - pos, pct = drv_uint(c, "pct", 100);
			n = (rem * pct + 99) / 100;
		}
		if (n > dlen - pos) { bad(c, "bad-offer"); return; }
		memset(&p, 0xee, sizeof(p));
		if (limit == 65535) {
			mpt_linepart_linear(&p, data + pos, n, ranged ? &rng : 0);
		}
#ifdef DRV_LIMIT
		else if (limit == DRV_LIMIT) {
			scaled_linepart_linear(&p, data + pos, n, ranged ? &rng : 0);
		}
#endif
		else { bad(c, "bad-limit"); return; }
		if (nparts == cparts) parts = (MPT_STRUCT(linepart) *) realloc(parts, (cparts = cparts ? 2 * cparts : 16) * sizeof(*parts));
		parts[nparts++] = p;
		drv_begin(c);
		emit_part(&p);
		drv_dbg();
		j_int("pos", (long long) pos);
		j_int("n", (long long) n);
		drv_end();
		/* the caller advances by raw; never beyond the data */
		pos = (p.raw > dlen - pos) ? dlen : pos + p.raw;
		return;
	}
	if (!strcmp(a, "join")) {
		MPT_STRUCT(linepart) *r = 0;
		if (nparts < 2) { bad(c, "none"); return; }
		if (limit == 65535) {
			r = mpt_linepart_join(&parts[nparts - 2], parts[nparts - 1]);
		}
#ifdef DRV_LIMIT
		else if (limit == DRV_LIMIT) {
			r = scaled_linepart_join(&parts[nparts - 2], parts[nparts - 1]);
		}
#endif
		else { bad(c, "bad-limit"); return; }
		drv_begin(c);
		j_str("ret", r ? "ok" : "refused");
		j_open("to");
		emit_part(&parts[nparts - 2]);
		j_close();
		if (r) --nparts;
		drv_dbg();
		j_int("same", r == 0 || r == &parts[nparts - 1]);
		drv_end();
		return;
	}
	if (!strcmp(a, "encode")) {
		long long x = drv_int(c, "a", 0), y = drv_int(c, "b", 1);
		int code = mpt_linepart_code((double) x / (double) y);
		double back = code < 0 ? -1 : mpt_linepart_real(code) * 65536.0;
		drv_begin(c);
		j_str("ret", code < 0 ? "refused" : "ok");
		j_int("code", code < 0 ? 0 : code);
		drv_dbg();
		j_int("raw", code);
		j_int("real65536", (long long) back);
		j_int("real_exact", back == floor(back));
		drv_end();
		return;
	}
	bad(c, "unknown-action");
}

int main(int argc, char **argv)
{
	return drv_main(argc, argv);
}
