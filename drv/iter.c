/*
 * Driver for spec/Iter.tla (C19): value generators and argument iterators.
 *   create via=desc|values|string|buffer|args|linear|boundary|profile|poly ...
 *          desc=<text, hex encoded by the script writer>   description
 *          esc=1: in desc ~ ^ $ stand for tab, newline, carriage return
 *          len= a=p,q b=p,q c=p,q                          constructor arguments
 *          grid=p,q,p,q,...                                reference data (poly) as rationals
 *          (buffer/args: segments of desc separated by '|' become
 *           zero-terminated strings; args: preceded by the command "cmd")
 *   value i=    current value of instance i converted to double
 *   advance i=  reset i=  clone i=   (clone appends a new instance)
 *   fill kind=linear|bound len= ld= a= b= [c=]   mpt_values_linear / mpt_values_bound
 * Answers are mapped to classes only: value/end, more/last/end, ok/error, ok/none.
 * Doubles are logged exactly: [sign, m0, m1, m2, m3, e], value = +-M * 2^e,
 * M = sum m_k 2^(15k) < 2^53; e = 0 for integers, else M odd; sign 2/3/4 = +inf/-inf/nan.
 */
#include "drv.h"

#include <math.h>
#include <sys/uio.h>

#include "types.h"
#include "convert.h"
#include "meta.h"
#include "array.h"
#include "values.h"

#define MAXINST 16

static MPT_INTERFACE(metatype) *mt[MAXINST];
static MPT_INTERFACE(iterator) *it[MAXINST];
static int ninst;

static void drv_reset(void)
{
	int i;
	for (i = 0; i < ninst; i++) {
		if (mt[i]) mt[i]->_vptr->unref(mt[i]);
		mt[i] = 0; it[i] = 0;
	}
	ninst = 0;
}

static void d_limbs(double x, long long *v)
{
	int k;
	for (k = 0; k < 6; k++) v[k] = 0;
	if (isnan(x)) v[0] = 4;
	else if (isinf(x)) v[0] = x > 0 ? 2 : 3;
	else if (x != 0) {
		int e, k;
		double f = frexp(fabs(x), &e);
		uint64_t m = (uint64_t) ldexp(f, 53);
		e -= 53;
		while (!(m & 1) && e < 0) { m >>= 1; e++; }
		if (e > 0 && e <= 10 && !(m >> (53 - e))) { m <<= e; e = 0; }
		v[0] = x < 0;
		for (k = 0; k < 4; k++) v[1 + k] = (long long) ((m >> (15 * k)) & 0x7fff);
		v[5] = e;
	}
}
static void j_double(const char *key, double x)
{
	long long v[6];
	d_limbs(x, v);
	j_ints(key, v, 6);
}
static double rat(const struct cmd *c, const char *key, double def)
{
	size_t n;
	long long *v = drv_ints(c, key, &n);
	double r = def;
	if (n >= 2 && v[1]) r = (double) v[0] / (double) v[1];
	else if (n == 1) r = (double) v[0];
	free(v);
	return r;
}
/* array with the given content (built directly, no array calls involved) */
static int make_array_used(MPT_STRUCT(array) *a, int type, const void *data, size_t len, size_t used)
{
	MPT_STRUCT(buffer) *b;
	a->_buf = 0;
	if (!(b = _mpt_buffer_alloc(len ? len : 1, 0))) return -1;
	b->_content_traits = mpt_type_traits(type);
	if (len) memcpy(b + 1, data, len);   /* bytes behind the used size stay in the storage */
	b->_used = used;
	a->_buf = b;
	return 0;
}
static int make_array(MPT_STRUCT(array) *a, int type, const void *data, size_t len)
{
	MPT_STRUCT(buffer) *b;
	a->_buf = 0;
	if (!(b = _mpt_buffer_alloc(len ? len : 1, 0))) return -1;
	b->_content_traits = mpt_type_traits(type);
	if (len) memcpy(b + 1, data, len);
	b->_used = len;
	a->_buf = b;
	return 0;
}
static void answer(struct cmd *c, const char *ret)
{
	drv_begin(c);
	j_str("ret", ret);
	drv_dbg();
	j_int("ninst", ninst);
	drv_end();
}
static int add_inst(MPT_INTERFACE(metatype) *m)
{
	MPT_INTERFACE(iterator) *i = 0;
	if (!m) return -1;
	if (ninst >= MAXINST || MPT_metatype_convert(m, MPT_ENUM(TypeIteratorPtr), &i) < 0 || !i) {
		m->_vptr->unref(m);
		return -2;
	}
	mt[ninst] = m;
	it[ninst] = i;
	return ninst++;
}

static void drv_step(struct cmd *c)
{
	const char *a = c->action;
	long i = (long) drv_int(c, "i", 1) - 1;

	if (!strcmp(a, "create")) {
		const char *via = drv_raw(c, "via");
		size_t dl = 0;
		char *desc = (char *) drv_bytes(c, "desc", &dl);
		MPT_INTERFACE(metatype) *m = 0;
		int r;
		desc[dl] = 0;
		if (drv_int(c, "esc", 0)) {   /* white space the specification writes with visible characters */
			size_t k;
			for (k = 0; k < dl; k++) {
				if (desc[k] == '~') desc[k] = '\t';
				else if (desc[k] == '^') desc[k] = '\n';
				else if (desc[k] == '$') desc[k] = '\r';
			}
		}
		drv_reset();
		if (!via) via = "desc";
		if (!strcmp(via, "desc")) m = mpt_iterator_create(desc);
		else if (!strcmp(via, "values")) m = mpt_iterator_values(desc);
		else if (!strcmp(via, "string")) m = mpt_iterator_string(desc, 0);
		else if (!strcmp(via, "linear")) m = mpt_iterator_linear((uint32_t) drv_uint(c, "len", 0), rat(c, "a", 0), rat(c, "b", 1));
		else if (!strcmp(via, "boundary")) m = mpt_iterator_boundary((uint32_t) drv_uint(c, "len", 0), rat(c, "a", 0), rat(c, "b", 0), rat(c, "c", 0));
		else if (!strcmp(via, "iterarg")) {
			/* constructor parameters handed over as (text) iterator */
			MPT_INTERFACE(metatype) *am = mpt_iterator_string(desc, 0);
			MPT_INTERFACE(iterator) *ai = 0;
			const char *kind = drv_raw(c, "kind");
			if (am && MPT_metatype_convert(am, MPT_ENUM(TypeIteratorPtr), &ai) >= 0 && ai && kind) {
				MPT_STRUCT(value) val = MPT_VALUE_INIT(0, 0);
				MPT_value_set(&val, MPT_ENUM(TypeIteratorPtr), &ai);
				if (!strcmp(kind, "linear")) m = _mpt_iterator_linear(&val);
				else if (!strcmp(kind, "range")) m = _mpt_iterator_range(&val);
				else if (!strcmp(kind, "factor")) m = _mpt_iterator_factor(&val);
			}
			if (am) am->_vptr->unref(am);
		}
		else if (!strcmp(via, "buffer") || !strcmp(via, "args")) {
			MPT_STRUCT(array) arr = MPT_ARRAY_INIT;
			size_t k, off = 0, len = dl ? dl + 1 : 0;
			char *seg = (char *) malloc(len + 8);
			if (!strcmp(via, "args")) { memcpy(seg, "cmd", 4); off = 4; }
			if (dl) memcpy(seg + off, desc, dl + 1);
			for (k = 0; k < dl; k++) if (seg[off + k] == '|') seg[off + k] = 0;
			{
				size_t cut = drv_uint(c, "cut", 0), total = off + len;
				if (cut > total) cut = total;
				if (total) make_array_used(&arr, 'c', seg, total, total - cut);
			}
			m = !strcmp(via, "args") ? mpt_meta_arguments(&arr) : mpt_meta_buffer(&arr);
			mpt_array_clone(&arr, 0);
			free(seg);
		}
		else if (!strcmp(via, "profile") || !strcmp(via, "poly") || !strcmp(via, "polyapi")) {
			MPT_STRUCT(array) arr = MPT_ARRAY_INIT;
			size_t n = 0, k;
			double *g;
			if (drv_has(c, "grid")) {
				long long *v = drv_ints(c, "grid", &n);
				n /= 2;
				g = (double *) malloc((n + 1) * sizeof(*g));
				for (k = 0; k < n; k++) g[k] = (double) v[2 * k] / (double) v[2 * k + 1];
				free(v);
			} else {
				n = drv_uint(c, "len", 0);
				g = (double *) malloc((n + 1) * sizeof(*g));
				for (k = 0; k < n; k++) g[k] = (double) k;
			}
			make_array(&arr, 'd', g, n * sizeof(*g));
			free(g);
			m = !strcmp(via, "polyapi") ? mpt_iterator_poly(desc, &arr) : mpt_iterator_profile(&arr, desc);
			mpt_array_clone(&arr, 0);
		}
		r = add_inst(m);
		free(desc);
		answer(c, r >= 0 ? "ok" : (r == -1 ? "refused" : "noiter"));
		return;
	}
	if (!strcmp(a, "nop")) {
		drv_reset();
		answer(c, "ok");
		return;
	}
	if (!strcmp(a, "fill")) {
		const char *kind = drv_raw(c, "kind");
		long len = (long) drv_int(c, "len", 0), ld = (long) drv_int(c, "ld", 1), k;
		/* the target lies inside a larger array: guard cells before, between and behind the requested elements */
		long guard = 2 * (ld > 0 ? ld : 1) + 2, cells = (len > 0 ? len * ld : 0) + 2 * guard;
		double *base = (double *) malloc((size_t) cells * sizeof(*base)), *t = base + guard;
		for (k = 0; k < cells; k++) base[k] = -12345.0;
		if (kind && !strcmp(kind, "bound")) mpt_values_bound(len, t, ld, rat(c, "a", 0), rat(c, "b", 0), rat(c, "c", 0));
		else mpt_values_linear(len, t, ld, rat(c, "a", 0), rat(c, "b", 1));
		drv_begin(c);
		j_arr_open("vals");
		for (k = 0; k < len; k++) {
			long long v[6];
			d_limbs(t[k * ld], v);
			j_sep();
			fprintf(drv_out, "[%lld,%lld,%lld,%lld,%lld,%lld]", v[0], v[1], v[2], v[3], v[4], v[5]);
		}
		j_arr_close();
		{
			int clean = 1;   /* every cell that is not a requested element is untouched */
			for (k = -guard; k < cells - guard; k++) {
				int elem = k >= 0 && k < len * ld && !(k % ld);
				if (!elem && t[k] != -12345.0) clean = 0;
			}
			j_int("clean", clean);
		}
		drv_dbg();
		drv_end();
		free(base);
		return;
	}
	if (i < 0 || i >= ninst || !it[i]) {
		answer(c, "noinst");
		return;
	}
	if (!strcmp(a, "value")) {
		const MPT_STRUCT(value) *v = it[i]->_vptr->value(it[i]);
		double x;
		uint64_t sentinel = 0x7ff8dead0000beefULL;
		int r = -1, type = 0;
		memcpy(&x, &sentinel, sizeof(x));
		if (v) {
			type = v->_type;
			if (type == 's') {
				const char *s = v->_addr ? *((const char * const *) v->_addr) : 0;
				r = s ? mpt_convert_string(s, 'd', &x) : -1;
				if (r == 0) r = -1;   /* nothing converted */
			}
			else if (type == MPT_type_toVector('c')) {
				const struct iovec *vec = (const struct iovec *) v->_addr;
				char *tmp = (char *) calloc(vec->iov_len + 1, 1);
				memcpy(tmp, vec->iov_base, vec->iov_len);
				r = mpt_convert_string(tmp, 'd', &x);
				if (r == 0) r = -1;
				free(tmp);
			}
			else {
				r = mpt_value_convert(v, 'd', &x);
			}
		}
		drv_begin(c);
		j_str("ret", (v && r >= 0) ? "value" : "end");
		if (v && r >= 0) j_double("d", x);
		else { long long none = 0; j_ints("d", &none, 0); }
		drv_dbg();
		j_str("how", !v ? "null" : (r < 0 ? "noconv" : "conv"));
		j_int("type", type);
		j_int("conv", r);
		drv_end();
		return;
	}
	if (!strcmp(a, "consume")) {
		double x;
		uint64_t sentinel = 0x7ff8dead0000beefULL;
		int r;
		memcpy(&x, &sentinel, sizeof(x));
		r = mpt_iterator_consume(it[i], 'd', &x);
		drv_begin(c);
		j_str("ret", r >= 0 ? "value" : "end");
		if (r >= 0) j_double("d", x);
		else { long long none = 0; j_ints("d", &none, 0); }
		drv_dbg();
		j_int("code", r);
		drv_end();
		return;
	}
	if (!strcmp(a, "advance")) {
		int r = it[i]->_vptr->advance(it[i]);
		drv_begin(c);
		j_str("ret", r > 0 ? "more" : (r == 0 ? "last" : "end"));
		drv_dbg();
		j_int("code", r);
		drv_end();
		return;
	}
	if (!strcmp(a, "reset")) {
		int r = it[i]->_vptr->reset(it[i]);
		drv_begin(c);
		j_str("ret", r >= 0 ? "ok" : "error");
		drv_dbg();
		j_int("code", r);
		drv_end();
		return;
	}
	if (!strcmp(a, "clone")) {
		MPT_INTERFACE(metatype) *m = mt[i]->_vptr->clone(mt[i]);
		int r = add_inst(m);
		answer(c, r >= 0 ? "ok" : (r == -1 ? "none" : "noiter"));
		return;
	}
	answer(c, "unknown-action");
}

int main(int argc, char **argv)
{
	return drv_main(argc, argv);
}
