/*
 * Shared by drv/config.c and drv/config_cxx.cpp (C10): the path universe
 * given by the init step and output of byte strings.
 *
 * init base=<bytes> sep=<char> uni=<hex>;<hex>;... rel=<hex>;...
 * ("-" = empty string, "00" = no path (the view's base element itself), an
 * empty list is given as "none")
 */
#ifndef VERIF_CONFIG_COMMON_H
#define VERIF_CONFIG_COMMON_H

#define MAXUNI 512
static char *uni[MAXUNI];
static int nuni;
static char *reluni[MAXUNI];
static int nrel;

/* byte list argument -> zero terminated string (never contains 0 bytes) */
static char *arg_str(const struct cmd *c, const char *key)
{
	size_t len = 0;
	uint8_t *b = drv_bytes(c, key, &len);
	b = (uint8_t *) realloc(b, len + 1);
	b[len] = 0;
	return (char *) b;
}
static int parse_list(const char *raw, char **dest)
{
	int n = 0;
	const char *p = raw;
	if (!raw || !*raw || !strcmp(raw, "none")) return 0;
	while (n < MAXUNI) {
		const char *e = strchr(p, ';');
		size_t l = e ? (size_t) (e - p) : strlen(p), i;
		char *s = (char *) calloc(l / 2 + 2, 1);
		if (l == 2 && p[0] == '0' && p[1] == '0') {
			free(s);
			s = 0;            /* "00": no path at all (the configuration / view itself) */
		}
		else if (!(l == 1 && p[0] == '-')) {
			for (i = 0; i + 1 < l; i += 2) {
				unsigned v = 0;
				sscanf(p + i, "%2x", &v);
				s[i / 2] = (char) v;
			}
		}
		dest[n++] = s;
		if (!e) break;
		p = e + 1;
	}
	return n;
}
/*
 * Value text of a configuration element, read the way the library itself reads
 * text (mpt_convertable_data: character vector first, then 's'); copied up to
 * the first NUL.  Returns null when the element has no value.
 */
#ifdef __cplusplus
typedef mpt::convertable drv_convertable;
# define DRV_CONV_DATA mpt::mpt_convertable_data
#else
typedef MPT_INTERFACE(convertable) drv_convertable;
# define DRV_CONV_DATA mpt_convertable_data

#endif
struct grab {
	char *text;     /* malloc'd copy or null */
	int found;
};
static int grab_text(drv_convertable *val, struct grab *g)
{
	const char *d;
	size_t len = 0, n;
	g->text = 0;
	g->found = 0;
	if (!val) return -1;
	if (!(d = DRV_CONV_DATA(val, &len))) {
		if (len) return -2;
		d = "";
	}
	for (n = 0; n < len && d[n]; n++) { }
	g->text = (char *) malloc(n + 1);
	memcpy(g->text, d, n);
	g->text[n] = 0;
	g->found = 1;
	return 0;
}

/* a value: its bytes, or [-1] when absent */
static void j_item_val(const char *s)
{
	j_sep();
	fputc('[', drv_out);
	if (!s) fputs("-1", drv_out);
	else {
		const unsigned char *u = (const unsigned char *) s;
		size_t i;
		for (i = 0; u[i]; i++) fprintf(drv_out, i ? ",%u" : "%u", u[i]);
	}
	fputc(']', drv_out);
	drv_first = 0;
}
static void j_val(const char *key, const char *s)
{
	j_sep();
	fprintf(drv_out, "\"%s\":", key);
	drv_first = 1;
	j_item_val(s);
}
static void j_item_bytes(const void *p, size_t n)
{
	const uint8_t *b = (const uint8_t *) p;
	size_t i;
	j_sep();
	fputc('[', drv_out);
	for (i = 0; i < n; i++) fprintf(drv_out, i ? ",%u" : "%u", b[i]);
	fputc(']', drv_out);
	drv_first = 0;
}


/*
 * Answer of a TYPED query (target type + destination): the text written to
 * the destination, or a code
 *   [-1]  the query answered an error (absent / no value)
 *   [-2]  the query answered success but did not write the destination
 *   [-3]  the query answered success and wrote a null string
 */
static void j_item_typed(int code, const char *text)
{
	if (code < 0) {
		j_sep();
		fprintf(drv_out, "[%d]", code);
		drv_first = 0;
		return;
	}
	j_item_val(text ? text : "");
}
static char *copy_text(const char *d, size_t max)
{
	size_t n;
	char *t;
	for (n = 0; n < max && d[n]; n++) { }
	t = (char *) malloc(n + 1);
	memcpy(t, d, n);
	t[n] = 0;
	return t;
}

#endif
