/*
 * Driver for spec/Containers.tla (extension of C05/C04), C binding: the
 * library's own managed element types with their fixtures.
 *   kind=cfg    tables of MPT_STRUCT(config_item): mpt_config_item_reserve /
 *               mpt_config_item_query, mpt_config_item_traits(); values are
 *               counted harness metatypes, nested elements one level deep
 *   kind=cmd    tables of MPT_STRUCT(command): mpt_command_set / _clear,
 *               mpt_command_traits(); the handler logs end-of-life calls
 *   kind=stage  MPT_STRUCT(rawdata_stage): mpt_stage_data(),
 *               mpt_value_store_traits(); the value stores reference inner
 *               buffers whose reference counts are read back
 * plus the generic typed buffer calls (mpt_array_set with all elements of
 * another table, mpt_buffer_cut, mpt_array_clone) with these traits.
 * After each call: what every handle reads ([name, object, [[name, object]..]]
 * per element), the objects' counters, end-of-life calls of the call (sorted),
 * releases of something not alive (under) and -- on "final" -- the number of
 * heap blocks alive beyond "init".  No judgement here.
 */
#include "drv.h"

#include <sanitizer/allocator_interface.h>

#include "types.h"
#include "meta.h"
#include "array.h"
#include "config.h"
#include "event.h"
#include "values.h"

#include "array/buffer_alloc.c"

#define MAXH 8
#define MAXO 8
#define MAXN 8

static volatile long heap_live;
static void hook_malloc(const volatile void *p, size_t n) { (void) n; if (p) ++heap_live; }
static void real_gone(const volatile void *p);
static void hook_free(const volatile void *p) { if (p) { --heap_live; real_gone(p); } }
static long heap_base;

enum { K_CFG, K_CMD, K_STAGE };
static int kind, nh, no;
static MPT_STRUCT(array) arr[MAXH];
static MPT_STRUCT(rawdata_stage) st[MAXH];
static size_t esize;
static const MPT_STRUCT(type_traits) *etraits;

#define HARR(i) (kind == K_STAGE ? &st[i]._d : &arr[i])

/* counted harness metatypes (cfg) */
/* solo: addref refuses (answers 0); real: the value is a library text metatype made by mpt_meta_geninfo()
 * (non-shareable as well, unref frees it): alive = the free hook has not seen its block go */
struct hmeta { MPT_INTERFACE(metatype) mt; long refs, under; int solo; MPT_INTERFACE(metatype) *real; };
static struct hmeta metas[MAXO + 1];
static int hm_conv(MPT_INTERFACE(convertable) *c, MPT_TYPE(type) t, void *p) { (void) c; (void) t; (void) p; return MPT_ERROR(BadType); }
static void hm_unref(MPT_INTERFACE(metatype) *m) { struct hmeta *h = (struct hmeta *) m; if (h->refs <= 0) ++h->under; else --h->refs; }
static uintptr_t hm_addref(MPT_INTERFACE(metatype) *m) { struct hmeta *h = (struct hmeta *) m; return h->solo ? 0 : (uintptr_t) ++h->refs; }
static MPT_INTERFACE(metatype) *hm_clone(const MPT_INTERFACE(metatype) *m) { (void) m; return 0; }
static const MPT_INTERFACE_VPTR(metatype) hm_vptr = { { hm_conv }, hm_unref, hm_addref, hm_clone };
static long meta_index(const MPT_INTERFACE(metatype) *m)
{
	int k;
	if (!m) return 0;
	for (k = 1; k <= no; k++) if (&metas[k].mt == m || (metas[k].real && metas[k].real == m)) return k;
	return -1;
}
static void real_gone(const volatile void *p)
{
	int k;
	for (k = 1; k <= MAXO; k++) {
		if (metas[k].real && (const volatile void *) metas[k].real == p) {
			if (metas[k].refs <= 0) ++metas[k].under; else metas[k].refs = 0;
		}
	}
}
/* the value object handed to an element: a share of a counted one, the only reference of a non-shareable one */
static MPT_INTERFACE(metatype) *meta_take(long o)
{
	MPT_INTERFACE(metatype) *m = &metas[o].mt;
	if (!metas[o].solo) { m->_vptr->addref(m); return m; }
	metas[o].refs = 1;
	if (o == 4) return metas[o].real = mpt_meta_geninfo(8);
	return m;
}
static int busy(long o)
{
	return o >= 1 && o <= no && metas[o].solo && metas[o].refs > 0;
}

/* command registrations (cmd): token = handler argument */
static int tok_live[MAXO + 1];
static long tok_under;
static long fin_log[64];
static int fin_n;
static int h_cmd(void *arg, void *ev)
{
	long tok = (long) (intptr_t) arg;
	if (ev) return 0;
	if (fin_n < 64) fin_log[fin_n++] = tok;
	if (tok < 1 || tok > MAXO || !tok_live[tok]) { ++tok_under; return 0; }
	tok_live[tok] = 0;
	return 0;
}

/* inner buffers (stage) */
static MPT_STRUCT(array) inner[MAXO + 1];
static long inner_index(const MPT_STRUCT(buffer) *b)
{
	int k;
	if (!b) return 0;
	for (k = 1; k <= no; k++) if (inner[k]._buf == b) return k;
	return -1;
}

static const char *names[MAXN + 1] = {
	0, "a", "the-second-name-is-too-long-for-inline-storage", "c3", "d", "e5-long-long-long-long-long-long-long", "f", "g", "h"
};
static long name_index(const MPT_STRUCT(identifier) *id)
{
	int k;
	const char *d;
	if (!id->_len) return 0;
	d = (const char *) mpt_identifier_data(id);
	for (k = 1; k <= MAXN; k++) {
		size_t l = strlen(names[k]);
		if (d && id->_len == l + 1 && !memcmp(d, names[k], l)) return k;
	}
	return -1;
}

static void drv_reset(void)
{
	int i;
	for (i = 0; i < MAXH; i++) { arr[i]._buf = 0; st[i]._d._buf = 0; st[i]._max_dimensions = 0; }   /* abandoned */
	nh = 0;
	_mpt_buffer_alloc_psize = 0;
}

static long buf_refs(const MPT_STRUCT(buffer) *b)
{
	if (!b) return 1;
	return (long) MPT_baseaddr(bufferData, b, buf)->_ref._val;
}
static int hshared(int i) { return HARR(i)->_buf && buf_refs(HARR(i)->_buf) > 1; }

static void emit_items(const MPT_STRUCT(buffer) *b, int depth)
{
	size_t n, s;
	fputc('[', drv_out);
	n = (b && b->_content_traits == etraits) ? (b->_used <= b->_size ? b->_used : b->_size) / esize : 0;
	for (s = 0; s < n; s++) {
		const uint8_t *p = ((const uint8_t *) (b + 1)) + s * esize;
		if (s) fputc(',', drv_out);
		if (kind == K_CFG) {
			const MPT_STRUCT(config_item) *it = (const MPT_STRUCT(config_item) *) p;
			fprintf(drv_out, "[%ld,%ld", name_index(&it->identifier), meta_index(it->value));
			if (depth == 0) {
				fputc(',', drv_out);
				emit_items(it->elements._buf, 1);
			}
			fputc(']', drv_out);
		}
		else if (kind == K_CMD) {
			const MPT_STRUCT(command) *cm = (const MPT_STRUCT(command) *) p;
			if (cm->cmd) fprintf(drv_out, "[%ld,%ld,[]]", (long) cm->id, (long) (intptr_t) cm->arg);
			else fputs("[0,0,[]]", drv_out);
		}
		else {
			const MPT_STRUCT(value_store) *v = (const MPT_STRUCT(value_store) *) p;
			fprintf(drv_out, "[0,%ld,[]]", inner_index(v->_d._buf));
		}
	}
	fputc(']', drv_out);
}

static int cmp_long(const void *a, const void *b) { long x = *(const long *) a, y = *(const long *) b; return x < y ? -1 : x > y; }

static void emit_all(const char *ret, long long out, int final)
{
	int i, k;
	long under = 0;
	j_str("ret", ret);
	j_int("out", out);
	j_arr_open("vals");
	for (i = 0; i < nh; i++) {
		j_sep();
		emit_items(HARR(i)->_buf, 0);
		drv_first = 0;
	}
	j_arr_close();
	j_arr_open("refs");
	for (k = 1; k <= no; k++) {
		if (kind == K_CFG) { j_item_int(metas[k].refs); under += metas[k].under; }
		else if (kind == K_CMD) j_item_int(1 + tok_live[k]);
		else j_item_int(buf_refs(inner[k]._buf));
	}
	j_arr_close();
	if (kind == K_CMD) under += tok_under;
	qsort(fin_log, fin_n, sizeof(*fin_log), cmp_long);
	j_arr_open("fin");
	for (i = 0; i < fin_n; i++) j_item_int(fin_log[i]);
	j_arr_close();
	j_int("under", under);
	j_int("leak", final ? heap_live - heap_base : -1);
}
static void emit_dbg(long long rc)
{
	int i;
	drv_dbg();
	j_int("rc", rc);
	j_int("heap", heap_live - heap_base);
	j_arr_open("refs");
	for (i = 0; i < nh; i++) j_item_int(buf_refs(HARR(i)->_buf));
	j_arr_close();
	j_arr_open("null");
	for (i = 0; i < nh; i++) j_item_int(HARR(i)->_buf ? 0 : 1);
	j_arr_close();
	j_arr_open("flags");
	for (i = 0; i < nh; i++) j_item_int(HARR(i)->_buf ? (long long) HARR(i)->_buf->_vptr->get_flags(HARR(i)->_buf) : 0);
	j_arr_close();
}
static void answer(struct cmd *c, const char *ret, long long out, long long rc, int final)
{
	drv_begin(c);
	emit_all(ret, out, final);
	emit_dbg(rc);
	drv_end();
}

static void make_path(MPT_STRUCT(path) *p, char *store, size_t max, long a, long b)
{
	static const MPT_STRUCT(path) init = MPT_PATH_INIT;
	*p = init;
	p->sep = '.';
	if (b >= 1 && b <= MAXN) snprintf(store, max, "%s.%s", names[a], names[b]);
	else snprintf(store, max, "%s", names[a]);
	mpt_path_set(p, store, -1);
}

static void step_cfg(struct cmd *c, int h)
{
	const char *a = c->action;
	long p1 = (long) drv_int(c, "p", 1), p2 = (long) drv_int(c, "q", 0), o = (long) drv_int(c, "o", 0);
	MPT_STRUCT(path) p;
	char store[256];

	if (p1 < 1 || p1 > MAXN) { answer(c, "bad-name", 0, 0, 0); return; }
	make_path(&p, store, sizeof(store), p1, p2);

	if (!strcmp(a, "cfgset")) {
		MPT_STRUCT(config_item) *it;
		if (busy(o)) { answer(c, "skipped", 0, 0, 0); return; }   /* the non-shareable value has its owner */
		it = mpt_config_item_reserve(&arr[h], &p);
		if (it && o >= 1 && o <= no) {
			/* what config::root::assign does with the reserved element */
			MPT_INTERFACE(metatype) *m = meta_take(o), *old = it->value;
			it->value = m;
			if (old) old->_vptr->unref(old);
		}
		answer(c, it ? "ok" : "refused", 0, 0, 0);
	}
	else if (!strcmp(a, "cfgq")) {
		MPT_STRUCT(config_item) *it = mpt_config_item_query(&arr[h], &p);
		answer(c, "ok", it ? meta_index(it->value) : -1, 0, 0);
	}
	else if (!strcmp(a, "cfgdel")) {
		MPT_STRUCT(config_item) *it;
		int mode = (int) drv_int(c, "mode", 0);
		if (hshared(h)) { answer(c, "skipped", 0, 0, 0); return; }
		if (!(it = mpt_config_item_query(&arr[h], &p))) { answer(c, "ok", 0, 0, 0); return; }
		/* what config::root::remove does with the element found (mode 0), or parts of it */
		if (mode == 0) mpt_array_clone(&it->elements, 0);
		if (mode == 0 || mode == 1) mpt_identifier_set(&it->identifier, 0, 0);
		if ((mode == 0 || mode == 2) && it->value) {
			it->value->_vptr->unref(it->value);
			it->value = 0;
		}
		answer(c, "ok", 1, 0, 0);
	}
	else {
		drv_begin(c); j_str("ret", "unknown-action"); drv_dbg(); drv_end();
	}
}

static void step_cmd(struct cmd *c, int h)
{
	const char *a = c->action;

	if (!strcmp(a, "cmdset")) {
		long id = (long) drv_int(c, "id", 1), tok = (long) drv_int(c, "tok", 0);
		int r;
		if (hshared(h) || tok < 0 || tok > no || (tok && tok_live[tok])) { answer(c, "skipped", 0, 0, 0); return; }
		if (tok) tok_live[tok] = 1;
		r = mpt_command_set(&arr[h], (uintptr_t) id, tok ? h_cmd : 0, (void *) (intptr_t) tok);
		if (r < 0 && tok) tok_live[tok] = 0;
		answer(c, r < 0 ? "refused" : "ok", r, r, 0);
	}
	else if (!strcmp(a, "cmdclear")) {
		if (hshared(h) || !arr[h]._buf) { answer(c, "skipped", 0, 0, 0); return; }
		mpt_command_clear(&arr[h]);
		answer(c, "ok", 0, 0, 0);
	}
	else {
		drv_begin(c); j_str("ret", "unknown-action"); drv_dbg(); drv_end();
	}
}

static void step_stage(struct cmd *c, int h)
{
	const char *a = c->action;

	if (!strcmp(a, "stage")) {
		long dim = (long) drv_int(c, "dim", 0), o = (long) drv_int(c, "o", 0);
		MPT_STRUCT(value_store) *v = mpt_stage_data(&st[h], (unsigned) dim);
		if (v && o >= 1 && o <= no) mpt_array_clone(&v->_d, &inner[o]);
		answer(c, v ? "ok" : "refused", 0, 0, 0);
	}
	else {
		drv_begin(c); j_str("ret", "unknown-action"); drv_dbg(); drv_end();
	}
}

static void drv_step(struct cmd *c)
{
	const char *a = c->action;
	int h = (int) drv_int(c, "h", 1) - 1, i;

	fin_n = 0;
	if (!strcmp(a, "init")) {
		const char *k = drv_raw(c, "kind");
		drv_reset();
		nh = (int) drv_int(c, "n", 2);
		no = (int) drv_int(c, "no", 2);
		if (nh > MAXH) nh = MAXH;
		if (no > MAXO) no = MAXO;
		kind = (k && !strcmp(k, "cmd")) ? K_CMD : (k && !strcmp(k, "stage")) ? K_STAGE : K_CFG;
		if (kind == K_CFG) { etraits = mpt_config_item_traits(); esize = sizeof(MPT_STRUCT(config_item)); }
		else if (kind == K_CMD) { etraits = mpt_command_traits(); esize = sizeof(MPT_STRUCT(command)); }
		else { etraits = mpt_value_store_traits(); esize = sizeof(MPT_STRUCT(value_store)); }
		for (i = 0; i <= MAXO; i++) {
			metas[i].mt._vptr = &hm_vptr; metas[i].refs = 1; metas[i].under = 0; metas[i].solo = 0; metas[i].real = 0;
			tok_live[i] = 0;
			inner[i]._buf = 0;
		}
		tok_under = 0;
		if (kind == K_CFG) {
			size_t nl = 0, j;
			uint8_t *sl = drv_bytes(c, "solo", &nl);
			for (j = 0; j < nl; j++) if (sl[j] >= 1 && sl[j] <= MAXO) { metas[sl[j]].solo = 1; metas[sl[j]].refs = 0; }
			free(sl);
		}
		if (kind == K_STAGE) for (i = 1; i <= no; i++) inner[i]._buf = _mpt_buffer_alloc(8, 0);
		heap_base = heap_live;
		answer(c, "ok", 0, 0, 0);
		return;
	}
	if (!strcmp(a, "final")) {
		for (i = 0; i < nh; i++) mpt_array_clone(HARR(i), 0);
		answer(c, "ok", 0, 0, 1);
		return;
	}
	if (h < 0 || h >= nh) {
		drv_begin(c); j_str("ret", "bad-handle"); drv_dbg(); drv_end();
		return;
	}
	if (!strcmp(a, "copy")) {
		int g = (int) drv_int(c, "from", 0) - 1, r;
		if (g < 0 || g >= nh || g == h) { answer(c, "skipped", 0, 0, 0); return; }
		r = mpt_array_clone(HARR(h), HARR(g));
		answer(c, r < 0 ? "refused" : "ok", 0, r, 0);
	}
	else if (!strcmp(a, "release")) {
		int r = mpt_array_clone(HARR(h), 0);
		answer(c, r < 0 ? "refused" : "ok", 0, r, 0);
	}
	else if (!strcmp(a, "tcopy")) {
		int g = (int) drv_int(c, "from", 0) - 1;
		long off = (long) drv_int(c, "off", 0);
		const MPT_STRUCT(buffer) *src;
		void *p;
		if (g < 0 || g >= nh || g == h || !(src = HARR(g)->_buf) || src->_content_traits != etraits
		    || off < 0 || (size_t) off > (HARR(h)->_buf ? HARR(h)->_buf->_used / esize : 0)) {
			answer(c, "skipped", 0, 0, 0); return;
		}
		p = mpt_array_set(HARR(h), etraits, src->_used, src + 1, off);
		answer(c, p ? "ok" : "refused", 0, 0, 0);
	}
	else if (!strcmp(a, "cut")) {
		MPT_STRUCT(buffer) *b = HARR(h)->_buf;
		ssize_t r;
		if (!b || hshared(h)) { answer(c, "skipped", 0, 0, 0); return; }
		r = mpt_buffer_cut(b, drv_uint(c, "off", 0) * esize, drv_uint(c, "n", 0) * esize);
		answer(c, r < 0 ? "refused" : "ok", 0, r, 0);
	}
	else if (kind == K_CFG) step_cfg(c, h);
	else if (kind == K_CMD) step_cmd(c, h);
	else step_stage(c, h);
}

static void warm_up(void)
{
	MPT_STRUCT(array) a = MPT_ARRAY_INIT;
	MPT_STRUCT(rawdata_stage) s = MPT_RAWDATA_STAGE_INIT;
	MPT_STRUCT(path) p;
	char store[64];
	no = 0;
	make_path(&p, store, sizeof(store), 2, 1);
	mpt_config_item_reserve(&a, &p);
	mpt_array_clone(&a, 0);
	mpt_command_set(&a, 1, 0, 0);
	mpt_array_clone(&a, 0);
	mpt_stage_data(&s, 1);
	mpt_array_clone(&s._d, 0);
}

int main(int argc, char **argv)
{
	static char outbuf[1 << 16];
	setvbuf(stdout, outbuf, _IOFBF, sizeof(outbuf));
	__sanitizer_install_malloc_and_free_hooks(hook_malloc, hook_free);
	drv_out = stdout;
	warm_up();
	return drv_main(argc, argv);
}
