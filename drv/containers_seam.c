/*
 * Allocation seam of drv/containers.cpp: mptcore/array/buffer_alloc.c and
 * mptcore/misc/identifier.c compiled as C into the driver (interposing the
 * library's copies) with their malloc calls routed through a counter that can
 * make the k-th allocation of a call fail.  Also what drv/alloc_seam.c offers
 * (allocation granularity, reference count, allocator identity).
 */
#include <stdlib.h>
#include <errno.h>

static long xf_fail_at, xf_count, xf_fired;
static void *xf_malloc(size_t n)
{
	if (xf_fail_at && ++xf_count == xf_fail_at) {
		++xf_fired;
		errno = ENOMEM;
		return 0;
	}
	return malloc(n);
}
#define malloc(n) xf_malloc(n)

#include "types.h"
#include "array.h"

#include "array/buffer_alloc.c"
#include "misc/identifier.c"

#undef malloc

void seam_fail_at(long k)
{
	xf_fail_at = k;
	xf_count = 0;
	xf_fired = 0;
}
long seam_fired(void)
{
	return xf_fired;
}
void seam_set_psize(int n)
{
	_mpt_buffer_alloc_psize = n;
}
long seam_refcount(const MPT_STRUCT(buffer) *b)
{
	const MPT_STRUCT(bufferData) *bd;
	if (!b) return 1;
	bd = MPT_baseaddr(bufferData, b, buf);
	return (long) bd->_ref._val;
}
int seam_is_alloc(const MPT_STRUCT(buffer) *b)
{
	return b && b->_vptr->unref == _mpt_buffer_alloc_unref;
}
