/*
 * Driver for spec/CodecOps.tla (extension X01 of C01 / C03).
 *
 * Codecs: m=0 -> the shipped functions of libmptcore, selected by
 *                mpt_encoding_value(name) -> mpt_message_encoder / mpt_message_decoder
 *                when the step names the encoding (name=...), else by kind;
 *         m=3,5 -> repository sources compiled at a scaled block limit (cobs_seam.h);
 *         kind=text -> mpt_encode_string with a delimiter of 1..3 bytes
 *                (how=ctx: byte in the encoder context; how=buf: delimiter kept by the
 *                caller in the scratch area behind the finished data);
 *         kind=raw  -> no encoder (raw path of mpt_array_push).
 * Judgement-free: moves bytes, follows the caller protocol, maps return codes to
 * classes, prints what it saw.
 *
 * Encoder session
 *   xinit kind=K m=M path=direct|array|queue cap=N dl=<bytes>|nl=<newline type> how=ctx|buf msg=<bytes> [name=N] [via=C]
 *   push k=N | grow n=N | term | fin (complete and terminate) | next msg=<bytes> | delete k=N
 *   shift n=N | front | prepare n=N        (array: encode_array::shift / prepare)
 *   xfin           complete the message in progress (if any), report the whole
 *                  finished output and what the library decoder reads from it
 * Decoder
 *   dinit kind=K m=M slack=S [name=N] | feed data=<bytes> | call seg=S mis=A | peek | grant k=N
 *   size n=N       source = 0, sourcelen = N
 *   reset          source = 0, sourcelen = 0
 *   qinit kind=K [name=N] | qfeed data=<bytes> | qrecv | qpeek max=N     (decode_queue)
 */
#include "cobs_seam.h"
#include "drv.h"

#include "array.h"
#include "queue.h"

#define GUARD 32
#define GBYTE 0xA5

/* drv/codecops_cxx.cpp */
extern void *xa_new(ssize_t (*)(MPT_STRUCT(encode_state) *, const struct iovec *, const struct iovec *));
extern void xa_del(void *);
extern ssize_t xa_push(void *, size_t, const void *);
extern ssize_t xa_push_msg(void *, size_t, const void *, int);
extern int xa_shift(void *, size_t);
extern int xa_prepare(void *, size_t);
extern const uint8_t *xa_data(void *, size_t *);
extern void xa_state(void *, size_t *, size_t *, size_t *, size_t *);

typedef ssize_t (*enc_fn)(MPT_STRUCT(encode_state) *, const struct iovec *, const struct iovec *);
typedef int (*dec_fn)(MPT_STRUCT(decode_state) *, const struct iovec *, size_t);

static int enc_code(const char *kind)
{
	if (!strcmp(kind, "cmd"))    return MPT_ENUM(EncodingCommand);
	if (!strcmp(kind, "cobs"))   return MPT_ENUM(EncodingCobs);
	if (!strcmp(kind, "cobs_r")) return MPT_ENUM(EncodingCobsInline);
	if (!strcmp(kind, "zpe"))    return MPT_ENUM(EncodingCobs) | MPT_ENUM(EncodingCompress);
	if (!strcmp(kind, "zpe_r"))  return MPT_ENUM(EncodingCobsInline) | MPT_ENUM(EncodingCompress);
	return -1;
}
static enc_fn get_enc(const char *kind, int m)
{
	if (!strcmp(kind, "text")) return mpt_encode_string;
	if (!strcmp(kind, "raw")) return 0;
	if (m == 0 || !strcmp(kind, "cmd")) return enc_code(kind) < 0 ? 0 : mpt_message_encoder(enc_code(kind));
	if (m == 5) {
		if (!strcmp(kind, "cobs"))   return seam_enc_cobs_5;
		if (!strcmp(kind, "cobs_r")) return seam_enc_cobs_r_5;
		if (!strcmp(kind, "zpe"))    return seam_enc_zpe_5;
		if (!strcmp(kind, "zpe_r"))  return seam_enc_zpe_r_5;
	}
	if (m == 3) {
		if (!strcmp(kind, "cobs"))   return seam_enc_cobs_3;
		if (!strcmp(kind, "cobs_r")) return seam_enc_cobs_r_3;
		if (!strcmp(kind, "zpe"))    return seam_enc_zpe_3;
		if (!strcmp(kind, "zpe_r"))  return seam_enc_zpe_r_3;
	}
	return 0;
}
static dec_fn get_dec(const char *kind, int m)
{
	if (!strcmp(kind, "text") || !strcmp(kind, "raw")) return 0;
	if (m == 0 || !strcmp(kind, "cmd")) return enc_code(kind) < 0 ? 0 : mpt_message_decoder(enc_code(kind));
	if (m == 5) {
		if (!strcmp(kind, "cobs"))   return seam_dec_cobs_5;
		if (!strcmp(kind, "cobs_r")) return seam_dec_cobs_r_5;
		if (!strcmp(kind, "zpe"))    return seam_dec_zpe_5;
		if (!strcmp(kind, "zpe_r"))  return seam_dec_zpe_r_5;
	}
	if (m == 3) {
		if (!strcmp(kind, "cobs"))   return seam_dec_cobs_3;
		if (!strcmp(kind, "cobs_r")) return seam_dec_cobs_r_3;
		if (!strcmp(kind, "zpe"))    return seam_dec_zpe_3;
		if (!strcmp(kind, "zpe_r"))  return seam_dec_zpe_r_3;
	}
	return 0;
}
/* the library's own tables: name -> value -> codec pair, value -> name */
static char tname[40];
static int by_name(const char *name, enc_fn *e, dec_fn *d)
{
	int val = mpt_encoding_value(name, -1);
	const char *back;
	tname[0] = 0;
	if (val < 0) return val;
	*e = mpt_message_encoder(val);
	*d = mpt_message_decoder(val);
	if ((back = mpt_encoding_type(val))) snprintf(tname, sizeof(tname), "%s", back);
	return val;
}

/* guarded allocation: [GUARD][n bytes][GUARD]; start address = a mod 16 */
struct gbuf { uint8_t *raw, *p; size_t n; };
static void g_alloc(struct gbuf *g, size_t n, unsigned a)
{
	uintptr_t u;
	g->raw = (uint8_t *) malloc(n + 2 * GUARD + 32);
	u = (uintptr_t) (g->raw + GUARD);
	u = ((u + 15) & ~(uintptr_t) 15) + (a & 15);
	g->p = (uint8_t *) u;
	g->n = n;
	memset(g->raw, GBYTE, n + 2 * GUARD + 32);
}
static int g_ok(const struct gbuf *g)
{
	size_t i, tot = g->n + 2 * GUARD + 32;
	for (i = 0; g->raw + i < g->p; i++) if (g->raw[i] != GBYTE) return 0;
	for (i = (size_t) (g->p - g->raw) + g->n; i < tot; i++) if (g->raw[i] != GBYTE) return 0;
	return 1;
}
static void g_free(struct gbuf *g)
{
	free(g->raw);
	g->raw = g->p = 0; g->n = 0;
}
static const char *enc_class(ssize_t r)
{
	if (r >= 0) return "ok";
	if (r == MPT_ERROR(MissingBuffer)) return "nobuf";
	return "err";
}
static int guards_good = 1;

/* growing byte log */
struct blog { uint8_t *d; size_t n, cap; };
static void bl_add(struct blog *b, const uint8_t *p, size_t n)
{
	if (b->n + n + 1 > b->cap) b->d = (uint8_t *) realloc(b->d, b->cap = (b->n + n) * 2 + 64);
	if (n) memcpy(b->d + b->n, p, n);
	b->n += n;
}
static void bl_clear(struct blog *b) { free(b->d); b->d = 0; b->n = b->cap = 0; }

/* ------------------------------------------------------------------ */
/* decoder side: region handling as in drv/cobs.c                      */
static uint8_t *reg;
static size_t reg_len, reg_cap;
static MPT_STRUCT(decode_state) dst_state;
static dec_fn dfn;
static int last_nobuf;

static void reg_reserve(size_t n)
{
	if (n <= reg_cap) return;
	reg_cap = n * 2 + 64;
	reg = (uint8_t *) realloc(reg, reg_cap);
}
static void reg_insert(size_t pos, size_t k)
{
	reg_reserve(reg_len + k);
	memmove(reg + pos + k, reg + pos, reg_len - pos);
	memset(reg + pos, 0xEE, k);
	reg_len += k;
}
struct callres { int ret; const char *cls; long chg_lo, chg_hi; int guards; };

static struct callres do_call(int seg, unsigned mis, int peek)
{
	struct callres cr;
	struct gbuf g[4];
	struct iovec vec[4];
	size_t cut[5], nseg = 1, i, off;
	uint8_t *before;
	size_t start = dst_state.data.pos + dst_state.data.len;

	cut[0] = 0;
	if (peek || seg == 0 || reg_len < 2) nseg = 1;
	else if (seg == 2) { nseg = 2; cut[1] = reg_len / 2; }
	else if (seg == 3 && reg_len >= 3) { nseg = 3; cut[1] = reg_len / 3; cut[2] = reg_len - 1; }
	else if (seg == 4) { nseg = 2; cut[1] = 1; }
	else if (seg == 5) { nseg = 2; cut[1] = reg_len - 1; }
	else nseg = 0;
	before = (uint8_t *) malloc(reg_len + 1);
	memcpy(before, reg, reg_len);
	if (nseg) {
		cut[nseg] = reg_len;
		for (i = 0; i < nseg; i++) {
			size_t n = cut[i + 1] - cut[i];
			unsigned a = 0;
			if (start >= cut[i] && (start < cut[i + 1] || i + 1 == nseg)) {
				a = (unsigned) ((16 + (mis & 15) - ((start - cut[i]) & 15)) & 15);
			}
			g_alloc(&g[i], n, a);
			memcpy(g[i].p, reg + cut[i], n);
			vec[i].iov_base = g[i].p;
			vec[i].iov_len = n;
		}
		cr.ret = dfn(&dst_state, vec, peek ? 0 : nseg);
		cr.guards = 1;
		for (i = 0; i < nseg; i++) {
			memcpy(reg + cut[i], g[i].p, g[i].n);
			if (!g_ok(&g[i])) cr.guards = 0;
			g_free(&g[i]);
		}
	} else {
		struct gbuf *gg = (struct gbuf *) calloc(reg_len + 1, sizeof(*gg));
		struct iovec *vv = (struct iovec *) calloc(reg_len + 1, sizeof(*vv));
		for (i = 0; i < reg_len; i++) {
			g_alloc(&gg[i], 1, (i == start) ? mis : (unsigned) i);
			gg[i].p[0] = reg[i];
			vv[i].iov_base = gg[i].p;
			vv[i].iov_len = 1;
		}
		cr.ret = dfn(&dst_state, vv, reg_len);
		cr.guards = 1;
		for (i = 0; i < reg_len; i++) {
			reg[i] = gg[i].p[0];
			if (!g_ok(&gg[i])) cr.guards = 0;
			g_free(&gg[i]);
		}
		free(gg); free(vv);
	}
	cr.chg_lo = cr.chg_hi = -1;
	for (off = 0; off < reg_len; off++) {
		if (before[off] != reg[off]) {
			if (cr.chg_lo < 0) cr.chg_lo = (long) off;
			cr.chg_hi = (long) off;
		}
	}
	free(before);
	if (cr.ret < 0) cr.cls = (cr.ret == MPT_ERROR(MissingBuffer)) ? "nobuf" : "err";
	else cr.cls = (dst_state.data.msg >= 0 && !peek) ? "msg" : "more";
	if (!cr.guards) guards_good = 0;
	last_nobuf = !strcmp(cr.cls, "nobuf");
	return cr;
}
static void emit_dstate(void)
{
	j_int("pos", (long long) dst_state.data.pos);
	j_int("dlen", (long long) dst_state.data.len);
	j_int("dmsg", (long long) dst_state.data.msg);
	j_int("ctxv", (long long) (dst_state._ctx & 0xffff));
}
static void emit_call(struct cmd *c, const struct callres *cr)
{
	size_t ml = 0, mp = 0;
	drv_begin(c);
	j_str("ret", cr->cls);
	if (!strcmp(cr->cls, "msg")) {
		mp = dst_state.data.pos; ml = (size_t) dst_state.data.msg;
		if (mp + ml > reg_len) { ml = 0; j_int("msg_outside", 1); }
	}
	j_bytes("msg", reg + mp, ml);
	j_int("curr", (long long) dst_state.curr);
	j_int("len", (long long) reg_len);
	j_int("chg_hi", cr->chg_hi);
	j_int("guards", cr->guards);
	drv_dbg();
	j_int("code", cr->ret);
	emit_dstate();
	drv_end();
}
static void dec_setup(dec_fn fn, size_t slack)
{
	static const MPT_STRUCT(decode_state) def = MPT_DECODE_INIT;
	dfn = fn;
	dst_state = def;
	reg_len = 0;
	reg_reserve(slack + 16);
	memset(reg, 0xEE, slack);
	reg_len = slack;
	dst_state.curr = slack;
	last_nobuf = 0;
}
/* protocol-following decode of a whole byte string; messages are emitted as list items */
static const char *decode_all(dec_fn fn, const uint8_t *data, size_t n, int maxres)
{
	int nres = 0, calls = 0, nobuf = 0, fed = 0;
	const char *last = "more";
	dec_setup(fn, 0);
	while (1) {
		struct callres cr;
		if (!fed) {
			reg_reserve(reg_len + n);
			memcpy(reg + reg_len, data, n);
			reg_len += n;
			fed = 1;
		}
		cr = do_call(0, 0, 0);
		last = cr.cls;
		if (!strcmp(cr.cls, "msg")) {
			size_t mp = dst_state.data.pos, ml = (size_t) dst_state.data.msg, i;
			if (mp + ml > reg_len) ml = 0;
			j_sep(); fputc('[', drv_out);
			for (i = 0; i < ml; i++) fprintf(drv_out, i ? ",%u" : "%u", reg[mp + i]);
			fputc(']', drv_out); drv_first = 0;
			nobuf = 0;
			if (++nres >= maxres) break;
		} else if (!strcmp(cr.cls, "nobuf")) {
			size_t g = (size_t) 8 << (nobuf < 6 ? nobuf : 6);
			if (dst_state.curr > reg_len) break;
			reg_insert(dst_state.curr, g);
			dst_state.curr += g;
			if (++nobuf > 64) break;
			continue;
		} else if (!strcmp(cr.cls, "err")) {
			j_sep(); fputs("[-1]", drv_out); drv_first = 0;
			break;
		} else break;
		if (++calls > 40000) { last = "spin"; break; }
	}
	return last;
}

/* ------------------------------------------------------------------ */
/* encoder session                                                     */
static char ekind[16], epath[16], ehow[8];
static int em, evia;
static enc_fn efn;
static dec_fn edfn;                /* library decoder of the same framing, 0 if none */
static MPT_STRUCT(encode_state) est;
static struct gbuf eout;
static size_t ecap, epre;
static uint8_t edl[8]; static size_t edl_len;
static uint8_t *emsg; static size_t emsg_len, eacc;
static int eidle;                  /* no message to encode (finished / deleted) */
static void *xarr;                 /* mpt::encode_array */
static MPT_STRUCT(encode_queue) equ; static int equ_used;
static struct blog wire;           /* array/queue: finished bytes the reader has taken */

static void enc_cleanup(void)
{
	if (eout.raw) g_free(&eout);
	if (xarr) { xa_del(xarr); xarr = 0; }
	if (equ_used) { free(equ.data.base); memset(&equ, 0, sizeof(equ)); equ_used = 0; }
	free(emsg); emsg = 0; emsg_len = eacc = 0;
	bl_clear(&wire);
	eidle = 0;
}
static void drv_reset(void)
{
	enc_cleanup();
	reg_len = 0;
	dfn = 0;
}
static void e_state(size_t *done, size_t *scratch, size_t *ctx)
{
	size_t used;
	if (!strcmp(epath, "array")) xa_state(xarr, done, scratch, &used, ctx);
	else if (!strcmp(epath, "queue")) { *done = equ._state.done; *scratch = equ._state.scratch; *ctx = equ._state._ctx; }
	else { *done = est.done; *scratch = est.scratch; *ctx = est._ctx; }
}
/* finished bytes the reader finds now */
static uint8_t *e_data(size_t *len)
{
	uint8_t *tmp;
	if (!strcmp(epath, "array")) {
		const uint8_t *d = xa_data(xarr, len);
		tmp = (uint8_t *) calloc(*len + 1, 1);
		if (*len) memcpy(tmp, d, *len);
	} else if (!strcmp(epath, "queue")) {
		*len = equ._state.done;
		tmp = (uint8_t *) calloc(*len + 1, 1);
		if (*len && mpt_queue_get(&equ.data, 0, *len, tmp) < 0) *len = 0;
	} else {
		*len = est.done;
		tmp = (uint8_t *) calloc(*len + 1, 1);
		memcpy(tmp, eout.p, *len);
	}
	return tmp;
}
/* everything that was ever finished and not deleted: taken + present */
static uint8_t *e_wire(size_t *len)
{
	size_t n;
	uint8_t *d = e_data(&n), *all = (uint8_t *) calloc(wire.n + n + 1, 1);
	if (wire.n) memcpy(all, wire.d, wire.n);
	if (n) memcpy(all + wire.n, d, n);
	free(d);
	*len = wire.n + n;
	return all;
}
static void e_grow(size_t n)
{
	struct gbuf nb;
	g_alloc(&nb, ecap + n, (unsigned) (ecap + n));
	memcpy(nb.p, eout.p, ecap);
	if (!g_ok(&eout)) guards_good = 0;
	g_free(&eout);
	eout = nb;
	ecap += n;
}
static void e_room(void)
{
	if (!strcmp(epath, "direct")) e_grow(1);
	else if (!strcmp(epath, "queue")) mpt_queue_prepare(&equ.data, (equ.data.max - equ.data.len) + 16);
}
/* one encoder request: data != 0 push, data = 0 & k = 0 terminate, data = 0 & k > 0 delete */
static ssize_t e_call(size_t k, const uint8_t *data)
{
	ssize_t r;
	if (!strcmp(epath, "array")) {
		if (data && evia) r = xa_push_msg(xarr, k, data, evia);
		else r = xa_push(xarr, k, data);
	} else if (!strcmp(epath, "queue")) {
		r = mpt_queue_push(&equ, k, data);
	} else {
		struct iovec to, from;
		to.iov_base = eout.p; to.iov_len = ecap;
		from.iov_base = (void *) data; from.iov_len = k;
		if (!efn) return MPT_ERROR(BadArgument);
		r = efn(&est, &to, (k || data) ? &from : 0);
		if (!g_ok(&eout)) guards_good = 0;
	}
	return r;
}
static ssize_t e_offer(size_t k)
{
	ssize_t r = e_call(k, emsg + eacc);
	if (r > 0 && (size_t) r <= k) eacc += (size_t) r;
	return r;
}
static void emit_enc_dbg(void)
{
	size_t done, scratch, ctx;
	e_state(&done, &scratch, &ctx);
	drv_dbg();
	j_int("done", (long long) done);
	j_int("scratch", (long long) scratch);
	j_int("ctxv", (long long) (ctx & 0xffffff));
	j_int("cap", (long long) ecap);
	j_int("acc", (long long) eacc);
	j_int("taken", (long long) wire.n);
}
static void emit_decs(const uint8_t *f, size_t n, int maxres)
{
	j_arr_open("decs");
	if (edfn) (void) decode_all(edfn, f, n, maxres);
	j_arr_close();
	j_int("dec_guards", guards_good);
}

static void act_xinit(struct cmd *c)
{
	const char *kind = drv_raw(c, "kind"), *path = drv_raw(c, "path"), *how = drv_raw(c, "how"), *name = drv_raw(c, "name");
	uint8_t *dl; size_t n;
	int val = 0;
	enc_cleanup();
	snprintf(ekind, sizeof(ekind), "%s", kind ? kind : "cobs");
	snprintf(epath, sizeof(epath), "%s", path ? path : "direct");
	snprintf(ehow, sizeof(ehow), "%s", how ? how : "-");
	em = (int) drv_int(c, "m", 0);
	evia = (int) drv_int(c, "via", 0);
	ecap = (size_t) drv_uint(c, "cap", 0);
	dl = drv_bytes(c, "dl", &n);
	edl_len = n > sizeof(edl) ? sizeof(edl) : n;
	memcpy(edl, dl, edl_len);
	free(dl);
	if (drv_int(c, "nl", 0) > 0) {
		/* line separator of the library (convert/newline_string.c) as delimiter */
		const char *nl = mpt_newline_string((int) drv_int(c, "nl", 0));
		edl_len = nl ? strlen(nl) : 0;
		if (edl_len > sizeof(edl)) edl_len = sizeof(edl);
		memcpy(edl, nl, edl_len);
	}
	emsg = drv_bytes(c, "msg", &emsg_len);
	eacc = 0; epre = 0; guards_good = 1; eidle = 0;
	memset(&est, 0, sizeof(est));
	tname[0] = 0;
	if (name && *name && strcmp(name, "-")) {
		/* through the library's name table and selection functions */
		efn = 0; edfn = 0;
		val = by_name(name, &efn, &edfn);
	} else {
		efn = get_enc(ekind, em);
		edfn = get_dec(ekind, em);
	}
	if (!strcmp(ekind, "text")) {
		if (!strcmp(ehow, "ctx")) est._ctx = edl[0];
		else est.scratch = edl_len;
	}
	if (!strcmp(epath, "array")) {
		xarr = xa_new(efn);
	} else if (!strcmp(epath, "queue")) {
		equ_used = 1;
		equ._enc = efn;
		if (ecap) mpt_queue_prepare(&equ.data, ecap);
	} else {
		g_alloc(&eout, ecap, (unsigned) ecap);
		/* delimiter supplied by the caller in the scratch area */
		if (est.scratch && est.scratch <= ecap) memcpy(eout.p, edl, est.scratch);
	}
	drv_begin(c);
	j_str("ret", (efn || !strcmp(ekind, "raw")) ? "ok" : "nocodec");
	j_int("val", val);
	j_str("tname", tname);
	j_bytes("dl", edl, edl_len);
	emit_enc_dbg();
	drv_end();
}
static void act_push(struct cmd *c)
{
	size_t k = (size_t) drv_uint(c, "k", 1);
	ssize_t r;
	if (k > emsg_len - eacc) k = emsg_len - eacc;
	if (eidle || !k) {
		drv_begin(c); j_str("ret", "skip"); j_int("n", 0); j_int("k", (long long) k);
		emit_enc_dbg(); drv_end();
		return;
	}
	r = e_offer(k);
	drv_begin(c);
	j_str("ret", enc_class(r));
	j_int("n", r > 0 ? (long long) r : 0);
	j_int("k", (long long) k);
	j_int("guards", guards_good);
	emit_enc_dbg();
	j_int("code", (long long) r);
	drv_end();
}
static void emit_frame(void)
{
	size_t n;
	uint8_t *w = e_wire(&n);
	size_t from = epre <= n ? epre : n;
	j_bytes("frame", w + from, n - from);
	emit_decs(w + from, n - from, 2);
	free(w);
}
/* fin: offer what is left, make room on request, terminate */
static const char *finish(int fin, ssize_t *code)
{
	ssize_t r = 0;
	int spins = 0, spin_max = 64 + 4 * (int) emsg_len;
	const char *cls = "ok";
	while (fin && eacc < emsg_len) {
		r = e_offer(emsg_len - eacc);
		if (r == MPT_ERROR(MissingBuffer)) e_room();
		else if (r < 0) break;
		if (++spins > spin_max) break;
	}
	if (eacc < emsg_len) {
		cls = (r < 0 && r != MPT_ERROR(MissingBuffer)) ? "err" : (spins > spin_max ? "spin" : "todo");
	} else {
		while (1) {
			r = e_call(0, 0);
			if (r == MPT_ERROR(MissingBuffer) && fin && strcmp(epath, "array") && ++spins < spin_max) {
				e_room();
				continue;
			}
			break;
		}
		cls = enc_class(r);
		if (r >= 0) eidle = 1;
	}
	*code = r;
	return cls;
}
static void act_term(struct cmd *c, int fin)
{
	ssize_t r = 0;
	const char *cls = "skip";
	int was = eidle;
	if (!eidle) cls = finish(fin, &r);
	drv_begin(c);
	j_str("ret", cls);
	j_int("acc", (long long) eacc);
	j_int("guards", guards_good);
	if (!was && eidle) emit_frame();
	emit_enc_dbg();
	j_int("code", (long long) r);
	drv_end();
}
static void act_xfin(struct cmd *c)
{
	ssize_t r = 0;
	const char *cls = "ok";
	size_t n;
	uint8_t *w;
	if (!eidle) cls = finish(1, &r);
	w = e_wire(&n);
	drv_begin(c);
	j_str("ret", cls);
	j_int("acc", (long long) eacc);
	j_int("guards", guards_good);
	j_bytes("out", w, n);
	emit_decs(w, n, 64);
	emit_enc_dbg();
	j_int("code", (long long) r);
	drv_end();
	free(w);
}
static void act_next(struct cmd *c)
{
	size_t n;
	uint8_t *w;
	free(emsg);
	emsg = drv_bytes(c, "msg", &emsg_len);
	eacc = 0;
	eidle = 0;
	w = e_wire(&n);
	epre = n;
	free(w);
	drv_begin(c); j_str("ret", "ok"); emit_enc_dbg(); drv_end();
}
static void act_delete(struct cmd *c)
{
	size_t k = (size_t) drv_uint(c, "k", 1), n, n0, d0, s0, c0, d1, s1, c1;
	uint8_t *w, *w0;
	ssize_t r;
	int same;
	/* state and finished bytes before and after the request */
	e_state(&d0, &s0, &c0);
	w0 = e_wire(&n0);
	r = e_call(k, 0);
	if (r >= 0) { eidle = 1; eacc = 0; }
	e_state(&d1, &s1, &c1);
	w = e_wire(&n);
	same = (d0 == d1 && s0 == s1 && c0 == c1 && n0 == n && !memcmp(w0, w, n)) ? 1 : 0;
	drv_begin(c);
	j_str("ret", r >= 0 ? "ok" : "err");
	j_bytes("out", w, n);
	j_int("same", same);
	j_int("guards", guards_good);
	emit_enc_dbg();
	j_int("code", (long long) r);
	drv_end();
	free(w); free(w0);
}
static void emit_data(void)
{
	size_t n;
	uint8_t *d = e_data(&n);
	j_bytes("data", d, n);
	free(d);
}
static void act_shift(struct cmd *c)
{
	size_t n = (size_t) drv_uint(c, "n", 1), have;
	int ok = 0;
	uint8_t *d = e_data(&have);
	if (!strcmp(epath, "array")) {
		ok = xa_shift(xarr, n);
	} else if (!strcmp(epath, "queue")) {
		/* the reader wrote n finished bytes out (mpt_stream_flush) */
		if (n <= equ._state.done && mpt_queue_crop(&equ.data, 0, n) >= 0) { equ._state.done -= n; ok = 1; }
	}
	if (ok && n <= have) bl_add(&wire, d, n);
	free(d);
	drv_begin(c); j_str("ret", ok ? "ok" : "err"); emit_data(); emit_enc_dbg(); drv_end();
}
static void act_front(struct cmd *c, int prepare)
{
	int ok = 0;
	if (!strcmp(epath, "array")) ok = prepare ? xa_prepare(xarr, (size_t) drv_uint(c, "n", 1)) : xa_shift(xarr, 0);
	drv_begin(c); j_str("ret", ok ? "ok" : "no"); emit_data(); emit_enc_dbg(); drv_end();
}

/* ------------------------------------------------------------------ */
/* decode_queue                                                        */
static MPT_STRUCT(decode_queue) dq; static int dq_used;
static void act_queue(struct cmd *c)
{
	const char *a = c->action;
	if (!strcmp(a, "qinit")) {
		static const MPT_STRUCT(decode_queue) def = MPT_DECODE_QUEUE_INIT;
		const char *name = drv_raw(c, "name");
		enc_fn e = 0; dec_fn d = 0;
		if (dq_used) free(dq.data.base);
		dq = def; dq_used = 1;
		if (name && *name && strcmp(name, "-")) by_name(name, &e, &d);
		else d = get_dec(drv_raw(c, "kind"), 0);
		dq._dec = d;
		drv_begin(c); j_str("ret", d ? "ok" : "nocodec"); drv_dbg(); drv_end();
	}
	else if (!strcmp(a, "qfeed")) {
		size_t n; uint8_t *d = drv_bytes(c, "data", &n);
		int r;
		if (dq.data.max - dq.data.len < n) mpt_queue_prepare(&dq.data, n);
		r = n ? mpt_qpush(&dq.data, n, d) : 0;
		free(d);
		drv_begin(c); j_str("ret", r < 0 ? "err" : "ok"); drv_dbg(); j_int("qlen", (long long) dq.data.len); drv_end();
	}
	else if (!strcmp(a, "qpeek")) {
		size_t max = (size_t) drv_uint(c, "max", 0), qlen = dq.data.len, i;
		uint8_t *dst = (uint8_t *) malloc(max + 1), *before = (uint8_t *) malloc(qlen + 1), *after = (uint8_t *) malloc(qlen + 1);
		ssize_t r;
		int same = 1;
		memset(dst, 0xEE, max + 1);
		if (qlen) mpt_queue_get(&dq.data, 0, qlen, before);
		r = mpt_queue_peek(&dq, max, max ? dst : 0);
		if (dq.data.len != qlen) same = 0;
		else if (qlen) { mpt_queue_get(&dq.data, 0, qlen, after); for (i = 0; i < qlen; i++) if (before[i] != after[i]) same = 0; }
		drv_begin(c);
		j_str("ret", r < 0 ? "err" : "ok");
		j_int("n", r < 0 ? 0 : (long long) r);
		j_bytes("data", dst, (r > 0 && max) ? ((size_t) r < max ? (size_t) r : max) : 0);
		j_int("over", dst[max] == 0xEE ? 0 : 1);
		j_int("same", same);
		drv_dbg(); j_int("code", (long long) r);
		drv_end();
		free(dst); free(before); free(after);
	}
	else { /* qrecv: the caller's part of the protocol on MissingBuffer is to enlarge the queue */
		int r, tries = 0;
		const char *cls;
		while (1) {
			r = mpt_queue_recv(&dq);
			if (r == MPT_ERROR(MissingBuffer) && ++tries < 24) {
				mpt_queue_prepare(&dq.data, (dq.data.max - dq.data.len) + ((size_t) 8 << (tries < 8 ? tries : 8)));
				continue;
			}
			break;
		}
		drv_begin(c);
		if (r > 0) {
			size_t mp = dq._state.data.pos, ml = (size_t) dq._state.data.msg;
			uint8_t *tmp = (uint8_t *) calloc(ml + 1, 1);
			cls = "msg";
			if (ml && mpt_queue_get(&dq.data, mp, ml, tmp) < 0) { ml = 0; j_int("outside", 1); }
			j_str("ret", cls);
			j_bytes("msg", tmp, ml);
			free(tmp);
		} else {
			if (r == 0 || (r == MPT_ERROR(MissingData) && !dq.data.len)) cls = "more";
			else if (r == MPT_ERROR(MissingBuffer)) cls = "nobuf";
			else cls = "err";
			j_str("ret", cls);
			j_bytes("msg", 0, 0);
		}
		drv_dbg(); j_int("code", r); j_int("qlen", (long long) dq.data.len);
		drv_end();
	}
}

/* ------------------------------------------------------------------ */
static void step_inner(struct cmd *c)
{
	const char *a = c->action;
	if (!strcmp(a, "xinit")) act_xinit(c);
	else if (!strcmp(a, "push")) act_push(c);
	else if (!strcmp(a, "grow")) {
		size_t n = (size_t) drv_uint(c, "n", 1);
		if (!strcmp(epath, "direct")) e_grow(n);
		drv_begin(c); j_str("ret", "ok"); emit_enc_dbg(); drv_end();
	}
	else if (!strcmp(a, "term")) act_term(c, 0);
	else if (!strcmp(a, "fin")) act_term(c, 1);
	else if (!strcmp(a, "xfin")) act_xfin(c);
	else if (!strcmp(a, "next")) act_next(c);
	else if (!strcmp(a, "delete")) act_delete(c);
	else if (!strcmp(a, "shift")) act_shift(c);
	else if (!strcmp(a, "front")) act_front(c, 0);
	else if (!strcmp(a, "prepare")) act_front(c, 1);
	else if (!strcmp(a, "dinit")) {
		const char *name = drv_raw(c, "name");
		enc_fn e = 0; dec_fn d = 0;
		if (name && *name && strcmp(name, "-")) by_name(name, &e, &d);
		else d = get_dec(drv_raw(c, "kind"), (int) drv_int(c, "m", 0));
		dec_setup(d, (size_t) drv_uint(c, "slack", 0));
		guards_good = 1;
		drv_begin(c); j_str("ret", dfn ? "ok" : "nocodec"); j_int("curr", (long long) dst_state.curr);
		j_int("len", (long long) reg_len); drv_dbg(); drv_end();
	}
	else if (!strcmp(a, "feed")) {
		size_t n; uint8_t *d = drv_bytes(c, "data", &n);
		reg_reserve(reg_len + n);
		memcpy(reg + reg_len, d, n);
		reg_len += n;
		free(d);
		drv_begin(c); j_str("ret", "ok"); j_int("curr", (long long) dst_state.curr);
		j_int("len", (long long) reg_len); drv_dbg(); drv_end();
	}
	else if (!strcmp(a, "call") || !strcmp(a, "peek")) {
		struct callres cr = do_call((int) drv_int(c, "seg", 0), (unsigned) drv_uint(c, "mis", 0), a[0] == 'p');
		emit_call(c, &cr);
	}
	else if (!strcmp(a, "grant")) {
		size_t k = (size_t) drv_uint(c, "k", 1);
		size_t at = dst_state.curr <= reg_len ? dst_state.curr : reg_len;
		int doit = !drv_int(c, "cond", 0) || last_nobuf;
		if (doit) { reg_insert(at, k); dst_state.curr += k; }
		drv_begin(c); j_str("ret", doit ? "ok" : "skip"); j_int("curr", (long long) dst_state.curr);
		j_int("len", (long long) reg_len); drv_dbg(); drv_end();
	}
	else if (!strcmp(a, "size") || !strcmp(a, "reset")) {
		/* calls without source: nothing of the region is handed over */
		MPT_STRUCT(decode_state) before = dst_state;
		size_t n = a[0] == 's' ? (size_t) drv_uint(c, "n", 1) : 0;
		int r = dfn(&dst_state, 0, n);
		drv_begin(c);
		j_str("ret", r < 0 ? "err" : "ok");
		if (a[0] == 's') j_int("bound", r);
		else j_int("ctx", (long long) (dst_state._ctx & 0xffff));
		j_int("chg_hi", -1);
		j_int("same", (before._ctx == dst_state._ctx && before.curr == dst_state.curr && before.data.pos == dst_state.data.pos
		               && before.data.len == dst_state.data.len && before.data.msg == dst_state.data.msg) ? 1 : 0);
		j_int("curr", (long long) dst_state.curr);
		j_int("len", (long long) reg_len);
		drv_dbg();
		j_int("code", r);
		emit_dstate();
		drv_end();
	}
	else if (a[0] == 'q') act_queue(c);
	else {
		drv_begin(c); j_str("ret", "unknown-action"); drv_dbg(); drv_end();
	}
}

/* records are built in memory and written only when the library calls of
 * the step have returned (a crash never leaves half a line) */
static void drv_step(struct cmd *c)
{
	char *mbuf = 0; size_t mlen = 0;
	FILE *ms = open_memstream(&mbuf, &mlen), *save = drv_out;
	drv_out = ms;
	alarm(8);      /* per step: a call that does not return is reported as Hang */
	step_inner(c);
	fclose(ms);
	drv_out = save;
	fwrite(mbuf, 1, mlen, drv_out);
	fflush(drv_out);
	free(mbuf);
}

int main(int argc, char **argv)
{
	return drv_main(argc, argv);
}
