/*
 * Driver for spec/NodeTree.tla (C14): one command per public node call.
 *
 * The node sources of the repository are compiled into this program with
 * -Dmalloc=vf_malloc -Dfree=vf_free ... (allocation seam, no source change),
 * so every node release is an event: vf_free() notes which handle was
 * released, and a release of something that is not allocated any more is
 * counted (badfree) instead of being passed on.
 *
 * Handles: table slot 1..n -> struct node *.  A new node takes the smallest
 * unused slot; the nodes of a clone are entered in pre-order of the copy.
 * After each call all four links of every live node are logged as handles
 * (0 = null, -1 = a pointer that is no live handle).  A name "~<bytes>" stands
 * for a non-text identifier (raw key, charset 0) with these bytes.  A step given with
 * q=1 is executed without logging the state (prefix of a replayed behaviour).
 */
#undef malloc
#undef free
#undef calloc
#undef realloc

#include "drv.h"

#include "meta.h"
#include "node.h"

#define MAXN 256

/* ---------- allocation seam ---------- */
#define MAXALLOC 4096
static void *allocs[MAXALLOC];
static size_t nallocs;
static long badfree;

static struct mpt_node *tab[MAXN + 1];
static int tabstate[MAXN + 1];   /* 0 unused, 1 live, 2 released during this step */
static int nmax;
static int freed[4 * MAXN];
static int nfreed;

static void alloc_add(void *p)
{
	if (p && nallocs < MAXALLOC) allocs[nallocs++] = p;
}
static int alloc_del(void *p)
{
	size_t i;
	for (i = 0; i < nallocs; i++) {
		if (allocs[i] == p) { allocs[i] = allocs[--nallocs]; return 1; }
	}
	return 0;
}
static long fail_countdown;   /* >0: the n-th allocation from now fails (once) */
static int fail_fired;
static int fail_now(void)
{
	if (fail_countdown > 0 && !--fail_countdown) { fail_fired = 1; return 1; }
	return 0;
}
void *vf_malloc(size_t n)
{
	void *p;
	if (fail_now()) return 0;
	p = malloc(n);
	alloc_add(p);
	return p;
}
void *vf_calloc(size_t a, size_t b)
{
	void *p;
	if (fail_now()) return 0;
	p = calloc(a, b);
	alloc_add(p);
	return p;
}
void *vf_realloc(void *o, size_t n)
{
	void *p;
	if (o && !alloc_del(o)) { badfree++; return 0; }
	p = realloc(o, n);
	alloc_add(p);
	return p;
}
void vf_free(void *p)
{
	int i, known;
	if (!p) return;
	/* a node handle? (also when it has been released during this step already) */
	for (i = 1; i <= nmax; i++) {
		if (tabstate[i] && tab[i] == p) {
			if (nfreed < (int) (sizeof(freed) / sizeof(*freed))) freed[nfreed++] = i;
			tabstate[i] = 2;
		}
	}
	known = alloc_del(p);
	if (!known) { badfree++; return; }
	free(p);
}

/* ---------- counting value object ---------- */
struct cmeta {
	MPT_INTERFACE(metatype) mt;
	long payload;
};
#define MAXMETA 1024
static struct cmeta *metas[MAXMETA];
static long nmetas, badunref;

static int cm_convert(MPT_INTERFACE(convertable) *c, MPT_TYPE(type) t, void *dest)
{
	(void) c; (void) t; (void) dest;
	return MPT_ERROR(BadType);
}
static void cm_unref(MPT_INTERFACE(metatype) *m)
{
	long i;
	for (i = 0; i < nmetas; i++) {
		if ((void *) metas[i] == (void *) m) {
			metas[i] = metas[--nmetas];
			free(m);
			return;
		}
	}
	badunref++;
}
static uintptr_t cm_addref(MPT_INTERFACE(metatype) *m)
{
	(void) m;
	return 0;   /* not shareable: holders must clone */
}
static MPT_INTERFACE(metatype) *cm_new(long payload);
static long metafail_countdown;   /* >0: the n-th value clone from now fails (once) */
static MPT_INTERFACE(metatype) *cm_clone(const MPT_INTERFACE(metatype) *m)
{
	if (metafail_countdown > 0 && !--metafail_countdown) { fail_fired = 1; return 0; }
	return cm_new(((const struct cmeta *) m)->payload);
}
static const MPT_INTERFACE_VPTR(metatype) cm_vptr = { { cm_convert }, cm_unref, cm_addref, cm_clone };
static MPT_INTERFACE(metatype) *cm_new(long payload)
{
	struct cmeta *c;
	if (nmetas >= MAXMETA) return 0;
	c = (struct cmeta *) malloc(sizeof(*c));
	c->mt._vptr = &cm_vptr;
	c->payload = payload;
	metas[nmetas++] = c;
	return &c->mt;
}
static long meta_payload(const MPT_INTERFACE(metatype) *m)
{
	long i;
	if (!m) return 0;
	for (i = 0; i < nmetas; i++) {
		if ((const void *) metas[i] == (const void *) m) return metas[i]->payload;
	}
	return -1;   /* refers to a value object that does not exist (any more) */
}

/* ---------- handles ---------- */
static int id_of(const struct mpt_node *p)
{
	int i;
	if (!p) return 0;
	for (i = 1; i <= nmax; i++) {
		if (tabstate[i] == 1 && tab[i] == p) return i;
	}
	return -1;
}
static struct mpt_node *ptr_of(long long id)
{
	if (id < 1 || id > nmax || tabstate[id] != 1) return 0;
	return tab[id];
}
static int enter(struct mpt_node *p)
{
	int i;
	if (!p) return 0;
	if ((i = id_of(p)) > 0) return i;
	for (i = 1; i <= nmax; i++) {
		if (!tabstate[i]) { tab[i] = p; tabstate[i] = 1; return i; }
	}
	return -1;
}
/* enter a freshly made structure in pre-order (bounded walk) */
static void enter_list(struct mpt_node *p, int *budget)
{
	for (; p && *budget > 0; p = p->next) {
		if (id_of(p) > 0) return;     /* runs into known nodes: stop */
		--*budget;
		if (enter(p) < 0) return;
		enter_list(p->children, budget);
	}
}

static void drv_reset(void)
{
	int i;
	for (i = 0; i <= MAXN; i++) { tab[i] = 0; tabstate[i] = 0; }
	nallocs = 0; badfree = 0; nfreed = 0;
	nmetas = 0; badunref = 0;
	nmax = 0;
}

static long long alloc_mark;   /* allocated blocks before a clonefail call */
static int quiet;   /* step given with q=1: execute, log nothing but the step itself */

static void emit(struct cmd *c, int isnum, long long num, const char *str,
                 const long long *seq, size_t seqlen)
{
	int i, j, k;
	drv_begin(c);
	if (quiet) {
		drv_dbg();
		drv_end();
		for (i = 1; i <= nmax; i++) {
			if (tabstate[i] == 2) { tabstate[i] = 0; tab[i] = 0; }
		}
		nfreed = 0;
		return;
	}
	if (seq) j_ints("ret", seq, seqlen);
	else if (isnum) j_int("ret", num);
	else j_str("ret", str);
	j_int("skip", (!seq && !isnum && str && !strcmp(str, "skipped")) ? 1 : 0);
	if (!strcmp(c->action, "clonefail")) {
		j_int("fired", fail_fired);
		j_int("grow", (long long) nallocs - alloc_mark);
	}
	/* released handles, ascending (duplicates stay) */
	for (i = 0; i < nfreed; i++) {
		for (j = i + 1; j < nfreed; j++) {
			if (freed[j] < freed[i]) { k = freed[i]; freed[i] = freed[j]; freed[j] = k; }
		}
	}
	j_arr_open("freed");
	for (i = 0; i < nfreed; i++) j_item_int(freed[i]);
	j_arr_close();
	j_arr_open("links");
	for (i = 1; i <= nmax; i++) {
		j_sep();
		fputc('[', drv_out);
		if (tabstate[i] == 1) {
			const struct mpt_node *n = tab[i];
			fprintf(drv_out, "%d,%d,%d,%d", id_of(n->next), id_of(n->prev), id_of(n->parent), id_of(n->children));
		}
		fputc(']', drv_out);
		drv_first = 0;
	}
	j_arr_close();
	j_arr_open("names");
	for (i = 1; i <= nmax; i++) {
		char buf[1024];
		buf[0] = 0;
		if (tabstate[i] == 1) {
			const struct mpt_node *n = tab[i];
			const char *d = (const char *) mpt_identifier_data(&n->ident);
			size_t l = n->ident._len;
			if (l && d && n->ident._charset != MPT_CHARSET(UTF8)) {
				/* non-text identifier (raw key): "~" + its bytes */
				if (l > sizeof(buf) - 2) l = sizeof(buf) - 2;
				buf[0] = '~';
				memcpy(buf + 1, d, l);
				buf[l + 1] = 0;
			}
			else if (l && d) {
				if (l > sizeof(buf)) l = sizeof(buf);
				memcpy(buf, d, l - 1);
				buf[l - 1] = 0;
			}
		}
		j_item_str(buf);
	}
	j_arr_close();
	j_arr_open("vals");
	for (i = 1; i <= nmax; i++) {
		j_item_int(tabstate[i] == 1 ? meta_payload(tab[i]->_meta) : 0);
	}
	j_arr_close();
	j_int("metas", nmetas);
	drv_dbg();
	j_int("badfree", badfree);
	j_int("badunref", badunref);
	j_int("allocs", (long long) nallocs);
	drv_end();
	/* slots of released nodes can be used again */
	for (i = 1; i <= nmax; i++) {
		if (tabstate[i] == 2) { tabstate[i] = 0; tab[i] = 0; }
	}
	nfreed = 0;
}
#define RET_NUM(c, v)  emit(c, 1, (long long) (v), 0, 0, 0)
#define RET_STR(c, s)  emit(c, 0, 0, s, 0, 0)

static const char *arg_name(const struct cmd *c, const char *key)
{
	const char *r = drv_raw(c, key);
	if (!r || !strcmp(r, "-")) return "";
	return r;
}

/* traversal callback: note the visited handles */
struct visit {
	long long seq[4 * MAXN];
	size_t n;
};
static int visit_node(struct mpt_node *n, void *ctx, size_t depth)
{
	struct visit *v = (struct visit *) ctx;
	(void) depth;
	if (v->n >= sizeof(v->seq) / sizeof(*v->seq)) return 1;
	v->seq[v->n++] = id_of(n);
	return 0;
}

/* clear parent and prev below a node (the caller chained nodes by hand) */
static void scramble(struct mpt_node *n, int *budget)
{
	struct mpt_node *c;
	for (c = n->children; c && *budget > 0; c = c->next) {
		--*budget;
		c->parent = 0;
		c->prev = 0;
		scramble(c, budget);
	}
}

/* ---------- caller obligations (steps given with g=1) ----------
 * Evaluated on the real structure before the call; a call that would break
 * them is not made and recorded as "skipped".  The trace specification
 * checks each of these decisions against its own guard of the call.
 */
static int isolated(const struct mpt_node *n)
{
	return !n->next && !n->prev && !n->parent;
}
static int below_or_same(const struct mpt_node *x, const struct mpt_node *top)
{
	int k;
	for (k = 0; x && k <= MAXN; k++, x = x->parent) {
		if (x == top) return 1;
	}
	return 0;
}
static const struct mpt_node *list_head_of_root(const struct mpt_node *x)
{
	int k;
	for (k = 0; x->parent && k <= MAXN; k++) x = x->parent;
	for (k = 0; x->prev && k <= MAXN; k++) x = x->prev;
	return x;
}
static int count_tree(const struct mpt_node *n, int budget);
static int count_list(const struct mpt_node *n, int budget)
{
	int cnt = 0;
	for (; n && cnt <= budget; n = n->next) cnt += count_tree(n, budget - cnt);
	return cnt;
}
static int count_tree(const struct mpt_node *n, int budget)
{
	return 1 + count_list(n->children, budget - 1);
}
static int free_slots(void)
{
	int i, cnt = 0;
	for (i = 1; i <= nmax; i++) if (!tabstate[i]) cnt++;
	return cnt;
}
static int can_attach(const struct mpt_node *n, const struct mpt_node *target)
{
	return n && target && isolated(n) && !below_or_same(target, n);
}
static int guard_ok(const struct cmd *c)
{
	const char *a = c->action;
	long long pn = drv_int(c, "p", 0);
	struct mpt_node *n = ptr_of(drv_int(c, "n", 0)), *p = ptr_of(pn);

	if (!strcmp(a, "new")) return free_slots() > 0;
	if (!strcmp(a, "ginsert") || !strcmp(a, "ninsert")) return can_attach(n, p);
	if (!strcmp(a, "gadd") || !strcmp(a, "nadd")) return can_attach(n, ptr_of(drv_int(c, "first", 0)));
	if (!strcmp(a, "after") || !strcmp(a, "before")) {
		return n && isolated(n) && (pn == 0 || p == n || can_attach(n, p));
	}
	if (!strcmp(a, "clonefail")) {
		const char *kind = arg_name(c, "kind");
		if (!strcmp(kind, "clonenode")) return n && free_slots() >= 1;
		if (!strcmp(kind, "clonetree")) return n && free_slots() >= count_tree(n, MAXN);
		if (!strcmp(kind, "clonelist")) return n && free_slots() >= count_list(n, MAXN);
		return 0;
	}
	if (!strcmp(a, "clonenode")) return n && free_slots() >= 1;
	if (!strcmp(a, "clonetree")) return n && free_slots() >= count_tree(n, MAXN);
	if (!strcmp(a, "clonelist")) return n && free_slots() >= count_list(n, MAXN);
	if (!strcmp(a, "move")) {
		struct mpt_node *s = ptr_of(drv_int(c, "s", 0)), *d = ptr_of(drv_int(c, "d", 0));
		return s && d && list_head_of_root(s) != list_head_of_root(d);
	}
	if (!strcmp(a, "swap")) {
		struct mpt_node *x = ptr_of(drv_int(c, "a", 0)), *y = ptr_of(drv_int(c, "b", 0));
		return x && y && (x == y || (!below_or_same(x, y) && !below_or_same(y, x)));
	}
	if (!strcmp(a, "find")) return p != 0;
	return n != 0;
}

static void drv_step(struct cmd *c)
{
	const char *a = c->action;
	struct mpt_node *n = ptr_of(drv_int(c, "n", 0));

	quiet = (int) drv_int(c, "q", 0);
	if (drv_int(c, "g", 0) && strcmp(a, "init") && !guard_ok(c)) {
		emit(c, 0, 0, "skipped", 0, 0);
		return;
	}
	if (!strcmp(a, "init")) {
		drv_reset();
		nmax = (int) drv_int(c, "n", 4);
		if (nmax > MAXN) nmax = MAXN;
		RET_STR(c, "ok");
	}
	else if (!strcmp(a, "new")) {
		const char *name = arg_name(c, "name");
		long v = (long) drv_int(c, "val", 0);
		size_t len = strlen(name);
		struct mpt_node *nn = mpt_node_new(len + 1);
		int id = 0;
		if (nn && name[0] == '~' && len > 1) {
			/* "~<bytes>": a non-text identifier (raw key): storage from
			 * mpt_identifier_set(id, 0, len), then the key bytes */
			void *key = mpt_identifier_set(&nn->ident, 0, (int) len - 1);
			if (key) memcpy(key, name + 1, len - 1);
			if (v) nn->_meta = cm_new(v);
			id = enter(nn);
		}
		else if (nn) {
			mpt_identifier_set(&nn->ident, name, (int) len);
			if (v) nn->_meta = cm_new(v);
			id = enter(nn);
		}
		RET_NUM(c, id);
	}
	else if (!strcmp(a, "ginsert") || !strcmp(a, "ninsert")) {
		struct mpt_node *p = ptr_of(drv_int(c, "p", 0));
		int pos = (int) drv_int(c, "pos", 0), r;
		r = (a[0] == 'g') ? mpt_gnode_insert(p, pos, n) : mpt_node_insert(p, pos, n);
		RET_STR(c, r < 0 ? "refused" : "ok");
	}
	else if (!strcmp(a, "gadd") || !strcmp(a, "nadd")) {
		struct mpt_node *f = ptr_of(drv_int(c, "first", 0)), *r;
		int pos = (int) drv_int(c, "pos", 0);
		r = (a[0] == 'g') ? mpt_gnode_add(f, pos, n) : mpt_node_add(f, pos, n);
		RET_NUM(c, id_of(r));
	}
	else if (!strcmp(a, "after") || !strcmp(a, "before")) {
		struct mpt_node *p = ptr_of(drv_int(c, "p", 0)), *r;
		r = (a[0] == 'a') ? mpt_gnode_after(p, n) : mpt_gnode_before(p, n);
		RET_NUM(c, id_of(r));
	}
	else if (!strcmp(a, "unlink")) {
		struct mpt_node *r = mpt_node_unlink(n);
		RET_NUM(c, id_of(r));
	}
	else if (!strcmp(a, "destroy")) {
		struct mpt_node *r = mpt_node_destroy(n);
		RET_NUM(c, r ? id_of(r) : 0);
	}
	else if (!strcmp(a, "clear")) {
		mpt_node_clear(n);
		RET_STR(c, "ok");
	}
	else if (!strcmp(a, "clonenode") || !strcmp(a, "clonetree") || !strcmp(a, "clonelist")) {
		struct mpt_node *r;
		int budget = MAXN;
		r = (a[5] == 'n') ? mpt_node_clone(n) : (a[5] == 't') ? mpt_tree_clone(n) : mpt_list_clone(n);
		enter_list(r, &budget);
		RET_NUM(c, id_of(r));
	}
	else if (!strcmp(a, "clonefail")) {
		const char *kind = arg_name(c, "kind");
		struct mpt_node *r;
		int budget = MAXN;
		alloc_mark = (long long) nallocs;
		fail_fired = 0;
		fail_countdown = (long) drv_int(c, "failat", 0);
		metafail_countdown = (long) drv_int(c, "failmeta", 0);
		r = !strcmp(kind, "clonenode") ? mpt_node_clone(n) : !strcmp(kind, "clonetree") ? mpt_tree_clone(n) : mpt_list_clone(n);
		fail_countdown = metafail_countdown = 0;
		enter_list(r, &budget);
		RET_NUM(c, id_of(r));
	}
	else if (!strcmp(a, "move")) {
		struct mpt_node *from = ptr_of(drv_int(c, "s", 0)), *d = ptr_of(drv_int(c, "d", 0));
		struct mpt_node **fp = &from;
		/* the head of a child list is passed the way mpt_parse_node does it */
		if (from && from->parent && from->parent->children == from) {
			fp = &from->parent->children;
		}
		(void) mpt_node_move(fp, d);
		RET_NUM(c, id_of(*fp));
	}
	else if (!strcmp(a, "swap")) {
		mpt_gnode_swap(ptr_of(drv_int(c, "a", 0)), ptr_of(drv_int(c, "b", 0)));
		RET_STR(c, "ok");
	}
	else if (!strcmp(a, "switch")) {
		mpt_gnode_switch(ptr_of(drv_int(c, "a", 0)), ptr_of(drv_int(c, "b", 0)));
		RET_STR(c, "ok");
	}
	else if (!strcmp(a, "relink")) {
		int budget = 4 * MAXN;
		scramble(n, &budget);
		mpt_gnode_relink(n);
		RET_STR(c, "ok");
	}
	else if (!strcmp(a, "pos")) {
		RET_NUM(c, id_of(mpt_gnode_pos(n, (int) drv_int(c, "pos", 0))));
	}
	else if (!strcmp(a, "locate")) {
		const char *key = arg_name(c, "key");
		RET_NUM(c, id_of(mpt_node_locate(n, (int) drv_int(c, "pos", 0), key, strlen(key), -1)));
	}
	else if (!strcmp(a, "find")) {
		const char *key = arg_name(c, "key");
		RET_NUM(c, id_of(mpt_node_find(ptr_of(drv_int(c, "p", 0)), key, (int) drv_int(c, "pos", 0))));
	}
	else if (!strcmp(a, "next")) {
		const char *key = arg_name(c, "key");
		RET_NUM(c, id_of(mpt_node_next(n, key)));
	}
	else if (!strcmp(a, "traverse")) {
		static struct visit v;
		const char *ord = arg_name(c, "ord");
		int flags = MPT_ENUM(TraverseAll);
		flags |= !strcmp(ord, "pre") ? MPT_ENUM(TraversePreOrder)
		       : !strcmp(ord, "post") ? MPT_ENUM(TraversePostOrder) : MPT_ENUM(TraverseInOrder);
		v.n = 0;
		(void) mpt_gnode_traverse(n, flags, visit_node, &v);
		emit(c, 0, 0, 0, v.seq, v.n);
	}
	else {
		RET_STR(c, "unknown-action");
	}
}

int main(int argc, char **argv)
{
	return drv_main(argc, argv);
}
