/*
 * Driver for spec/NumText.tla (X07, extension of C07): scalar -> text and the
 * composite conversion paths.
 *
 *   print    api=num|value|conv src=<t> (bytes=hex:..|num=<number>) flags=<n> width=<n> dec=<n> left=<n> [cb=all|part|cap cap=<n>]
 *   printvec src=<t> elems=hex:<element bytes> left=<n> [cb=all|part|cap cap=<n>]
 *   printobj types=<letters> elems=hex:<16 bytes per property> left=<n> [cb=..]
 *   fmt      api=get|cstr chars=<bytes>
 *   fmtlist  api=parse|set chars=<bytes>
 *   dest     sep=<byte> max=<1..7> chars=<bytes>
 *   rtext    fn=<name> dst=<t> base=<n> chars=<bytes> [lo=<number> hi=<number>] [mode=both|store|query]
 *   vec      api=value|data|array sk=scalar|vec|array src=<t> dk=vec|gen|scalar dst=<t> elems=hex:<element bytes>
 *   key      sep=<bytes> chars=<bytes>
 *
 * <t>, <number> as in drv/convert.c.  Nothing is judged here: bytes are
 * copied, type values are transliterated to {k, neg, m (16-bit limbs), e},
 * return codes are mapped to ok / refused.  Printing into a buffer is done
 * twice over different fill patterns (ov: a byte outside the space handed to
 * the printer changed; r = "unstable": the two texts differ); the printed
 * text is handed back to the library's own parser of the same type (pr, pw).
 */
#include "drv.h"

#include <math.h>
#include <float.h>
#include <sys/uio.h>

#include "types.h"
#include "convert.h"
#include "array.h"
#include "object.h"

#define BUFSZ 12288
#define GUARD 256

struct num {
	int kind;        /* 0 fin, 1 inf, 2 nan */
	int neg;
	uint64_t m;
	long e;
};

static int tsize(int t)
{
	switch (t) {
		case 'c': case 'b': case 'y': return 1;
		case 'n': case 'q': return 2;
		case 'i': case 'u': case 'f': return 4;
		case 'x': case 't': case 'l': case 'd': return 8;
		case 'e': return 10;   /* x87 extended: 10 value bytes in a 16 byte slot */
		default: return 0;
	}
}
static int tslot(int t)
{
	return t == 'e' ? (int) sizeof(long double) : tsize(t);
}
static int tfloat(int t) { return t == 'f' || t == 'd' || t == 'e'; }
static int tsigned(int t) { return t == 'c' || t == 'b' || t == 'n' || t == 'i' || t == 'x' || t == 'l'; }

/* ---------- bytes <-> number (transliteration, as in drv/convert.c) ---------- */
static void num_canon(struct num *n)
{
	if (n->kind) { n->m = 0; n->e = 0; if (n->kind == 2) n->neg = 0; return; }
	if (!n->m) { n->e = 0; n->neg = 0; return; }
	while (!(n->m & 1)) { n->m >>= 1; n->e++; }
}
static void num_from_ldbl(long double v, struct num *n)
{
	int e;
	long double fr;
	n->m = 0; n->e = 0;
	n->neg = signbit(v) ? 1 : 0;
	if (isnan(v)) { n->kind = 2; return; }
	if (isinf(v)) { n->kind = 1; return; }
	n->kind = 0;
	if (v == 0) return;
	fr = frexpl(fabsl(v), &e);
	n->m = (uint64_t) ldexpl(fr, 64);
	n->e = (long) e - 64;
}
static void num_decode(int t, const void *p, struct num *n)
{
	n->kind = 0; n->neg = 0; n->m = 0; n->e = 0;
	if (tfloat(t)) {
		if (t == 'f') { float f; memcpy(&f, p, sizeof(f)); num_from_ldbl(f, n); }
		else if (t == 'd') { double d; memcpy(&d, p, sizeof(d)); num_from_ldbl(d, n); }
		else { long double l = 0; memcpy(&l, p, 10); num_from_ldbl(l, n); }
	}
	else if (tsigned(t)) {
		int64_t v = 0;
		switch (tsize(t)) {
			case 1: { int8_t x; memcpy(&x, p, 1); v = x; break; }
			case 2: { int16_t x; memcpy(&x, p, 2); v = x; break; }
			case 4: { int32_t x; memcpy(&x, p, 4); v = x; break; }
			default: { int64_t x; memcpy(&x, p, 8); v = x; break; }
		}
		if (v < 0) { n->neg = 1; n->m = (uint64_t) 0 - (uint64_t) v; }
		else n->m = (uint64_t) v;
	}
	else {
		uint64_t v = 0;
		switch (tsize(t)) {
			case 1: { uint8_t x; memcpy(&x, p, 1); v = x; break; }
			case 2: { uint16_t x; memcpy(&x, p, 2); v = x; break; }
			case 4: { uint32_t x; memcpy(&x, p, 4); v = x; break; }
			default: { uint64_t x; memcpy(&x, p, 8); v = x; break; }
		}
		n->m = v;
	}
	num_canon(n);
}
static int num_encode(int t, const struct num *n, void *p)
{
	memset(p, 0, 16);
	if (tfloat(t)) {
		long double v;
		if (n->kind == 2) v = NAN;
		else if (n->kind == 1) v = INFINITY;
		else v = ldexpl((long double) n->m, (int) n->e);
		if (n->neg) v = -v;
		if (t == 'f') { float f = (float) v; memcpy(p, &f, sizeof(f)); }
		else if (t == 'd') { double d = (double) v; memcpy(p, &d, sizeof(d)); }
		else memcpy(p, &v, 10);
		return 1;
	}
	if (n->kind || n->e < 0 || n->e > 63) return 0;
	{
		uint64_t mag = n->m << n->e;
		uint64_t raw = n->neg ? (uint64_t) 0 - mag : mag;
		if ((mag >> n->e) != n->m) return 0;
		memcpy(p, &raw, tsize(t));
	}
	return 1;
}
static int num_parse(const char *r, struct num *n)
{
	char *end;
	int shift = 0;
	n->kind = 0; n->neg = 0; n->m = 0; n->e = 0;
	if (!strncmp(r, "nan", 3)) { n->kind = 2; return 1; }
	if (!strncmp(r, "inf:", 4)) { n->kind = 1; n->neg = atoi(r + 4); return 1; }
	if (strncmp(r, "fin:", 4)) return 0;
	n->neg = (int) strtol(r + 4, &end, 10);
	if (*end != ':') return 0;
	n->e = strtol(end + 1, &end, 10);
	if (*end != ':') return 0;
	r = end + 1;
	if (!strcmp(r, "-")) return 1;
	while (*r) {
		unsigned long l = strtoul(r, &end, 10);
		if (end == r || shift >= 64) return 0;
		n->m |= ((uint64_t) l) << shift;
		shift += 16;
		r = (*end == ',') ? end + 1 : end;
	}
	return 1;
}
static void out_num(const struct num *n)
{
	uint64_t m = n->m;
	int first = 1;
	fprintf(drv_out, "{\"k\":\"%s\",\"neg\":%d,\"m\":[",
	        n->kind == 0 ? "fin" : (n->kind == 1 ? "inf" : "nan"), n->neg);
	while (m) {
		fprintf(drv_out, first ? "%u" : ",%u", (unsigned) (m & 0xffff));
		first = 0;
		m >>= 16;
	}
	fprintf(drv_out, "],\"e\":%ld}", n->e);
}
static void j_num(const char *key, const struct num *n)
{
	j_sep();
	fprintf(drv_out, "\"%s\":", key);
	out_num(n);
}
static void j_num_item(const struct num *n)
{
	j_sep();
	out_num(n);
}
static void j_none(const char *key)
{
	j_sep();
	fprintf(drv_out, "\"%s\":{\"k\":\"none\",\"neg\":0,\"m\":[],\"e\":0}", key);
}

/* source value: bytes=hex:.. or num=..; 0 = bad input */
static int get_source(struct cmd *c, int t, uint8_t *bytes)
{
	const char *raw = drv_raw(c, "num");
	memset(bytes, 0, 16);
	if (raw) {
		struct num in;
		return num_parse(raw, &in) && num_encode(t, &in, bytes);
	}
	else {
		size_t n = 0;
		uint8_t *b = drv_bytes(c, "bytes", &n);
		int ok = (int) n == tsize(t) && n > 0;
		if (ok) memcpy(bytes, b, n);
		free(b);
		return ok;
	}
}
/* packed element bytes: elems=hex:.. or nums=<number>;<number>;.. (encoded as type t) */
static uint8_t *get_elems(struct cmd *c, int t, size_t *len)
{
	const char *raw = drv_raw(c, "nums");
	int sz = tsize(t);
	if (raw) {
		size_t cap = 16 * (strlen(raw) / 2 + 2), n = 0;
		uint8_t *buf = (uint8_t *) calloc(cap, 1);
		char *copy = strdup(raw), *save = 0, *tok;
		*len = 0;
		if (!sz || !strcmp(raw, "-")) { free(copy); return buf; }
		for (tok = strtok_r(copy, ";", &save); tok; tok = strtok_r(0, ";", &save)) {
			struct num in;
			uint8_t tmp[16];
			if (!num_parse(tok, &in) || !num_encode(t, &in, tmp)) { free(copy); *len = (size_t) -1; return buf; }
			memcpy(buf + n, tmp, (size_t) sz);
			n += (size_t) sz;
		}
		free(copy);
		*len = n;
		return buf;
	}
	return drv_bytes(c, "elems", len);
}
static char *get_text(struct cmd *c, size_t *len)
{
	size_t n = 0;
	uint8_t *b = drv_bytes(c, "chars", &n);
	char *t = (char *) malloc(n + 1);
	memcpy(t, b, n);
	t[n] = 0;
	free(b);
	if (len) *len = n;
	return t;
}
static void bad_input(struct cmd *c)
{
	drv_begin(c); j_str("r", "bad-input"); drv_dbg(); drv_end();
}

/* ---------- text sink handed to the print functions ---------- */
/* policies: "all"  takes a piece completely or refuses it (error),
 *           "part" takes what still fits into the total capacity (short count),
 *           "cap"  takes at most <percall> bytes of every piece (short count), total capacity as well */
struct sink {
	uint8_t *buf;
	size_t cap, used, percall;
	int part, calls;
	uint8_t *off;        /* every byte offered, whatever was taken */
	size_t offn;
};
static ssize_t sink_save(void *ctx, const char *s, size_t n)
{
	struct sink *k = (struct sink *) ctx;
	size_t room = k->cap - k->used;
	k->calls++;
	if (k->off && k->offn + n <= BUFSZ) {
		if (n) memcpy(k->off + k->offn, s, n);
		k->offn += n;
	}
	if (k->percall && n > k->percall) n = k->percall;
	if (n > room) {
		if (!k->part) return MPT_ERROR(MissingBuffer);
		n = room;
	}
	if (n) memcpy(k->buf + k->used, s, n);
	k->used += n;
	return (ssize_t) n;
}
static void sink_init(struct sink *k, uint8_t *buf, size_t left, struct cmd *c)
{
	const char *cb = drv_raw(c, "cb");
	k->buf = buf; k->cap = left; k->used = 0; k->calls = 0; k->percall = 0;
	k->off = 0; k->offn = 0;
	k->part = cb && (!strcmp(cb, "part") || !strcmp(cb, "cap"));
	if (cb && !strcmp(cb, "cap")) {
		k->percall = (size_t) drv_uint(c, "cap", 1);
		if (!k->percall) k->percall = 1;
	}
}

/* ---------- convertables ---------- */
struct sconv {
	MPT_INTERFACE(convertable) _c;
	int type;
	uint8_t data[16];
};
static int sconv_convert(MPT_INTERFACE(convertable) *c, MPT_TYPE(type) t, void *dest)
{
	struct sconv *s = (struct sconv *) c;
	if (!t) return s->type;
	if ((int) t == s->type) {
		if (dest) memcpy(dest, s->data, tslot(s->type));
		return s->type;
	}
	return MPT_ERROR(BadType);
}
static const MPT_INTERFACE_VPTR(convertable) sconv_ctl = { sconv_convert };

struct strconv {
	MPT_INTERFACE(convertable) _c;
	const char *text;
};
static int strconv_convert(MPT_INTERFACE(convertable) *c, MPT_TYPE(type) t, void *dest)
{
	struct strconv *s = (struct strconv *) c;
	if (!t) return 's';
	if (t == 's') {
		if (dest) *((const char **) dest) = s->text;
		return 's';
	}
	return MPT_ERROR(BadType);
}
static const MPT_INTERFACE_VPTR(convertable) strconv_ctl = { strconv_convert };

/* ---------- object with numeric properties ---------- */
struct nobj {
	MPT_INTERFACE(object) _o;
	int n;
	int types[8];
	uint8_t data[8][16];
	char names[8][4];
};
static int nobj_property(const MPT_INTERFACE(object) *o, MPT_STRUCT(property) *pr)
{
	const struct nobj *b = (const struct nobj *) o;
	uintptr_t idx;
	if (!pr) return MPT_ENUM(TypeObjectPtr);
	if (pr->name) {
		int i;
		if (!*pr->name) {
			pr->name = "object";
			pr->desc = "";
			pr->val._type = 0;
			pr->val._addr = 0;
			return 0;
		}
		for (i = 0; i < b->n; i++) {
			if (!strcmp(pr->name, b->names[i])) break;
		}
		if (i >= b->n) return MPT_ERROR(BadArgument);
		idx = (uintptr_t) i;
	}
	else {
		idx = (uintptr_t) pr->desc;
		if (idx >= (uintptr_t) b->n) return MPT_ERROR(BadArgument);
	}
	pr->name = b->names[idx];
	pr->desc = "";
	pr->val._type = b->types[idx];
	pr->val._addr = b->data[idx];
	return 1;
}
static int nobj_set(MPT_INTERFACE(object) *o, const char *name, MPT_INTERFACE(convertable) *src)
{
	(void) o; (void) name; (void) src;
	return MPT_ERROR(BadOperation);
}
static const MPT_INTERFACE_VPTR(object) nobj_ctl = { nobj_property, nobj_set };

/* ---------- re-conversion of printed text with the library's parser ---------- */
static int reparse(int t, int radix, const char *text, void *dest)
{
	switch (t) {
		case 'b': return mpt_cint8((int8_t *) dest, text, radix, 0);
		case 'y': return mpt_cuint8((uint8_t *) dest, text, radix, 0);
		case 'n': return mpt_cint16((int16_t *) dest, text, radix, 0);
		case 'q': return mpt_cuint16((uint16_t *) dest, text, radix, 0);
		case 'i': return mpt_cint32((int32_t *) dest, text, radix, 0);
		case 'u': return mpt_cuint32((uint32_t *) dest, text, radix, 0);
		case 'x': return mpt_cint64((int64_t *) dest, text, radix, 0);
		case 't': return mpt_cuint64((uint64_t *) dest, text, radix, 0);
		case 'l': return mpt_clong((long *) dest, text, radix, 0);
		case 'f': return mpt_cfloat((float *) dest, text, 0);
		case 'd': return mpt_cdouble((double *) dest, text, 0);
		case 'e': return mpt_cldouble((long double *) dest, text, 0);
		default: return -1000;
	}
}

/* ---------- print ---------- */
static uint8_t pbuf1[BUFSZ + GUARD], pbuf2[BUFSZ + GUARD], obuf[BUFSZ];

static void do_print(struct cmd *c)
{
	const char *api = drv_raw(c, "api");
	const char *s = drv_raw(c, "src");
	int t = s ? s[0] : 0;
	uint8_t src[16];
	MPT_STRUCT(value_format) fmt;
	size_t left = (size_t) drv_uint(c, "left", 0);
	int r1 = -999, r2 = -999, ov = 0, same = 1, radix;
	size_t i, len1 = 0, len2 = 0, offn = 0;
	struct num v, pw;
	int pr = -999, pdone = 0;
	int calls = 0;

	if (!api || !tsize(t) || left > BUFSZ || !get_source(c, t, src)) {
		bad_input(c);
		return;
	}
	fmt.flags = (uint16_t) drv_uint(c, "flags", 0);
	fmt.width = (uint8_t) drv_uint(c, "width", 0);
	fmt.dec = (uint8_t) drv_uint(c, "dec", 0);
	radix = (fmt.flags & 1) ? 16 : ((fmt.flags & 2) ? 8 : 10);
	num_decode(t, src, &v);
	memset(pbuf1, 0xA5, sizeof(pbuf1));
	memset(pbuf2, 0x5A, sizeof(pbuf2));

	if (!strcmp(api, "num")) {
		MPT_STRUCT(value) val = MPT_VALUE_INIT(t, src);
		r1 = mpt_number_tostring(&val, fmt, (char *) pbuf1, left);
		r2 = mpt_number_tostring(&val, fmt, (char *) pbuf2, left);
		len1 = r1 < 0 ? 0 : (size_t) r1;
		len2 = r2 < 0 ? 0 : (size_t) r2;
	}
	else if (!strcmp(api, "value") || !strcmp(api, "conv")) {
		struct sink k1, k2;
		struct sconv sc;
		MPT_STRUCT(value) val = MPT_VALUE_INIT(t, src);
		sink_init(&k1, pbuf1, left, c);
		k1.off = obuf;
		sink_init(&k2, pbuf2, left, c);
		sc._c._vptr = &sconv_ctl;
		sc.type = t;
		memcpy(sc.data, src, 16);
		if (!strcmp(api, "value")) {
			r1 = mpt_print_value(&val, sink_save, &k1);
			r2 = mpt_print_value(&val, sink_save, &k2);
		} else {
			r1 = mpt_print_convertable(&sc._c, sink_save, &k1);
			r2 = mpt_print_convertable(&sc._c, sink_save, &k2);
		}
		len1 = k1.used;
		len2 = k2.used;
		calls = k1.calls;
		offn = k1.offn;
	}
	else {
		bad_input(c);
		return;
	}
	if (len1 > BUFSZ) len1 = BUFSZ;
	if (len2 > BUFSZ) len2 = BUFSZ;
	for (i = left; i < sizeof(pbuf1); i++) {
		if (pbuf1[i] != 0xA5 || pbuf2[i] != 0x5A) ov = 1;
	}
	if ((r1 < 0) != (r2 < 0) || (r1 >= 0 && (len1 != len2 || memcmp(pbuf1, pbuf2, len1)))) same = 0;

	if (r1 >= 0 && same && t != 'c' && !memchr(pbuf1, 0, len1)) {
		uint8_t slot[32];
		char *copy = (char *) malloc(len1 + 1);
		memcpy(copy, pbuf1, len1);
		copy[len1] = 0;
		memset(slot, 0, sizeof(slot));
		pr = reparse(t, radix, copy, slot);
		pdone = 1;
		if (pr > 0) num_decode(t, slot, &pw);
		free(copy);
	}
	drv_begin(c);
	j_str("r", !same ? "unstable" : (r1 < 0 ? "refused" : "ok"));
	j_bytes("text", pbuf1, r1 < 0 ? 0 : len1);
	if (strcmp(api, "num")) j_bytes("off", obuf, offn);
	j_int("ov", ov);
	j_num("v", &v);
	j_str("pr", !pdone ? "none" : (pr > 0 ? "ok" : (pr == 0 ? "empty" : "refused")));
	if (pdone && pr > 0) j_num("pw", &pw); else j_none("pw");
	drv_dbg();
	j_int("rc", r1);
	j_int("rc2", r2);
	j_int("prc", pr);
	j_int("calls", calls);
	j_int("nul", r1 >= 0 && len1 < left && !strcmp(api, "num") ? pbuf1[len1] == 0 : -1);
	drv_end();
}

static void do_printvec(struct cmd *c)
{
	const char *s = drv_raw(c, "src");
	int t = s ? s[0] : 0;
	size_t left = (size_t) drv_uint(c, "left", 0);
	size_t n = 0, i, cnt;
	uint8_t *el;
	int sz = tsize(t), slot = tslot(t), r1;
	struct iovec vec;
	struct sink k1;
	uint8_t *data;

	if (!sz || left > BUFSZ) { bad_input(c); return; }
	el = get_elems(c, t, &n);
	if (n == (size_t) -1 || n % (size_t) sz) { free(el); bad_input(c); return; }
	cnt = n / (size_t) sz;
	data = (uint8_t *) calloc(cnt + 1, (size_t) slot);
	for (i = 0; i < cnt; i++) memcpy(data + i * (size_t) slot, el + i * (size_t) sz, (size_t) sz);
	vec.iov_base = data;
	vec.iov_len = cnt * (size_t) slot;
	memset(pbuf1, 0xA5, sizeof(pbuf1));
	sink_init(&k1, pbuf1, left, c);
	k1.off = obuf;
	{
		MPT_STRUCT(value) val = MPT_VALUE_INIT(MPT_type_toVector(t), &vec);
		r1 = mpt_print_value(&val, sink_save, &k1);
	}
	drv_begin(c);
	j_str("r", r1 < 0 ? "refused" : "ok");
	j_bytes("text", pbuf1, r1 < 0 ? 0 : k1.used);
	j_bytes("off", obuf, k1.offn);
	j_int("ov", 0);
	j_arr_open("vs");
	for (i = 0; i < cnt; i++) {
		struct num v;
		num_decode(t, data + i * (size_t) slot, &v);
		j_num_item(&v);
	}
	j_arr_close();
	drv_dbg();
	j_int("rc", r1);
	j_int("calls", k1.calls);
	drv_end();
	free(data);
	free(el);
}

static void do_printobj(struct cmd *c)
{
	const char *types = drv_raw(c, "types");
	size_t left = (size_t) drv_uint(c, "left", 0);
	size_t n = 0, i, cnt;
	uint8_t *el;
	struct nobj ob;
	struct sink k1;
	int r1;

	if (!types || !strcmp(types, "-")) types = "";
	cnt = strlen(types);
	el = drv_bytes(c, "elems", &n);
	if (cnt > 8 || n != cnt * 16 || left > BUFSZ) { free(el); bad_input(c); return; }
	memset(&ob, 0, sizeof(ob));
	ob._o._vptr = &nobj_ctl;
	ob.n = (int) cnt;
	for (i = 0; i < cnt; i++) {
		if (!tsize(types[i])) { free(el); bad_input(c); return; }
		ob.types[i] = types[i];
		memcpy(ob.data[i], el + 16 * i, 16);
		ob.names[i][0] = 'p';
		ob.names[i][1] = (char) ('0' + i);
		ob.names[i][2] = 0;
	}
	memset(pbuf1, 0xA5, sizeof(pbuf1));
	sink_init(&k1, pbuf1, left, c);
	k1.off = obuf;
	r1 = mpt_print_object(&ob._o, sink_save, &k1);
	drv_begin(c);
	j_str("r", r1 < 0 ? "refused" : "ok");
	j_bytes("text", pbuf1, r1 < 0 ? 0 : k1.used);
	j_bytes("off", obuf, k1.offn);
	j_int("ov", 0);
	j_arr_open("vs");
	for (i = 0; i < cnt; i++) {
		struct num v;
		num_decode(types[i], ob.data[i], &v);
		j_num_item(&v);
	}
	j_arr_close();
	drv_dbg();
	j_int("rc", r1);
	j_int("calls", k1.calls);
	drv_end();
	free(el);
}

/* ---------- format descriptions ---------- */
static void do_fmt(struct cmd *c)
{
	const char *api = drv_raw(c, "api");
	const char *mode = drv_raw(c, "mode");
	char *text = get_text(c, 0);
	MPT_STRUCT(value_format) f1, f2;
	int r1 = -999, r2 = -999, rq = -999, st, sb, cstr;
	int want_query = !mode || strcmp(mode, "store");
	int want_store = !mode || strcmp(mode, "query");

	memset(&f1, 0xA5, sizeof(f1));
	memset(&f2, 0x5A, sizeof(f2));
	cstr = api && !strcmp(api, "cstr");
	if (cstr) {
		if (want_store) {
			r1 = mpt_convert_string(text, MPT_ENUM(TypeValFmt), &f1);
			r2 = mpt_convert_string(text, MPT_ENUM(TypeValFmt), &f2);
		}
		if (want_query) rq = mpt_convert_string(text, MPT_ENUM(TypeValFmt), 0);
	}
	else {
		r1 = mpt_valfmt_get(&f1, text);
		r2 = mpt_valfmt_get(&f2, text);
	}
	{
		MPT_STRUCT(value_format) p1, p2;
		memset(&p1, 0xA5, sizeof(p1));
		memset(&p2, 0x5A, sizeof(p2));
		st = memcmp(&f1, &p1, sizeof(f1)) || memcmp(&f2, &p2, sizeof(f2));
		sb = !memcmp(&f1, &f2, sizeof(f1)) && (r1 < 0) == (r2 < 0);
	}
	drv_begin(c);
	j_str("r", r1 < 0 ? "refused" : "ok");
	j_str("q", !cstr || !want_query ? "none" : (rq < 0 ? "refused" : "ok"));
	j_int("used", r1 < 0 ? 0 : r1);
	j_int("st", st && sb);
	j_int("w", f1.width);
	j_int("d", f1.dec);
	drv_dbg();
	j_int("fl", f1.flags);
	j_int("rc", r1);
	j_int("qrc", rq);
	drv_end();
	free(text);
}

static void do_fmtlist(struct cmd *c)
{
	const char *api = drv_raw(c, "api");
	size_t tlen = 0;
	char *text = get_text(c, &tlen);
	MPT_STRUCT(array) arr = MPT_ARRAY_INIT;
	int r1;
	size_t i, cnt = 0;
	const MPT_STRUCT(value_format) *fm = 0;
	long used;

	if (api && !strcmp(api, "set")) {
		struct strconv sc;
		sc._c._vptr = &strconv_ctl;
		sc.text = text;
		r1 = mpt_valfmt_set(&arr, &sc._c);
		used = (long) tlen;
	}
	else {
		r1 = mpt_valfmt_parse(&arr, text);
		used = r1;
	}
	if (arr._buf) {
		cnt = arr._buf->_used / sizeof(*fm);
		fm = (const MPT_STRUCT(value_format) *) (arr._buf + 1);
	}
	drv_begin(c);
	j_str("r", r1 < 0 ? "refused" : "ok");
	j_int("used", r1 < 0 ? 0 : used);
	j_arr_open("fmts");
	for (i = 0; r1 >= 0 && i < cnt; i++) {
		j_item_obj_open();
		j_int("w", fm[i].width);
		j_int("d", fm[i].dec);
		j_close();
	}
	j_arr_close();
	drv_dbg();
	j_int("rc", r1);
	j_int("n", (long long) cnt);
	drv_end();
	mpt_array_clone(&arr, 0);
	free(text);
}

/* ---------- destination bytes ---------- */
static void do_dest(struct cmd *c)
{
	char *text = get_text(c, 0);
	int sep = (int) drv_int(c, "sep", 0);
	int max = (int) drv_int(c, "max", 7);
	MPT_STRUCT(strdest) sd;
	int r1, i;
	long long val[7];

	memset(&sd, 0xA5, sizeof(sd));
	sd.change = (uint8_t) max;
	r1 = mpt_string_dest(&sd, sep, text);
	drv_begin(c);
	j_str("r", r1 < 0 ? "refused" : "ok");
	j_int("used", r1 < 0 ? 0 : r1);
	j_arr_open("set");
	for (i = 0; i < 7; i++) {
		if (sd.change & (1 << i)) j_item_int(i + 1);
	}
	j_arr_close();
	for (i = 0; i < 7; i++) val[i] = sd.val[i];
	j_ints("val", val, 7);
	drv_dbg();
	j_int("rc", r1);
	j_int("change", sd.change);
	drv_end();
	free(text);
}

/* ---------- numerals with a range ---------- */
struct rcall {
	const char *fn;
	int dst, base;
	char *text;
	int ranged;
	uint8_t lo[16], hi[16];
};
#define RC_INT(name, T) \
	if (!strcmp(f, #name)) { \
		T rg[2]; \
		memcpy(&rg[0], k->lo, sizeof(T)); memcpy(&rg[1], k->hi, sizeof(T)); \
		return mpt_c##name((T *) dest, k->text, k->base, k->ranged ? rg : 0); \
	}
#define RC_FLT(name, fcn, T, n) \
	if (!strcmp(f, #name)) { \
		T rg[2]; \
		rg[0] = 0; rg[1] = 0; \
		memcpy(&rg[0], k->lo, n); memcpy(&rg[1], k->hi, n); \
		return fcn((T *) dest, k->text, k->ranged ? rg : 0); \
	}
static int do_rcall(const struct rcall *k, void *dest)
{
	const char *f = k->fn ? k->fn : "";
	RC_INT(int8, int8_t) RC_INT(int16, int16_t) RC_INT(int32, int32_t) RC_INT(int64, int64_t)
	RC_INT(char, char) RC_INT(int, int) RC_INT(long, long)
	RC_INT(uint8, uint8_t) RC_INT(uint16, uint16_t) RC_INT(uint32, uint32_t) RC_INT(uint64, uint64_t)
	RC_INT(uchar, unsigned char) RC_INT(uint, unsigned int) RC_INT(ulong, unsigned long)
	RC_FLT(float, mpt_cfloat, float, 4) RC_FLT(double, mpt_cdouble, double, 8) RC_FLT(ldouble, mpt_cldouble, long double, 10)
	return -1000;
}
static void do_rtext(struct cmd *c)
{
	struct rcall k;
	const char *mode = drv_raw(c, "mode");
	const char *s, *lo = drv_raw(c, "lo"), *hi = drv_raw(c, "hi");
	long double d1a[4], d2a[4];
	uint8_t *d1 = (uint8_t *) d1a, *d2 = (uint8_t *) d2a;
	int want_store, want_query, r1 = -999, r2 = -999, rq = -999, st = 0, sb = 1, ov = 0, i, sz, slot;
	struct num w;

	memset(&k, 0, sizeof(k));
	k.fn = drv_raw(c, "fn");
	s = drv_raw(c, "dst"); k.dst = s ? s[0] : 0;
	k.base = (int) drv_int(c, "base", 0);
	sz = tsize(k.dst);
	slot = tslot(k.dst);
	if (!sz) { bad_input(c); return; }
	if (lo && hi) {
		struct num a, b;
		if (!num_parse(lo, &a) || !num_parse(hi, &b) || !num_encode(k.dst, &a, k.lo) || !num_encode(k.dst, &b, k.hi)) {
			bad_input(c);
			return;
		}
		k.ranged = 1;
	}
	k.text = get_text(c, 0);
	want_store = !mode || !strcmp(mode, "both") || !strcmp(mode, "store");
	want_query = !mode || !strcmp(mode, "both") || !strcmp(mode, "query");
	memset(d1, 0xA5, sizeof(d1a));
	memset(d2, 0x5A, sizeof(d2a));
	if (want_store) {
		r1 = do_rcall(&k, d1);
		r2 = do_rcall(&k, d2);
	}
	if (want_query) rq = do_rcall(&k, 0);
	for (i = 0; i < sz; i++) {
		if (d1[i] != 0xA5 || d2[i] != 0x5A) st = 1;
		if (d1[i] != d2[i]) sb = 0;
	}
	for (i = slot; i < (int) sizeof(d1a); i++) {
		if (d1[i] != 0xA5 || d2[i] != 0x5A) ov = 1;
	}
	num_decode(k.dst, d1, &w);
	drv_begin(c);
	j_str("r", want_store ? (r1 < 0 ? "refused" : "ok") : "none");
	j_str("q", want_query ? (rq < 0 ? "refused" : "ok") : "none");
	j_int("st", st);
	j_int("sb", sb && (r1 < 0) == (r2 < 0));
	j_int("ov", ov);
	j_int("used", r1 < 0 ? 0 : r1);
	j_num("w", &w);
	drv_dbg();
	j_int("rc", r1);
	j_int("qrc", rq);
	drv_end();
	free(k.text);
}

/* ---------- vectors ---------- */
struct vcall {
	const char *api, *sk, *dk;
	int src, dst;
	uint8_t *data;       /* source elements in slots */
	size_t cnt;
	MPT_STRUCT(array) arr;
};
static int vec_target(const struct vcall *k)
{
	if (!strcmp(k->dk, "gen")) return MPT_ENUM(TypeVector);
	if (!strcmp(k->dk, "vec")) return MPT_type_toVector(k->dst);
	return k->dst;
}
static int do_vcall(const struct vcall *k, void *dest)
{
	int target = vec_target(k);
	if (!strcmp(k->sk, "array")) {
		if (!strcmp(k->api, "array")) return mpt_data_convert_array(&k->arr, target, dest);
		else {
			MPT_STRUCT(value) v = MPT_VALUE_INIT(MPT_ENUM(TypeArray), &k->arr);
			return mpt_value_convert(&v, target, dest);
		}
	}
	if (!strcmp(k->sk, "vec")) {
		struct iovec sv;
		MPT_STRUCT(value) v = MPT_VALUE_INIT(MPT_type_toVector(k->src), &sv);
		sv.iov_base = k->data;
		sv.iov_len = k->cnt * (size_t) tslot(k->src);
		return mpt_value_convert(&v, target, dest);
	}
	if (!strcmp(k->api, "data")) {
		const void *s = k->data;
		switch (k->src) {
			case 'c': case 'b': return mpt_data_convert_int8((const int8_t *) s, target, dest);
			case 'y': return mpt_data_convert_uint8((const uint8_t *) s, target, dest);
			case 'n': return mpt_data_convert_int16((const int16_t *) s, target, dest);
			case 'q': return mpt_data_convert_uint16((const uint16_t *) s, target, dest);
			case 'i': return mpt_data_convert_int32((const int32_t *) s, target, dest);
			case 'u': return mpt_data_convert_uint32((const uint32_t *) s, target, dest);
			case 'x': case 'l': return mpt_data_convert_int64((const int64_t *) s, target, dest);
			case 't': return mpt_data_convert_uint64((const uint64_t *) s, target, dest);
			case 'f': return mpt_data_convert_float32((const float *) s, target, dest);
			case 'd': return mpt_data_convert_float64((const double *) s, target, dest);
			case 'e': return mpt_data_convert_exflt((const long double *) s, target, dest);
			default: return -1000;
		}
	}
	{
		MPT_STRUCT(value) v = MPT_VALUE_INIT(k->src, k->data);
		return mpt_value_convert(&v, target, dest);
	}
}
static void do_vec(struct cmd *c)
{
	struct vcall k;
	const char *s;
	size_t n = 0, i;
	uint8_t *el;
	int ssz, sslot, et, esz, eslot, r1, rq, scalar_dst;
	long double outa[4];
	uint8_t *out = (uint8_t *) outa;
	long long rem = 0;
	size_t wn = 0;
	const uint8_t *wbase = 0;

	memset(&k, 0, sizeof(k));
	k.api = drv_raw(c, "api");
	k.sk = drv_raw(c, "sk");
	k.dk = drv_raw(c, "dk");
	s = drv_raw(c, "src"); k.src = s ? s[0] : 0;
	s = drv_raw(c, "dst"); k.dst = s ? s[0] : 0;
	ssz = tsize(k.src);
	sslot = tslot(k.src);
	if (!k.api || !k.sk || !k.dk || !ssz || !tsize(k.dst)) { bad_input(c); return; }
	el = get_elems(c, k.src, &n);
	if (n == (size_t) -1 || n % (size_t) ssz || (!strcmp(k.sk, "scalar") && n != (size_t) ssz)) { free(el); bad_input(c); return; }
	k.cnt = n / (size_t) ssz;
	k.data = (uint8_t *) calloc(k.cnt + 1, (size_t) sslot);
	for (i = 0; i < k.cnt; i++) memcpy(k.data + i * (size_t) sslot, el + i * (size_t) ssz, (size_t) ssz);
	if (!strcmp(k.sk, "array")) {
		MPT_STRUCT(buffer) *b = _mpt_buffer_alloc(k.cnt * (size_t) sslot + 16, 0);
		if (!b) { free(el); free(k.data); bad_input(c); return; }
		b->_content_traits = mpt_type_traits(k.src);
		memcpy(b + 1, k.data, k.cnt * (size_t) sslot);
		b->_used = k.cnt * (size_t) sslot;
		k.arr._buf = b;
	}
	scalar_dst = !strcmp(k.dk, "scalar");
	et = !strcmp(k.dk, "gen") ? k.src : k.dst;
	esz = tsize(et);
	eslot = tslot(et);
	memset(out, 0xA5, sizeof(outa));
	r1 = do_vcall(&k, out);
	rq = do_vcall(&k, 0);
	if (r1 >= 0) {
		if (scalar_dst) {
			wbase = out;
			wn = 1;
		}
		else {
			struct iovec res;
			memcpy(&res, out, sizeof(res));
			if (res.iov_len > 65536 || (res.iov_len && !res.iov_base)) {
				rem = -1;
			}
			else {
				wbase = (const uint8_t *) res.iov_base;
				wn = res.iov_len / (size_t) eslot;
				rem = (long long) (res.iov_len % (size_t) eslot);
			}
		}
	}
	drv_begin(c);
	j_str("r", r1 < 0 ? "refused" : "ok");
	j_str("q", rq < 0 ? "refused" : "ok");
	j_arr_open("vs");
	for (i = 0; i < k.cnt; i++) {
		struct num v;
		num_decode(k.src, k.data + i * (size_t) sslot, &v);
		j_num_item(&v);
	}
	j_arr_close();
	j_arr_open("ws");
	for (i = 0; i < wn; i++) {
		struct num w;
		num_decode(et, wbase + i * (size_t) eslot, &w);
		j_num_item(&w);
	}
	j_arr_close();
	j_int("rem", rem);
	drv_dbg();
	j_int("rc", r1);
	j_int("qrc", rq);
	j_int("esz", esz);
	drv_end();
	if (k.arr._buf) mpt_array_clone(&k.arr, 0);
	free(k.data);
	free(el);
}

/* ---------- key ---------- */
static void do_key(struct cmd *c)
{
	size_t tlen = 0, slen = 0, klen = 0;
	char *text = get_text(c, &tlen);
	uint8_t *sb = drv_bytes(c, "sep", &slen);
	char *sep = 0;
	const char *pos = text, *key;

	if (slen) {
		sep = (char *) malloc(slen + 1);
		memcpy(sep, sb, slen);
		sep[slen] = 0;
	}
	free(sb);
	key = mpt_convert_key(&pos, sep, &klen);
	drv_begin(c);
	j_str("r", key ? "ok" : "refused");
	j_int("used", key ? (long long) (pos - text) : 0);
	if (key && klen <= tlen && key >= text && key + klen <= text + tlen) j_bytes("key", key, klen);
	else j_bytes("key", "", 0);
	drv_dbg();
	j_int("klen", (long long) klen);
	j_int("koff", key ? (long long) (key - text) : -1);
	drv_end();
	free(sep);
	free(text);
}

static void drv_reset(void)
{
}

static void drv_step(struct cmd *c)
{
	if (!strcmp(c->action, "print")) do_print(c);
	else if (!strcmp(c->action, "printvec")) do_printvec(c);
	else if (!strcmp(c->action, "printobj")) do_printobj(c);
	else if (!strcmp(c->action, "fmt")) do_fmt(c);
	else if (!strcmp(c->action, "fmtlist")) do_fmtlist(c);
	else if (!strcmp(c->action, "dest")) do_dest(c);
	else if (!strcmp(c->action, "rtext")) do_rtext(c);
	else if (!strcmp(c->action, "vec")) do_vec(c);
	else if (!strcmp(c->action, "key")) do_key(c);
	else {
		drv_begin(c); j_str("r", "unknown-action"); drv_dbg(); drv_end();
	}
}

int main(int argc, char **argv)
{
	return drv_main(argc, argv);
}
