/*
 * Driver for spec/RefCount.tla (C15): reference-counted objects of mpt-base.
 *
 * One object kind per behaviour (init kind=...).  Handles are single-pointer
 * storage (MPT_STRUCT(array)._buf, a metatype reference slot, a C++
 * reference<T>); the C paths are exercised here, the C++ paths
 * (reference<T> copy/assign/move/detach/set_instance, refcount::raise/lower)
 * in refcount_cxx.cpp.  All of mptcore (and the rawdata part of mptplot) is
 * compiled into the driver through the allocation seam: an object is
 * "destroyed" when the block it lives in is released.
 *
 * Judgement-free: calls the library, maps pointers to object numbers, reads
 * counters where the object is the harness' own, reports which blocks went.
 */
#include "seam.h"
#include "drv.h"

#include "types.h"
#include "meta.h"
#include "array.h"
#include "convert.h"
#include "message.h"
#include "event.h"
#include "values.h"
#include "stream.h"
#include "history.h"
#include "connection.h"
#include "notify.h"
#include <sys/socket.h>
#include <poll.h>
#include <sys/uio.h>

enum { KBuf = 1, KHmeta, KReply, KRawdata, KGeninfo, KMetabuf, KCxxref, KBare, KStream, KOutLocal, KOutRemote, KIterFile, KMetaNew };

#define MAXH 6
#define MAXO 8
#define MAXD 8

/* C++ side (refcount_cxx.cpp) */
extern int   cxx_assign(int kind, void **dst, void **src);
extern int   cxx_ctor(int kind, void **dst, void **src);
extern int   cxx_drop(int kind, void **dst);
extern int   cxx_move(int kind, void **dst, void **src);
extern void *cxx_detach(int kind, void **dst);
extern int   cxx_adopt(int kind, void **dst, void *ptr);
extern void *cxx_thing_create(void);
extern uintptr_t cxx_thing_addref(void *);
extern void  cxx_thing_unref(void *);
extern uintptr_t cxx_thing_peek(void *);
extern void  cxx_thing_poke(void *, uintptr_t);
extern uintptr_t cxx_bare_raise(void *);
extern uintptr_t cxx_bare_lower(void *);
extern void **cxx_thing_inner(void *);

static int kind, nh, nobj;
static long long maxv;
static void *slot[MAXH];
static MPT_STRUCT(buffer) *copybuf;
static struct {
	void *ptr;
	long  serial;
	void *defer[MAXD];
	int   ndefer;
	long  raws;      /* plain-pointer references the harness holds itself (detach, addref, counter written) */
} objs[MAXO];
static int made;
static MPT_STRUCT(refcount) bare;
static MPT_STRUCT(array) inner;      /* content shared by the metabuf objects */
static long sends;
static size_t create_len;
static int buf_typed;                /* buffers of this behaviour are arrays of arrays */
static int peers[2 * MAXO + 2];      /* both ends of the stream socket pairs (closed again at reset) */
static int npeers;
static MPT_STRUCT(notify) noti = MPT_NOTIFY_INIT;   /* the notifier: one more holder of stream inputs */

/* ---------- counter values: k, or MAX-k reported relative to the model's Max ---------- */
static uintptr_t real_of(long long v)
{
	if (v > maxv / 2) return UINTPTR_MAX - (uintptr_t) (maxv - v);
	return (uintptr_t) v;
}
static long long sym_of(uintptr_t r)
{
	if (r > (UINTPTR_MAX >> 1)) return maxv - (long long) (UINTPTR_MAX - r);
	return (long long) r;
}

/* ---------- harness metatype: counts with mpt_refcount_raise/lower ---------- */
struct hmeta {
	MPT_INTERFACE(metatype) _mt;
	MPT_STRUCT(refcount) ref;
	MPT_INTERFACE(metatype) *inner;   /* a reference the object holds itself, released with it */
};
static const MPT_INTERFACE_VPTR(metatype) hm_vptr;
static int hm_conv(MPT_INTERFACE(convertable) *val, MPT_TYPE(type) type, void *ptr)
{
	if (!type) {
		static const uint8_t fmt[] = { 0 };
		if (ptr) *((const uint8_t **) ptr) = fmt;
		return MPT_ENUM(TypeMetaPtr);
	}
	if (type == MPT_ENUM(TypeMetaPtr)) {
		if (ptr) *((void **) ptr) = val;
		return MPT_ENUM(TypeMetaPtr);
	}
	return MPT_ERROR(BadType);
}
static void hm_unref(MPT_INTERFACE(metatype) *mt)
{
	struct hmeta *h = (struct hmeta *) mt;
	if (mpt_refcount_lower(&h->ref)) return;
	if (h->inner) h->inner->_vptr->unref(h->inner);
	vf_free(h);
}
static uintptr_t hm_addref(MPT_INTERFACE(metatype) *mt)
{
	struct hmeta *h = (struct hmeta *) mt;
	return mpt_refcount_raise(&h->ref);
}
static MPT_INTERFACE(metatype) *hm_new(void)
{
	struct hmeta *h = (struct hmeta *) vf_malloc(sizeof(*h));
	h->_mt._vptr = &hm_vptr;
	h->ref._val = 1;
	h->inner = 0;
	return &h->_mt;
}
static MPT_INTERFACE(metatype) *hm_clone(const MPT_INTERFACE(metatype) *mt)
{
	(void) mt;
	return hm_new();
}
static const MPT_INTERFACE_VPTR(metatype) hm_vptr = { { hm_conv }, hm_unref, hm_addref, hm_clone };

/* ---------- reply context plumbing ---------- */
static int send_accept = 1;          /* what the transport answers to the next send */
static int send_cb(void *ctx, const MPT_STRUCT(reply_data) *rd, const MPT_STRUCT(message) *msg)
{
	(void) ctx; (void) rd; (void) msg;
	sends++;
	return send_accept ? 0 : MPT_ERROR(BadOperation);
}
static MPT_STRUCT(reply_data) *reply_data_of(MPT_INTERFACE(metatype) *mt, MPT_INTERFACE(reply_context) **rcp)
{
	MPT_INTERFACE(reply_context) *rc = 0;
	void *rd = 0;
	MPT_metatype_convert(mt, MPT_ENUM(TypeReplyPtr), &rc);
	MPT_metatype_convert(mt, MPT_ENUM(TypeReplyDataPtr), &rd);
	if (rcp) *rcp = rc;
	if (!rc) return 0;
	/* the data follows the context interface inside the object */
	if (!rd || rd == (void *) rc) rd = (void *) (rc + 1);
	return (MPT_STRUCT(reply_data) *) rd;
}

/* ---------- objects ---------- */
static int obj_alive(int o)   /* 1-based */
{
	return o >= 1 && o <= made && vf_serial_live(objs[o - 1].serial);
}
static int obj_of(const void *p)
{
	int o, hit = 0;
	if (!p) return 0;
	for (o = 1; o <= made; o++) {
		if (objs[o - 1].ptr != p) continue;
		if (obj_alive(o)) return o;
		hit = o;
	}
	return hit ? hit : -1;     /* -1: an address that is no object */
}
static int obj_register(void *p)
{
	struct vf_blk *b;
	if (!p || made >= MAXO) return 0;
	b = vf_containing(p);
	objs[made].ptr = p;
	objs[made].serial = b ? b->serial : -1;
	objs[made].ndefer = 0;
	objs[made].raws = 0;
	return ++made;
}
/* raw data with one stage holding a few values: nested buffers that must go with the object */
static void *rawdata_filled(void)
{
	MPT_INTERFACE(metatype) *mt = mpt_rawdata_create(0);
	MPT_INTERFACE(rawdata) *rd = 0;
	static const double vals[3] = { 1.0, 2.0, 3.0 };
	struct iovec vec;
	MPT_STRUCT(value) val;
	if (!mt) return 0;
	/* the raw data interface follows the metatype interface inside the object (the type id
	 * mpt_rawdata_type_traits() hands out changes with every call at the pinned commit, so
	 * the conversion cannot be used to obtain it) */
	rd = (MPT_INTERFACE(rawdata) *) (mt + 1);
	if (rd->_vptr) {
		vec.iov_base = (void *) vals;
		vec.iov_len = sizeof(vals);
		MPT_value_set(&val, MPT_type_toVector('d'), &vec);
		rd->_vptr->modify(rd, 0, &val, 0);
	}
	return mt;
}
static void *stream_input(void)
{
	int sv[2];
	MPT_STRUCT(socket) sock;
	MPT_INTERFACE(input) *in;
	if (create_len == 1) {
		/* descriptor class "regular file": the kernel does not let it be polled through epoll */
		char name[] = "/tmp/verif-c15-XXXXXX";
		if ((sv[0] = mkstemp(name)) < 0) return 0;
		unlink(name);
		sock._id = sv[0];
		if (!(in = mpt_stream_input(&sock, MPT_STREAMFLAG(RdWr), MPT_ENUM(EncodingCobs), 2))) close(sv[0]);
		return in;
	}
	if (npeers + 2 > (int) (sizeof(peers) / sizeof(*peers)) || socketpair(AF_UNIX, SOCK_STREAM, 0, sv) < 0) return 0;
	sock._id = sv[0];
	if (!(in = mpt_stream_input(&sock, MPT_STREAMFLAG(RdWr), MPT_ENUM(EncodingCobs), 2))) {
		close(sv[0]); close(sv[1]);
		return 0;
	}
	peers[npeers++] = sv[1];
	peers[npeers++] = sv[0];   /* owned by the stream; closed at reset in case the object outlives the behaviour */
	return in;
}
static void *obj_create(void)
{
	switch (kind) {
	case KBuf: {
		/* array of arrays with one (empty) element: a buffer that can hold a buffer reference itself */
		const MPT_STRUCT(type_traits) *t = mpt_array_traits();
		MPT_STRUCT(buffer) *b = _mpt_buffer_alloc(sizeof(MPT_STRUCT(array)), 0);
		if (!create_len) return b;          /* plain, empty buffer */
		buf_typed = 1;
		if (b) {
			b->_content_traits = t;
			if (mpt_buffer_set(b, t, 0, 0, sizeof(MPT_STRUCT(array))) < 0) { b->_vptr->unref(b); return 0; }
		}
		return b;
	}
	case KMetaNew: {
		/* metatype for a text of create_len bytes */
		char *txt = (char *) malloc(create_len + 1);
		const char *ptr = txt;
		MPT_STRUCT(value) v;
		void *mt;
		memset(txt, 'a', create_len);
		txt[create_len] = 0;
		MPT_value_set(&v, 's', &ptr);
		mt = mpt_meta_new(&v);
		free(txt);
		return mt;
	}
	case KHmeta:   return hm_new();
	case KReply:   return mpt_reply_deferrable(8, send_cb, &sends);
	case KRawdata: return rawdata_filled();
	case KStream:  return stream_input();
	case KOutLocal:  return mpt_output_local();
	case KOutRemote: return mpt_output_remote();
	case KIterFile:  return mpt_iterator_filename("/dev/null");
	case KGeninfo: return mpt_meta_geninfo(8);
	case KMetabuf: return mpt_meta_buffer(inner._buf ? &inner : 0);
	case KCxxref:  return cxx_thing_create();
	default:       return 0;
	}
}
static int is_meta(void)
{
	return kind == KHmeta || kind == KReply || kind == KRawdata || kind == KGeninfo || kind == KMetabuf || kind == KStream
	    || kind == KOutLocal || kind == KOutRemote || kind == KIterFile || kind == KMetaNew;
}
/* storage of the reference an object holds itself (array element, metatype member, reference<T> member) */
static void **nest_slot(void *p)
{
	if (!p) return 0;
	if (kind == KBuf) return buf_typed ? (void **) (((MPT_STRUCT(buffer) *) p) + 1) : 0;
	if (kind == KHmeta) return (void **) &((struct hmeta *) p)->inner;
	if (kind == KCxxref) return cxx_thing_inner(p);
	return 0;
}

/* descriptors opened by objects that outlive their behaviour (streams, file iterators) are
 * closed at reset: everything that was not open before the first behaviour of this process */
#include <fcntl.h>
#define FDSCAN 256
static char fd_base[FDSCAN];
static int fd_base_set;
static void close_leftover_fds(void)
{
	int fd;
	if (!fd_base_set) {
		for (fd = 0; fd < FDSCAN; fd++) fd_base[fd] = fcntl(fd, F_GETFD) >= 0;
		fd_base_set = 1;
		return;
	}
	for (fd = 3; fd < FDSCAN; fd++) {
		if (!fd_base[fd]) close(fd);
	}
}
static void drv_reset(void)
{
	while (npeers) close(peers[--npeers]);
	close_leftover_fds();
	{
		static const MPT_STRUCT(notify) fresh = MPT_NOTIFY_INIT;
		noti = fresh;
	}
	memset(slot, 0, sizeof(slot));
	memset(objs, 0, sizeof(objs));
	memset(&inner, 0, sizeof(inner));
	copybuf = 0;
	made = 0;
	kind = 0;
	sends = 0;
	buf_typed = 0;
	send_accept = 1;
	bare._val = 1;
	vf_reset();
}

/* ---------- observation ---------- */
static void emit(struct cmd *c, const char *ret, long long val, const int *was)
{
	long long v[MAXO > MAXH ? MAXO : MAXH];
	int i, n;
	drv_begin(c);
	j_str("ret", ret);
	for (i = 0; i < nh; i++) v[i] = obj_of(slot[i]);
	j_ints("href", v, nh);
	for (i = 0; i < nh; i++) v[i] = copybuf ? obj_of(((void **) (copybuf + 1))[i]) : 0;
	j_ints("copy", v, nh);
	for (i = 0; i < nobj; i++) {
		void **ns = obj_alive(i + 1) ? nest_slot(objs[i].ptr) : 0;
		v[i] = ns ? obj_of(*ns) : 0;
	}
	j_ints("inner", v, nobj);
	for (i = 0; i < nobj; i++) v[i] = obj_alive(i + 1);
	j_ints("alive", v, nobj);
	/* objects whose block was released during this call, in order of release */
	n = 0;
	for (i = 0; i < vf_nfreed; i++) {
		int o;
		for (o = 1; o <= made; o++) {
			if (objs[o - 1].serial == vf_freed[i] && (!was || was[o - 1])) v[n++] = o;
		}
	}
	j_ints("gone", v, n);
	for (i = 0; i < nobj; i++) {
		v[i] = -1;
		if (!obj_alive(i + 1)) continue;
		if (kind == KHmeta) v[i] = sym_of(((struct hmeta *) objs[i].ptr)->ref._val);
		else if (kind == KCxxref) v[i] = sym_of(cxx_thing_peek(objs[i].ptr));
	}
	j_ints("cnt", v, nobj);
	for (i = 0; i < nobj; i++) {
		v[i] = -1;
		if (kind == KBuf && obj_alive(i + 1)) {
			MPT_STRUCT(buffer) *b = (MPT_STRUCT(buffer) *) objs[i].ptr;
			v[i] = (b->_vptr->get_flags(b) & MPT_ENUM(BufferShared)) ? 1 : 0;
		}
		else if ((kind == KMetabuf || kind == KMetaNew) && obj_alive(i + 1)) {
			/* a metatype that exposes a text buffer: is that buffer shared */
			MPT_STRUCT(buffer) *b = 0;
			if (MPT_metatype_convert((MPT_INTERFACE(metatype) *) objs[i].ptr, MPT_ENUM(TypeBufferPtr), &b) >= 0 && b) {
				v[i] = (b->_vptr->get_flags(b) & MPT_ENUM(BufferShared)) ? 1 : 0;
			}
		}
	}
	j_ints("shared", v, nobj);
	j_int("val", val);
	j_int("bare", kind == KBare ? sym_of(bare._val) : -1);
	{
		/* blocks still allocated besides the harness' own shared content (which must be unshared again) */
		long q = vf_live_untagged();
		if (inner._buf && vf_containing(inner._buf)) {
			q -= 1;
			if (inner._buf->_vptr->get_flags(inner._buf) & MPT_ENUM(BufferShared)) q += 1000;
		}
		/* the notifier's own tables are not objects */
		if (noti._slot._buf && vf_containing(noti._slot._buf)) q -= 1;
		if (noti._wait._buf && vf_containing(noti._wait._buf)) q -= 1;
		j_int("quiet", q);
	}
	j_int("badfree", vf_badfree);
	drv_dbg();
	j_int("blocks", vf_live());
	j_int("sends", sends);
	j_int("inner", inner._buf ? (vf_containing(inner._buf) ? 1 : 0) : -1);
	drv_end();
}

static int kind_of(const char *s)
{
	static const char *names[] = { "", "buf", "hmeta", "reply", "rawdata", "geninfo", "metabuf", "cxxref", "bare", "stream", "outlocal", "outremote", "iterfile", "metanew" };
	int i;
	for (i = 1; i <= KMetaNew; i++) if (s && !strcmp(s, names[i])) return i;
	return 0;
}
static const MPT_STRUCT(type_traits) *ref_traits(void)
{
	return kind == KBuf ? mpt_array_traits() : mpt_meta_reference_traits();
}
static void raw_unref(void *p)
{
	if (!p) return;
	if (kind == KBuf) {
		MPT_STRUCT(buffer) *b = (MPT_STRUCT(buffer) *) p;
		b->_vptr->unref(b);
	}
	else if (kind == KCxxref) cxx_thing_unref(p);
	else {
		MPT_INTERFACE(metatype) *mt = (MPT_INTERFACE(metatype) *) p;
		mt->_vptr->unref(mt);
	}
}
static uintptr_t raw_addref(void *p)
{
	if (kind == KBuf) {
		MPT_STRUCT(buffer) *b = (MPT_STRUCT(buffer) *) p;
		return b->_vptr->addref(b);
	}
	if (kind == KCxxref) return cxx_thing_addref(p);
	return ((MPT_INTERFACE(metatype) *) p)->_vptr->addref((MPT_INTERFACE(metatype) *) p);
}

/* dst := *src through one of the assignment paths; negative = refused.  -1000 = unknown path */
static int do_assign(const char *via, void **dst, void **src)
{
	if (!strcmp(via, "clone")) {
		return mpt_array_clone((MPT_STRUCT(array) *) dst, (const MPT_STRUCT(array) *) src);
	}
	if (!strcmp(via, "conv")) {
		MPT_TYPE(data_converter) conv = mpt_data_converter(MPT_ENUM(TypeMetaRef));
		return conv ? conv(src, MPT_ENUM(TypeMetaRef), dst) : -1;
	}
	if (!strcmp(via, "value") || !strcmp(via, "valueptr")) {
		/* generic value assignment: source typed as metatype reference or metatype pointer */
		MPT_STRUCT(value) v;
		MPT_value_set(&v, via[5] ? MPT_ENUM(TypeMetaPtr) : MPT_ENUM(TypeMetaRef), src);
		return mpt_value_convert(&v, MPT_ENUM(TypeMetaRef), dst);
	}
	if (!strcmp(via, "traits")) {
		void *tmp = 0;        /* raw storage: only taken over when the copy was made */
		int rc = ref_traits()->init(&tmp, src);
		*dst = tmp;
		return rc;
	}
	if (!strcmp(via, "cxx")) return cxx_assign(kind, dst, src);
	if (!strcmp(via, "cxxctor")) return cxx_ctor(kind, dst, src);
	return -1000;
}
/* references of the harness itself that point to object o: handles, array copy, nested slots, detached handles */
static long own_refs(int o)
{
	long n = 0;
	int i;
	const void *p = objs[o - 1].ptr;
	for (i = 0; i < nh; i++) if (slot[i] == p) n++;
	for (i = 0; copybuf && i < nh; i++) if (((void **) (copybuf + 1))[i] == p) n++;
	for (i = 1; i <= made; i++) {
		void **ns = obj_alive(i) ? nest_slot(objs[i - 1].ptr) : 0;
		if (ns && *ns == p) n++;
	}
	return n + objs[o - 1].ndefer;
}

static void drv_step(struct cmd *c)
{
	const char *a = c->action;
	const char *via = drv_raw(c, "via");
	int h = (int) drv_int(c, "h", 0), g = (int) drv_int(c, "g", 0), o = (int) drv_int(c, "o", 0);
	int was[MAXO], i;

	vf_step();
	if (!strcmp(a, "init")) {
		drv_reset();
		kind = kind_of(drv_raw(c, "kind"));
		nh = (int) drv_int(c, "nh", 3);
		nobj = (int) drv_int(c, "nobj", 3);
		maxv = drv_int(c, "max", 20);
		if (nh > MAXH) nh = MAXH;
		if (nobj > MAXO) nobj = MAXO;
		if (kind == KMetabuf) {
			mpt_array_append(&inner, 4, "ab\0");
		}
		if (kind && kind != KBare) {
			/* warm-up: process-global tables (type registry, traits) are set up by the first
			 * object; what stays allocated after it is gone is not counted as belonging to a later one */
			void *p;
			create_len = 1000;            /* both metatype implementations behind mpt_meta_new */
			if ((p = obj_create())) raw_unref(p);
			create_len = 0;
			if ((p = obj_create())) raw_unref(p);
			buf_typed = 0;
			if (kind == KBuf) (void) mpt_type_traits('c');   /* basic traits table */
			if (kind == KStream) {
				/* the notifier's process-global set-up (reference traits of inputs, epoll configuration query) */
				if ((p = obj_create()) && mpt_notify_add(&noti, POLLIN, (MPT_INTERFACE(input) *) p) < 0) raw_unref(p);
				mpt_notify_fini(&noti);
			}
			while (npeers) close(peers[--npeers]);
			vf_tag_all(1);
			if (inner._buf) {
				struct vf_blk *b = vf_containing(inner._buf);
				if (b) b->tag = 0;
			}
		}
		vf_step();
		emit(c, kind ? "ok" : "bad-kind", -1, 0);
		return;
	}
	for (i = 0; i < MAXO; i++) was[i] = obj_alive(i + 1);
	if (h < 0 || h > nh || g < 0 || g > nh || o < 0 || o > made) goto bad;

	if (!strcmp(a, "create")) {
		void *p;
		if (!h || slot[h - 1]) goto bad;
		create_len = (size_t) drv_uint(c, "len", 0);
		p = obj_create();
		if (p) { obj_register(p); slot[h - 1] = p; }
		emit(c, p ? "ok" : "refused", -1, was);
	}
	else if (!strcmp(a, "copy")) {
		int rc;
		void **src;
		if (!h || !g || !via) goto bad;
		src = &slot[g - 1];
		if (drv_int(c, "sin", 0)) {
			/* the source is the reference the object handle g refers to holds itself */
			if (!(src = nest_slot(slot[g - 1]))) goto bad;
		}
		if ((rc = do_assign(via, &slot[h - 1], src)) == -1000) goto bad;
		emit(c, rc < 0 ? "refused" : "ok", -1, was);
	}
	else if (!strcmp(a, "nest")) {
		int rc;
		void **dst;
		if (!h || !g || !via || !(dst = nest_slot(slot[h - 1]))) goto bad;
		if ((rc = do_assign(via, dst, &slot[g - 1])) == -1000) goto bad;
		emit(c, rc < 0 ? "refused" : "ok", -1, was);
	}
	else if (!strcmp(a, "teardown")) {
		/* give back everything the harness holds */
		int k, n;
		if (copybuf) { MPT_STRUCT(buffer) *b = copybuf; copybuf = 0; b->_vptr->unref(b); }
		if (kind == KStream) mpt_notify_fini(&noti);
		for (k = 0; k < nh; k++) {
			void *p = slot[k];
			slot[k] = 0;
			raw_unref(p);
		}
		for (k = 0; k < made; k++) {
			for (n = objs[k].raws; n > 0; n--) raw_unref(objs[k].ptr);
			objs[k].raws = 0;
			while (objs[k].ndefer) {
				MPT_INTERFACE(reply_context_detached) *def = (MPT_INTERFACE(reply_context_detached) *) objs[k].defer[--objs[k].ndefer];
				def->_vptr->reply(def, 0);
			}
		}
		emit(c, "ok", -1, was);
	}
	else if (!strcmp(a, "drop")) {
		int rc = 0;
		if (!h || !via) goto bad;
		if (!strcmp(via, "clone")) rc = mpt_array_clone((MPT_STRUCT(array) *) &slot[h - 1], 0);
		else if (!strcmp(via, "conv")) {
			MPT_TYPE(data_converter) conv = mpt_data_converter(MPT_ENUM(TypeMetaRef));
			void *none = 0;
			rc = conv ? conv(&none, MPT_ENUM(TypeMetaRef), &slot[h - 1]) : -1;
		}
		else if (!strcmp(via, "value")) {
			MPT_STRUCT(value) v;
			void *none = 0;
			MPT_value_set(&v, MPT_ENUM(TypeMetaRef), &none);
			rc = mpt_value_convert(&v, MPT_ENUM(TypeMetaRef), &slot[h - 1]);
		}
		else if (!strcmp(via, "fini")) {
			ref_traits()->fini(&slot[h - 1]);
			slot[h - 1] = 0;
		}
		else if (!strcmp(via, "raw")) {
			void *p = slot[h - 1];
			slot[h - 1] = 0;
			raw_unref(p);
		}
		else if (!strcmp(via, "cxx")) rc = cxx_drop(kind, &slot[h - 1]);
		else goto bad;
		emit(c, rc < 0 ? "refused" : "ok", -1, was);
	}
	else if (!strcmp(a, "move")) {
		if (!h || !g) goto bad;
		cxx_move(kind, &slot[h - 1], &slot[g - 1]);
		emit(c, "ok", -1, was);
	}
	else if (!strcmp(a, "detach")) {
		if (!h) goto bad;
		{
			int od = obj_of(slot[h - 1]);
			if (cxx_detach(kind, &slot[h - 1]) && od > 0) objs[od - 1].raws++;
		}
		emit(c, "ok", -1, was);
	}
	else if (!strcmp(a, "adopt")) {
		if (!h || !o) goto bad;
		cxx_adopt(kind, &slot[h - 1], objs[o - 1].ptr);
		objs[o - 1].raws--;
		emit(c, "ok", -1, was);
	}
	else if (!strcmp(a, "rawref")) {
		if (!o) goto bad;
		{
			uintptr_t r = raw_addref(objs[o - 1].ptr);
			if (r) objs[o - 1].raws++;
			emit(c, r ? "ok" : "refused", -1, was);
		}
	}
	else if (!strcmp(a, "rawunref")) {
		if (!o) goto bad;
		objs[o - 1].raws--;
		raw_unref(objs[o - 1].ptr);
		emit(c, "ok", -1, was);
	}
	else if (!strcmp(a, "defer")) {
		MPT_INTERFACE(reply_context) *rc = 0;
		MPT_STRUCT(reply_data) *rd;
		void *def = 0;
		if (!o || kind != KReply) goto bad;
		if ((rd = reply_data_of((MPT_INTERFACE(metatype) *) objs[o - 1].ptr, &rc)) && rc) {
			/* armed: a request id is pending; otherwise there is none (never set, taken over, answered) */
			rd->len = drv_int(c, "armed", 1) ? 1 : 0; rd->val[0] = 1;
			def = rc->_vptr->defer(rc);
			rd->len = 0;
		}
		if (def && objs[o - 1].ndefer < MAXD) objs[o - 1].defer[objs[o - 1].ndefer++] = def;
		emit(c, def ? "ok" : "refused", -1, was);
	}
	else if (!strcmp(a, "undefer")) {
		/* reply through the most recent detached handle; the transport accepts or rejects */
		MPT_INTERFACE(reply_context_detached) *def;
		MPT_STRUCT(message) m = MPT_MESSAGE_INIT;
		int rc;
		if (!o || kind != KReply || !objs[o - 1].ndefer) goto bad;
		def = (MPT_INTERFACE(reply_context_detached) *) objs[o - 1].defer[objs[o - 1].ndefer - 1];
		send_accept = (int) drv_int(c, "accept", 1);
		rc = def->_vptr->reply(def, drv_int(c, "msg", 0) ? &m : 0);
		send_accept = 1;
		if (rc >= 0) objs[o - 1].ndefer--;      /* a negative answer leaves the handle with the caller */
		emit(c, rc < 0 ? "kept" : "done", -1, was);
	}
	else if (!strcmp(a, "reply")) {
		/* reply through the context itself (a pending request id is set first) */
		MPT_INTERFACE(reply_context) *rc = 0;
		MPT_STRUCT(reply_data) *rd;
		MPT_STRUCT(message) m = MPT_MESSAGE_INIT;
		int r = -1;
		if (!o || kind != KReply) goto bad;
		if ((rd = reply_data_of((MPT_INTERFACE(metatype) *) objs[o - 1].ptr, &rc)) && rc) {
			rd->len = 1; rd->val[0] = 1;
			send_accept = (int) drv_int(c, "accept", 1);
			r = rc->_vptr->reply(rc, drv_int(c, "msg", 0) ? &m : 0);
			send_accept = 1;
		}
		emit(c, r < 0 ? "rejected" : "ok", -1, was);
	}
	else if (!strcmp(a, "poke")) {
		uintptr_t r = real_of(drv_int(c, "v", 1));
		if (!o) goto bad;
		if (kind == KHmeta) ((struct hmeta *) objs[o - 1].ptr)->ref._val = r;
		else if (kind == KCxxref) cxx_thing_poke(objs[o - 1].ptr, r);
		else goto bad;
		objs[o - 1].raws = (long) drv_int(c, "v", 1) > maxv / 2 ? 0 : (long) drv_int(c, "v", 1) - own_refs(o);
		emit(c, "ok", -1, was);
	}
	else if (!strcmp(a, "arrcopy")) {
		const MPT_STRUCT(type_traits) *t = ref_traits();
		long rc = -1;
		if (copybuf) goto bad;
		if ((copybuf = _mpt_buffer_alloc(nh * sizeof(void *), 0))) {
			copybuf->_content_traits = t;
			rc = mpt_buffer_set(copybuf, t, 0, slot, nh * sizeof(void *));
		}
		emit(c, rc < 0 ? "refused" : "ok", -1, was);
	}
	else if (!strcmp(a, "arrdrop")) {
		MPT_STRUCT(buffer) *b = copybuf;
		if (!b) goto bad;
		copybuf = 0;
		b->_vptr->unref(b);
		emit(c, "ok", -1, was);
	}
	else if (!strcmp(a, "unshare")) {
		MPT_STRUCT(buffer) *b, *nb;
		if (!h || !via || kind != KBuf || !(b = (MPT_STRUCT(buffer) *) slot[h - 1])) goto bad;
		if (!strcmp(via, "vptr")) {
			if ((nb = b->_vptr->detach(b, sizeof(MPT_STRUCT(array))))) slot[h - 1] = nb;
		}
		else if (!strcmp(via, "reserve")) nb = mpt_array_reserve((MPT_STRUCT(array) *) &slot[h - 1], sizeof(MPT_STRUCT(array)), buf_typed ? mpt_array_traits() : 0);
		else if (!strcmp(via, "reserveother")) {
			/* another content type than the buffer's: nothing is taken over.  Afterwards the (now private)
			 * buffer is given the make of this behaviour again (content type, one empty element) */
			const MPT_STRUCT(type_traits) *own = buf_typed ? mpt_array_traits() : 0;
			MPT_STRUCT(array) *arr = (MPT_STRUCT(array) *) &slot[h - 1];
			if ((nb = mpt_array_reserve(arr, sizeof(MPT_STRUCT(array)), buf_typed ? 0 : mpt_type_traits('c')))
			 && (nb = mpt_array_reserve(arr, sizeof(MPT_STRUCT(array)), own))
			 && own && !nb->_used
			 && mpt_buffer_set(nb, own, 0, 0, sizeof(MPT_STRUCT(array))) < 0) nb = 0;
		}
		else if (!strcmp(via, "slice")) {
			nb = mpt_array_slice((MPT_STRUCT(array) *) &slot[h - 1], 0, b->_used) ? (MPT_STRUCT(buffer) *) slot[h - 1] : 0;
		}
		else if (!strcmp(via, "insert")) {
			mpt_array_insert((MPT_STRUCT(array) *) &slot[h - 1], b->_used, 0);
			nb = (MPT_STRUCT(buffer) *) slot[h - 1];
		}
		else if (!strcmp(via, "append")) {
			/* one raw byte (untyped buffers only); the space of a buffer is never exceeded by a history */
			if (b->_used + 1 > b->_size) goto bad;
			nb = mpt_array_append((MPT_STRUCT(array) *) &slot[h - 1], 1, "x") ? (MPT_STRUCT(buffer) *) slot[h - 1] : 0;
		}
		else goto bad;
		if (nb && nb != b) obj_register(nb);
		emit(c, nb ? "ok" : "refused", -1, was);
	}
	else if (!strcmp(a, "nadd")) {
		/* the notifier takes over the handle's reference when it accepts the input */
		int rc;
		if (!h || kind != KStream || !slot[h - 1]) goto bad;
		rc = mpt_notify_add(&noti, POLLIN, (MPT_INTERFACE(input) *) slot[h - 1]);
		if (rc >= 0) slot[h - 1] = 0;
		emit(c, rc < 0 ? "refused" : "ok", -1, was);
	}
	else if (!strcmp(a, "nclear")) {
		MPT_STRUCT(socket) sock = MPT_SOCKET_INIT;
		int rc;
		if (!o || kind != KStream || !obj_alive(o)) goto bad;
		if (MPT_metatype_convert((MPT_INTERFACE(metatype) *) objs[o - 1].ptr, MPT_ENUM(TypeUnixSocket), &sock) < 0) goto bad;
		rc = mpt_notify_clear(&noti, sock._id);
		emit(c, rc < 0 ? "refused" : "ok", -1, was);
	}
	else if (!strcmp(a, "nfini")) {
		if (kind != KStream) goto bad;
		mpt_notify_fini(&noti);
		emit(c, "ok", -1, was);
	}
	else if (!strcmp(a, "clone")) {
		MPT_INTERFACE(metatype) *mt, *n;
		if (!h || !g || !is_meta() || !(mt = (MPT_INTERFACE(metatype) *) slot[h - 1]) || slot[g - 1]) goto bad;
		if ((n = mt->_vptr->clone(mt))) { obj_register(n); slot[g - 1] = n; }
		emit(c, n ? "ok" : "refused", -1, was);
	}
	else if (!strcmp(a, "bareset")) {
		bare._val = real_of(drv_int(c, "v", 1));
		emit(c, "ok", -1, was);
	}
	else if (!strcmp(a, "bareraise") || !strcmp(a, "barelower")) {
		const char *api = drv_raw(c, "api");
		int cxx = api && !strcmp(api, "cxx");
		uintptr_t r;
		if (a[4] == 'r') r = cxx ? cxx_bare_raise(&bare) : mpt_refcount_raise(&bare);
		else r = cxx ? cxx_bare_lower(&bare) : mpt_refcount_lower(&bare);
		if (a[4] == 'r') emit(c, r ? "ok" : "refused", sym_of(r), was);
		else emit(c, "ok", sym_of(r), was);
	}
	else {
bad:
		drv_begin(c);
		j_str("ret", "bad-command");
		drv_dbg();
		drv_end();
	}
}

int main(int argc, char **argv)
{
	return drv_main(argc, argv);
}
