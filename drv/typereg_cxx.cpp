/*
 * Driver for spec/TypeRegCxx.tla (extension X06 of C06): the C++ face of the
 * type registry -- type_properties<T>::id()/traits(), the wrappers of
 * type_traits, metatype::create / mpt_meta_new (mpt++), metatype::value<T>,
 * metatype::generic, the value wrapper and property::set.
 *
 * The registry is process-global: every behaviour runs in a fresh process.
 * The calls of the C face (boot, addbasic, addgeneric, addiface, addmeta,
 * byid, scan, byname, alias) are those of drv/typereg.c (typereg_cxx_part.c);
 * with w=1 the same request goes through the C++ wrapper of type_traits
 * (scan w=1: every identifier of the range through type_traits::get(int)).
 *
 * The driver judges nothing.  It makes values from a token v (POD: all bytes
 * v; tracked class: tok = v; pointer: &pointee[v]; span: (&elem[v], v);
 * text: "s<v>"),
 * writes values back in the same form, copies return classes (ok/refused)
 * and, after every step, lists the C++ types whose identifier appeared
 * during the step (id(false) before/after), the number of live objects of
 * the tracked class beyond the driver's own, and how often that class was
 * constructed over a live object / destroyed or assigned where none lives.
 * The table "C++ type -> category, sizeof, built-in identifier" (command
 * cxxtab) is data: sizeof() and the identifiers named in mptcore/types.h.
 */
#include "drv.h"

#include <set>
#include <vector>
#include <string>

#include <sys/uio.h>

#include "types.h"
#include "meta.h"
#include "object.h"

extern "C" void x06_typereg_step(struct cmd *c, long beh, long stepno);
extern "C" mpt::metatype *mpt_meta_new(const mpt::value *);

using namespace mpt;

#ifndef X06_NFILL
# define X06_NFILL 64
#endif

/* ---------- explored C++ types ---------- */
struct tracked {
	static long bad;
	static std::set<const void *> &alive() { static std::set<const void *> *s = new std::set<const void *>; return *s; }
	int tok;
	tracked() : tok(-1) { born(); }
	tracked(const tracked &o) : tok(o.tok) { born(); }
	~tracked() { if (!alive().erase(this)) bad++; }
	tracked &operator=(const tracked &o) { if (!alive().count(this)) bad++; tok = o.tok; return *this; }
private:
	void born() { if (!alive().insert(this).second) bad++; }
};
long tracked::bad = 0;

template <int N> struct pod { uint8_t b[N]; };
template <int N> struct fill { uint8_t b[(N % 4) + 1]; };

#define NPOINTEE 4
static tracked g_pointee[NPOINTEE];
static pod<3>  g_elem[NPOINTEE + NPOINTEE];
static double  g_delem[NPOINTEE + NPOINTEE];

/* ---------- value <-> token ---------- */
typedef std::vector<long long> repr_t;
template <typename T> struct codec;
template <int N> struct codec<pod<N> > {
	static pod<N> make(int v) { pod<N> p; memset(p.b, v, N); return p; }
	static void repr(const pod<N> &p, repr_t &o) { for (int i = 0; i < N; i++) o.push_back(p.b[i]); }
};
template <> struct codec<tracked> {
	static tracked make(int v) { tracked t; t.tok = v; return t; }
	static void repr(const tracked &t, repr_t &o) { o.push_back(t.tok); }
};
template <> struct codec<int32_t> {
	static int32_t make(int v) { return v; }
	static void repr(const int32_t &t, repr_t &o) { o.push_back(t); }
};
template <> struct codec<double> {
	static double make(int v) { return v; }
	static void repr(const double &t, repr_t &o) { o.push_back(t == (long long) t ? (long long) t : -999); }
};
static const char *g_text[NPOINTEE] = { "s0", "s1", "s2", "s3" };
template <> struct codec<const char *> {
	static const char *make(int v) { return g_text[v % NPOINTEE]; }
	static void repr(const char * const &t, repr_t &o) {
		long long k = -1;
		for (int i = 0; t && i < NPOINTEE; i++) if (!strcmp(t, g_text[i])) k = i;
		o.push_back(k);
	}
};
template <> struct codec<tracked *> {
	static tracked *make(int v) { return &g_pointee[v % NPOINTEE]; }
	static void repr(tracked * const &t, repr_t &o) { o.push_back((t >= g_pointee && t < g_pointee + NPOINTEE) ? t - g_pointee : -1); }
};
template <> struct codec<pod<3> *> {
	static pod<3> *make(int v) { return &g_elem[v % NPOINTEE]; }
	static void repr(pod<3> * const &t, repr_t &o) { o.push_back((t >= g_elem && t < g_elem + NPOINTEE) ? t - g_elem : -1); }
};
template <> struct codec<span<pod<3> > > {
	static span<pod<3> > make(int v) { return span<pod<3> >(&g_elem[v % NPOINTEE], v % NPOINTEE); }
	static void repr(const span<pod<3> > &t, repr_t &o) {
		o.push_back((t.begin() >= g_elem && t.begin() < g_elem + NPOINTEE) ? t.begin() - g_elem : -1);
		o.push_back(t.size());
	}
};
template <> struct codec<span<const pod<3> > > {
	static span<const pod<3> > make(int v) { return span<const pod<3> >(&g_elem[v % NPOINTEE], v % NPOINTEE); }
	static void repr(const span<const pod<3> > &t, repr_t &o) {
		o.push_back((t.begin() >= g_elem && t.begin() < g_elem + NPOINTEE) ? t.begin() - g_elem : -1);
		o.push_back(t.size());
	}
};
template <> struct codec<span<double> > {
	static span<double> make(int v) { return span<double>(&g_delem[v % NPOINTEE], v % NPOINTEE); }
	static void repr(const span<double> &t, repr_t &o) {
		o.push_back((t.begin() >= g_delem && t.begin() < g_delem + NPOINTEE) ? t.begin() - g_delem : -1);
		o.push_back(t.size());
	}
};

struct answer {
	const char *ret;
	std::string vt;
	repr_t val;
	answer() : ret("refused") { }
};

/* ---------- per type operations ---------- */
struct tops {
	std::string tok;
	const char *cat, *name;
	const char *ck, *ct;  /* metatype pointer class: kind of object it points to, stored type */
	size_t size;
	int fixed;
	int (*id)(bool);
	const type_traits *(*traits)();
	metatype *(*create)(const char *via, int v);
	void (*get)(metatype *, answer &);
	void (*decode)(const void *, repr_t &);
	int  (*valassign)(int v);
	void (*valget)(answer &);
	void (*propset)(int v, answer &);
};
static std::vector<tops> g_tab;
static value g_wrap;

static const tops *by_token(const char *t)
{
	for (size_t i = 0; i < g_tab.size(); i++) if (g_tab[i].tok == t) return &g_tab[i];
	return 0;
}
static const tops *by_id(long id)
{
	if (id <= 0) return 0;
	for (size_t i = 0; i < g_tab.size(); i++) {
		if (g_tab[i].fixed ? g_tab[i].fixed == id : g_tab[i].id(false) == id) return &g_tab[i];
	}
	return 0;
}

template <typename T> struct holder { static T wrapped; static T tmp; };
template <typename T> T holder<T>::wrapped = codec<T>::make(0);
template <typename T> T holder<T>::tmp = codec<T>::make(0);

template <typename T> struct pay {
	static metatype *create(const char *via, int v)
	{
		if (!strcmp(via, "tmpl")) {
			T x = codec<T>::make(v);
			return metatype::create(x);
		}
		if (!strcmp(via, "default")) {
			/* no source value: the element is made by the registered description of the type */
			int id = type_properties<T>::id(true);
			return id > 0 ? metatype::generic::create(id, 0) : 0;
		}
		holder<T>::tmp = codec<T>::make(v);
		value val;
		val = holder<T>::tmp;
		if (!strcmp(via, "new")) return mpt_meta_new(&val);
		return metatype::create(val);
	}
	static void get(metatype *m, answer &a)
	{
		T out = codec<T>::make(0);
		if (!m->get(out)) return;
		a.ret = "ok";
		codec<T>::repr(out, a.val);
	}
	static void decode(const void *p, repr_t &o)
	{
		codec<T>::repr(*static_cast<const T *>(p), o);
	}
	static int valassign(int v)
	{
		holder<T>::wrapped = codec<T>::make(v);
		g_wrap = holder<T>::wrapped;
		return (int) g_wrap.type();
	}
	static void valget(answer &a)
	{
		T out = codec<T>::make(0);
		if (!g_wrap.get(out)) return;
		a.ret = "ok";
		codec<T>::repr(out, a.val);
	}
	static void propset(int v, answer &a)
	{
		T x = codec<T>::make(v);
		property pr;
		if (!pr.set(x)) return;
		a.ret = "ok";
		const tops *t = by_id((long) pr.val.type());
		a.vt = t ? t->tok : "?";
		if (t && t->decode && pr.val.data()) t->decode(pr.val.data(), a.val);
	}
};

template <typename T> static void add_type(const char *tok, const char *cat, int fixed, const char *name, bool payload)
{
	tops t;
	t.tok = tok; t.cat = cat; t.name = name; t.size = sizeof(T); t.fixed = fixed;
	t.ck = ""; t.ct = "";
	t.id = type_properties<T>::id;
	t.traits = type_properties<T>::traits;
	t.create = 0; t.get = 0; t.decode = 0; t.valassign = 0; t.valget = 0; t.propset = 0;
	g_tab.push_back(t);
	(void) payload;
}
template <typename T> static void add_pay(const char *tok, const char *cat, int fixed)
{
	add_type<T>(tok, cat, fixed, "", true);
	tops &t = g_tab.back();
	t.create = pay<T>::create; t.get = pay<T>::get; t.decode = pay<T>::decode;
	t.valassign = pay<T>::valassign; t.valget = pay<T>::valget; t.propset = pay<T>::propset;
}
/* id()/traits() of the metatype pointer classes have a default argument / no bool form */
template <typename T> struct meta_id { static int id(bool o) { return type_properties<T>::id(o); } };

template <int Lo, int Hi, bool Leaf = (Hi - Lo == 1)> struct fill_reg {
	static void add() { fill_reg<Lo, (Lo + Hi) / 2>::add(); fill_reg<(Lo + Hi) / 2, Hi>::add(); }
};
template <int Lo, int Hi> struct fill_reg<Lo, Hi, true> {
	static void add() { char tok[32]; snprintf(tok, sizeof(tok), "fill%d", Lo); add_type<fill<Lo> >(tok, "pod", 0, "", false); }
};

static void build_table(void)
{
	if (!g_tab.empty()) return;
	/* built-in identifiers: mptcore/types.h */
	add_pay<int32_t>("int32", "fixed", 'i');
	add_pay<double>("double", "fixed", 'd');
	add_type<uint8_t>("uint8", "fixed", 'y', "", false);
	add_pay<const char *>("cstr", "fixed", 's');
	add_type<span<const double> >("cspan_double", "fixed", 'D', "", false);
	add_type<span<const int32_t> >("cspan_int32", "fixed", 'I', "", false);
	add_type<convertable *>("conv_ptr", "fixed", TypeConvertablePtr, "", false);
	add_type<iterator *>("iter_ptr", "fixed", TypeIteratorPtr, "", false);
	add_type<metatype *>("meta_ptr", "fixed", TypeMetaPtr, "", false);
	add_type<value>("value", "fixed", TypeValue, "", false);
	add_type<reference<metatype> >("meta_ref", "fixed", TypeMetaRef, "", false);
	/* types registered on first use */
	add_pay<tracked>("tracked", "class", 0);
	add_pay<pod<1> >("pod1", "pod", 0);
	add_pay<pod<3> >("pod3", "pod", 0);
	add_pay<pod<24> >("pod24", "pod", 0);
	add_pay<tracked *>("tracked_ptr", "ptr", 0);
	add_pay<pod<3> *>("pod3_ptr", "ptr", 0);
	add_pay<span<pod<3> > >("span_pod3", "span", 0);
	add_pay<span<const pod<3> > >("cspan_pod3", "span", 0);
	add_pay<span<double> >("span_double", "span", 0);
	/* metatype pointer classes */
	add_type<metatype::generic *>("generic_ptr", "meta", 0, "generic", false);
	g_tab.back().id = meta_id<metatype::generic *>::id;
	g_tab.back().ck = "generic";
	add_type<metatype::basic *>("basic_ptr", "meta", 0, "basic", false);
	g_tab.back().id = meta_id<metatype::basic *>::id;
	g_tab.back().ck = "basic";
	add_type<metatype::value<pod<3> > *>("mvalue_pod3_ptr", "meta", 0, "", false);
	g_tab.back().ck = "tmpl"; g_tab.back().ct = "pod3";
	add_type<metatype::value<tracked> *>("mvalue_tracked_ptr", "meta", 0, "", false);
	g_tab.back().ck = "tmpl"; g_tab.back().ct = "tracked";
	add_type<metatype::value<int32_t> *>("mvalue_int32_ptr", "meta", 0, "", false);
	g_tab.back().ck = "tmpl"; g_tab.back().ct = "int32";
	add_type<metatype::value<double> *>("mvalue_double_ptr", "meta", 0, "", false);
	g_tab.back().ck = "tmpl"; g_tab.back().ct = "double";
	/* a family of distinct types to use the generic range up from C++ */
	fill_reg<0, X06_NFILL>::add();
}

/* ---------- live metatype objects ---------- */
#define NSLOT 9
static struct { metatype *m; int refs; } g_slot[NSLOT];
static size_t g_base_alive;

static void drv_reset(void)
{
	build_table();
	memset(g_slot, 0, sizeof(g_slot));
	g_wrap.clear();
	g_base_alive = tracked::alive().size();
	tracked::bad = 0;
}

static std::vector<int> snapshot(void)
{
	std::vector<int> s(g_tab.size());
	for (size_t i = 0; i < g_tab.size(); i++) s[i] = g_tab[i].fixed ? g_tab[i].fixed : g_tab[i].id(false);
	return s;
}

struct newreg { std::string t; long id; std::string name; int managed; };

static void emit_common(const std::vector<int> &before)
{
	std::vector<int> after = snapshot();
	std::vector<newreg> news;
	for (size_t i = 0; i < after.size(); i++) {
		if (after[i] <= 0 || after[i] == before[i]) continue;
		newreg n;
		const type_traits *t = mpt_type_traits(after[i]);
		const named_traits *nt = MPT_type_isMetaPtr(after[i]) ? mpt_metatype_traits(after[i]) : 0;
		n.t = g_tab[i].tok; n.id = after[i];
		n.name = nt && nt->name ? nt->name : "";
		n.managed = t && (t->init || t->fini) ? 1 : 0;
		/* ascending identifier = order of registration within a range */
		size_t k = news.size();
		news.push_back(n);
		while (k > 0 && news[k - 1].id > news[k].id) { std::swap(news[k - 1], news[k]); k--; }
	}
	j_arr_open("news");
	for (size_t i = 0; i < news.size(); i++) {
		j_item_obj_open();
		j_str("t", news[i].t.c_str());
		j_int("id", news[i].id);
		j_str("name", news[i].name.c_str());
		j_int("managed", news[i].managed);
		j_close();
	}
	j_arr_close();
	j_int("live", (long long) tracked::alive().size() - (long long) g_base_alive);
	j_int("bad", tracked::bad);
}
static void emit_answer(const answer &a)
{
	j_open("ans");
	j_str("ret", a.ret);
	j_str("vt", a.vt.c_str());
	j_ints("val", a.val.empty() ? 0 : &a.val[0], a.val.size());
	j_close();
}
static void skipped(struct cmd *c, const char *why)
{
	drv_begin(c);
	j_str("ret", "skipped");
	drv_dbg();
	j_str("why", why);
	drv_end();
}
static const char *tok_arg(const struct cmd *c, const char *key)
{
	const char *r = drv_raw(c, key);
	return r ? r : "";
}

/* traits objects handed to type_traits::add must stay alive */
static int g_init(void *p, const void *q) { (void) p; (void) q; return 0; }
static void g_fini(void *p) { (void) p; }

static void answer_id(struct cmd *c, int id)
{
	const type_traits *t = id < 0 ? 0 : type_traits::get(id);
	long long v = id;
	drv_begin(c);
	j_str("ret", id < 0 ? "refused" : "ok");
	j_ints("val", &v, id < 0 ? 0 : 1);
	j_str("name", "");
	j_int("size", t ? (long long) t->size : 0);
	drv_dbg();
	drv_end();
}
static void answer_named(struct cmd *c, const named_traits *e)
{
	long long v = e ? (long long) e->type : 0;
	drv_begin(c);
	j_str("ret", e ? "ok" : "refused");
	j_ints("val", &v, e ? 1 : 0);
	j_str("name", e && e->name ? e->name : "");
	j_int("size", e ? (long long) e->traits.size : 0);
	drv_dbg();
	drv_end();
}

/* the wrappers of type_traits: same requests, same answers as the C face */
static bool wrapper_step(struct cmd *c)
{
	const char *a = c->action;
	if (!drv_int(c, "w", 0)) return false;
	if (!strcmp(a, "addbasic")) {
		answer_id(c, type_traits::add_basic(drv_uint(c, "size", 0)));
		return true;
	}
	if (!strcmp(a, "addgeneric")) {
		int managed = (int) drv_int(c, "managed", 0);
		type_traits *t = new type_traits(drv_uint(c, "size", 0), managed ? g_fini : 0, managed ? g_init : 0);
		answer_id(c, type_traits::add(*t));
		return true;
	}
	if (!strcmp(a, "addiface") || !strcmp(a, "addmeta")) {
		const char *name = tok_arg(c, "name");
		if (!strcmp(name, "-")) name = "";
		answer_named(c, a[3] == 'i' ? type_traits::add_interface(*name ? name : 0) : type_traits::add_metatype(*name ? name : 0));
		return true;
	}
	if (!strcmp(a, "byid")) {
		int id = (int) drv_uint(c, "id", 0);
		const type_traits *t = type_traits::get(id);
		const named_traits *n = 0;
		if (MPT_type_isInterface(id)) n = mpt_interface_traits(id);
		else if (MPT_type_isMetaPtr(id)) n = mpt_metatype_traits(id);
		drv_begin(c);
		j_int("present", t ? 1 : 0);
		j_int("size", t ? (long long) t->size : 0);
		j_int("managed", t && (t->init || t->fini) ? 1 : 0);
		j_str("name", n && n->name ? n->name : "");
		j_int("ntype", n ? (long long) n->type : 0);
		drv_dbg();
		drv_end();
		return true;
	}
	if (!strcmp(a, "scan")) {
		/* every identifier of lo..hi looked up through type_traits::get(int) */
		long lo = (long) drv_uint(c, "lo", 0), hi = (long) drv_uint(c, "hi", 0), id;
		std::vector<long> hit;
		for (id = lo; id <= hi; id++) if (type_traits::get((int) id)) hit.push_back(id);
		drv_begin(c);
		j_arr_open("list");
		for (size_t k = 0; k < hit.size(); k++) {
			const type_traits *t = type_traits::get((int) hit[k]);
			const named_traits *nt = 0;
			if (MPT_type_isInterface(hit[k])) nt = mpt_interface_traits(hit[k]);
			else if (MPT_type_isMetaPtr(hit[k])) nt = mpt_metatype_traits(hit[k]);
			j_item_obj_open();
			j_int("id", hit[k]);
			j_int("size", t->size > 0x3fffffff ? -1 : (long long) t->size);
			j_int("managed", (t->init || t->fini) ? 1 : 0);
			j_str("name", nt && nt->name ? nt->name : "");
			j_int("ntype", nt ? (long long) nt->type : 0);
			j_close();
		}
		j_arr_close();
		drv_dbg();
		j_int("count", (long long) hit.size());
		drv_end();
		return true;
	}
	if (!strcmp(a, "byname")) {
		const char *text = tok_arg(c, "text");
		if (!strcmp(text, "-")) text = "";
		const named_traits *e = type_traits::get(text, (int) drv_int(c, "len", -1));
		long long id = e ? (long long) e->type : 0;
		drv_begin(c);
		j_ints("val", &id, e ? 1 : 0);
		drv_dbg();
		drv_end();
		return true;
	}
	return false;
}

static void drv_step(struct cmd *c)
{
	const char *a = c->action;
	static const char *cface[] = { "boot", "sizes", "addbasic", "addgeneric", "addiface", "addmeta", "byid", "scan", "byname", "alias", 0 };
	int i;

	for (i = 0; cface[i]; i++) {
		if (!strcmp(a, cface[i])) {
			if (!wrapper_step(c)) {
				fflush(stdout);
				x06_typereg_step(c, drv_beh, drv_stepno);
			}
			return;
		}
	}
	if (!strcmp(a, "cxxtab")) {
		drv_begin(c);
		j_int("propbuf", UINTPTR_MAX <= UINT32_MAX ? 4 * sizeof(uint32_t) : 2 * sizeof(void *));
		j_int("nfill", X06_NFILL);
		j_arr_open("types");
		for (size_t k = 0; k < g_tab.size(); k++) {
			j_item_obj_open();
			j_str("t", g_tab[k].tok.c_str());
			j_str("cat", g_tab[k].cat);
			j_int("size", (long long) g_tab[k].size);
			j_int("fid", g_tab[k].fixed);
			j_str("name", g_tab[k].name);
			j_str("ck", g_tab[k].ck);
			j_str("ct", g_tab[k].ct);
			j_int("pay", g_tab[k].create ? 1 : 0);
			j_close();
		}
		j_arr_close();
		drv_dbg();
		drv_end();
		return;
	}

	std::vector<int> before = snapshot();
	const tops *t = drv_has(c, "t") ? by_token(tok_arg(c, "t")) : 0;
	int h = (int) drv_int(c, "h", 0), v = (int) drv_int(c, "v", 0);
	if (drv_has(c, "t") && !t) { skipped(c, "unknown type"); return; }
	if (h < 0 || h >= NSLOT) { skipped(c, "slot"); return; }

	if (!strcmp(a, "cxxid")) {
		int id = t->id(drv_int(c, "obtain", 0) != 0);
		const type_traits *tr = id > 0 ? type_traits::get(id) : 0;
		long long val = id;
		drv_begin(c);
		j_str("ret", id > 0 ? "ok" : "refused");
		j_ints("val", &val, id > 0 ? 1 : 0);
		j_int("size", tr ? (long long) tr->size : 0);
		emit_common(before);
		drv_dbg();
		j_int("raw", id);
		drv_end();
	}
	else if (!strcmp(a, "cxxtraits")) {
		const type_traits *tr = t->traits();
		drv_begin(c);
		j_int("open", 0);
		j_int("present", tr ? 1 : 0);
		j_int("size", tr ? (long long) tr->size : 0);
		j_int("managed", tr && (tr->init || tr->fini) ? 1 : 0);
		emit_common(before);
		drv_dbg();
		drv_end();
	}
	else if (!strcmp(a, "create")) {
		if (!t->create) { skipped(c, "no payload type"); return; }
		if (g_slot[h].m) { skipped(c, "slot in use"); return; }
		metatype *m = t->create(tok_arg(c, "via"), v);
		if (m) { g_slot[h].m = m; g_slot[h].refs = 1; }
		drv_begin(c);
		j_str("ret", m ? "ok" : "refused");
		emit_common(before);
		drv_dbg();
		drv_end();
	}
	else if (!strcmp(a, "valassign")) {
		if (!t->valassign) { skipped(c, "no payload type"); return; }
		long long id = t->valassign(v);
		drv_begin(c);
		j_ints("val", &id, id > 0 ? 1 : 0);
		emit_common(before);
		drv_dbg();
		drv_end();
	}
	else if (!strcmp(a, "valget")) {
		answer ans;
		if (!t->valget) { skipped(c, "no payload type"); return; }
		t->valget(ans);
		drv_begin(c);
		j_int("open", 0);
		emit_answer(ans);
		emit_common(before);
		drv_dbg();
		drv_end();
	}
	else if (!strcmp(a, "propset")) {
		answer ans;
		if (!t->propset) { skipped(c, "no payload type"); return; }
		t->propset(v, ans);
		drv_begin(c);
		j_int("open", 0);
		emit_answer(ans);
		emit_common(before);
		drv_dbg();
		drv_end();
	}
	else if (!strcmp(a, "get") || !strcmp(a, "getval") || !strcmp(a, "typeof") || !strcmp(a, "metaptr")
	      || !strcmp(a, "asmeta") || !strcmp(a, "addref") || !strcmp(a, "release") || !strcmp(a, "clone")) {
		metatype *m = g_slot[h].m;
		if (!m) { skipped(c, "empty slot"); return; }
		if (!strcmp(a, "get")) {
			answer ans;
			if (!t || !t->get) { skipped(c, "no payload type"); return; }
			t->get(m, ans);
			drv_begin(c);
			j_int("open", 0);
			emit_answer(ans);
		}
		else if (!strcmp(a, "getval")) {
			answer ans;
			value val;
			int r = m->convert(type_properties<value>::id(true), &val);
			if (r >= 0) {
				const tops *vt = by_id((long) val.type());
				ans.ret = "ok";
				ans.vt = vt ? vt->tok : "?";
				if (vt && vt->decode && val.data()) vt->decode(val.data(), ans.val);
			}
			drv_begin(c);
			j_int("open", 0);
			emit_answer(ans);
		}
		else if (!strcmp(a, "typeof")) {
			long long id = m->type();
			drv_begin(c);
			j_int("open", 0);
			j_ints("val", &id, id > 0 ? 1 : 0);
		}
		else if (!strcmp(a, "metaptr")) {
			metatype *p = 0;
			int r = m->convert(TypeMetaPtr, &p);
			drv_begin(c);
			j_int("self", r >= 0 && p == m ? 1 : 0);
		}
		else if (!strcmp(a, "asmeta")) {
			/* the object asked for the pointer of a metatype class, under that class's identifier */
			void *p = 0;
			int id, r = -1;
			if (!t || strcmp(t->cat, "meta")) { skipped(c, "no metatype pointer class"); return; }
			if ((id = t->id(true)) > 0) r = m->convert(id, &p);
			drv_begin(c);
			j_str("ret", r >= 0 ? "ok" : "refused");
			j_int("self", r >= 0 && p == (void *) m ? 1 : 0);
		}
		else if (!strcmp(a, "addref")) {
			uintptr_t r = m->addref();
			if (r) g_slot[h].refs++;
			drv_begin(c);
			j_int("got", r ? 1 : 0);
		}
		else if (!strcmp(a, "release")) {
			m->unref();
			if (!--g_slot[h].refs) g_slot[h].m = 0;
			drv_begin(c);
			j_str("ret", "ok");
		}
		else {
			int h2 = (int) drv_int(c, "h2", 0);
			if (h2 < 0 || h2 >= NSLOT || g_slot[h2].m) { skipped(c, "target slot in use"); return; }
			metatype *m2 = m->clone();
			if (m2) { g_slot[h2].m = m2; g_slot[h2].refs = 1; }
			drv_begin(c);
			j_str("ret", m2 ? "ok" : "refused");
		}
		emit_common(before);
		drv_dbg();
		drv_end();
	}
	else {
		skipped(c, "unknown-action");
	}
}

int main(int argc, char **argv)
{
	drv_fresh_per_behaviour = 1;
	return drv_main(argc, argv);
}
