/*
 * C++ side of drv/codecops.c: the array path runs on a real mpt::encode_array
 * object (mpt++/array.cpp: push / push(message) / shift / prepare / data),
 * reached from the C driver through these plain functions.  No judgement.
 */
#include <sys/uio.h>
#include <string.h>

#include "core.h"
#include "message.h"
#include "array.h"

using namespace mpt;

struct XA : public encode_array {
	XA(data_encoder_t e) : encode_array(e) { }
	const encode_state &state() const { return _state; }
	size_t used() const { const array::content *c = _d.data(); return c ? c->length() : 0; }
};

extern "C" {

void *xa_new(ssize_t (*enc)(MPT_STRUCT(encode_state) *, const struct iovec *, const struct iovec *))
{
	return new XA(enc);
}
void xa_del(void *p)
{
	delete static_cast<XA *>(p);
}
ssize_t xa_push(void *p, size_t len, const void *data)
{
	return static_cast<XA *>(p)->push(len, data);
}
/* the same bytes as a message of up to three parts: returns len or -1 */
ssize_t xa_push_msg(void *p, size_t len, const void *data, int cut)
{
	XA *a = static_cast<XA *>(p);
	const uint8_t *d = static_cast<const uint8_t *>(data);
	struct iovec vec[2];
	message m;
	size_t a1 = len, a2 = 0, a3 = 0;
	if (cut == 1 && len >= 2) { a1 = len / 2; a2 = len - a1; }
	else if (cut == 2 && len >= 3) { a1 = 1; a2 = len - 2; a3 = 1; }
	else if (cut == 3) { a1 = 0; a2 = len; }          /* empty first part */
	m.used = a1;
	m.base = d;
	vec[0].iov_base = (void *) (d + a1); vec[0].iov_len = a2;
	vec[1].iov_base = (void *) (d + a1 + a2); vec[1].iov_len = a3;
	m.cont = vec;
	m.clen = a3 ? 2 : (a2 ? 1 : 0);
	return a->push(m) ? (ssize_t) len : -1;
}
int xa_shift(void *p, size_t len)
{
	return static_cast<XA *>(p)->shift(len) ? 1 : 0;
}
int xa_prepare(void *p, size_t len)
{
	return static_cast<XA *>(p)->prepare(len) ? 1 : 0;
}
/* finished, not yet consumed data */
const uint8_t *xa_data(void *p, size_t *len)
{
	span<const uint8_t> d = static_cast<XA *>(p)->data();
	*len = d.size();
	return d.begin();
}
void xa_state(void *p, size_t *done, size_t *scratch, size_t *used, size_t *ctx)
{
	XA *a = static_cast<XA *>(p);
	*done = a->state().done;
	*scratch = a->state().scratch;
	*used = a->used();
	*ctx = a->state()._ctx;
}

}
