/*
 * Driver for spec/Dispatch.tla (C11), C++ binding: the mpt++ dispatch class
 * (mpt++/event.cpp: set_handler, handler, reserve, set_default, set_error,
 * constructor/destructor) with the C emit/hash entry points it inherits.
 * Same script and record format as drv/dispatch.c.
 */
#include "drv.h"

#include <new>
#include <sys/uio.h>

#include "core.h"
#include "array.h"
#include "message.h"
#include "event.h"

#define MAXCALLS 64

/* read access to the protected default id / fallback */
struct probe : public mpt::dispatch
{
	uintptr_t def() const { return _def; }
	long err(mpt::event_handler_t h) const
	{
		return _err.cmd == h ? (long) (intptr_t) _err.arg : _err.cmd ? -1 : 0;
	}
};
alignas(probe) static unsigned char store[sizeof(probe)];
static probe *disp;

static struct call {
	long      tok;
	int       fin;
	uintptr_t id;
	int       msg;
} calls[MAXCALLS];
static int ncalls;
static int hr_r, hr_clear;


/* message <<cmd, sep>> \o payload cut into fragments at the given positions;
 * every fragment lives in its own exact-size allocation */
#define MAXFRAG 8
static struct iovec frag_vec[MAXFRAG];
static uint8_t *frag_mem[MAXFRAG + 1];
static int nfrag;
static void frag_free(void)
{
	int i;
	for (i = 0; i < nfrag; i++) free(frag_mem[i]);
	nfrag = 0;
}

static int handler(void *arg, mpt::event *ev)
{
	if (ncalls < MAXCALLS) {
		struct call *c = &calls[ncalls++];
		c->tok = (long) (intptr_t) arg;
		c->fin = ev ? 0 : 1;
		c->id  = ev ? ev->id : 0;
		c->msg = (ev && ev->msg) ? 1 : 0;
	}
	if (!ev) return 0;
	if (hr_clear) ev->id = 0;
	return hr_r;
}

static void drv_reset(void)
{
	/* a dispatcher left over by the previous behaviour is abandoned */
	disp = 0;
	ncalls = 0;
}

static void limbs_out(const char *key, uintptr_t v)
{
	j_sep();
	fprintf(drv_out, "\"%s\":[%u,%u,%u,%u]", key, (unsigned) (v & 0xffff), (unsigned) ((v >> 16) & 0xffff),
	        (unsigned) ((v >> 32) & 0xffff), (unsigned) ((v >> 48) & 0xffff));
}
static uintptr_t limbs_in(struct cmd *c, const char *key)
{
	size_t n = 0, i;
	long long *l = drv_ints(c, key, &n);
	uint64_t v = 0;
	for (i = 0; i < n && i < 4; i++) v |= ((uint64_t) (l[i] & 0xffff)) << (16 * i);
	free(l);
	return (uintptr_t) v;
}

struct entry { long tok; uintptr_t id; };
static int by_tok(const void *a, const void *b)
{
	const entry *x = (const entry *) a, *y = (const entry *) b;
	return (x->tok > y->tok) - (x->tok < y->tok);
}

static void emit_rest(void)
{
	const mpt::command *cmd = disp ? disp->begin() : 0;
	long n = disp ? disp->length() : 0, i, nl = 0;
	entry *live;
	int k;

	j_arr_open("calls");
	for (k = 0; k < ncalls; k++) {
		j_item_obj_open();
		j_int("tok", calls[k].tok);
		j_int("fin", calls[k].fin);
		limbs_out("id", calls[k].id);
		j_int("msg", calls[k].msg);
		j_close();
	}
	j_arr_close();
	limbs_out("def", disp ? disp->def() : 0);

	live = (entry *) calloc(n + 1, sizeof(*live));
	for (i = 0; i < n; i++) {
		if (cmd[i].cmd) { live[nl].tok = (long) (intptr_t) cmd[i].arg; live[nl].id = cmd[i].id; nl++; }
	}
	qsort(live, nl, sizeof(*live), by_tok);
	j_arr_open("table");
	for (i = 0; i < nl; i++) {
		j_item_obj_open();
		j_int("tok", live[i].tok);
		limbs_out("id", live[i].id);
		j_close();
	}
	j_arr_close();
	free(live);

	drv_dbg();
	j_int("slots", n);
	j_int("err", disp ? disp->err(handler) : 0);
}
static void answer_str(struct cmd *c, const char *ret)
{
	drv_begin(c);
	j_str("ret", ret);
	emit_rest();
	drv_end();
}
static void answer_int(struct cmd *c, int r)
{
	drv_begin(c);
	j_int("ret", r < 0 ? -1 : r);
	emit_rest();
	drv_end();
}

static void drv_step(struct cmd *c)
{
	const char *a = c->action;

	ncalls = 0;
	hr_r = (int) drv_int(c, "r", 0);
	hr_clear = (int) drv_int(c, "clear", 0);

	if (!strcmp(a, "init")) {
		drv_reset();
		memset(store, 0, sizeof(store));
		disp = new (store) probe;
		answer_str(c, "ok");
		return;
	}
	if (!disp) {
		drv_begin(c); j_str("ret", "nodispatch"); drv_dbg(); drv_end();
		return;
	}
	if (!strcmp(a, "set")) {
		bool r = disp->set_handler(limbs_in(c, "id"), handler, (void *) (intptr_t) drv_int(c, "tok", 0));
		answer_str(c, r ? "ok" : "refused");
	}
	else if (!strcmp(a, "settext")) {
		size_t len = 0;
		uint8_t *t = drv_bytes(c, "text", &len);
		bool r = disp->set_handler(mpt::mpt_hash(t, (int) len), handler, (void *) (intptr_t) drv_int(c, "tok", 0));
		answer_str(c, r ? "ok" : "refused");
		free(t);
	}
	else if (!strcmp(a, "clear")) {
		bool r = disp->set_handler(limbs_in(c, "id"), 0, 0);
		answer_str(c, r ? "ok" : "refused");
	}
	else if (!strcmp(a, "seterror")) {
		disp->set_error(handler, (void *) (intptr_t) drv_int(c, "tok", 0));
		answer_str(c, "ok");
	}
	else if (!strcmp(a, "setdefault")) {
		bool r = disp->set_default(limbs_in(c, "id"));
		answer_str(c, r ? "ok" : "refused");
	}
	else if (!strcmp(a, "reserve")) {
		mpt::command *cmd = disp->reserve(drv_uint(c, "w", 1));
		if (!cmd) {
			answer_str(c, "refused");
		} else {
			uintptr_t id = cmd->id;
			cmd->cmd = (int (*)(void *, void *)) handler;
			cmd->arg = (void *) (intptr_t) drv_int(c, "tok", 0);
			drv_begin(c);
			j_str("ret", "ok");
			limbs_out("id", id);
			emit_rest();
			drv_end();
		}
	}
	else if (!strcmp(a, "fini")) {
		/* the destructor; the storage is static, what it left behind is read back */
		disp->~probe();
		answer_str(c, "ok");
		disp = 0;
	}
	else if (!strcmp(a, "emit")) {
		mpt::event ev;
		ev.id = limbs_in(c, "id");
		answer_int(c, mpt::mpt_dispatch_emit(disp, &ev));
	}
	else if (!strcmp(a, "emitmsg")) {
		mpt::event ev;
		size_t len = 0;
		uint8_t *data = drv_bytes(c, "data", &len);
		mpt::message msg(data, len);
		int r;
		ev.msg = &msg;
		r = mpt::mpt_dispatch_emit(disp, &ev);
		answer_int(c, r);
		free(data);
	}
	else if (!strcmp(a, "emitnone")) {
		answer_int(c, mpt::mpt_dispatch_emit(disp, 0));
	}
	else if (!strcmp(a, "hash")) {
		mpt::event ev;
		mpt::message msg;
		size_t len = 0, ncut = 0, total, pos = 0, k;
		uint8_t *pay = drv_bytes(c, "payload", &len);
		long long *cuts = drv_ints(c, "cuts", &ncut);
		uint8_t *all = (uint8_t *) malloc(len + 2);
		int r;
		all[0] = (uint8_t) drv_uint(c, "cmd", 4);
		all[1] = (uint8_t) drv_uint(c, "sep", 0);
		memcpy(all + 2, pay, len);
		total = len + 2;
		nfrag = 0;
		for (k = 0; k <= ncut && nfrag < MAXFRAG; k++) {
			size_t end = (k < ncut && nfrag < MAXFRAG - 1) ? (size_t) cuts[k] : total;
			size_t n;
			if (end > total) end = total;
			if (end < pos) end = pos;
			n = end - pos;
			if (!n && nfrag) continue;       /* only the first fragment (base) may be empty */
			frag_mem[nfrag] = (uint8_t *) malloc(n ? n : 1);
			memcpy(frag_mem[nfrag], all + pos, n);
			if (nfrag) { frag_vec[nfrag - 1].iov_base = frag_mem[nfrag]; frag_vec[nfrag - 1].iov_len = n; }
			else { msg.base = frag_mem[0]; msg.used = n; }
			nfrag++;
			pos = end;
		}
		if (nfrag > 1) { msg.cont = frag_vec; msg.clen = (size_t) (nfrag - 1); }
		ev.msg = &msg;
		r = mpt::mpt_dispatch_hash(disp, &ev);
		answer_int(c, r);
		free(pay); free(all); free(cuts); frag_free();
	}
	else {
		drv_begin(c); j_str("ret", "unknown-action"); drv_dbg(); drv_end();
	}
}

int main(int argc, char **argv)
{
	return drv_main(argc, argv);
}
