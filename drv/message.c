/*
 * Driver for spec/Message.tla (C17): one command per public call on a
 * message cursor (used/base/cont/clen) or on the iovec list it stands for.
 *
 * Every fragment is its own exactly sized heap block, the continuation
 * array and the iovec view have exactly the needed number of entries, so a
 * read beyond a fragment or beyond the list is seen by ASan.
 *
 * The driver judges nothing: it copies bytes, follows the cursor and maps
 * return codes to classes (ok / none / refused / missing).
 */
#include "seam.h"   /* message_append.c, array_append.c, buffer_alloc.c are compiled in through the allocation seam */
#include "drv.h"

#include <ctype.h>
#include <sys/uio.h>
#include <sys/mman.h>

#include "message.h"
#include "array.h"
#include "queue.h"

#define FILL 238

static MPT_STRUCT(message) msg;
static uint8_t **blocks;          /* fragment allocations of the current message */
static size_t nblocks;
static struct iovec *contbase;    /* allocation holding msg.cont */
static uint8_t *qstore;           /* queue storage a qget message points into */
static struct iovec *qvec;

extern void seam_set_psize(int);  /* drv/alloc_seam.c: allocation granularity of _mpt_buffer_alloc */

/* where the base of a zero-length fragment points (argument eb of init; the meaning of the
 * message does not depend on it):
 *   slice   its own (zero sized) heap block
 *   null    nowhere
 *   guard   a page without access rights: any dereference faults
 *   foreign unrelated, readable memory filled with the byte fb */
enum { EB_SLICE, EB_NULL, EB_GUARD, EB_FOREIGN };
static int ebase_kind = EB_SLICE;
static uint8_t *guard_page;
static uint8_t foreign[64];
static int last_fired = -1;        /* append: did the injected allocation failure happen */

static void *empty_base(void)
{
	if (ebase_kind == EB_NULL) return 0;
	if (ebase_kind == EB_GUARD) {
		if (!guard_page) {
			void *p = mmap(0, 8192, PROT_NONE, MAP_PRIVATE | MAP_ANONYMOUS, -1, 0);
			if (p == MAP_FAILED) abort();
			guard_page = (uint8_t *) p + 4096;   /* inaccessible in both directions */
		}
		return guard_page;
	}
	return foreign + sizeof(foreign) / 2;
}

static void drv_reset(void)
{
	size_t i;
	ebase_kind = EB_SLICE;
	vf_reset();
	seam_set_psize(0);
	for (i = 0; i < nblocks; i++) free(blocks[i]);
	free(blocks); blocks = 0; nblocks = 0;
	free(contbase); contbase = 0;
	free(qstore); qstore = 0;
	free(qvec); qvec = 0;
	memset(&msg, 0, sizeof(msg));
}

static uint8_t *exact(const uint8_t *src, size_t len)
{
	uint8_t *p = (uint8_t *) malloc(len);
	if (len && src) memcpy(p, src, len);
	return p;
}

/* fragments from (data, cut): the first is base/used, the others cont[] */
static void set_message(const uint8_t *data, size_t dlen, const long long *cut, size_t ncut)
{
	size_t i, pos = 0;
	int kind = ebase_kind;
	drv_reset();
	ebase_kind = kind;
	if (!ncut) return;
	blocks = (uint8_t **) calloc(ncut, sizeof(*blocks));
	nblocks = ncut;
	if (ncut > 1) contbase = (struct iovec *) malloc((ncut - 1) * sizeof(*contbase));
	for (i = 0; i < ncut; i++) {
		size_t l = (size_t) cut[i];
		if (pos + l > dlen) l = dlen - pos;
		void *base;
		if (!l && ebase_kind != EB_SLICE) base = empty_base();
		else base = blocks[i] = exact(data + pos, l);
		if (!i) {
			msg.base = base;
			msg.used = l;
		} else {
			contbase[i - 1].iov_base = base;
			contbase[i - 1].iov_len = l;
		}
		pos += l;
	}
	msg.cont = contbase;
	msg.clen = ncut - 1;
}

/* bytes the cursor stands for (walks the struct, no library call) */
static uint8_t *flatten(const MPT_STRUCT(message) *m, size_t *len)
{
	size_t total = m->used, i, pos = 0;
	uint8_t *out;
	for (i = 0; i < m->clen; i++) total += m->cont[i].iov_len;
	out = (uint8_t *) malloc(total + 1);
	if (m->used) memcpy(out, m->base, m->used);
	pos = m->used;
	for (i = 0; i < m->clen; i++) {
		if (m->cont[i].iov_len) memcpy(out + pos, m->cont[i].iov_base, m->cont[i].iov_len);
		pos += m->cont[i].iov_len;
	}
	*len = total;
	return out;
}
/* iovec view of the cursor: exactly 1 + clen entries */
static struct iovec *view(const MPT_STRUCT(message) *m, size_t *n)
{
	struct iovec *v = (struct iovec *) malloc((1 + m->clen) * sizeof(*v));
	size_t i;
	v[0].iov_base = (void *) m->base;
	v[0].iov_len = m->used;
	for (i = 0; i < m->clen; i++) v[i + 1] = m->cont[i];
	*n = 1 + m->clen;
	return v;
}

static void answer(struct cmd *c, const char *ret, const long long *val, size_t nval, const void *out, size_t outlen)
{
	size_t n, i;
	uint8_t *fl = flatten(&msg, &n);
	long long *cut = (long long *) malloc((1 + msg.clen) * sizeof(*cut));
	cut[0] = (long long) msg.used;
	for (i = 0; i < msg.clen; i++) cut[i + 1] = (long long) msg.cont[i].iov_len;
	drv_begin(c);
	j_str("ret", ret);
	j_ints("val", val, nval);
	j_bytes("out", out, outlen);
	j_bytes("content", fl, n);
	drv_dbg();
	if (last_fired >= 0) j_int("fired", last_fired);
	last_fired = -1;
	j_ints("cut", cut, 1 + msg.clen);
	drv_end();
	free(fl);
	free(cut);
}
static void answer_pos(struct cmd *c, ssize_t r)
{
	long long v = (long long) r;
	if (r >= 0) answer(c, "ok", &v, 1, 0, 0);
	else if (r == -2) answer(c, "none", 0, 0, 0, 0);
	else answer(c, "error", 0, 0, 0, 0);
}

/* matching functions for mpt_memfcn (argument: class name) */
static int in_class(int ch, void *par)
{
	const char *cls = (const char *) par;
	if (!strcmp(cls, "space")) return isspace(ch) ? 1 : 0;
	if (!strcmp(cls, "notspace")) return isspace(ch) ? 0 : 1;
	if (!strcmp(cls, "quote")) return (ch == '"' || ch == '\'') ? 1 : 0;
	if (!strcmp(cls, "zero")) return ch == 0;
	if (!strcmp(cls, "high")) return ch >= 0x80;
	return 0;
}

static char *cstring(const struct cmd *c, const char *key)
{
	size_t l;
	uint8_t *b = drv_bytes(c, key, &l);
	char *s = (char *) malloc(l + 1);
	memcpy(s, b, l);
	s[l] = 0;
	free(b);
	return s;
}

static void drv_step(struct cmd *c)
{
	const char *a = c->action;

	if (!strcmp(a, "none")) {
		drv_reset();
		answer(c, "ok", 0, 0, 0, 0);
	}
	else if (!strcmp(a, "init")) {
		size_t dl, nc;
		uint8_t *data = drv_bytes(c, "data", &dl);
		long long *cut = drv_ints(c, "cut", &nc);
		const char *eb = drv_raw(c, "eb");
		int kind = !eb ? EB_SLICE : !strcmp(eb, "null") ? EB_NULL : !strcmp(eb, "guard") ? EB_GUARD
		         : !strcmp(eb, "foreign") ? EB_FOREIGN : EB_SLICE;
		drv_reset();
		ebase_kind = kind;
		memset(foreign, (int) drv_int(c, "fb", 0), sizeof(foreign));
		set_message(data, dl, cut, nc);
		answer(c, "ok", 0, 0, 0, 0);
		free(data); free(cut);
	}
	else if (!strcmp(a, "qget")) {
		/* message on a (possibly wrapped) queue content */
		MPT_STRUCT(queue) q;
		size_t dl, i;
		size_t max = drv_uint(c, "max", 0), off = drv_uint(c, "qoff", 0);
		uint8_t *data = drv_bytes(c, "data", &dl);
		int r;
		drv_reset();
		qstore = (uint8_t *) malloc(max);
		qvec = (struct iovec *) malloc(sizeof(*qvec));
		if (max) memset(qstore, FILL, max);
		for (i = 0; i < dl && max; i++) qstore[(off + i) % max] = data[i];
		memset(&q, 0, sizeof(q));
		q.base = qstore; q.max = max; q.off = off; q.len = dl;
		r = mpt_message_get(&q, drv_uint(c, "pos", 0), drv_uint(c, "take", 0), &msg, qvec);
		if (r < 0) {
			memset(&msg, 0, sizeof(msg));
			answer(c, "refused", 0, 0, 0, 0);
		} else {
			answer(c, "ok", 0, 0, 0, 0);
		}
		free(data);
	}
	else if (!strcmp(a, "read")) {
		size_t n = drv_uint(c, "n", 0);
		int dest = (int) drv_int(c, "dest", 1);
		uint8_t *tmp = (uint8_t *) malloc(n);
		long long r = (long long) mpt_message_read(&msg, n, dest ? tmp : 0);
		answer(c, "ok", &r, 1, tmp, dest && r >= 0 && (size_t) r <= n ? (size_t) r : 0);
		free(tmp);
	}
	else if (!strcmp(a, "length")) {
		long long r = (long long) mpt_message_length(&msg);
		answer(c, "ok", &r, 1, 0, 0);
	}
	else if (!strcmp(a, "argv")) {
		ssize_t r = mpt_message_argv(&msg, (int) drv_int(c, "sep", 0));
		long long v = (long long) r;
		if (r >= 0) answer(c, "ok", &v, 1, 0, 0);
		else answer(c, "missing", 0, 0, 0, 0);
	}
	else if (!strcmp(a, "memchr") || !strcmp(a, "memrchr")) {
		size_t n;
		struct iovec *v = view(&msg, &n);
		int b = (int) drv_int(c, "b", 0);
		ssize_t r = (a[3] == 'r') ? mpt_memrchr(v, n, b) : mpt_memchr(v, n, b);
		answer_pos(c, r);
		free(v);
	}
	else if (!strcmp(a, "memfcn") || !strcmp(a, "memrfcn")) {
		size_t n;
		struct iovec *v = view(&msg, &n);
		const char *cls = drv_raw(c, "cls");
		ssize_t r = (a[3] == 'r') ? mpt_memrfcn(v, n, in_class, (void *) cls) : mpt_memfcn(v, n, in_class, (void *) cls);
		answer_pos(c, r);
		free(v);
	}
	else if (!strcmp(a, "memstr") || !strcmp(a, "memrstr")) {
		size_t n, ml;
		struct iovec *v = view(&msg, &n);
		uint8_t *raw = drv_bytes(c, "set", &ml);
		uint8_t *m = exact(raw, ml);
		ssize_t r = (a[3] == 'r') ? mpt_memrstr(v, n, m, ml) : mpt_memstr(v, n, m, ml);
		answer_pos(c, r);
		free(v); free(raw); free(m);
	}
	else if (!strcmp(a, "memtok")) {
		size_t n;
		struct iovec *v = view(&msg, &n);
		char *tok = cstring(c, "tok"), *com = cstring(c, "com"), *esc = cstring(c, "esc");
		int hastok = (int) drv_int(c, "hastok", 0);
		ssize_t r = mpt_memtok(v, n, hastok ? tok : 0, *com ? com : 0, *esc ? esc : 0);
		answer_pos(c, r);
		free(v); free(tok); free(com); free(esc);
	}
	else if (!strcmp(a, "memcpy")) {
		/* copy from the cursor's fragments into fresh destination fragments */
		size_t n, nd, i, total = 0, pos = 0;
		struct iovec *v = view(&msg, &n), *d;
		long long *dcut = drv_ints(c, "dcut", &nd);
		uint8_t *out;
		ssize_t r;
		long long rv;
		d = (struct iovec *) malloc(nd * sizeof(*d));
		for (i = 0; i < nd; i++) {
			d[i].iov_len = (size_t) dcut[i];
			/* empty destination fragments point where the empty source fragments do */
			d[i].iov_base = (!d[i].iov_len && ebase_kind != EB_SLICE) ? empty_base() : malloc(d[i].iov_len);
			if (d[i].iov_len) memset(d[i].iov_base, FILL, d[i].iov_len);
			total += d[i].iov_len;
		}
		r = mpt_memcpy((ssize_t) drv_int(c, "n", 0), v, n, d, nd);
		out = (uint8_t *) malloc(total + 1);
		for (i = 0; i < nd; i++) {
			if (d[i].iov_len) memcpy(out + pos, d[i].iov_base, d[i].iov_len);
			pos += d[i].iov_len;
		}
		rv = (long long) r;
		if (r >= 0) answer(c, "ok", &rv, 1, out, total);
		else answer(c, "refused", 0, 0, out, total);
		for (i = 0; i < nd; i++) if (d[i].iov_len || ebase_kind == EB_SLICE) free(d[i].iov_base);
		free(d); free(v); free(dcut); free(out);
	}
	else if (!strcmp(a, "append")) {
		/* array kinds: exact  = no buffer (pre empty) or a buffer that is exactly full, every growth replaces it
		 *              shared = the same with a second owner of the buffer (the append has to take a private copy)
		 *              roomy  = no buffer (pre empty) or a buffer with spare capacity for the whole message
		 * fail = k > 0: the k-th allocation of the call fails */
		MPT_STRUCT(array) arr = MPT_ARRAY_INIT, other = MPT_ARRAY_INIT;
		size_t pl;
		uint8_t *pre = drv_bytes(c, "pre", &pl);
		const char *kind = drv_raw(c, "kind");
		long fail = (long) drv_int(c, "fail", 0);
		int r, fired;
		seam_set_psize((kind && !strcmp(kind, "roomy")) ? 4096 : 1);
		if (pl) mpt_array_append(&arr, pl, pre);
		if (pl && kind && !strcmp(kind, "shared")) mpt_array_clone(&other, &arr);
		vf_fail_after = fail > 0 ? fail - 1 : -1;
		r = mpt_message_append(&arr, &msg);
		fired = fail > 0 && vf_fail_after < 0;
		vf_fail_after = -1;
		last_fired = fired;
		if (r < 0) answer(c, "refused", 0, 0, arr._buf ? (void *) (arr._buf + 1) : 0, arr._buf ? arr._buf->_used : 0);
		else answer(c, "ok", 0, 0, arr._buf ? (void *) (arr._buf + 1) : 0, arr._buf ? arr._buf->_used : 0);
		mpt_array_clone(&arr, 0);
		mpt_array_clone(&other, 0);
		seam_set_psize(0);
		free(pre);
	}
	else if (!strcmp(a, "arrmsg")) {
		MPT_STRUCT(array) arr = MPT_ARRAY_INIT;
		int r = mpt_array_message(&arr, &msg, (int) drv_int(c, "sep", 0));
		long long v = r;
		if (r < 0) answer(c, "refused", 0, 0, 0, 0);
		else answer(c, "ok", &v, 1, arr._buf ? (void *) (arr._buf + 1) : 0, arr._buf ? arr._buf->_used : 0);
		mpt_array_clone(&arr, 0);
	}
	else {
		drv_begin(c);
		j_str("ret", "unknown-action");
		drv_dbg();
		drv_end();
	}
}

int main(int argc, char **argv)
{
	return drv_main(argc, argv);
}
