/*
 * Driver for spec/ValueFill.tla (X19, extension of C19): the remaining value sources and the consumers that
 * walk them.  All calls of drv/iter.c are available unchanged (create/value/advance/reset/clone/consume/fill:
 * the file is compiled into this driver); added here:
 *
 *   create via=file|filename|fd|pipe desc=<hex file content> [pre=<hex profile prefix>]
 *          the content is written to a scratch file ($VERIF_X19_DIR, $TMPDIR or /tmp); file: the profile
 *          description "<pre><path>" on a non-empty grid, filename: mpt_iterator_filename, fd: open +
 *          mpt_iterator_file, pipe: the content is written to a pipe whose read end is handed over
 *   walk i= max= style=loop|consume      the documented loop (read, advance, stop when advance reports no further
 *          element) or mpt_iterator_consume until it fails; at most max elements (0 = no limit)
 *   consumex i= type=<char code> dest=0|1    mpt_iterator_consume with any target type / without target
 *   rangeset i=                          mpt_range_set with the iterator as value
 *   prepare len= [i= ld=]                mpt_values_prepare on a column kept by the driver; with i: the new part is
 *          filled from the instance by the documented loop (at most len elements)
 *   pshare                               a second array takes over the column (mpt_array_clone); prepare reports both
 *   vfile rows=r1,r2,.. cols= order=row|col data=0|1 desc=<hex content>     mpt_values_file, one call per entry of rows
 *          on the same stream
 *   copy fn=64|32|df|fd pts= lds= ldd= vals=p,q,..                  mpt_copy64 / 32 / _df / _fd into a marked target
 *   rdnew max=                           mpt_rawdata_create
 *   rdmod dim= cycle= off= i= max= type=d|f|i|u|x scalar=0|1   elements walked from instance i handed to modify()
 *   rdadv / rdval dim= cycle= / rddim cycle= / rdcount             advance(), values(), dimension_count(), stage_count()
 *   rdclone                                                        clone() of the store object (none for the C object)
 *
 * Every rd.. answer carries "snap": what the query interface reports for the whole store afterwards
 * (stage_count, dimension_count of every stage, content of every reported column as exact doubles).
 * Answers are classes (ok / refused, value / end); no error codes, pointers or capacities.
 */
#include "drv.h"

#define drv_reset iter_reset
#define drv_step  iter_step
#define main      iter_main
#include "iter.c"
#undef drv_reset
#undef drv_step
#undef main

#include <fcntl.h>
#include <sys/stat.h>

#include "values.h"

#define MAXFILES 8
static char *files[MAXFILES];
static int nfiles;
static long filecount;

static _MPT_ARRAY_TYPE(double) parr = MPT_ARRAY_INIT, psib = MPT_ARRAY_INIT;   /* prepared column, array sharing its storage */
static MPT_INTERFACE(metatype) *rdm;
static MPT_INTERFACE(rawdata) *rd;

static void drv_reset(void)
{
	int i;
	iter_reset();
	for (i = 0; i < nfiles; i++) {
		unlink(files[i]);
		free(files[i]);
	}
	nfiles = 0;
	mpt_array_clone(&parr, 0);
	mpt_array_clone(&psib, 0);
	if (rdm) rdm->_vptr->unref(rdm);
	rdm = 0;
	rd = 0;
}

static const char *scratch_dir(void)
{
	const char *d = getenv("VERIF_X19_DIR");
	if (!d || !*d) d = getenv("TMPDIR");
	if (!d || !*d) d = "/tmp";
	return d;
}
static char *scratch_file(const void *data, size_t len)
{
	char *path = (char *) malloc(strlen(scratch_dir()) + 64);
	FILE *f;
	sprintf(path, "%s/x19-%ld-%ld.txt", scratch_dir(), (long) getpid(), filecount++);
	if (!(f = fopen(path, "w"))) { free(path); return 0; }
	if (len) fwrite(data, 1, len, f);
	fclose(f);
	if (nfiles < MAXFILES) files[nfiles++] = path;
	return path;
}

/* current element as double: the conversions of drv/iter.c "value" */
static int read_double(MPT_INTERFACE(iterator) *i, double *x)
{
	const MPT_STRUCT(value) *v = i->_vptr->value(i);
	int r = -1;
	if (!v) return 0;
	if (v->_type == 's') {
		const char *s = v->_addr ? *((const char * const *) v->_addr) : 0;
		r = s ? mpt_convert_string(s, 'd', x) : -1;
		if (r == 0) r = -1;
	}
	else if (v->_type == MPT_type_toVector('c')) {
		const struct iovec *vec = (const struct iovec *) v->_addr;
		char *tmp = (char *) calloc(vec->iov_len + 1, 1);
		memcpy(tmp, vec->iov_base, vec->iov_len);
		r = mpt_convert_string(tmp, 'd', x);
		if (r == 0) r = -1;
		free(tmp);
	}
	else {
		r = mpt_value_convert(v, 'd', x);
	}
	return r >= 0;
}
static int read_typed(MPT_INTERFACE(iterator) *i, int type, void *dst)
{
	const MPT_STRUCT(value) *v;
	if (type == 'd') return read_double(i, (double *) dst);
	if (!(v = i->_vptr->value(i))) return 0;
	return mpt_value_convert(v, type, dst) >= 0;
}
static size_t type_size(int type)
{
	switch (type) {
	  case 'd': return sizeof(double);
	  case 'f': return sizeof(float);
	  case 'i': return sizeof(int32_t);
	  case 'u': return sizeof(uint32_t);
	  case 'x': return sizeof(int64_t);
	  case 't': return sizeof(uint64_t);
	  case 'n': return sizeof(int16_t);
	  case 'q': return sizeof(uint16_t);
	  case 'b': return sizeof(int8_t);
	  case 'y': return sizeof(uint8_t);
	  default: return 0;
	}
}
static double typed_double(int type, const void *p)
{
	switch (type) {
	  case 'd': return *(const double *) p;
	  case 'f': return *(const float *) p;
	  case 'i': return *(const int32_t *) p;
	  case 'u': return *(const uint32_t *) p;
	  case 'x': return (double) *(const int64_t *) p;
	  case 't': return (double) *(const uint64_t *) p;
	  case 'n': return *(const int16_t *) p;
	  case 'q': return *(const uint16_t *) p;
	  case 'b': return *(const int8_t *) p;
	  case 'y': return *(const uint8_t *) p;
	  default: return 0;
	}
}
static void j_item_double(double x)
{
	long long v[6];
	d_limbs(x, v);
	j_sep();
	fprintf(drv_out, "[%lld,%lld,%lld,%lld,%lld,%lld]", v[0], v[1], v[2], v[3], v[4], v[5]);
}
static void j_doubles(const char *key, const double *p, size_t n)
{
	size_t k;
	j_arr_open(key);
	for (k = 0; k < n; k++) j_item_double(p[k]);
	j_arr_close();
}

/* the documented loop: read, advance, stop when advance reports no further element */
static size_t walk_loop(MPT_INTERFACE(iterator) *i, int type, size_t max, void **out, const char **how)
{
	size_t n = 0, cap = 16, sz = type_size(type);
	uint8_t *buf = (uint8_t *) malloc(cap * sz);
	*how = "full";
	while (!max || n < max) {
		int r;
		if (n == cap) buf = (uint8_t *) realloc(buf, (cap *= 2) * sz);
		if (!read_typed(i, type, buf + n * sz)) { *how = "noval"; break; }
		n++;
		if ((r = i->_vptr->advance(i)) < 0) { *how = "adverr"; break; }
		if (!r) { *how = "last"; break; }
	}
	*out = buf;
	return n;
}

/* ---------- raw data store ---------- */
static const char type_chars[] = "dfiuxtnqby";
static int traits_type(const MPT_STRUCT(type_traits) *t)
{
	const char *c;
	if (!t) return 0;
	for (c = type_chars; *c; c++) if (mpt_type_traits(*c) == t) return *c;
	return '?';
}
static void j_store(const MPT_STRUCT(value_store) *s)
{
	const MPT_STRUCT(buffer) *b = s ? s->_d._buf : 0;
	int type = b ? traits_type(b->_content_traits) : 0;
	size_t sz = type_size(type), n = (b && sz) ? b->_used / sz : 0, k;
	j_sep();
	fputc('[', drv_out);
	drv_first = 1;
	for (k = 0; k < n; k++) j_item_double(typed_double(type, ((const uint8_t *) (b + 1)) + k * sz));
	fputc(']', drv_out);
	drv_first = 0;
}
/* what the query interface reports: stage count, dimension count of every stage, every column */
static void j_snapshot(void)
{
	int ns = rd ? rd->_vptr->stage_count(rd) : -1, s;
	j_int("ns", ns);
	j_arr_open("st");
	for (s = 0; s < ns; s++) {
		int dc = rd->_vptr->dimension_count(rd, s), d;
		j_sep();
		fputc('[', drv_out);
		drv_first = 1;
		for (d = 0; d < dc; d++) j_store(rd->_vptr->values(rd, (unsigned) d, s));
		fputc(']', drv_out);
		drv_first = 0;
	}
	j_arr_close();
	j_arr_open("alt");      /* a clone of the store: the C object has none */
	j_arr_close();
}
static void j_types(void)      /* element types of the columns (diagnostics) */
{
	int ns = rd ? rd->_vptr->stage_count(rd) : -1, s;
	char buf[256];
	size_t n = 0;
	for (s = 0; s < ns && n + 8 < sizeof(buf); s++) {
		int dc = rd->_vptr->dimension_count(rd, s), d;
		for (d = 0; d < dc && n + 8 < sizeof(buf); d++) {
			const MPT_STRUCT(value_store) *v = rd->_vptr->values(rd, (unsigned) d, s);
			int t = (v && v->_d._buf) ? traits_type(v->_d._buf->_content_traits) : 0;
			buf[n++] = t ? (char) t : '-';
		}
		buf[n++] = '|';
	}
	buf[n] = 0;
	j_str("types", buf);
}

static void drv_step(struct cmd *c)
{
	const char *a = c->action;
	const char *via = drv_raw(c, "via");
	long i = (long) drv_int(c, "i", 1) - 1;

	if (!strcmp(a, "create") && via
	    && (!strcmp(via, "file") || !strcmp(via, "filename") || !strcmp(via, "fd") || !strcmp(via, "pipe"))) {
		size_t dl = 0, pl = 0;
		uint8_t *desc = drv_bytes(c, "desc", &dl);
		MPT_INTERFACE(metatype) *m = 0;
		int r;
		drv_reset();
		if (!strcmp(via, "pipe")) {
			int p[2];
			if (pipe(p) >= 0) {
				if (dl && write(p[1], desc, dl) < 0) { close(p[0]); p[0] = -1; }
				close(p[1]);
				if (p[0] >= 0 && !(m = mpt_iterator_file(p[0]))) close(p[0]);
			}
		}
		else {
			char *path = scratch_file(desc, dl);
			if (path && !strcmp(via, "filename")) m = mpt_iterator_filename(path);
			else if (path && !strcmp(via, "fd")) {
				int fd = open(path, O_RDONLY);
				if (fd >= 0 && !(m = mpt_iterator_file(fd))) close(fd);
			}
			else if (path) {
				MPT_STRUCT(array) arr = MPT_ARRAY_INIT;
				double g[2] = { 0, 1 };
				uint8_t *pre = drv_bytes(c, "pre", &pl);
				char *d = (char *) malloc(pl + strlen(path) + 1);
				memcpy(d, pre, pl);
				strcpy(d + pl, path);
				make_array(&arr, 'd', g, sizeof(g));
				m = mpt_iterator_profile(&arr, d);
				mpt_array_clone(&arr, 0);
				free(d);
				free(pre);
			}
		}
		r = add_inst(m);
		free(desc);
		answer(c, r >= 0 ? "ok" : (r == -1 ? "refused" : "noiter"));
		return;
	}
	if (!strcmp(a, "prepare")) {
		long len = (long) drv_int(c, "len", 0), ld = (long) drv_int(c, "ld", 1);
		double *t = mpt_values_prepare(&parr, len * (len > 0 ? ld : 1));
		const MPT_STRUCT(buffer) *b;
		const char *how = "-";
		long filled = -1;
		if (t && drv_has(c, "i") && i >= 0 && i < ninst && it[i] && len > 0) {
			/* the new part is filled from the source */
			filled = 0;
			how = "full";
			while (filled < len) {
				int r;
				if (!read_double(it[i], t + filled * ld)) { how = "noval"; break; }
				filled++;
				if ((r = it[i]->_vptr->advance(it[i])) < 0) { how = "adverr"; break; }
				if (!r) { how = "last"; break; }
			}
		}
		b = parr._buf;
		drv_begin(c);
		j_str("ret", t ? "ok" : "refused");
		j_doubles("arr", b ? (const double *) (b + 1) : 0, b ? b->_used / sizeof(double) : 0);
		j_doubles("sib", psib._buf ? (const double *) (psib._buf + 1) : 0, psib._buf ? psib._buf->_used / sizeof(double) : 0);
		j_int("at", (t && b) ? (long long) (t - (const double *) (b + 1)) : -1);
		if (drv_has(c, "i")) { j_int("n", filled); j_str("how", how); }
		drv_dbg();
		j_int("used", b ? (long long) b->_used : -1);
		j_int("same", (b && b == psib._buf) ? 1 : 0);
		drv_end();
		return;
	}
	if (!strcmp(a, "pshare")) {
		/* a second array takes over the prepared column (same storage until one of them is changed) */
		const MPT_STRUCT(buffer) *b = parr._buf;
		if (!b) { answer(c, "skipped"); return; }      /* no column yet: no call made */
		mpt_array_clone(&psib, &parr);
		drv_begin(c);
		j_str("ret", "ok");
		j_doubles("arr", (const double *) (b + 1), b->_used / sizeof(double));
		j_doubles("sib", psib._buf ? (const double *) (psib._buf + 1) : 0, psib._buf ? psib._buf->_used / sizeof(double) : 0);
		drv_dbg();
		j_int("same", (parr._buf == psib._buf) ? 1 : 0);
		drv_end();
		return;
	}
	if (!strcmp(a, "vfile")) {
		/* rows=r1,r2,..: consecutive calls on the same stream, each call filling its own block of the target */
		size_t dl = 0, nc = 0, q;
		uint8_t *desc = drv_bytes(c, "desc", &dl);
		long long *rows = drv_ints(c, "rows", &nc);
		long cols = (long) drv_int(c, "cols", 0), k, total = 0, off = 0;
		const char *order = drv_raw(c, "order");
		int with = (int) drv_int(c, "data", 1), r = -999999;
		double *t;
		char *path = scratch_file(desc, dl);
		FILE *f = path ? fopen(path, "r") : 0;
		long long codes[16];
		if (nc > 16) nc = 16;
		for (q = 0; q < nc; q++) total += (long) rows[q] * cols;
		t = (double *) malloc((size_t) (total > 0 ? total : 1) * sizeof(*t));
		for (k = 0; k < total; k++) t[k] = -12345.0;
		for (q = 0; f && q < nc; q++) {
			r = mpt_values_file(f, (order && !strcmp(order, "col")) ? -(long) rows[q] : (long) rows[q], cols, with ? t + off : 0);
			codes[q] = r;
			off += (long) rows[q] * cols;
		}
		if (f) fclose(f);
		if (path && nfiles && files[nfiles - 1] == path) {   /* not needed any longer */
			unlink(path);
			free(path);
			nfiles--;
		}
		drv_begin(c);
		j_arr_open("ret");
		for (q = 0; q < nc; q++) j_item_str(!f ? "nofile" : (codes[q] == 0 ? "ok" : (codes[q] < 0 ? "short" : "other")));
		j_arr_close();
		j_doubles("vals", t, total > 0 ? (size_t) total : 0);
		drv_dbg();
		j_ints("codes", codes, f ? nc : 0);
		drv_end();
		free(t);
		free(rows);
		free(desc);
		return;
	}
	if (!strcmp(a, "copy")) {
		/* strided copy helpers: fn=64|32|df|fd pts= lds= ldd= vals=p,q,... (source values) */
		const char *fn = drv_raw(c, "fn");
		int pts = (int) drv_int(c, "pts", 0), lds = (int) drv_int(c, "lds", 1), ldd = (int) drv_int(c, "ldd", 1);
		size_t nv = 0, k, dl = (size_t) ((pts > 0 ? (pts - 1) * ldd + 1 : 0) + 2);
		long long *v = drv_ints(c, "vals", &nv);
		double *sd = (double *) malloc((nv / 2 + 1) * sizeof(*sd)), *dd = (double *) malloc(dl * sizeof(*dd));
		float *sf = (float *) malloc((nv / 2 + 1) * sizeof(*sf)), *df = (float *) malloc(dl * sizeof(*df));
		int isf = 0;
		nv /= 2;
		for (k = 0; k < nv; k++) { sd[k] = (double) v[2 * k] / (double) v[2 * k + 1]; sf[k] = (float) sd[k]; }
		for (k = 0; k < dl; k++) { dd[k] = -12345.0; df[k] = -12345.0f; }
		if (fn && !strcmp(fn, "64")) mpt_copy64(pts, sd, lds, dd, ldd);
		else if (fn && !strcmp(fn, "32")) { mpt_copy32(pts, sf, lds, df, ldd); isf = 1; }
		else if (fn && !strcmp(fn, "df")) { mpt_copy_df(pts, sd, lds, df, ldd); isf = 1; }
		else if (fn && !strcmp(fn, "fd")) mpt_copy_fd(pts, sf, lds, dd, ldd);
		drv_begin(c);
		j_arr_open("dest");
		for (k = 0; k < dl; k++) j_item_double(isf ? (double) df[k] : dd[k]);
		j_arr_close();
		drv_dbg();
		drv_end();
		free(v); free(sd); free(dd); free(sf); free(df);
		return;
	}
	if (!strcmp(a, "rdnew")) {
		if (rdm) rdm->_vptr->unref(rdm);
		rd = 0;
		if ((rdm = mpt_rawdata_create((long) drv_int(c, "max", -1)))) {
			const MPT_STRUCT(named_traits) *nt = mpt_rawdata_type_traits();
			if (!nt || MPT_metatype_convert(rdm, nt->type, &rd) < 0) rd = 0;
		}
		drv_begin(c);
		j_str("ret", rd ? "ok" : "refused");
		j_snapshot();
		drv_dbg();
		drv_end();
		return;
	}
	if (!strncmp(a, "rd", 2)) {
		if (!rd) { answer(c, "nostore"); return; }
		if (!strcmp(a, "rdmod")) {
			const char *ts = drv_raw(c, "type");
			int type = (ts && *ts) ? *ts : 'd', r = -999;
			size_t n = 0, max = (size_t) drv_uint(c, "max", 0);
			void *data = 0;
			const char *how = "noinst";
			MPT_STRUCT(valdest) vd = MPT_VALDEST_INIT;
			MPT_STRUCT(value) val = MPT_VALUE_INIT(0, 0);
			struct iovec vec;
			int withvd = drv_uint(c, "cycle", 0) || drv_uint(c, "off", 0);   /* no destination: current cycle, start */
			vd.cycle = (uint32_t) drv_uint(c, "cycle", 0);
			vd.offset = (uint32_t) drv_uint(c, "off", 0);
			if (i >= 0 && i < ninst && it[i]) n = walk_loop(it[i], type, max, &data, &how);
			if (drv_int(c, "scalar", 0) && n == 1) {
				MPT_value_set(&val, type, data);
			} else {
				vec.iov_base = data;
				vec.iov_len = n * type_size(type);
				MPT_value_set(&val, MPT_type_toVector(type), &vec);
			}
			if (data && n) r = rd->_vptr->modify(rd, (unsigned) drv_uint(c, "dim", 0), &val, withvd ? &vd : 0);
			drv_begin(c);
			j_str("ret", !n ? "skipped" : (r >= 0 ? "ok" : "refused"));   /* skipped: the source had no element, no call made */
			j_int("n", (long long) n);
			j_snapshot();
			drv_dbg();
			j_int("code", r);
			j_str("how", how);
			j_types();
			drv_end();
			free(data);
			return;
		}
		if (!strcmp(a, "rdclone")) {
			MPT_INTERFACE(metatype) *cl = rdm->_vptr->clone(rdm);
			drv_begin(c);
			j_str("ret", cl ? "ok" : "none");
			j_snapshot();
			drv_dbg();
			drv_end();
			if (cl) cl->_vptr->unref(cl);
			return;
		}
		if (!strcmp(a, "rdadv")) {
			int r;
			if (drv_int(c, "guard", 0) && rd->_vptr->dimension_count(rd, -1) <= 0) {
				answer(c, "skipped");      /* the current cycle holds no data: no call made */
				return;
			}
			r = rd->_vptr->advance(rd);
			drv_begin(c);
			j_str("ret", r >= 0 ? "ok" : "refused");
			j_int("idx", r >= 0 ? r : -1);
			j_snapshot();
			drv_dbg();
			j_int("code", r);
			drv_end();
			return;
		}
		if (!strcmp(a, "rdval")) {
			const MPT_STRUCT(value_store) *s = rd->_vptr->values(rd, (unsigned) drv_uint(c, "dim", 0), (int) drv_int(c, "cycle", -1));
			drv_begin(c);
			j_str("ret", s ? "ok" : "none");
			j_arr_open("col");
			if (s) j_store(s);
			j_arr_close();
			j_snapshot();
			drv_dbg();
			drv_end();
			return;
		}
		if (!strcmp(a, "rddim")) {
			int r = rd->_vptr->dimension_count(rd, (int) drv_int(c, "cycle", -1));
			drv_begin(c);
			j_str("ret", r >= 0 ? "ok" : "refused");
			j_int("n", r >= 0 ? r : -1);
			j_snapshot();
			drv_dbg();
			j_int("code", r);
			drv_end();
			return;
		}
		if (!strcmp(a, "rdcount")) {
			int r = rd->_vptr->stage_count(rd);
			drv_begin(c);
			j_str("ret", r >= 0 ? "ok" : "refused");
			j_int("n", r);
			j_snapshot();
			drv_dbg();
			drv_end();
			return;
		}
	}
	if (!strcmp(a, "walk") || !strcmp(a, "consumex") || !strcmp(a, "rangeset")) {
		if (i < 0 || i >= ninst || !it[i]) { answer(c, "noinst"); return; }
	}
	if (!strcmp(a, "walk")) {
		const char *style = drv_raw(c, "style");
		size_t max = (size_t) drv_uint(c, "max", 0), n = 0;
		const char *how = "full";
		double *vals = 0;
		if (style && !strcmp(style, "consume")) {
			size_t cap = 16;
			vals = (double *) malloc(cap * sizeof(*vals));
			while (!max || n < max) {
				double x;
				if (mpt_iterator_consume(it[i], 'd', &x) < 0) { how = "end"; break; }
				if (n == cap) vals = (double *) realloc(vals, (cap *= 2) * sizeof(*vals));
				vals[n++] = x;
			}
		}
		else {
			void *out = 0;
			n = walk_loop(it[i], 'd', max, &out, &how);
			vals = (double *) out;
		}
		drv_begin(c);
		j_str("ret", "ok");
		j_int("n", (long long) n);
		j_doubles("vals", vals, n);
		j_str("how", how);
		drv_dbg();
		drv_end();
		free(vals);
		return;
	}
	if (!strcmp(a, "consumex")) {
		int type = (int) drv_int(c, "type", 'd'), with = (int) drv_int(c, "dest", 1), r;
		union { double d; float f; uint8_t raw[32]; } u;
		memset(&u, 0x5a, sizeof(u));
		r = mpt_iterator_consume(it[i], type, with ? &u : 0);
		drv_begin(c);
		j_str("ret", r >= 0 ? "value" : "end");
		if (r >= 0 && with && type == 'd') j_double("d", u.d);
		else if (r >= 0 && with && type == 'f') j_double("d", (double) u.f);
		else { long long none = 0; j_ints("d", &none, 0); }
		{
			size_t k, keep = 1;   /* a refused call leaves the target untouched */
			for (k = 0; k < sizeof(u); k++) if (u.raw[k] != 0x5a) keep = 0;
			j_int("kept", (r < 0 || !with) ? (long long) keep : 1);
		}
		drv_dbg();
		j_int("code", r);
		drv_end();
		return;
	}
	if (!strcmp(a, "rangeset")) {
		MPT_STRUCT(range) r;
		MPT_STRUCT(value) val = MPT_VALUE_INIT(0, 0);
		MPT_INTERFACE(iterator) *ptr = it[i];
		int ret;
		r.min = -7; r.max = -9;
		MPT_value_set(&val, MPT_ENUM(TypeIteratorPtr), &ptr);
		ret = mpt_range_set(&r, &val);
		drv_begin(c);
		j_str("ret", ret >= 0 ? "ok" : "refused");
		j_double("min", r.min);
		j_double("max", r.max);
		drv_dbg();
		j_int("code", ret);
		drv_end();
		return;
	}
	iter_step(c);
}

int main(int argc, char **argv)
{
	return drv_main(argc, argv);
}
