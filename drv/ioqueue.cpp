/*
 * Driver for spec/IoQueue.tla (C13, C++ wrapper io::queue of mpt++/io_queue.cpp).
 */
#include "drv.h"

#include "queue.h"
#include "io.h"

class probe : public mpt::io::queue
{
public:
	probe(size_t len) : mpt::io::queue(len) { }
	const ::mpt::queue &raw() const { return _d; }
};
static probe *q;

static void drv_reset(void)
{
	delete q;
	q = 0;
}
static void answer(struct cmd *c, const char *ret, const long long *nums, size_t nnum, const void *out, size_t outlen)
{
	const ::mpt::queue &r = q->raw();
	size_t n = r.len, i;
	uint8_t *tmp = (uint8_t *) calloc(n + 1, 1);
	int gr = n ? mpt_queue_get(&r, 0, n, tmp) : 0;
	drv_begin(c);
	j_str("ret", ret);
	{
		/* out = numbers followed by bytes */
		long long *all = (long long *) calloc(nnum + outlen + 1, sizeof(*all));
		for (i = 0; i < nnum; i++) all[i] = nums[i];
		for (i = 0; i < outlen; i++) all[nnum + i] = ((const uint8_t *) out)[i];
		j_ints("out", all, nnum + outlen);
		free(all);
	}
	j_bytes("content", tmp, gr < 0 ? 0 : n);
	drv_dbg();
	j_int("max", (long long) r.max); j_int("off", (long long) r.off); j_int("len", (long long) r.len);
	drv_end();
	free(tmp);
}
static void drv_step(struct cmd *c)
{
	const char *a = c->action;
	size_t dl = 0;
	uint8_t *data = 0;
	if (!strcmp(a, "init")) {
		drv_reset();
		q = new probe(drv_uint(c, "cap", 0));
		answer(c, "true", 0, 0, 0, 0);
		return;
	}
	if (!q) q = new probe(0);
	if (!strcmp(a, "push")) {
		data = drv_bytes(c, "data", &dl);
		bool r = q->push(data, dl);
		answer(c, r ? "true" : "false", 0, 0, 0, 0);
	}
	else if (!strcmp(a, "unshift")) {
		data = drv_bytes(c, "data", &dl);
		bool r = q->unshift(drv_int(c, "zero", 0) ? 0 : data, dl);
		answer(c, r ? "true" : "false", 0, 0, 0, 0);
	}
	else if (!strcmp(a, "pop") || !strcmp(a, "shift")) {
		size_t n = drv_uint(c, "n", 0);
		int buf = (int) drv_int(c, "buf", 1);
		uint8_t *tmp = (uint8_t *) calloc(n + 1, 1);
		bool r = (a[0] == 'p') ? q->pop(buf ? tmp : 0, n) : q->shift(buf ? tmp : 0, n);
		answer(c, r ? "true" : "false", 0, 0, tmp, (r && buf) ? n : 0);
		free(tmp);
	}
	else if (!strcmp(a, "write")) {
		size_t count = drv_uint(c, "count", 0), part = drv_uint(c, "part", 0);
		data = drv_bytes(c, "data", &dl);
		long long r = q->write(count, data, part);
		answer(c, "n", &r, 1, 0, 0);
	}
	else if (!strcmp(a, "read")) {
		size_t count = drv_uint(c, "count", 0), part = drv_uint(c, "part", 1);
		uint8_t *tmp = (uint8_t *) calloc(count * part + 1, 1);
		long long r = q->read(count, tmp, part);
		answer(c, "n", &r, 1, tmp, r > 0 ? (size_t) r * part : 0);
		free(tmp);
	}
	else if (!strcmp(a, "peek")) {
		size_t n = drv_uint(c, "n", 0);
		size_t have = q->raw().len;
		size_t want = n ? (n < have ? n : have) : have;
		mpt::span<const uint8_t> s = q->peek(n);
		/* the view must hold at least the wanted bytes; report exactly those */
		if (s.size() < want) answer(c, "short", 0, 0, s.begin(), s.size());
		else answer(c, "true", 0, 0, s.begin(), want);
	}
	else {
		answer(c, "unknown-action", 0, 0, 0, 0);
	}
	free(data);
}
int main(int argc, char **argv)
{
	return drv_main(argc, argv);
}
