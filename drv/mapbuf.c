/*
 * Driver for spec/MapBuf.tla and spec/BitMap.tla (X23, extension of C04).
 *
 * The step code of drv/cowarray.c is reused unchanged (included under other
 * names): every C04 array/buffer/slice call on one of several handles, all
 * handles read back after every call.  Added here:
 *   init page=<n>     page size of the mapped buffers (0: the machine's)
 *   mnew h= data= imm= nc= typ=
 *                     the handle gets a buffer made by _mpt_buffer_map()
 *   meta h= from=     handle h becomes the array held by a new buffer metatype
 *                     mpt_meta_buffer(&arr[from])    (from=0: released)
 *   metaclone h= from=  ... by the clone() of the metatype behind handle `from`
 *   encfini h=        mpt_encode_array_fini() on an encode_array holding
 *                     handle h's reference (the handle is empty afterwards)
 *   bminit/bmset/bmunset/bmget   mpt_bitmap_* on an exactly sized heap block
 * drv/mapbuf_seam.c compiles buffer_map.c with guard pages / canaries; damage
 * is reported as frozen="overrun".  No judgement: bytes are copied, return
 * codes mapped to classes.
 */
#include "drv.h"

#define main      cow_main
#define drv_step  cow_step
#define drv_reset cow_reset
#include "cowarray.c"
#undef main
#undef drv_step
#undef drv_reset

#include "meta.h"

extern void mapseam_set_psize(int);
extern void mapseam_reset(void);
extern int mapseam_check(void);
extern int mapseam_live(void);

/* metatypes standing behind handles (their array is read through the handle slot) */
static MPT_INTERFACE(metatype) *metas[MAXH];
static int meta_from = MAXH + 1;   /* handles meta_from.. stand for metatypes ("init meta=<k>") */
#define IS_META(h) ((h) + 1 >= meta_from)

/* bitmap under test: an exactly sized heap block (any access outside is a sanitizer fault) */
static uint8_t *bm = 0;
static size_t bmlen = 0;

static void metas_drop(void)
{
	int i;
	for (i = 0; i < MAXH; i++) metas[i] = 0;   /* abandoned like the buffers */
}
static void drv_reset(void)
{
	cow_reset();
	metas_drop();
	meta_from = MAXH + 1;
	mapseam_reset();
	mapseam_set_psize(0);
	free(bm); bm = 0; bmlen = 0;
}

/* the array a buffer metatype holds, as the metatype hands it out */
static MPT_STRUCT(buffer) *meta_buffer_of(MPT_INTERFACE(metatype) *mt)
{
	MPT_STRUCT(buffer) *b = 0;
	if (!mt) return 0;
	if (mt->_vptr->convertable.convert((void *) mt, MPT_ENUM(TypeBufferPtr), &b) < 0) return 0;
	return b;
}
static void meta_sync(void)
{
	int i;
	for (i = 0; i < nh; i++) if (metas[i]) arr[i]._buf = meta_buffer_of(metas[i]);
}

/* positions at the limits of long: "smax-k" = LONG_MAX-k, "smin+k" = LONG_MIN+k */
static long bm_pos(const struct cmd *c)
{
	const char *r = drv_raw(c, "pos");
	if (r && !strncmp(r, "smin+", 5)) return LONG_MIN + strtol(r + 5, 0, 0);
	return drv_long(c, "pos", 0);
}
static void bm_answer(struct cmd *c, const char *ret)
{
	drv_begin(c);
	j_str("ret", ret);
	j_bytes("mem", bm, bmlen);
	drv_dbg();
	j_int("len", (long long) bmlen);
	drv_end();
}

static void my_step(struct cmd *c)
{
	const char *a = c->action;
	int h = (int) drv_int(c, "h", 1) - 1;

	if (!strcmp(a, "init")) {
		metas_drop();
		mapseam_reset();
		mapseam_set_psize((int) drv_int(c, "page", 0));
		meta_from = (int) drv_int(c, "meta", MAXH + 1);
		cow_step(c);
		return;
	}
	if (!strncmp(a, "bm", 2)) {
		if (!strcmp(a, "bminit")) {
			size_t dl = 0;
			uint8_t *d = drv_bytes(c, "data", &dl);
			free(bm);
			bmlen = dl;
			bm = (uint8_t *) malloc(dl);       /* exact: no slack behind the map */
			if (dl) memcpy(bm, d, dl);
			free(d);
			bm_answer(c, "ok");
			return;
		}
		else {
			long pos = bm_pos(c);
			int r;
			if (!strcmp(a, "bmset")) r = mpt_bitmap_set(bm, bmlen, pos);
			else if (!strcmp(a, "bmunset")) r = mpt_bitmap_unset(bm, bmlen, pos);
			else if (!strcmp(a, "bmget")) {
				r = mpt_bitmap_get(bm, bmlen, pos);
				bm_answer(c, r < 0 ? "refused" : r == 0 ? "0" : r == 1 ? "1" : "other");
				return;
			}
			else { bm_answer(c, "unknown-action"); return; }
			bm_answer(c, r < 0 ? "refused" : r == 0 ? "unchanged" : "changed");
			return;
		}
	}
	if (h < 0 || h >= nh) {
		cow_step(c);
		return;
	}
	if (!strcmp(a, "mnew")) {
		MPT_STRUCT(array) *ar = &arr[h];
		size_t dl = 0;
		uint8_t *data = drv_bytes(c, "data", &dl);
		int flags = (drv_int(c, "imm", 0) ? MPT_ENUM(BufferImmutable) : 0)
		          | (drv_int(c, "nc", 0) ? MPT_ENUM(BufferNoCopy) : 0);
		MPT_STRUCT(buffer) *b;
		if (ar->_buf || IS_META(h)) { answer(c, "skipped", 0, 0, 0, 0, 0); free(data); return; }
		if (!(b = _mpt_buffer_map(dl, flags))) {
			answer(c, "refused", 0, 0, 0, 0, errno);
			free(data);
			return;
		}
		if (b->_size < dl) {          /* the driver fills what it asked for; a smaller buffer is reported, not written */
			size_t sz = b->_size;
			b->_vptr->unref(b);
			answer(c, "short", 0, 0, sz, 0, 0);
			free(data);
			return;
		}
		b->_content_traits = traits_of(drv_raw(c, "typ"));
		if (dl) memcpy(b + 1, data, dl);
		b->_used = dl;
		ar->_buf = b;
		if ((flags & MPT_ENUM(BufferImmutable)) && nsnaps < 64) {
			snaps[nsnaps].buf = b;
			snaps[nsnaps].used = dl;
			snaps[nsnaps].bytes = (uint8_t *) malloc(dl + 1);
			memcpy(snaps[nsnaps].bytes, data, dl);
			nsnaps++;
		}
		answer(c, "ok", 0, 0, 0, 0, 0);
		free(data);
		return;
	}
	if (!strcmp(a, "meta") || !strcmp(a, "metaclone")) {
		int g = (int) drv_int(c, "from", 0) - 1;
		MPT_INTERFACE(metatype) *mt = 0, *old = metas[h];
		size_t size0 = arr[h]._buf ? arr[h]._buf->_size : 0, used0 = arr[h]._buf ? arr[h]._buf->_used : 0;
		/* a slot is either a plain array or stands for a metatype (fixed per behaviour) */
		if (!IS_META(h) || g >= nh || g == h) { answer(c, "skipped", 0, 0, size0, used0, 0); return; }
		if (a[4] == 'c' && (g < 0 || !IS_META(g) || !metas[g] || !arr[g]._buf)) { answer(c, "skipped", 0, 0, size0, used0, 0); return; }
		if (a[4] != 'c' && g >= 0 && IS_META(g)) { answer(c, "skipped", 0, 0, size0, used0, 0); return; }
		if (g >= 0) {
			if (a[4] == 'c') {
				mt = metas[g]->_vptr->clone(metas[g]);
			} else {
				mt = mpt_meta_buffer(&arr[g]);
			}
			if (!mt) { answer(c, "refused", 0, 0, size0, used0, errno); return; }
		}
		if (old) old->_vptr->unref(old);
		metas[h] = mt;
		arr[h]._buf = 0;
		meta_sync();
		answer(c, "ok", 0, 0, size0, used0, 0);
		return;
	}
	if (!strcmp(a, "encfini")) {
		MPT_STRUCT(encode_array) ea;
		size_t size0 = arr[h]._buf ? arr[h]._buf->_size : 0, used0 = arr[h]._buf ? arr[h]._buf->_used : 0;
		if (IS_META(h)) { answer(c, "skipped", 0, 0, size0, used0, 0); return; }
		memset(&ea, 0, sizeof(ea));
		ea._d._buf = arr[h]._buf;      /* the encode array takes over the handle's reference */
		arr[h]._buf = 0;
		mpt_encode_array_fini(&ea);
		answer(c, "ok", 0, 0, size0, used0, 0);
		return;
	}
	/* calls of C04 on a slot standing for a metatype are not the caller's to make */
	if (IS_META(h)) {
		answer(c, "skipped", 0, 0, 0, 0, 0);
		return;
	}
	if (!strcmp(a, "clone")) {
		int g = (int) drv_int(c, "from", 0) - 1;
		if (g >= 0 && g < nh && metas[g]) {
			/* assignment from the array a metatype hands out */
			meta_sync();
		}
	}
	cow_step(c);
}

static void drv_step(struct cmd *c)
{
	char *mem = 0;
	size_t ml = 0;
	FILE *real = drv_out, *ms = open_memstream(&mem, &ml);
	if (!ms) { my_step(c); return; }
	drv_out = ms;
	my_step(c);
	fclose(ms);
	drv_out = real;
	if (mapseam_check()) {
		char *p = strstr(mem, "\"frozen\":\"ok\"");
		if (p) {
			/* same length: "ok" -> "OV" would be cryptic; rewrite the line */
			fwrite(mem, 1, (size_t) (p - mem), real);
			fputs("\"frozen\":\"overrun\"", real);
			fputs(p + strlen("\"frozen\":\"ok\""), real);
			free(mem);
			return;
		}
	}
	fwrite(mem, 1, ml, real);
	free(mem);
}

int main(int argc, char **argv)
{
	return drv_main(argc, argv);
}
