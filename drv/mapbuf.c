/*
 * Driver for spec/MapBuf.tla and spec/BitMap.tla (X23, extension of C04).
 *
 * The step code of drv/cowarray.c is reused unchanged (included under other
 * names): every C04 array/buffer/slice call on one of several handles, all
 * handles read back after every call.  Added here:
 *   init page=<n>     page size of the mapped buffers (0: the machine's)
 *   mnew h= data= imm= nc= typ=
 *                     the handle gets a buffer made by _mpt_buffer_map()
 *   meta h= from=     handle h becomes the array held by a new buffer metatype
 *                     mpt_meta_buffer(&arr[from])    (from=0: released)
 *   metaclone h= from=  ... by the clone() of the metatype behind handle `from`
 *   encfini h=        mpt_encode_array_fini() on an encode_array holding
 *                     handle h's reference (the handle is empty afterwards)
 *   bminit/bmset/bmunset/bmget   mpt_bitmap_* on an exactly sized heap block
 *   itext data= map=  a character array (map=1: mapped buffer) and instance 1 =
 *                     mpt_meta_buffer(&array); the array handle is dropped
 *   iadv i= / ireset i= / iclone i= from= / iunref i=
 *                     iterator advance / reset, metatype clone / unref; after
 *                     every call the current value of EVERY instance is read
 * drv/mapbuf_seam.c compiles buffer_map.c with guard pages / canaries; damage
 * is reported as frozen="overrun".  No judgement: bytes are copied, return
 * codes mapped to classes.
 */
#include "drv.h"

#define main      cow_main
#define drv_step  cow_step
#define drv_reset cow_reset
#include "cowarray.c"
#undef main
#undef drv_step
#undef drv_reset

#include "meta.h"
#include <sys/uio.h>

extern void mapseam_set_psize(int);
extern void mapseam_reset(void);
extern int mapseam_check(void);
extern int mapseam_live(void);

/* metatypes standing behind handles (their array is read through the handle slot) */
static MPT_INTERFACE(metatype) *metas[MAXH];
static int meta_from = MAXH + 1;   /* handles meta_from.. stand for metatypes ("init meta=<k>") */
#define IS_META(h) ((h) + 1 >= meta_from)

/* bitmap under test: an exactly sized heap block (any access outside is a sanitizer fault) */
static uint8_t *bm = 0;
static size_t bmlen = 0;

/* instances of the buffer metatype over one text (spec/MetaIter.tla) */
static MPT_INTERFACE(metatype) *inst[MAXH];
static int ninst = 0;

static void metas_drop(void)
{
	int i;
	for (i = 0; i < MAXH; i++) metas[i] = 0;   /* abandoned like the buffers */
	for (i = 0; i < MAXH; i++) inst[i] = 0;
}
static MPT_INTERFACE(iterator) *inst_iter(MPT_INTERFACE(metatype) *mt)
{
	MPT_INTERFACE(iterator) *it = 0;
	if (!mt || mt->_vptr->convertable.convert((void *) mt, MPT_ENUM(TypeIteratorPtr), &it) < 0) return 0;
	return it;
}
/* what every instance hands out as its current value: type class and bytes */
static void inst_answer(struct cmd *c, const char *ret, long long rc)
{
	const char *ts[MAXH];
	const uint8_t *ds[MAXH];
	size_t ls[MAXH];
	int i;
	for (i = 0; i < ninst; i++) {
		MPT_INTERFACE(iterator) *it;
		const MPT_STRUCT(value) *val;
		ts[i] = "dead"; ds[i] = 0; ls[i] = 0;
		if (!inst[i]) continue;
		if (!(it = inst_iter(inst[i]))) { ts[i] = "noiter"; continue; }
		if (!(val = it->_vptr->value(it))) { ts[i] = "none"; continue; }
		if (val->_type == 's') {
			const char *str = *((const char * const *) val->_addr);
			ts[i] = str ? "s" : "snull";
			ds[i] = (const uint8_t *) str;
			ls[i] = str ? strlen(str) : 0;
		}
		else if (val->_type == MPT_type_toVector('c')) {
			const struct iovec *vec = (const struct iovec *) val->_addr;
			ts[i] = "v";
			ds[i] = (const uint8_t *) vec->iov_base;
			ls[i] = vec->iov_len;
		}
		else ts[i] = "other";
	}
	drv_begin(c);
	j_str("ret", ret);
	j_arr_open("ts");
	for (i = 0; i < ninst; i++) j_item_str(ts[i]);
	j_arr_close();
	j_arr_open("ds");
	for (i = 0; i < ninst; i++) {
		size_t k;
		j_sep();
		fputc('[', drv_out);
		for (k = 0; k < ls[i]; k++) fprintf(drv_out, k ? ",%u" : "%u", ds[i][k]);
		fputc(']', drv_out);
		drv_first = 0;
	}
	j_arr_close();
	drv_dbg();
	j_int("rc", rc);
	drv_end();
}
static const char *iter_class(int r)
{
	return r < 0 ? "refused" : r == 0 ? "end" : r == 's' ? "s" : r == MPT_type_toVector('c') ? "v" : "other";
}
static void inst_step(struct cmd *c)
{
	const char *a = c->action;
	int i = (int) drv_int(c, "i", 1) - 1;
	if (!strcmp(a, "itext")) {
		MPT_STRUCT(array) ar = MPT_ARRAY_INIT;
		size_t dl = 0;
		uint8_t *d = drv_bytes(c, "data", &dl);
		int k;
		for (k = 0; k < MAXH; k++) inst[k] = 0;
		ar._buf = drv_int(c, "map", 0) ? _mpt_buffer_map(dl, 0) : _mpt_buffer_alloc(dl, 0);
		if (!ar._buf) { free(d); inst_answer(c, "nobuffer", errno); return; }
		ar._buf->_content_traits = mpt_type_traits('c');
		if (dl) memcpy(ar._buf + 1, d, dl);
		ar._buf->_used = dl;
		free(d);
		inst[0] = mpt_meta_buffer(&ar);
		mpt_array_clone(&ar, 0);       /* the metatype keeps its own reference */
		inst_answer(c, inst[0] ? "ok" : "refused", 0);
		return;
	}
	if (i < 0 || i >= ninst) { inst_answer(c, "bad-instance", 0); return; }
	if (!strcmp(a, "iclone")) {
		int g = (int) drv_int(c, "from", 0) - 1;
		if (g < 0 || g >= ninst || !inst[g] || inst[i]) { inst_answer(c, "skipped", 0); return; }
		inst[i] = inst[g]->_vptr->clone(inst[g]);
		inst_answer(c, inst[i] ? "ok" : "refused", 0);
		return;
	}
	if (!inst[i]) { inst_answer(c, "skipped", 0); return; }
	if (!strcmp(a, "iunref")) {
		inst[i]->_vptr->unref(inst[i]);
		inst[i] = 0;
		inst_answer(c, "ok", 0);
	}
	else {
		MPT_INTERFACE(iterator) *it = inst_iter(inst[i]);
		int r;
		if (!it) { inst_answer(c, "noiter", 0); return; }
		r = a[1] == 'a' ? it->_vptr->advance(it) : it->_vptr->reset(it);
		inst_answer(c, iter_class(r), r);
	}
}
static void drv_reset(void)
{
	cow_reset();
	metas_drop();
	meta_from = MAXH + 1;
	mapseam_reset();
	mapseam_set_psize(0);
	free(bm); bm = 0; bmlen = 0;
}

/* the array a buffer metatype holds, as the metatype hands it out */
static MPT_STRUCT(buffer) *meta_buffer_of(MPT_INTERFACE(metatype) *mt)
{
	MPT_STRUCT(buffer) *b = 0;
	if (!mt) return 0;
	if (mt->_vptr->convertable.convert((void *) mt, MPT_ENUM(TypeBufferPtr), &b) < 0) return 0;
	return b;
}
static void meta_sync(void)
{
	int i;
	for (i = 0; i < nh; i++) if (metas[i]) arr[i]._buf = meta_buffer_of(metas[i]);
}

/* positions at the limits of long: "smax-k" = LONG_MAX-k, "smin+k" = LONG_MIN+k */
static long bm_pos(const struct cmd *c)
{
	const char *r = drv_raw(c, "pos");
	if (r && !strncmp(r, "smin+", 5)) return LONG_MIN + strtol(r + 5, 0, 0);
	return drv_long(c, "pos", 0);
}
static void bm_answer(struct cmd *c, const char *ret)
{
	drv_begin(c);
	j_str("ret", ret);
	j_bytes("mem", bm, bmlen);
	drv_dbg();
	j_int("len", (long long) bmlen);
	drv_end();
}

static void my_step(struct cmd *c)
{
	const char *a = c->action;
	int h = (int) drv_int(c, "h", 1) - 1;

	if (!strcmp(a, "init")) {
		metas_drop();
		mapseam_reset();
		mapseam_set_psize((int) drv_int(c, "page", 0));
		meta_from = (int) drv_int(c, "meta", MAXH + 1);
		ninst = (int) drv_int(c, "n", 0);
		if (ninst > MAXH) ninst = MAXH;
		cow_step(c);
		return;
	}
	if (a[0] == 'i' && (!strcmp(a, "itext") || !strcmp(a, "iadv") || !strcmp(a, "ireset")
	                    || !strcmp(a, "iclone") || !strcmp(a, "iunref"))) {
		inst_step(c);
		return;
	}
	if (!strncmp(a, "bm", 2)) {
		if (!strcmp(a, "bminit")) {
			size_t dl = 0;
			uint8_t *d = drv_bytes(c, "data", &dl);
			free(bm);
			bmlen = dl;
			bm = (uint8_t *) malloc(dl);       /* exact: no slack behind the map */
			if (dl) memcpy(bm, d, dl);
			free(d);
			bm_answer(c, "ok");
			return;
		}
		else {
			long pos = bm_pos(c);
			int r;
			if (!strcmp(a, "bmset")) r = mpt_bitmap_set(bm, bmlen, pos);
			else if (!strcmp(a, "bmunset")) r = mpt_bitmap_unset(bm, bmlen, pos);
			else if (!strcmp(a, "bmget")) {
				r = mpt_bitmap_get(bm, bmlen, pos);
				bm_answer(c, r < 0 ? "refused" : r == 0 ? "0" : r == 1 ? "1" : "other");
				return;
			}
			else { bm_answer(c, "unknown-action"); return; }
			bm_answer(c, r < 0 ? "refused" : r == 0 ? "unchanged" : "changed");
			return;
		}
	}
	if (h < 0 || h >= nh) {
		cow_step(c);
		return;
	}
	if (!strcmp(a, "mnew")) {
		MPT_STRUCT(array) *ar = &arr[h];
		size_t dl = 0;
		uint8_t *data = drv_bytes(c, "data", &dl);
		int flags = (drv_int(c, "imm", 0) ? MPT_ENUM(BufferImmutable) : 0)
		          | (drv_int(c, "nc", 0) ? MPT_ENUM(BufferNoCopy) : 0);
		MPT_STRUCT(buffer) *b;
		if (ar->_buf || IS_META(h)) { answer(c, "skipped", 0, 0, 0, 0, 0); free(data); return; }
		if (!(b = _mpt_buffer_map(dl, flags))) {
			answer(c, "refused", 0, 0, 0, 0, errno);
			free(data);
			return;
		}
		if (b->_size < dl) {          /* the driver fills what it asked for; a smaller buffer is reported, not written */
			size_t sz = b->_size;
			b->_vptr->unref(b);
			answer(c, "short", 0, 0, sz, 0, 0);
			free(data);
			return;
		}
		b->_content_traits = traits_of(drv_raw(c, "typ"));
		if (dl) memcpy(b + 1, data, dl);
		b->_used = dl;
		ar->_buf = b;
		if ((flags & MPT_ENUM(BufferImmutable)) && nsnaps < 64) {
			snaps[nsnaps].buf = b;
			snaps[nsnaps].used = dl;
			snaps[nsnaps].bytes = (uint8_t *) malloc(dl + 1);
			memcpy(snaps[nsnaps].bytes, data, dl);
			nsnaps++;
		}
		answer(c, "ok", 0, 0, 0, 0, 0);
		free(data);
		return;
	}
	if (!strcmp(a, "meta") || !strcmp(a, "metaclone")) {
		int g = (int) drv_int(c, "from", 0) - 1;
		MPT_INTERFACE(metatype) *mt = 0, *old = metas[h];
		size_t size0 = arr[h]._buf ? arr[h]._buf->_size : 0, used0 = arr[h]._buf ? arr[h]._buf->_used : 0;
		/* a slot is either a plain array or stands for a metatype (fixed per behaviour) */
		if (!IS_META(h) || g >= nh || g == h) { answer(c, "skipped", 0, 0, size0, used0, 0); return; }
		if (a[4] == 'c' && (g < 0 || !IS_META(g) || !metas[g] || !arr[g]._buf)) { answer(c, "skipped", 0, 0, size0, used0, 0); return; }
		if (a[4] != 'c' && g >= 0 && IS_META(g)) { answer(c, "skipped", 0, 0, size0, used0, 0); return; }
		if (g >= 0) {
			if (a[4] == 'c') {
				mt = metas[g]->_vptr->clone(metas[g]);
			} else {
				mt = mpt_meta_buffer(&arr[g]);
			}
			if (!mt) { answer(c, "refused", 0, 0, size0, used0, errno); return; }
		}
		if (old) old->_vptr->unref(old);
		metas[h] = mt;
		arr[h]._buf = 0;
		meta_sync();
		answer(c, "ok", 0, 0, size0, used0, 0);
		return;
	}
	if (!strcmp(a, "encfini")) {
		MPT_STRUCT(encode_array) ea;
		size_t size0 = arr[h]._buf ? arr[h]._buf->_size : 0, used0 = arr[h]._buf ? arr[h]._buf->_used : 0;
		if (IS_META(h)) { answer(c, "skipped", 0, 0, size0, used0, 0); return; }
		memset(&ea, 0, sizeof(ea));
		ea._d._buf = arr[h]._buf;      /* the encode array takes over the handle's reference */
		arr[h]._buf = 0;
		mpt_encode_array_fini(&ea);
		answer(c, "ok", 0, 0, size0, used0, 0);
		return;
	}
	/* calls of C04 on a slot standing for a metatype are not the caller's to make */
	if (IS_META(h)) {
		answer(c, "skipped", 0, 0, 0, 0, 0);
		return;
	}
	if (!strcmp(a, "clone")) {
		int g = (int) drv_int(c, "from", 0) - 1;
		if (g >= 0 && g < nh && metas[g]) {
			/* assignment from the array a metatype hands out */
			meta_sync();
		}
	}
	cow_step(c);
}

static void drv_step(struct cmd *c)
{
	char *mem = 0;
	size_t ml = 0;
	FILE *real = drv_out, *ms = open_memstream(&mem, &ml);
	if (!ms) { my_step(c); return; }
	drv_out = ms;
	my_step(c);
	fclose(ms);
	drv_out = real;
	if (mapseam_check()) {
		char *p = strstr(mem, "\"frozen\":\"ok\"");
		if (p) {
			/* same length: "ok" -> "OV" would be cryptic; rewrite the line */
			fwrite(mem, 1, (size_t) (p - mem), real);
			fputs("\"frozen\":\"overrun\"", real);
			fputs(p + strlen("\"frozen\":\"ok\""), real);
			free(mem);
			return;
		}
	}
	fwrite(mem, 1, ml, real);
	free(mem);
}

int main(int argc, char **argv)
{
	return drv_main(argc, argv);
}
