/*
 * Driver for spec/Ident.tla (C16): one command per public identifier call.
 *
 * Compiled twice: as C (mpt_identifier_* directly) and, through
 * ident_cxx.cpp, as C++ (mpt::identifier constructor / set_name /
 * operator= / equal / name / destructor from mpt++/identifier.cpp).
 * mptcore/misc/identifier.c, node/node_new.c and node/node_locate.c are
 * compiled into the driver through the allocation seam (seam.h), so the
 * library's own malloc/free calls are observed.
 *
 * Every identifier slot lives at the end of a node-shaped allocation of
 * exactly the requested storage size (ASan guards the end), except slots
 * made by mpt_identifier_new.  The driver is judgement-free: it copies
 * bytes, follows pointers and maps return codes to classes.
 */
#include "seam.h"
#include "drv.h"

#ifdef __cplusplus
# include <new>
# include "core.h"
typedef mpt::identifier IDENT;
/* node layout mirror: the C++ node class drags in the metatype headers */
struct vnode {
	void *_meta;
	struct vnode *next, *prev, *parent, *children;
	uint64_t ident[2];
};
typedef struct vnode NODE;
extern "C" void *mpt_node_new(size_t);
extern "C" void *mpt_node_locate(const void *, int, const void *, size_t, int);
# define IDENT_OF(n) (reinterpret_cast<IDENT *>(&(n)->ident))
using mpt::mpt_identifier_new;
using mpt::mpt_identifier_data;
using mpt::mpt_identifier_inequal;
using mpt::mpt_identifier_init;
#else
# include "types.h"
# include "node.h"
typedef MPT_STRUCT(identifier) IDENT;
typedef MPT_STRUCT(node) NODE;
# define IDENT_OF(n) (&(n)->ident)
#endif

/* raw view of the public struct identifier (members are protected in C++) */
struct raw_ident {
	uint16_t len;
	uint8_t  cs;
	uint8_t  max;
	char     val[4];
	char    *base;
};

#define MAXSLOT 8
#define PRE     (sizeof(NODE) - sizeof(struct raw_ident))

enum { HowInit = 1, HowNew, HowNode, HowTraits, HowMacro, HowNodeMacro };

struct slot {
	int    live;
	int    how;
	void  *mem;     /* driver allocation (HowInit, HowTraits) */
	NODE  *node;    /* 0 for HowNew */
	IDENT *id;
};
static struct slot slots[MAXSLOT];
static int nslot;

static struct raw_ident raw_of(const IDENT *id)
{
	struct raw_ident r;
	memcpy(&r, id, sizeof(r));
	return r;
}

static void slot_release(struct slot *s)
{
	if (!s->live) return;
	if (s->how == HowNew) vf_free(s->id);
	else if (s->how == HowNode) vf_free(s->node);
	else free(s->mem);
	memset(s, 0, sizeof(*s));
}
static void drv_reset(void)
{
	int i;
	for (i = 0; i < MAXSLOT; i++) {
		if (slots[i].live && slots[i].how != HowNew && slots[i].how != HowNode) free(slots[i].mem);
		memset(&slots[i], 0, sizeof(slots[i]));
	}
	nslot = 0;
	vf_reset();
}

/* node-shaped storage whose identifier part is exactly `size` bytes */
static NODE *raw_node(size_t size, void **mem)
{
	size_t isz = size < sizeof(struct raw_ident) ? sizeof(struct raw_ident) : size;
	uint8_t *m = (uint8_t *) malloc(PRE + isz);
	NODE *n = (NODE *) m;
	memset(m, 0xEE, PRE + isz);
	n->_meta = 0;
	n->next = n->prev = n->parent = n->children = 0;
	*mem = m;
	return n;
}

static int slot_make(struct slot *s, size_t size, int how)
{
	memset(s, 0, sizeof(*s));
	s->how = how;
	if (how == HowNew) {
		if (!(s->id = (IDENT *) mpt_identifier_new(size))) return 0;
	}
	else if (how == HowNode) {
		if (!(s->node = (NODE *) mpt_node_new(size))) return 0;
		s->id = IDENT_OF(s->node);
	}
	else if (how == HowMacro || how == HowNodeMacro) {
		/* objects set up by the static initialisers, of exactly their own size (ASan guards the end) */
		if (how == HowMacro) {
			s->mem = malloc(sizeof(struct raw_ident));
			memset(s->mem, 0xEE, sizeof(struct raw_ident));
			s->node = 0;
			s->id = (IDENT *) s->mem;
		} else {
			s->mem = malloc(sizeof(NODE));
			memset(s->mem, 0xEE, sizeof(NODE));
			s->node = (NODE *) s->mem;
			s->id = IDENT_OF(s->node);
		}
#ifdef __cplusplus
		/* C++ has no initialiser macro: the default constructor is its counterpart */
		if (s->node) { s->node->_meta = 0; s->node->next = s->node->prev = s->node->parent = s->node->children = 0; }
		new (s->id) mpt::identifier();
#else
		if (how == HowMacro) {
			static const MPT_STRUCT(identifier) init = MPT_IDENTIFIER_INIT;
			memcpy(s->id, &init, sizeof(init));
		} else {
			static const MPT_STRUCT(node) init = MPT_NODE_INIT;
			memcpy(s->node, &init, sizeof(init));
		}
#endif
	}
	else {
		s->node = raw_node(size, &s->mem);
		s->id = IDENT_OF(s->node);
#ifdef __cplusplus
		new (s->id) mpt::identifier(size);
#else
		mpt_identifier_init(s->id, size);
#endif
	}
	s->live = 1;
	return 1;
}

/* ---------- observation ---------- */
static long orphans(void)
{
	long n = 0;
	int i, k;
	for (i = 0; i < vf_used; i++) {
		const void *p = vf_tab[i].p;
		int owned = 0;
		if (!vf_tab[i].live) continue;
		for (k = 0; k < nslot && !owned; k++) {
			if (!slots[k].live) continue;
			if (slots[k].how == HowNew && p == (void *) slots[k].id) owned = 1;
			else if (slots[k].how == HowNode && p == (void *) slots[k].node) owned = 1;
			else if (p == mpt_identifier_data(slots[k].id)) owned = 1;
		}
		if (!owned) n++;
	}
	return n;
}
static void emit_ids(void)
{
	int k;
	j_arr_open("ids");
	for (k = 0; k < nslot; k++) {
		j_item_obj_open();
		if (!slots[k].live) {
			j_int("live", 0);
			j_int("len", 0);
			j_bytes("data", 0, 0);
		}
		else {
			struct raw_ident r = raw_of(slots[k].id);
			const void *d = mpt_identifier_data(slots[k].id);
			uint8_t *tmp = (uint8_t *) malloc(r.len + 1);
			memcpy(tmp, d, r.len);       /* the bytes the identifier reads back */
			j_int("live", 1);
			j_int("len", r.len);
			j_bytes("data", tmp, r.len);
			free(tmp);
		}
		j_close();
	}
	j_arr_close();
	j_int("orphans", orphans());
	j_int("badfree", vf_badfree);
}
static void emit_dbg(void)
{
	long long v[MAXSLOT];
	int k;
	drv_dbg();
	for (k = 0; k < nslot; k++) v[k] = slots[k].live ? raw_of(slots[k].id).max : 0;
	j_ints("max", v, nslot);
	for (k = 0; k < nslot; k++) {
		struct raw_ident r;
		v[k] = 0;
		if (slots[k].live) { r = raw_of(slots[k].id); v[k] = r.len > r.max; }
	}
	j_ints("ext", v, nslot);
	for (k = 0; k < nslot; k++) v[k] = slots[k].live ? raw_of(slots[k].id).cs : 0;
	j_ints("cs", v, nslot);
	j_int("blocks", vf_live());
	j_int("allocs", vf_step_allocs);
	j_int("frees", vf_step_frees);
}
static void answer(struct cmd *c, const char *ret, const char *eq, long idx)
{
	drv_begin(c);
	j_str("ret", ret);
	if (eq) j_str("eq", eq);
	j_int("idx", idx);
	emit_ids();
	emit_dbg();
	drv_end();
}

static struct slot *slot_arg(struct cmd *c, const char *key)
{
	long i = (long) drv_int(c, key, 0);
	if (i < 1 || i > nslot) return 0;
	return &slots[i - 1];
}
/* exact-size copy of a byte argument (ASan sees any read beyond it) */
static char *exact(const uint8_t *d, size_t n, int terminate)
{
	size_t sz = n + (terminate ? 1 : 0);
	char *p = (char *) malloc(sz ? sz : 1);
	memcpy(p, d, n);
	if (terminate) p[n] = 0;
	return p;
}

static void drv_step(struct cmd *c)
{
	const char *a = c->action;
	struct slot *s, *o;
	size_t dl = 0;
	uint8_t *data = 0;
	char *name = 0;

	vf_step();
	vf_fail_after = -1;
	if (!strcmp(a, "init")) {
		size_t n, i;
		long long *sz = drv_ints(c, "sizes", &n);
		drv_reset();
		nslot = n > MAXSLOT ? MAXSLOT : (int) n;
		for (i = 0; i < (size_t) nslot; i++) slot_make(&slots[i], (size_t) sz[i], HowInit);
		free(sz);
		answer(c, "ok", 0, 0);
		return;
	}
	if (!strcmp(a, "set")) {
		const char *mode = drv_raw(c, "mode");
		int cstr = mode && !strcmp(mode, "cstr");
		int ok;
		if (!(s = slot_arg(c, "id")) || !s->live) goto bad;
		data = drv_bytes(c, "data", &dl);
		name = exact(data, dl, cstr);
		if (drv_int(c, "fail", 0)) vf_fail_after = 0;     /* the next library allocation fails */
#ifdef __cplusplus
		ok = s->id->set_name(name, cstr ? -1 : (int) dl);
#else
		ok = mpt_identifier_set(s->id, name, cstr ? -1 : (int) dl) != 0;
#endif
		vf_fail_after = -1;
		answer(c, ok ? "ok" : "refused", 0, 0);
	}
	else if (!strcmp(a, "setself")) {
		/* the new name lies inside the identifier's own current content */
		size_t off = (size_t) drv_uint(c, "off", 0);
		int n = (int) drv_int(c, "n", 0), ok;
		const char *own;
		if (!(s = slot_arg(c, "id")) || !s->live) goto bad;
		own = (const char *) mpt_identifier_data(s->id) + off;
#ifdef __cplusplus
		ok = s->id->set_name(own, n);
#else
		ok = mpt_identifier_set(s->id, own, n) != 0;
#endif
		answer(c, ok ? "ok" : "refused", 0, 0);
	}
	else if (!strcmp(a, "setraw")) {
		int n = (int) drv_int(c, "n", 0), ok;
		if (!(s = slot_arg(c, "id")) || !s->live) goto bad;
#ifdef __cplusplus
		ok = s->id->set_name(0, n);
#else
		ok = mpt_identifier_set(s->id, 0, n) != 0;
#endif
		answer(c, ok ? "ok" : "refused", 0, 0);
	}
	else if (!strcmp(a, "copy")) {
		if (!(s = slot_arg(c, "id")) || !s->live) goto bad;
		if (!(o = slot_arg(c, "src")) || !o->live) goto bad;
		if (drv_int(c, "fail", 0)) vf_fail_after = 0;
#ifdef __cplusplus
		*s->id = *o->id;
		vf_fail_after = -1;
		answer(c, "ok", 0, 0);
#else
		{
			void *r = mpt_identifier_copy(s->id, o->id);
			vf_fail_after = -1;
			answer(c, r ? "ok" : "refused", 0, 0);
		}
#endif
	}
	else if (!strcmp(a, "copynull")) {
		if (!(s = slot_arg(c, "id")) || !s->live) goto bad;
#ifdef __cplusplus
		answer(c, mpt::mpt_identifier_copy(s->id, 0) ? "ok" : "refused", 0, 0);
#else
		answer(c, mpt_identifier_copy(s->id, 0) ? "ok" : "refused", 0, 0);
#endif
	}
	else if (!strcmp(a, "compare")) {
		const char *mode = drv_raw(c, "mode");
		int cstr = mode && !strcmp(mode, "cstr");
		int eq;
		if (!(s = slot_arg(c, "id")) || !s->live) goto bad;
		data = drv_bytes(c, "data", &dl);
		name = exact(data, dl, cstr);
#ifdef __cplusplus
		eq = s->id->equal(name, cstr ? -1 : (int) dl);
#else
		eq = mpt_identifier_compare(s->id, name, cstr ? -1 : (int) dl) == 0;
#endif
		answer(c, "ok", eq ? "equal" : "differs", 0);
	}
	else if (!strcmp(a, "inequal")) {
		if (!(s = slot_arg(c, "id")) || !s->live) goto bad;
		if (!(o = slot_arg(c, "other")) || !o->live) goto bad;
		answer(c, "ok", mpt_identifier_inequal(s->id, o->id) ? "differs" : "equal", 0);
	}
	else if (!strcmp(a, "locate")) {
		int pos = (int) drv_int(c, "pos", 1), k;
		NODE *first = 0, *last = 0, *r;
		long idx = 0;
		data = drv_bytes(c, "data", &dl);
		name = exact(data, dl, 0);
		for (k = 0; k < nslot; k++) {
			NODE *n = slots[k].node;
			if (!slots[k].live || !n) continue;
			n->prev = last; n->next = 0;
			if (last) last->next = n; else first = n;
			last = n;
		}
		r = (NODE *) mpt_node_locate(pos < 0 ? last : first, pos, name, dl, -1);
		for (k = 0; k < nslot; k++) {
			if (slots[k].live && r && slots[k].node == r) idx = k + 1;
		}
		if (r && !idx) idx = -2;   /* an address that is no node of the list */
		answer(c, "ok", 0, idx);
	}
	else if (!strcmp(a, "fini")) {
		if (!(s = slot_arg(c, "id")) || !s->live) goto bad;
#ifdef __cplusplus
		s->id->~identifier();
#else
		mpt_identifier_traits()->fini(s->id);
#endif
		slot_release(s);
		answer(c, "ok", 0, 0);
	}
	else if (!strcmp(a, "make")) {
		const char *how = drv_raw(c, "how");
		int h = (how && !strcmp(how, "new")) ? HowNew : (how && !strcmp(how, "node")) ? HowNode
		      : (how && !strcmp(how, "macro")) ? HowMacro : (how && !strcmp(how, "nodemacro")) ? HowNodeMacro : HowInit;
		if (!(s = slot_arg(c, "id")) || s->live) goto bad;
		answer(c, slot_make(s, (size_t) drv_uint(c, "size", 16), h) ? "ok" : "refused", 0, 0);
	}
	else if (!strcmp(a, "tinit")) {
		int rc;
		if (!(s = slot_arg(c, "id")) || s->live) goto bad;
		o = slot_arg(c, "src");
		if (o && !o->live) goto bad;
		memset(s, 0, sizeof(*s));
		s->how = HowTraits;
		s->node = raw_node(sizeof(struct raw_ident), &s->mem);
		s->id = IDENT_OF(s->node);
		if (drv_int(c, "fail", 0)) vf_fail_after = 0;
#ifdef __cplusplus
		if (o) new (s->id) mpt::identifier(*o->id);
		else new (s->id) mpt::identifier();
		rc = 0;
#else
		rc = mpt_identifier_traits()->init(s->id, o ? o->id : 0);
#endif
		vf_fail_after = -1;
		s->live = 1;
		answer(c, rc < 0 ? "refused" : "ok", 0, 0);
	}
	else {
bad:
		drv_begin(c);
		j_str("ret", "bad-command");
		drv_dbg();
		drv_end();
	}
	free(name);
	free(data);
}

int main(int argc, char **argv)
{
	return drv_main(argc, argv);
}
