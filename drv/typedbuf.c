/*
 * Driver for spec/TypedBuf.tla (C05), C binding: typed buffers whose
 * elements have construction/destruction behaviour.
 *
 * Element kinds (argv[1]):
 *   rec  harness traits: every init/fini call is recorded; an element is
 *        {magic, id, value}.  After each call the driver reports which
 *        elements are alive, where they sit, and anomalies it counted
 *        (fini of something that is not a live element, live element in no
 *        buffer, destroyed element inside a buffer, one element in two slots).
 *   arr  the library's own mpt_array_traits(): elements are arrays that
 *        reference one of NV inner buffers; the inner reference counts are
 *        the observation (the driver holds one reference on each).
 *   meta mpt_meta_reference_traits(): elements are references to one of NV
 *        harness metatypes whose reference counters are the observation.
 *   idn  mpt_identifier_traits(): elements are identifiers named from a table
 *        (short inline names and a long heap allocated one); names are read
 *        back, allocation faults are left to ASan.
 * Offsets/lengths are in elements.  No judgement here.
 */
#include "drv.h"

#include "types.h"
#include "meta.h"
#include "array.h"

#include "array/buffer_alloc.c"

#define MAXH 8
#define MAXV 8
#define MAXID 100000

#define M_LIVE 0x4c495645u
#define M_DEAD 0x44454144u
#define M_SRC  0x53524321u

struct elem { uint32_t magic, id, val, pad; };

enum { K_REC, K_ARR, K_META, K_IDN };
static MPT_STRUCT(array) arr[MAXH];
static int nh, nv, kind;
#define kind_arr (kind == K_ARR)
static size_t esize;
static const MPT_STRUCT(type_traits) *etraits;

/* rec kind bookkeeping */
static uint8_t live[MAXID];   /* 0 = not alive, else 1 + value */
static uint32_t next_id;
static long n_bad, n_init, n_copy, n_fini, fail_at, fail_mode, fail_next, dfail_at, n_dflt;

static int rec_init(void *ptr, const void *src)
{
	struct elem *e = (struct elem *) ptr;
	const struct elem *s = (const struct elem *) src;
	if (!s && fail_next) {       /* the default construction replacing a failed copy fails too */
		fail_next = 0;
		return -1;
	}
	if (!s && dfail_at && ++n_dflt == dfail_at) return -1;   /* the k-th default construction fails */
	if (s) {
		++n_copy;
		if (fail_at && n_copy == fail_at) {
			fail_next = fail_mode;
			return -1;
		}
		if (!s->magic && !s->id && !s->val && !s->pad) s = 0;   /* zero filled slot: copies as a default element */
		else if (s->magic != M_LIVE && s->magic != M_SRC) ++n_bad;   /* copy of something that is no element */
	}
	++n_init;
	e->magic = M_LIVE;
	e->id = ++next_id;
	e->val = s ? s->val : 0;
	e->pad = 0;
	if (e->id < MAXID) live[e->id] = (uint8_t) (1 + e->val);
	return s ? 1 : 0;
}
static void fini_common(void *ptr);
static int blank_slot(const void *ptr)
{
	const struct elem *e = (const struct elem *) ptr;
	return !e->magic && !e->id && !e->val && !e->pad;      /* zero filled, never constructed */
}
static void rec_fini(void *ptr)
{
	if (blank_slot(ptr)) return;
	if (((struct elem *) ptr)->pad != 0) ++n_bad;     /* not an element of this type */
	fini_common(ptr);
}
static void fini_common(void *ptr)
{
	struct elem *e = (struct elem *) ptr;
	++n_fini;
	if (e->magic != M_LIVE || e->id >= MAXID || !live[e->id]) {
		++n_bad;
		return;
	}
	live[e->id] = 0;
	e->magic = M_DEAD;
}
static const MPT_STRUCT(type_traits) rec_traits = { rec_init, rec_fini, sizeof(struct elem) };

/* second managed type of the recording kind: same layout, own init/fini (elements tagged pad = 1) */
static int rec_init_b(void *ptr, const void *src)
{
	int r = rec_init(ptr, src);
	if (r >= 0) ((struct elem *) ptr)->pad = 1;
	return r;
}
static void rec_fini_b(void *ptr)
{
	if (((struct elem *) ptr)->pad != 1) ++n_bad;     /* not an element of this type */
	fini_common(ptr);
}
static const MPT_STRUCT(type_traits) rec_traits_b = { rec_init_b, rec_fini_b, sizeof(struct elem) };
static const MPT_STRUCT(type_traits) *plain_traits;   /* typed, but no init/fini */

static int managed(const MPT_STRUCT(buffer) *b);

/* arr kind: inner buffers */
static MPT_STRUCT(buffer) *inner[MAXV + 1];

static long inner_index(const MPT_STRUCT(buffer) *b)
{
	int k;
	if (!b) return 0;
	for (k = 1; k <= nv; k++) if (inner[k] == b) return k;
	return -1;
}

/* meta kind: harness metatypes with visible reference counters */
struct hmeta { MPT_INTERFACE(metatype) mt; long refs; };
static struct hmeta metas[MAXV + 1];
static int hm_conv(MPT_INTERFACE(convertable) *c, MPT_TYPE(type) t, void *p) { (void) c; (void) t; (void) p; return MPT_ERROR(BadType); }
static void hm_unref(MPT_INTERFACE(metatype) *m) { ((struct hmeta *) m)->refs--; }
static uintptr_t hm_addref(MPT_INTERFACE(metatype) *m) { return (uintptr_t) ++((struct hmeta *) m)->refs; }
static MPT_INTERFACE(metatype) *hm_clone(const MPT_INTERFACE(metatype) *m) { (void) m; return 0; }
static const MPT_INTERFACE_VPTR(metatype) hm_vptr = { { hm_conv }, hm_unref, hm_addref, hm_clone };
static long meta_index(const MPT_INTERFACE(metatype) *m)
{
	int k;
	if (!m) return 0;
	for (k = 1; k <= nv; k++) if (&metas[k].mt == m) return k;
	return -1;
}
/* idn kind: names by value */
static const char *idn_names[MAXV + 1] = {
	/* value 1 fills the inline storage of the 16 byte element exactly (11 characters + terminator),
	 * 2 is heap allocated, 3 is one short of the inline capacity, 4 one beyond it */
	"", "exactly11ch", "the-second-name-is-too-long-for-inline-storage", "ten-chars.", "twelve-chars", "five-five-five-five-five-five-five", "6", "a", "8"
};
static long idn_index(const MPT_STRUCT(identifier) *id)
{
	int k;
	const char *d;
	if (!id->_len) return 0;
	d = (const char *) mpt_identifier_data(id);
	for (k = 1; k <= MAXV; k++) {
		size_t l = strlen(idn_names[k]);
		if (d && id->_len == l + 1 && !memcmp(d, idn_names[k], l)) return k;
		if (d && id->_len == l && !memcmp(d, idn_names[k], l)) return k;
	}
	return -1;
}
static void idn_make(MPT_STRUCT(identifier) *id, unsigned v)
{
	mpt_identifier_init(id, sizeof(*id));
	if (v >= 1 && v <= MAXV) mpt_identifier_set(id, idn_names[v], -1);
}

/* caller side construction of an element with value v (not a traits call) */
static void make_elem(void *ptr, unsigned v)
{
	if (kind == K_META) {
		MPT_INTERFACE(metatype) **m = (MPT_INTERFACE(metatype) **) ptr;
		*m = (v >= 1 && v <= (unsigned) nv) ? &metas[v].mt : 0;
		if (*m) (*m)->_vptr->addref(*m);
	}
	else if (kind == K_IDN) {
		idn_make((MPT_STRUCT(identifier) *) ptr, v);
	}
	else if (kind_arr) {
		MPT_STRUCT(array) *a = (MPT_STRUCT(array) *) ptr;
		a->_buf = (v >= 1 && v <= (unsigned) nv) ? inner[v] : 0;
		if (a->_buf) a->_buf->_vptr->addref(a->_buf);
	} else {
		struct elem *e = (struct elem *) ptr;
		e->magic = M_LIVE;
		e->id = ++next_id;
		e->val = v;
		e->pad = 0;
		if (e->id < MAXID) live[e->id] = (uint8_t) (1 + v);
	}
}
/* source elements handed to the library (never alive themselves) */
static void *make_src(const uint8_t *vals, size_t n)
{
	size_t i;
	uint8_t *mem = (uint8_t *) calloc(n + 1, esize);
	for (i = 0; i < n; i++) {
		if (kind == K_META) {
			unsigned v = vals[i];
			*((MPT_INTERFACE(metatype) **) (mem + i * esize)) = (v >= 1 && v <= (unsigned) nv) ? &metas[v].mt : 0;
		} else if (kind == K_IDN) {
			idn_make((MPT_STRUCT(identifier) *) (mem + i * esize), vals[i]);
		} else if (kind_arr) {
			unsigned v = vals[i];
			((MPT_STRUCT(array) *) (mem + i * esize))->_buf = (v >= 1 && v <= (unsigned) nv) ? inner[v] : 0;
		} else {
			struct elem *e = (struct elem *) (mem + i * esize);
			e->magic = M_SRC; e->id = 0; e->val = vals[i];
		}
	}
	return mem;
}

static void free_src(void *mem, size_t n)
{
	size_t i;
	if (mem && kind == K_IDN) {
		for (i = 0; i < n; i++) etraits->fini(((uint8_t *) mem) + i * esize);
	}
	free(mem);
}

static const char *name_of(const MPT_STRUCT(buffer) *b)
{
	if (!b) return "none";
	if (!b->_content_traits) return "raw";
	if (b->_content_traits == etraits) return "elem";
	if (b->_content_traits == &rec_traits_b) return "elemB";
	if (b->_content_traits == plain_traits) return "plain";
	return "other";
}
static const MPT_STRUCT(type_traits) *traits_named(const char *t)
{
	if (!t || !strcmp(t, "elem")) return etraits;
	if (!strcmp(t, "elemB")) return &rec_traits_b;
	if (!strcmp(t, "plain")) return plain_traits;
	return 0;   /* raw */
}
static int managed(const MPT_STRUCT(buffer) *b)
{
	return b && (b->_content_traits == etraits || (kind == K_REC && b->_content_traits == &rec_traits_b));
}

static void drv_reset(void)
{
	int i;
	for (i = 0; i < MAXH; i++) arr[i]._buf = 0;     /* abandoned, see cowarray.c */
	for (i = 0; i <= MAXV; i++) inner[i] = 0;
	memset(live, 0, sizeof(live));
	next_id = 0;
	nh = 0;
	_mpt_buffer_alloc_psize = 0;
}

static int first_holder(int i)
{
	int k;
	for (k = 0; k < i; k++) if (arr[k]._buf && arr[k]._buf == arr[i]._buf) return k;
	return i;
}


/* "ok" while every buffer's reference count equals the number of handles holding it */
static const char *refs_state(void)
{
	int i, k;
	for (i = 0; i < nh; i++) {
		MPT_STRUCT(buffer) *b = arr[i]._buf;
		long n = 0;
		if (!b) continue;
		for (k = 0; k < nh; k++) if (arr[k]._buf == b) ++n;
		if ((long) MPT_baseaddr(bufferData, b, buf)->_ref._val != n) return "bad";
	}
	return "ok";
}

static void emit_all(const char *ret)
{
	int i, k;
	long dead = 0, dup = 0, orph = 0, nlive = 0;
	static uint8_t seen[MAXID];
	long counts[MAXV + 1];
	memset(seen, 0, next_id < MAXID ? next_id + 1 : MAXID);
	memset(counts, 0, sizeof(counts));

	j_str("ret", ret);
	j_arr_open("vals");
	for (i = 0; i < nh; i++) {
		const MPT_STRUCT(buffer) *b = arr[i]._buf;
		size_t n = 0, s;
		int count_here = (first_holder(i) == i);
		if (managed(b)) n = (b->_used <= b->_size ? b->_used : b->_size) / esize;
		j_sep();
		fputc('[', drv_out);
		for (s = 0; s < n; s++) {
			const uint8_t *p = ((const uint8_t *) (b + 1)) + s * esize;
			long v;
			if (kind == K_META) {
				v = meta_index(*(MPT_INTERFACE(metatype) * const *) p);
			} else if (kind == K_IDN) {
				v = idn_index((const MPT_STRUCT(identifier) *) p);
			} else if (kind_arr) {
				v = inner_index(((const MPT_STRUCT(array) *) p)->_buf);
			} else {
				const struct elem *e = (const struct elem *) p;
				if (e->magic == M_LIVE && e->id < MAXID && live[e->id]) {
					v = e->val;
					if (count_here) {
						if (seen[e->id]) ++dup;
						seen[e->id] = 1;
					}
				} else if (blank_slot(e)) {
					v = 7;
				} else {
					v = -1;
					if (count_here) ++dead;
				}
			}
			fprintf(drv_out, s ? ",%ld" : "%ld", v);
		}
		fputc(']', drv_out);
		drv_first = 0;
	}
	j_arr_close();
	j_arr_open("lens");
	for (i = 0; i < nh; i++) {
		const MPT_STRUCT(buffer) *b = arr[i]._buf;
		j_item_int(b ? (long long) (b->_used / esize) : 0);
	}
	j_arr_close();
	j_arr_open("typs");
	for (i = 0; i < nh; i++) j_item_str(name_of(arr[i]._buf));
	j_arr_close();
	j_str("refok", refs_state());
	if (kind == K_META) {
		j_arr_open("irefs");
		for (k = 1; k <= nv; k++) j_item_int(metas[k].refs);
		j_arr_close();
	} else if (kind == K_IDN) {
		/* nothing countable */
	} else if (kind_arr) {
		j_arr_open("irefs");
		for (k = 1; k <= nv; k++) {
			MPT_STRUCT(bufferData) *bd = MPT_baseaddr(bufferData, inner[k], buf);
			j_item_int((long long) bd->_ref._val);
		}
		j_arr_close();
	} else {
		uint32_t id;
		for (id = 1; id <= next_id && id < MAXID; id++) {
			if (!live[id]) continue;
			++nlive;
			if (live[id] - 1 <= MAXV) counts[live[id] - 1]++;
			if (!seen[id]) ++orph;
		}
		j_arr_open("irefs");
		for (k = 1; k <= nv; k++) j_item_int(1 + counts[k]);
		j_arr_close();
		j_int("nlive", nlive);
		j_int("bad", n_bad);
		j_int("dead", dead);
		j_int("dup", dup);
		j_int("orph", orph);
	}
}
static void emit_dbg(size_t size0, size_t used0, long long rc)
{
	int i;
	drv_dbg();
	j_int("size0", (long long) (size0 / esize));
	j_int("used0", (long long) (used0 / esize));
	j_int("rc", rc);
	j_int("ninit", n_init); j_int("ncopy", n_copy); j_int("nfini", n_fini);
	j_arr_open("sizes");
	for (i = 0; i < nh; i++) j_item_int(arr[i]._buf ? (long long) (arr[i]._buf->_size / esize) : 0);
	j_arr_close();
	j_arr_open("refs");
	for (i = 0; i < nh; i++) {
		MPT_STRUCT(buffer) *b = arr[i]._buf;
		long long r = 1;
		if (b) r = (long long) MPT_baseaddr(bufferData, b, buf)->_ref._val;
		j_item_int(r);
	}
	j_arr_close();
	j_arr_open("flags");
	for (i = 0; i < nh; i++) j_item_int(arr[i]._buf ? (long long) arr[i]._buf->_vptr->get_flags(arr[i]._buf) : 0);
	j_arr_close();
}
static void answer(struct cmd *c, const char *ret, size_t size0, size_t used0, long long rc)
{
	drv_begin(c);
	emit_all(ret);
	emit_dbg(size0, used0, rc);
	drv_end();
}

static void drv_step(struct cmd *c)
{
	const char *a = c->action;
	size_t dl = 0, size0 = 0, used0 = 0;
	uint8_t *data = 0;
	void *src = 0;
	int h = (int) drv_int(c, "h", 1) - 1;
	MPT_STRUCT(array) *ar;
	MPT_STRUCT(buffer) *b;
	int fl, is_elem;

	n_bad = n_init = n_copy = n_fini = 0;
	fail_at = 0;

	if (!strcmp(a, "init")) {
		int k, g = (int) drv_int(c, "grane", 0);
		drv_reset();
		nh = (int) drv_int(c, "n", 3);
		nv = (int) drv_int(c, "nv", 2);
		if (nh > MAXH) nh = MAXH;
		if (nv > MAXV) nv = MAXV;
		_mpt_buffer_alloc_psize = 0;
		if (kind_arr) {
			for (k = 1; k <= nv; k++) inner[k] = _mpt_buffer_alloc(8, 0);
		}
		for (k = 0; k <= MAXV; k++) { metas[k].mt._vptr = &hm_vptr; metas[k].refs = 1; }
		_mpt_buffer_alloc_psize = g * (int) esize;   /* 0: library default */
		answer(c, "ok", 0, 0, 0);
		return;
	}
	if (h < 0 || h >= nh) {
		drv_begin(c); j_str("ret", "bad-handle"); drv_dbg(); drv_end();
		return;
	}
	ar = &arr[h];
	b = ar->_buf;
	if (b) { size0 = b->_size; used0 = b->_used; }
	fl = b ? (int) b->_vptr->get_flags(b) : 0;
	is_elem = b && b->_content_traits == etraits;
	if (drv_has(c, "data")) {
		data = drv_bytes(c, "data", &dl);
		src = make_src(data, dl);
	}
	fail_at = (long) drv_int(c, "fail", 0);
	fail_mode = (long) drv_int(c, "fm", 0);
	fail_next = 0;
	dfail_at = (long) drv_int(c, "dfail", 0);
	n_dflt = 0;

	if (!strcmp(a, "new")) {
		int flags = (drv_int(c, "imm", 0) ? MPT_ENUM(BufferImmutable) : 0)
		          | (drv_int(c, "nc", 0) ? MPT_ENUM(BufferNoCopy) : 0);
		size_t i;
		if (b) answer(c, "skipped", size0, used0, 0);
		else {
			const MPT_STRUCT(type_traits) *nt = traits_named(drv_raw(c, "typ"));
			b = _mpt_buffer_alloc(dl * esize, flags);
			b->_content_traits = nt;
			if (nt == etraits || nt == &rec_traits_b) {
				for (i = 0; i < dl; i++) {
					make_elem(((uint8_t *) (b + 1)) + i * esize, data[i]);
					if (nt == &rec_traits_b) ((struct elem *) (((uint8_t *) (b + 1)) + i * esize))->pad = 1;
				}
			}
			else memset(b + 1, 0x99, dl * esize);         /* plain bytes, no elements */
			b->_used = dl * esize;
			ar->_buf = b;
			answer(c, "ok", size0, used0, 0);
		}
	}
	else if (!strcmp(a, "settyped")) {
		{
			void *p = mpt_array_set(ar, etraits, dl * esize, drv_int(c, "zero", 0) ? 0 : src, (long) drv_int(c, "off", 0));
			answer(c, p ? "ok" : "refused", size0, used0, 0);
		}
	}
	else if (!strcmp(a, "bufset") || !strcmp(a, "bufcut") || !strcmp(a, "bufinsert")) {
		if (!is_elem || (fl & MPT_ENUM(BufferShared)) || (a[3] != 'i' && (fl & MPT_ENUM(BufferImmutable)))) {
			answer(c, "skipped", size0, used0, 0);
		}
		else if (a[3] == 's') {
			long r = mpt_buffer_set(b, etraits, drv_uint(c, "pos", 0) * esize, drv_int(c, "zero", 0) ? 0 : src, dl * esize);
			answer(c, r < 0 ? "refused" : "ok", size0, used0, r);
		}
		else if (a[3] == 'c') {
			ssize_t r = mpt_buffer_cut(b, drv_uint(c, "off", 0) * esize, drv_uint(c, "n", 0) * esize);
			answer(c, r < 0 ? "refused" : "ok", size0, used0, r);
		}
		else {
			uint8_t *p = (uint8_t *) mpt_buffer_insert(b, drv_uint(c, "pos", 0) * esize, dl * esize);
			size_t i;
			if (p) for (i = 0; i < dl; i++) make_elem(p + i * esize, data[i]);
			answer(c, p ? "ok" : "refused", size0, used0, 0);
		}
	}
	else if (!strcmp(a, "insert")) {
		if (!is_elem) answer(c, "skipped", size0, used0, 0);
		else {
			uint8_t *p = (uint8_t *) mpt_array_insert(ar, drv_uint(c, "pos", 0) * esize, dl * esize);
			size_t i;
			if (p) for (i = 0; i < dl; i++) make_elem(p + i * esize, data[i]);
			answer(c, p ? "ok" : "refused", size0, used0, 0);
		}
	}
	else if (!strcmp(a, "slice")) {
		if (!b) answer(c, "skipped", size0, used0, 0);
		else {
			size_t n = drv_uint(c, "n", 0) * esize;
			int um = !managed(b);
			uint8_t *p = (uint8_t *) mpt_array_slice(ar, drv_uint(c, "off", 0) * esize, n);
			if (p && um && n) memset(p, 0x99, n);     /* the caller's bytes */
			answer(c, p ? "ok" : "refused", size0, used0, 0);
		}
	}
	else if (!strcmp(a, "reserve")) {
		MPT_STRUCT(buffer) *r = mpt_array_reserve(ar, drv_uint(c, "len", 0) * esize, traits_named(drv_raw(c, "typ")));
		answer(c, r ? "ok" : "refused", size0, used0, 0);
	}
	else if (!strcmp(a, "clone")) {
		int g = (int) drv_int(c, "from", 0) - 1;
		int r = mpt_array_clone(ar, (g >= 0 && g < nh) ? &arr[g] : 0);
		answer(c, r < 0 ? "refused" : "ok", size0, used0, r);
	}
	else if (!strcmp(a, "detach")) {
		if (!is_elem) answer(c, "skipped", size0, used0, 0);
		else {
			MPT_STRUCT(buffer) *r = b->_vptr->detach(b, drv_uint(c, "len", 0) * esize);
			if (r) ar->_buf = r;
			answer(c, r ? "ok" : "refused", size0, used0, 0);
		}
	}
	else {
		drv_begin(c);
		j_str("ret", "unknown-action");
		drv_dbg();
		drv_end();
	}
	fail_at = fail_mode = fail_next = dfail_at = 0;
	free_src(src, dl);
	free(data);
}

int main(int argc, char **argv)
{
	kind = K_REC;
	if (argc > 1 && !strcmp(argv[1], "arr")) kind = K_ARR;
	if (argc > 1 && !strcmp(argv[1], "meta")) kind = K_META;
	if (argc > 1 && !strcmp(argv[1], "idn")) kind = K_IDN;
	if (kind == K_META) {
		etraits = mpt_meta_reference_traits();
		esize = sizeof(MPT_INTERFACE(metatype) *);
	} else if (kind == K_IDN) {
		etraits = mpt_identifier_traits();
		esize = sizeof(MPT_STRUCT(identifier));
	} else if (kind_arr) {
		etraits = mpt_array_traits();
		esize = sizeof(MPT_STRUCT(array));
	} else {
		etraits = &rec_traits;
		esize = sizeof(struct elem);
	}
	plain_traits = mpt_type_traits('d');
	return drv_main(argc, argv);
}
