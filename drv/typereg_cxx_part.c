/*
 * The C face of the registry for drv/typereg_cxx.cpp: the step function of
 * drv/typereg.c (unchanged, included) under another name, compiled as C.
 */
#define main typereg_c_main
#include "typereg.c"
#undef main

void x06_typereg_step(struct cmd *c, long beh, long stepno)
{
	drv_out = stdout;
	drv_beh = beh;
	drv_stepno = stepno;
	drv_step(c);
}
