/*
 * Driver for spec/Reply.tla (C12).
 *
 * mode "id":  mpt_message_id2buf / mpt_message_buf2id on exact-size heap
 *             buffers (ASan sees any access outside them); ids travel as
 *             four 16-bit limbs, least significant first.
 * mode "ctx": one context of mpt_reply_deferrable with a scripted transport
 *             (send callback): every invocation is recorded (id bytes handed
 *             over, message bytes or "no message") and answered as the step's
 *             tv argument says.  Armed through the TypeReplyDataPtr conversion
 *             and mpt_reply_set as mptio/connection/connection_dispatch.c does.
 */
#include "drv.h"

#include <sys/uio.h>

#include "meta.h"
#include "message.h"
#include "types.h"
#include "event.h"

#define MAXH 16
#define MAXSENT 8

static int mode_ctx;
static MPT_INTERFACE(metatype) *ctx;
static MPT_INTERFACE(reply_context) *rc;
static MPT_STRUCT(reply_data) *rd;
static const void *rc_vptr0, *mt_vptr0;
static MPT_INTERFACE(reply_context_detached) *hd[MAXH + 1];
static int own;
static int target_dummy;
static size_t ctx_max;

static int tv_ok;
static struct sent {
	uint8_t id[300];
	size_t  idlen;
	int     null;
	uint8_t data[1024];
	size_t  dlen;
} sent[MAXSENT];
static int nsent;

static int send_cb(void *ptr, const MPT_STRUCT(reply_data) *d, const MPT_STRUCT(message) *msg)
{
	struct sent *s;
	(void) ptr;
	if (nsent < MAXSENT) {
		s = &sent[nsent++];
		s->idlen = d->len < sizeof(s->id) ? d->len : sizeof(s->id);
		memcpy(s->id, d->val, s->idlen);
		s->null = msg ? 0 : 1;
		s->dlen = 0;
		if (msg) {
			size_t i, take;
			take = msg->used < sizeof(s->data) ? msg->used : sizeof(s->data);
			if (take) memcpy(s->data, msg->base, take);
			s->dlen = take;
			for (i = 0; i < msg->clen; i++) {
				take = msg->cont[i].iov_len;
				if (take > sizeof(s->data) - s->dlen) take = sizeof(s->data) - s->dlen;
				if (take) memcpy(s->data + s->dlen, msg->cont[i].iov_base, take);
				s->dlen += take;
			}
		}
	}
	return tv_ok ? 0 : MPT_ERROR(BadOperation);
}

static void drv_reset(void)
{
	/* objects of the previous behaviour are abandoned (leak checking is off) */
	ctx = 0; rc = 0; rd = 0; own = 0; mode_ctx = 0;
	memset(hd, 0, sizeof(hd));
	nsent = 0;
}

static void limbs_out(const char *key, uint64_t v)
{
	long long l[4];
	l[0] = v & 0xffff; l[1] = (v >> 16) & 0xffff; l[2] = (v >> 32) & 0xffff; l[3] = (v >> 48) & 0xffff;
	j_ints(key, l, 4);
}
static uint64_t limbs_in(struct cmd *c, const char *key)
{
	size_t n = 0, i;
	long long *l = drv_ints(c, key, &n);
	uint64_t v = 0;
	for (i = 0; i < n && i < 4; i++) v |= ((uint64_t) (l[i] & 0xffff)) << (16 * i);
	free(l);
	return v;
}

/* context still as created: interface tables untouched, conversions stable */
static int intact(void)
{
	void *p = 0;
	if (!own || !ctx) return 1;
	if (ctx->_vptr != mt_vptr0) return 0;
	if (rc->_vptr != rc_vptr0) return 0;
	if (MPT_metatype_convert(ctx, MPT_ENUM(TypeReplyPtr), &p) < 0 || p != (void *) rc) return 0;
	return 1;
}

static void ctx_answer(struct cmd *c, const char *ret)
{
	int i;
	drv_begin(c);
	j_str("ret", ret);
	j_arr_open("sends");
	for (i = 0; i < nsent; i++) {
		j_item_obj_open();
		j_bytes("id", sent[i].id, sent[i].idlen);
		j_int("null", sent[i].null);
		j_bytes("data", sent[i].data, sent[i].dlen);
		j_close();
	}
	j_arr_close();
	j_int("armed", (own && rd && rd->len) ? 1 : 0);
	j_int("intact", intact());
	drv_dbg();
	j_int("own", own);
	if (own && rd) {
		j_int("max", rd->_max);
		j_int("len", rd->len);
		/* only a sane reply_data is dumped (diagnostic) */
		if (rd->_max == ctx_max && rd->len <= rd->_max) j_bytes("val", rd->val, rd->len);
	}
	drv_end();
}

static void make_msg(struct cmd *c, MPT_STRUCT(message) *msg, struct iovec *vec, uint8_t **keep)
{
	size_t len = 0;
	uint8_t *data = drv_bytes(c, "data", &len);
	*keep = data;
	msg->base = 0; msg->used = 0; msg->cont = 0; msg->clen = 0;
	/* two bytes of header in the base part, the rest as continuation */
	if (len <= 2) {
		msg->base = data; msg->used = len;
	} else {
		msg->base = data; msg->used = 2;
		vec->iov_base = data + 2; vec->iov_len = len - 2;
		msg->cont = vec; msg->clen = 1;
	}
}

static void drv_step(struct cmd *c)
{
	const char *a = c->action;
	const char *tv = drv_raw(c, "tv");

	nsent = 0;
	tv_ok = !(tv && !strcmp(tv, "reject"));

	if (!strcmp(a, "init")) {
		const char *m = drv_raw(c, "mode");
		drv_reset();
		if (m && !strcmp(m, "ctx")) {
			size_t max = drv_uint(c, "max", 0);
			int attached = (int) drv_int(c, "attached", 1);
			int target = (int) drv_int(c, "target", 1);
			mode_ctx = 1;
			ctx_max = max;
			ctx = mpt_reply_deferrable(max, attached ? send_cb : 0, target ? &target_dummy : 0);
			if (!ctx) {
				drv_begin(c); j_str("ret", "nocontext"); drv_dbg(); drv_end();
				return;
			}
			own = 1;
			mt_vptr0 = ctx->_vptr;
			MPT_metatype_convert(ctx, MPT_ENUM(TypeReplyPtr), &rc);
			MPT_metatype_convert(ctx, MPT_ENUM(TypeReplyDataPtr), &rd);
			rc_vptr0 = rc ? rc->_vptr : 0;
			ctx_answer(c, (rc && rd) ? "ok" : "noconv");
			return;
		}
		drv_begin(c); j_str("ret", "ok"); drv_dbg(); drv_end();
		return;
	}
	/* ---- mode "id" ---- */
	if (!strcmp(a, "id2buf")) {
		uint64_t id = limbs_in(c, "id");
		size_t w = drv_uint(c, "w", 0);
		uint8_t *buf = (uint8_t *) malloc(w ? w : 1);
		int r;
		memset(buf, 0xEE, w ? w : 1);
		r = mpt_message_id2buf(id, w ? buf : buf + 1, w);
		drv_begin(c);
		j_str("ret", r < 0 ? "refused" : "ok");
		j_bytes("buf", buf, r < 0 ? 0 : w);
		drv_dbg();
		j_int("r", r);
		drv_end();
		free(buf);
		return;
	}
	if (!strcmp(a, "buf2id")) {
		size_t len = 0, i;
		uint8_t *src = drv_bytes(c, "buf", &len);
		uint8_t *buf = (uint8_t *) malloc(len ? len : 1);   /* exact size */
		uint64_t id = 0xA5A5A5A5A5A5A5A5ULL;
		int r;
		for (i = 0; i < len; i++) buf[i] = src[i];
		r = mpt_message_buf2id(len ? buf : buf + 1, len, &id);
		drv_begin(c);
		j_str("ret", r < 0 ? "refused" : "ok");
		limbs_out("id", id);
		drv_dbg();
		j_int("r", r);
		drv_end();
		free(buf); free(src);
		return;
	}
	if (!strcmp(a, "roundtrip")) {
		uint64_t id = limbs_in(c, "id"), back = 0xA5A5A5A5A5A5A5A5ULL;
		size_t w = drv_uint(c, "w", 0);
		uint8_t *buf = (uint8_t *) malloc(w ? w : 1);
		int r, r2 = 0;
		memset(buf, 0xEE, w ? w : 1);
		r = mpt_message_id2buf(id, w ? buf : buf + 1, w);
		if (r >= 0) {
			if (w) {
				buf[0] |= 0x80;   /* travels as a reply ... */
				buf[0] &= 0x7f;   /* ... and is unmarked by the receiver */
			}
			r2 = mpt_message_buf2id(w ? buf : buf + 1, w, &back);
		}
		drv_begin(c);
		j_str("ret", r < 0 ? "refused" : (r2 < 0 ? "unreadable" : "ok"));
		limbs_out("id", back);
		drv_dbg();
		j_int("r", r); j_int("r2", r2);
		drv_end();
		free(buf);
		return;
	}
	/* ---- mode "ctx" ---- */
	/* calls that are not possible in the present state are not made at all
	 * (seeded histories cannot know which handles are still alive) */
	{
		int h = (int) drv_int(c, "h", 1), skip = 0;
		if (!strcmp(a, "dreply") || !strcmp(a, "drelease")) skip = (h < 1 || h > MAXH || !hd[h]);
		else if (!strcmp(a, "defer")) skip = (!own || h < 1 || h > MAXH || hd[h]);
		else skip = !own;
		if (skip) {
			drv_begin(c); j_str("ret", "skipped"); drv_dbg(); drv_end();
			return;
		}
	}
	if (!strcmp(a, "arm")) {
		size_t len = 0;
		uint8_t *id = drv_bytes(c, "id", &len);
		int r = mpt_reply_set(rd, len, id);
		ctx_answer(c, r < 0 ? "refused" : "ok");
		free(id);
	}
	else if (!strcmp(a, "reply")) {
		int r;
		if (drv_int(c, "null", 0)) {
			r = rc->_vptr->reply(rc, 0);
		} else {
			MPT_STRUCT(message) msg; struct iovec vec; uint8_t *keep;
			make_msg(c, &msg, &vec, &keep);
			r = rc->_vptr->reply(rc, &msg);
			free(keep);
		}
		ctx_answer(c, r < 0 ? "refused" : "ok");
	}
	else if (!strcmp(a, "replytext")) {
		size_t len = 0;
		uint8_t *text = drv_bytes(c, "text", &len);
		int code = (int) (int8_t) drv_int(c, "code", 0);
		int r;
		text[len] = 0;
		r = mpt_context_reply(rc, code, "%s", (char *) text);
		ctx_answer(c, r < 0 ? "refused" : "ok");
		free(text);
	}
	else if (!strcmp(a, "defer")) {
		int h = (int) drv_int(c, "h", 1);
		MPT_INTERFACE(reply_context_detached) *d = rc->_vptr->defer(rc);
		if (d && h >= 1 && h <= MAXH) hd[h] = d;
		ctx_answer(c, d ? "handle" : "none");
	}
	else if (!strcmp(a, "dreply")) {
		int h = (int) drv_int(c, "h", 1), r;
		MPT_STRUCT(message) msg; struct iovec vec; uint8_t *keep;
		make_msg(c, &msg, &vec, &keep);
		r = hd[h]->_vptr->reply(hd[h], &msg);
		if (r >= 0) hd[h] = 0;          /* consumed */
		ctx_answer(c, r < 0 ? "refused" : "ok");
		free(keep);
	}
	else if (!strcmp(a, "drelease")) {
		int h = (int) drv_int(c, "h", 1), r;
		r = hd[h]->_vptr->reply(hd[h], 0);
		hd[h] = 0;
		ctx_answer(c, r < 0 ? "refused" : "ok");
	}
	else if (!strcmp(a, "release")) {
		MPT_INTERFACE(metatype) *m = ctx;
		if (--own == 0) { ctx = 0; }
		m->_vptr->unref(m);
		if (!own) { rc = 0; rd = 0; }
		ctx_answer(c, "ok");
	}
	else if (!strcmp(a, "addref")) {
		uintptr_t r = ctx->_vptr->addref(ctx);
		if (r) own++;
		ctx_answer(c, r ? "ok" : "refused");
	}
	else {
		drv_begin(c); j_str("ret", "unknown-action"); drv_dbg(); drv_end();
	}
}

int main(int argc, char **argv)
{
	return drv_main(argc, argv);
}
