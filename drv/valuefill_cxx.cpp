/*
 * Driver for spec/ValueFill.tla (X19, extension of C19), C++ binding: the iterator wrappers and templates of
 * mptcore/types.h (iterator::get<T>, source<T>), the cycle implementation of the raw data interface
 * (mpt++/cycle.cpp) and the typed value store (mpt++/value_store.cpp).
 *
 *   create via=cxx type=<d|f|i|u|x|n|q|b|y> vals=p,q,p,q,.. step=k    mpt::source<T> over the values
 *   create via=desc|values|string|linear|boundary ...                  C generators used through mpt::iterator
 *   value i= [type=]     it->get<T>(val) (default double)     advance i=   reset i=
 *   walk i= max= style=get|loop type=      while (it->get(val)) { ..; it->advance(); }  /  the documented loop
 *   rdnew max= dims=       new cycle, limit_stages(max), limit_dimensions(dims) (0: no limit)
 *   rdmod dim= [cycle= off=] i= max= type= scalar=     elements walked from instance i handed to modify()
 *          (without destination: rawdata::set_data<T>())
 *   rdadv / rdval dim= cycle= / rddim cycle= / rdcount
 *   rdclone / rdswap       cycle::clone(); the following calls address the other one of the two
 *   vsnew n=              n empty value stores
 *   vsset col= type= pos= i= max=     value_store::set<T>(span, pos)
 *   vsres col= type= count=           value_store::reserve<T>(count)
 *   vsmax [type=]                     maxsize(span<const value_store>, traits)
 *   rangeset i=                       mpt_range_set with the C++ iterator as value
 *   copy fn= pts= lds= ldd= vals=     the copy<S,D>(pts, src, lds, dest, ldd) template into a marked target
 * Answers are classes; every rd.. and vs.. answer carries what the query interface reports afterwards.
 */
#include "drv.h"

#include <math.h>
#include <sys/uio.h>

#include "types.h"
#include "convert.h"
#include "meta.h"
#include "array.h"
#include "values.h"

using namespace mpt;

#define MAXINST 8
#define MAXVS   4

struct inst {
	iterator *it;
	metatype *mt;              /* C generator behind the iterator */
	void *data;                /* storage of a source<T> */
	void (*del)(struct inst *);
};
static struct inst in[MAXINST];
static int ninst;
static cycle *cyc, *cyc2;     /* the store addressed by the calls and its clone */
static value_store *vs;
static int nvs;

static void drv_reset(void)
{
	for (int i = 0; i < ninst; i++) {
		if (in[i].del) in[i].del(&in[i]);
		if (in[i].mt) in[i].mt->unref();
		in[i].it = 0; in[i].mt = 0; in[i].data = 0; in[i].del = 0;
	}
	ninst = 0;
	if (cyc) cyc->unref();
	if (cyc2) cyc2->unref();
	cyc = cyc2 = 0;
	delete [] vs;
	vs = 0;
	nvs = 0;
}

/* ---------- exact doubles ---------- */
static void d_limbs(double x, long long *v)
{
	int k;
	for (k = 0; k < 6; k++) v[k] = 0;
	if (isnan(x)) v[0] = 4;
	else if (isinf(x)) v[0] = x > 0 ? 2 : 3;
	else if (x != 0) {
		int e;
		double f = frexp(fabs(x), &e);
		uint64_t m = (uint64_t) ldexp(f, 53);
		e -= 53;
		while (!(m & 1) && e < 0) { m >>= 1; e++; }
		if (e > 0 && e <= 10 && !(m >> (53 - e))) { m <<= e; e = 0; }
		v[0] = x < 0;
		for (k = 0; k < 4; k++) v[1 + k] = (long long) ((m >> (15 * k)) & 0x7fff);
		v[5] = e;
	}
}
static void j_double(const char *key, double x)
{
	long long v[6];
	d_limbs(x, v);
	j_ints(key, v, 6);
}
static void j_item_double(double x)
{
	long long v[6];
	d_limbs(x, v);
	j_sep();
	fprintf(drv_out, "[%lld,%lld,%lld,%lld,%lld,%lld]", v[0], v[1], v[2], v[3], v[4], v[5]);
}
static void j_doubles(const char *key, const double *p, size_t n)
{
	j_arr_open(key);
	for (size_t k = 0; k < n; k++) j_item_double(p[k]);
	j_arr_close();
}
static double rat(const struct cmd *c, const char *key, double def)
{
	size_t n;
	long long *v = drv_ints(c, key, &n);
	double r = def;
	if (n >= 2 && v[1]) r = (double) v[0] / (double) v[1];
	else if (n == 1) r = (double) v[0];
	free(v);
	return r;
}
static void answer(struct cmd *c, const char *ret)
{
	drv_begin(c);
	j_str("ret", ret);
	drv_dbg();
	j_int("ninst", ninst);
	drv_end();
}

/* ---------- typed access ---------- */
static size_t type_size(int type)
{
	switch (type) {
	  case 'd': return sizeof(double);
	  case 'f': return sizeof(float);
	  case 'i': return sizeof(int32_t);
	  case 'u': return sizeof(uint32_t);
	  case 'x': return sizeof(int64_t);
	  case 't': return sizeof(uint64_t);
	  case 'n': return sizeof(int16_t);
	  case 'q': return sizeof(uint16_t);
	  case 'b': return sizeof(int8_t);
	  case 'y': return sizeof(uint8_t);
	  default: return 0;
	}
}
static double typed_double(int type, const void *p)
{
	switch (type) {
	  case 'd': return *(const double *) p;
	  case 'f': return *(const float *) p;
	  case 'i': return *(const int32_t *) p;
	  case 'u': return *(const uint32_t *) p;
	  case 'x': return (double) *(const int64_t *) p;
	  case 't': return (double) *(const uint64_t *) p;
	  case 'n': return *(const int16_t *) p;
	  case 'q': return *(const uint16_t *) p;
	  case 'b': return *(const int8_t *) p;
	  case 'y': return *(const uint8_t *) p;
	  default: return 0;
	}
}
static void typed_store(int type, void *p, double x)
{
	switch (type) {
	  case 'd': *(double *) p = x; break;
	  case 'f': *(float *) p = (float) x; break;
	  case 'i': *(int32_t *) p = (int32_t) x; break;
	  case 'u': *(uint32_t *) p = (uint32_t) x; break;
	  case 'x': *(int64_t *) p = (int64_t) x; break;
	  case 't': *(uint64_t *) p = (uint64_t) x; break;
	  case 'n': *(int16_t *) p = (int16_t) x; break;
	  case 'q': *(uint16_t *) p = (uint16_t) x; break;
	  case 'b': *(int8_t *) p = (int8_t) x; break;
	  case 'y': *(uint8_t *) p = (uint8_t) x; break;
	}
}
/* iterator::get<T>() for a run-time type */
static bool get_typed(iterator *it, int type, void *dst)
{
	switch (type) {
	  case 'd': return it->get(*(double *) dst);
	  case 'f': return it->get(*(float *) dst);
	  case 'i': return it->get(*(int32_t *) dst);
	  case 'u': return it->get(*(uint32_t *) dst);
	  case 'x': return it->get(*(int64_t *) dst);
	  case 't': return it->get(*(uint64_t *) dst);
	  case 'n': return it->get(*(int16_t *) dst);
	  case 'q': return it->get(*(uint16_t *) dst);
	  case 'b': return it->get(*(int8_t *) dst);
	  case 'y': return it->get(*(uint8_t *) dst);
	  default: return false;
	}
}
template <typename T>
static void del_source(struct inst *i)
{
	delete static_cast<source<T> *>(i->it);
	free(i->data);
}
template <typename T>
static void make_source(struct inst *i, const double *v, long n, int step)
{
	T *d = (T *) malloc((n > 0 ? n : 1) * sizeof(T));
	for (long k = 0; k < n; k++) d[k] = (T) v[k];
	i->data = d;
	i->it = new source<T>(d, n, step);
	i->del = del_source<T>;
}
static int type_arg(const struct cmd *c, int def)
{
	const char *t = drv_raw(c, "type");
	return (t && *t) ? *t : def;
}

/* walk into a typed buffer: style 0 = while (get) advance, 1 = documented loop */
static size_t walk(iterator *it, int type, size_t max, int loop, void **out, const char **how)
{
	size_t n = 0, cap = 16, sz = type_size(type);
	uint8_t *buf = (uint8_t *) malloc(cap * sz);
	*how = "full";
	while (!max || n < max) {
		if (n == cap) buf = (uint8_t *) realloc(buf, (cap *= 2) * sz);
		if (!get_typed(it, type, buf + n * sz)) { *how = "noval"; break; }
		n++;
		int r = it->advance();
		if (loop) {
			if (r < 0) { *how = "adverr"; break; }
			if (!r) { *how = "last"; break; }
		}
	}
	*out = buf;
	return n;
}

/* ---------- what the stores report ---------- */
static const char type_chars[] = "dfiuxtnqby";
static int traits_type(const struct type_traits *t)
{
	if (!t) return 0;
	for (const char *c = type_chars; *c; c++) if (type_traits::get(*c) == t) return *c;
	return '?';
}
static void j_store(const value_store *s)
{
	const array::content *d = s ? s->data() : 0;
	int type = d ? traits_type(d->content_traits()) : 0;
	size_t sz = type_size(type);
	long n = s ? s->element_count() : -1;      /* the length the store reports */
	j_sep();
	fputc('[', drv_out);
	drv_first = 1;
	for (long k = 0; sz && k < n; k++) j_item_double(typed_double(type, ((const uint8_t *) d->data()) + k * sz));
	fputc(']', drv_out);
	drv_first = 0;
}
static void j_stages(const char *key, const cycle *cy)
{
	long ns = cy ? cy->stage_count() : 0;
	j_arr_open(key);
	for (long s = 0; s < ns; s++) {
		long dc = cy->dimension_count((int) s);
		j_sep();
		fputc('[', drv_out);
		drv_first = 1;
		for (long d = 0; d < dc; d++) j_store(cy->values((unsigned) d, (int) s));
		fputc(']', drv_out);
		drv_first = 0;
	}
	j_arr_close();
}
static void j_snapshot(void)
{
	j_int("ns", cyc ? cyc->stage_count() : -1);
	j_stages("st", cyc);
	j_stages("alt", cyc2);     /* what the other store (clone / original) reports */
}
static void j_stores(void)
{
	j_arr_open("stores");
	for (int k = 0; k < nvs; k++) j_store(&vs[k]);
	j_arr_close();
}
static void j_store_types(void)     /* buffer element type / type() of every store (diagnostics) */
{
	char buf[4 * MAXVS + 1];
	size_t n = 0;
	for (int k = 0; k < nvs; k++) {
		const array::content *d = vs[k].data();
		int t = d ? traits_type(d->content_traits()) : 0, id = vs[k].type();
		buf[n++] = t ? (char) t : '-';
		buf[n++] = (id > 32 && id < 127) ? (char) id : '-';
		buf[n++] = '|';
	}
	buf[n] = 0;
	j_str("types", buf);
}

static int add_inst(metatype *m)
{
	if (!m) return -1;
	iterator *it = *m;
	if (ninst >= MAXINST || !it) { m->unref(); return -2; }
	in[ninst].mt = m;
	in[ninst].it = it;
	return ninst++;
}

template <typename T>
static int set_data(rawdata *r, unsigned dim, const void *data, size_t n)
{
	return r->set_data(dim, static_cast<const T *>(data), (unsigned) n);
}
template <typename T>
static bool vs_set(value_store &s, const void *data, size_t n, long pos)
{
	return s.set(span<const T>(static_cast<const T *>(data), (long) n), pos) != 0;
}
template <typename T>
static bool vs_reserve(value_store &s, long count)
{
	return s.reserve<T>(count) != 0;
}
#define BY_TYPE(type, call, fail) \
	((type) == 'd' ? call(double) : (type) == 'f' ? call(float) : (type) == 'i' ? call(int32_t) : \
	 (type) == 'u' ? call(uint32_t) : (type) == 'x' ? call(int64_t) : (type) == 't' ? call(uint64_t) : \
	 (type) == 'n' ? call(int16_t) : (type) == 'q' ? call(uint16_t) : (type) == 'b' ? call(int8_t) : \
	 (type) == 'y' ? call(uint8_t) : (fail))

static void drv_step(struct cmd *c)
{
	const char *a = c->action;
	long i = (long) drv_int(c, "i", 1) - 1;

	if (!strcmp(a, "create")) {
		const char *via = drv_raw(c, "via");
		size_t dl = 0;
		char *desc = (char *) drv_bytes(c, "desc", &dl);
		int r = -1;
		desc[dl] = 0;
		drv_reset();
		if (!via) via = "desc";
		if (!strcmp(via, "cxx")) {
			size_t n = 0;
			long long *v = drv_ints(c, "vals", &n);
			int type = type_arg(c, 'd'), step = (int) drv_int(c, "step", 1);
			double *d = (double *) malloc((n / 2 + 1) * sizeof(*d));
			n /= 2;
			for (size_t k = 0; k < n; k++) d[k] = (double) v[2 * k] / (double) v[2 * k + 1];
#define MK(T) (make_source<T>(&in[0], d, (long) n, step), 0)
			r = BY_TYPE(type, MK, -1);
#undef MK
			if (r >= 0) { in[0].mt = 0; ninst = 1; }
			free(d);
			free(v);
		}
		else if (!strcmp(via, "desc")) r = add_inst(mpt_iterator_create(desc));
		else if (!strcmp(via, "values")) r = add_inst(mpt_iterator_values(desc));
		else if (!strcmp(via, "string")) r = add_inst(mpt_iterator_string(desc, 0));
		else if (!strcmp(via, "linear")) r = add_inst(mpt_iterator_linear((uint32_t) drv_uint(c, "len", 0), rat(c, "a", 0), rat(c, "b", 1)));
		else if (!strcmp(via, "boundary")) r = add_inst(mpt_iterator_boundary((uint32_t) drv_uint(c, "len", 0), rat(c, "a", 0), rat(c, "b", 0), rat(c, "c", 0)));
		free(desc);
		answer(c, r >= 0 ? "ok" : (r == -1 ? "refused" : "noiter"));
		return;
	}
	if (!strcmp(a, "nop")) {
		drv_reset();
		answer(c, "ok");
		return;
	}
	if (!strcmp(a, "value") || !strcmp(a, "advance") || !strcmp(a, "reset") || !strcmp(a, "walk") || !strcmp(a, "clone") || !strcmp(a, "consume")) {
		if (i < 0 || i >= ninst || !in[i].it) { answer(c, "noinst"); return; }
	}
	if (!strcmp(a, "value")) {
		int type = type_arg(c, 'd');
		uint8_t tmp[16];
		bool ok = get_typed(in[i].it, type, tmp);
		drv_begin(c);
		j_str("ret", ok ? "value" : "end");
		if (ok) j_double("d", typed_double(type, tmp));
		else { long long none = 0; j_ints("d", &none, 0); }
		drv_dbg();
		drv_end();
		return;
	}
	if (!strcmp(a, "consume")) {
		/* the C helper on a C++ iterator object (same binary interface) */
		double x = 0;
		int r = mpt_iterator_consume(in[i].it, 'd', &x);
		drv_begin(c);
		j_str("ret", r >= 0 ? "value" : "end");
		if (r >= 0) j_double("d", x);
		else { long long none = 0; j_ints("d", &none, 0); }
		drv_dbg();
		j_int("code", r);
		drv_end();
		return;
	}
	if (!strcmp(a, "advance")) {
		int r = in[i].it->advance();
		drv_begin(c);
		j_str("ret", r > 0 ? "more" : (r == 0 ? "last" : "end"));
		drv_dbg();
		j_int("code", r);
		drv_end();
		return;
	}
	if (!strcmp(a, "reset")) {
		int r = in[i].it->reset();
		drv_begin(c);
		j_str("ret", r >= 0 ? "ok" : "error");
		drv_dbg();
		j_int("code", r);
		drv_end();
		return;
	}
	if (!strcmp(a, "clone")) {
		int r = -1;
		if (in[i].mt) r = add_inst(in[i].mt->clone());
		answer(c, r >= 0 ? "ok" : (r == -1 ? "none" : "noiter"));
		return;
	}
	if (!strcmp(a, "walk")) {
		const char *style = drv_raw(c, "style");
		int type = type_arg(c, 'd');
		const char *how = "-";
		void *out = 0;
		size_t n = walk(in[i].it, type, (size_t) drv_uint(c, "max", 0), style && !strcmp(style, "loop"), &out, &how);
		size_t sz = type_size(type);
		drv_begin(c);
		j_str("ret", "ok");
		j_int("n", (long long) n);
		j_arr_open("vals");
		for (size_t k = 0; k < n; k++) j_item_double(typed_double(type, (const uint8_t *) out + k * sz));
		j_arr_close();
		j_str("how", how);
		drv_dbg();
		drv_end();
		free(out);
		return;
	}
	if (!strcmp(a, "rangeset")) {
		/* the C consumer on a C++ iterator handed over as value */
		if (i < 0 || i >= ninst || !in[i].it) { answer(c, "noinst"); return; }
		struct range r(-7, -9);
		iterator *ptr = in[i].it;
		value val;
		val.set(TypeIteratorPtr, &ptr);
		int ret = mpt_range_set(&r, &val);
		drv_begin(c);
		j_str("ret", ret >= 0 ? "ok" : "refused");
		j_double("min", r.min);
		j_double("max", r.max);
		drv_dbg();
		j_int("code", ret);
		drv_end();
		return;
	}
	if (!strcmp(a, "copy")) {
		/* the copy<S,D> template: fn=64 double->double, 32 float->float, df double->float, fd float->double */
		const char *fn = drv_raw(c, "fn");
		int pts = (int) drv_int(c, "pts", 0), lds = (int) drv_int(c, "lds", 1), ldd = (int) drv_int(c, "ldd", 1);
		size_t nv = 0, k, dl = (size_t) ((pts > 0 ? (pts - 1) * ldd + 1 : 0) + 2);
		long long *v = drv_ints(c, "vals", &nv);
		double *sd = (double *) malloc((nv / 2 + 1) * sizeof(*sd)), *dd = (double *) malloc(dl * sizeof(*dd));
		float *sf = (float *) malloc((nv / 2 + 1) * sizeof(*sf)), *df = (float *) malloc(dl * sizeof(*df));
		bool isf = false;
		nv /= 2;
		for (k = 0; k < nv; k++) { sd[k] = (double) v[2 * k] / (double) v[2 * k + 1]; sf[k] = (float) sd[k]; }
		for (k = 0; k < dl; k++) { dd[k] = -12345.0; df[k] = -12345.0f; }
		if (fn && !strcmp(fn, "64")) copy(pts, sd, lds, dd, ldd);
		else if (fn && !strcmp(fn, "32")) { copy(pts, sf, lds, df, ldd); isf = true; }
		else if (fn && !strcmp(fn, "df")) { copy(pts, sd, lds, df, ldd); isf = true; }
		else if (fn && !strcmp(fn, "fd")) copy(pts, sf, lds, dd, ldd);
		drv_begin(c);
		j_arr_open("dest");
		for (k = 0; k < dl; k++) j_item_double(isf ? (double) df[k] : dd[k]);
		j_arr_close();
		drv_dbg();
		drv_end();
		free(v); free(sd); free(dd); free(sf); free(df);
		return;
	}
	if (!strcmp(a, "rdnew")) {
		if (cyc) cyc->unref();
		if (cyc2) cyc2->unref();
		cyc2 = 0;
		cyc = new reference<cycle>::type;
		bool ok = true;
		if (drv_uint(c, "dims", 0)) cyc->limit_dimensions((uint8_t) drv_uint(c, "dims", 0));
		if (drv_uint(c, "max", 0)) ok = cyc->limit_stages((size_t) drv_uint(c, "max", 0));
		drv_begin(c);
		j_str("ret", ok ? "ok" : "refused");
		j_snapshot();
		drv_dbg();
		drv_end();
		return;
	}
	if (!strncmp(a, "rd", 2)) {
		if (!cyc) { answer(c, "nostore"); return; }
		rawdata *rd = cyc;
		if (!strcmp(a, "rdmod")) {
			int type = type_arg(c, 'd'), r = -999;
			size_t n = 0;
			void *data = 0;
			const char *how = "noinst";
			valdest vd;
			bool withvd = drv_uint(c, "cycle", 0) || drv_uint(c, "off", 0);   /* no destination: rawdata::set_data<T>() */
			unsigned dim = (unsigned) drv_uint(c, "dim", 0);
			vd.cycle = (uint32_t) drv_uint(c, "cycle", 0);
			vd.offset = (uint32_t) drv_uint(c, "off", 0);
			if (i >= 0 && i < ninst && in[i].it) n = walk(in[i].it, type, (size_t) drv_uint(c, "max", 0), 1, &data, &how);
			if (data && n && !withvd) {
#define SD(T) set_data<T>(rd, dim, data, n)
				r = BY_TYPE(type, SD, -998);
#undef SD
			}
			else if (data && n) {
				value val;
				struct iovec vec;
				vec.iov_base = data;
				vec.iov_len = n * type_size(type);
				if (drv_int(c, "scalar", 0) && n == 1) val.set(type, data);
				else val.set(MPT_type_toVector(type), &vec);
				r = rd->modify(dim, val, &vd);
			}
			drv_begin(c);
			j_str("ret", !n ? "skipped" : (r >= 0 ? "ok" : "refused"));   /* skipped: the source had no element, no call made */
			j_int("n", (long long) n);
			j_snapshot();
			drv_dbg();
			j_int("code", r);
			j_str("how", how);
			drv_end();
			free(data);
			return;
		}
		if (!strcmp(a, "rdclone")) {
			cycle *cl = cyc2 ? 0 : cyc->clone();
			if (cl) cyc2 = cl;
			drv_begin(c);
			j_str("ret", cl ? "ok" : "none");
			j_snapshot();
			drv_dbg();
			drv_end();
			return;
		}
		if (!strcmp(a, "rdswap")) {
			if (!cyc2) { answer(c, "noclone"); return; }
			cycle *t = cyc; cyc = cyc2; cyc2 = t;
			drv_begin(c);
			j_str("ret", "ok");
			j_snapshot();
			drv_dbg();
			drv_end();
			return;
		}
		if (!strcmp(a, "rdadv")) {
			if (drv_int(c, "guard", 0) && rd->dimension_count(-1) <= 0) {
				answer(c, "skipped");      /* the current cycle holds no data: no call made */
				return;
			}
			int r = rd->advance();
			drv_begin(c);
			j_str("ret", r >= 0 ? "ok" : "refused");
			j_int("idx", r >= 0 ? r : -1);
			j_snapshot();
			drv_dbg();
			j_int("code", r);
			drv_end();
			return;
		}
		if (!strcmp(a, "rdval")) {
			const value_store *s = rd->values((unsigned) drv_uint(c, "dim", 0), (int) drv_int(c, "cycle", -1));
			drv_begin(c);
			j_str("ret", s ? "ok" : "none");
			j_arr_open("col");
			if (s) j_store(s);
			j_arr_close();
			j_snapshot();
			drv_dbg();
			drv_end();
			return;
		}
		if (!strcmp(a, "rddim")) {
			long r = rd->dimension_count((int) drv_int(c, "cycle", -1));
			drv_begin(c);
			j_str("ret", r >= 0 ? "ok" : "refused");
			j_int("n", r >= 0 ? r : -1);
			j_snapshot();
			drv_dbg();
			j_int("code", r);
			drv_end();
			return;
		}
		if (!strcmp(a, "rdcount")) {
			long r = rd->stage_count();
			drv_begin(c);
			j_str("ret", r >= 0 ? "ok" : "refused");
			j_int("n", r);
			j_snapshot();
			drv_dbg();
			drv_end();
			return;
		}
	}
	if (!strcmp(a, "vsnew")) {
		delete [] vs;
		nvs = (int) drv_int(c, "n", 2);
		if (nvs > MAXVS) nvs = MAXVS;
		vs = new value_store[nvs];
		drv_begin(c);
		j_str("ret", "ok");
		j_stores();
		drv_dbg();
		drv_end();
		return;
	}
	if (!strncmp(a, "vs", 2)) {
		long col = (long) drv_int(c, "col", 1) - 1;
		int type = type_arg(c, 'd');
		if (!vs || col < 0 || col >= nvs) { answer(c, "nostore"); return; }
		if (!strcmp(a, "vsset")) {
			size_t n = 0;
			void *data = 0;
			const char *how = "noinst";
			bool ok = false;
			long pos = (long) drv_int(c, "pos", 0);
			if (i >= 0 && i < ninst && in[i].it) n = walk(in[i].it, type, (size_t) drv_uint(c, "max", 0), 1, &data, &how);
#define VS(T) vs_set<T>(vs[col], data, n, pos)
			if (data && n) ok = BY_TYPE(type, VS, false);
#undef VS
			drv_begin(c);
			j_str("ret", !n ? "skipped" : (ok ? "ok" : "refused"));
			j_int("n", (long long) n);
			j_stores();
			drv_dbg();
			j_str("how", how);
			j_store_types();
			drv_end();
			free(data);
			return;
		}
		if (!strcmp(a, "vsres")) {
			long count = (long) drv_int(c, "count", 0);
#define VR(T) vs_reserve<T>(vs[col], count)
			bool ok = BY_TYPE(type, VR, false);
#undef VR
			drv_begin(c);
			j_str("ret", ok ? "ok" : "refused");
			j_stores();
			drv_dbg();
			drv_end();
			return;
		}
		if (!strcmp(a, "vsmax")) {
			const struct type_traits *t = drv_has(c, "type") ? type_traits::get(type) : 0;
			long r = maxsize(span<const value_store>(vs, nvs), t);
			drv_begin(c);
			j_str("ret", "ok");
			j_int("n", r);
			j_stores();
			drv_dbg();
			drv_end();
			return;
		}
	}
	answer(c, "unknown-action");
}

int main(int argc, char **argv)
{
	return drv_main(argc, argv);
}
