/*
 * Shared by drv/mapping.c and drv/mapping_cxx.cpp (X22, spec/Mapping.tla): the universe of lookups given by the
 * init step, and the emission of the answers of every lookup of the universe after a call.
 * No library calls in here: each driver defines
 *     static size_t drv_lookup(int dim, int mask, int cli, struct dst4 *out, size_t max);
 */
#ifndef VERIF_MAPPING_COMMON_H
#define VERIF_MAPPING_COMMON_H

#define UMAX 32
#define LMAX 4096

struct dst4 { uint8_t v[4]; };

static long long udims[UMAX], umasks[UMAX], uclis[UMAX];
static size_t und, unm, unc;
static uint8_t upaths[UMAX][3];
static size_t unp;

static size_t drv_lookup(int dim, int mask, int cli, struct dst4 *out, size_t max);

static void uni_list(const struct cmd *c, const char *key, long long *to, size_t *n)
{
	size_t len, i;
	long long *v = drv_ints(c, key, &len);
	*n = len < UMAX ? len : UMAX;
	for (i = 0; i < *n; i++) to[i] = v[i];
	free(v);
}
static void uni_init(const struct cmd *c)
{
	size_t len, i;
	long long *v;
	uni_list(c, "dims", udims, &und);
	uni_list(c, "masks", umasks, &unm);
	uni_list(c, "clis", uclis, &unc);
	v = drv_ints(c, "paths", &len);
	unp = len / 3 < UMAX ? len / 3 : UMAX;
	for (i = 0; i < unp; i++) {
		upaths[i][0] = (uint8_t) v[3 * i];
		upaths[i][1] = (uint8_t) v[3 * i + 1];
		upaths[i][2] = (uint8_t) v[3 * i + 2];
	}
	free(v);
}
static int dst_cmp(const void *a, const void *b)
{
	return memcmp(((const struct dst4 *) a)->v, ((const struct dst4 *) b)->v, 4);
}
/* "<key>":[[l,g,w,d],...] items of a list of destinations */
static void j_dests(const struct dst4 *d, size_t n)
{
	size_t i;
	fputc('[', drv_out);
	for (i = 0; i < n; i++) {
		fprintf(drv_out, "%s[%u,%u,%u,%u]", i ? "," : "", d[i].v[0], d[i].v[1], d[i].v[2], d[i].v[3]);
	}
	fputc(']', drv_out);
}
/* "all": the answers of every lookup (dimension x mask x {every client, each client}), each sorted */
static void emit_all(void)
{
	static struct dst4 buf[LMAX];
	size_t a, b, k;
	int first = 1;
	j_sep();
	fputs("\"all\":[", drv_out);
	for (a = 0; a < und; a++) for (b = 0; b < unm; b++) for (k = 0; k <= unc; k++) {
		int cli = k ? (int) uclis[k - 1] : -1;
		size_t n = drv_lookup((int) udims[a], (int) umasks[b], cli, buf, LMAX);
		qsort(buf, n, sizeof(*buf), dst_cmp);
		if (!first) fputc(',', drv_out);
		first = 0;
		j_dests(buf, n);
	}
	fputc(']', drv_out);
	drv_first = 0;
}
/* list argument "a,b,c,d" -> destination; 0 when absent ("-") */
static int arg_dst(const struct cmd *c, const char *key, uint8_t *to, size_t want)
{
	size_t len, i;
	long long *v = drv_ints(c, key, &len);
	if (len < want) { free(v); return 0; }
	for (i = 0; i < want; i++) to[i] = (uint8_t) v[i];
	free(v);
	return 1;
}
/* hex text argument -> NUL terminated heap string of exactly the text's size */
static char *arg_hex(const char *r)
{
	size_t l, i;
	char *s;
	if (!r || !strcmp(r, "-")) return 0;
	if (!strncmp(r, "hex:", 4)) r += 4;
	l = strlen(r) / 2;
	s = (char *) malloc(l + 1);
	for (i = 0; i < l; i++) {
		unsigned v = 0;
		sscanf(r + 2 * i, "%2x", &v);
		s[i] = (char) v;
	}
	s[l] = 0;
	return s;
}
static const char *add_class(int r)
{
	if (r == 0) return "added";
	if (r > 0) return "reused";
	if (r == -3) return "conflict";
	return "failed";
}

#endif /* VERIF_MAPPING_COMMON_H */
