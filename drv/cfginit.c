/*
 * Driver for spec/CfgInit.tla (extension X27 of C10): the process start-up door of the
 * process-wide configuration.
 *
 *   init   base= sep= uni= rel=             as drv/configload.c (path universe, optional sub-tree view)
 *   assign/remove via= path= sep= [end=] [val=]        single calls, as drv/config.c
 *   startup argv=<hex;..> env=<hex;..|none> flags=<bytes|0> etc=none|doc ftext=<bytes> btext=<bytes>
 *          a fresh directory is made and entered; "F" (ftext) and "B" (btext) are written there, a
 *          directory "etc" (with mpt.conf = ftext when etc=doc) is made; the environment is cleared and
 *          set to env plus MPT_PREFIX_ETC=<dir>/etc [MPT_FLAGS=flags]; optind = 1; mpt_init(argc, argv)
 *   client                                  mpt_client_config(view, 0)
 *
 * After every call every path of the universe is queried (from the root and through the view) and the
 * stored remaining arguments are read through the iterator of "mpt.args" ([[-9]]: none).
 * Every behaviour runs in its own process (getopt state, environment, statics of init.c).
 * The driver moves bytes and maps return codes to classes; it holds no expectation.
 */
#define _GNU_SOURCE
#include "drv.h"

#include <sys/stat.h>
#include <fcntl.h>
#include <unistd.h>

#include "meta.h"
#include "types.h"
#include "config.h"
#include "convert.h"
#include "output.h"
#include "node.h"
#include "parse.h"
#include "core.h"

#include "config_common.h"


static MPT_INTERFACE(metatype) *viewmt;
static MPT_INTERFACE(config) *viewcfg;
static int usep = '.';
static long seq;

static void drv_reset(void)
{
	viewmt = 0;
	viewcfg = 0;
	nuni = nrel = 0;
}

static int grab_cb(void *ctx, MPT_INTERFACE(convertable) *val, const MPT_INTERFACE(collection) *sub)
{
	(void) sub;
	return grab_text(val, (struct grab *) ctx);
}
static char *lookup(const MPT_INTERFACE(config) *cfg, const char *str, int sep)
{
	MPT_STRUCT(path) p = MPT_PATH_INIT;
	struct grab g = { 0, 0 };
	p.sep = (char) sep;
	p.assign = 0;
	if (str) mpt_path_set(&p, str, -1);
	if (mpt_config_query(cfg, &p, grab_cb, &g) < 0 || !g.found) {
		free(g.text);
		return 0;
	}
	return g.text;
}
static void emit_all(void)
{
	int i;
	j_arr_open("all");
	for (i = 0; i < nuni; i++) {
		char *v = lookup(0, uni[i], usep);
		j_item_val(v);
		free(v);
	}
	j_arr_close();
	j_arr_open("rel");
	for (i = 0; i < nrel; i++) {
		char *v = viewcfg ? lookup(viewcfg, reluni[i], usep) : 0;
		j_item_val(v);
		free(v);
	}
	j_arr_close();
}
/* the stored remaining arguments, element by element */
static void emit_args(void)
{
	MPT_INTERFACE(iterator) *it = 0;
	int n = 0;
	if (mpt_config_get(0, "mpt.args", MPT_ENUM(TypeIteratorPtr), &it) <= 0 || !it) {
		j_sep();
		fputs("\"args\":[[-9]]", drv_out);
		drv_first = 0;
		return;
	}
	it->_vptr->reset(it);
	j_arr_open("args");
	while (n++ < 64) {
		const MPT_STRUCT(value) *val = it->_vptr->value(it);
		const void *ptr;
		const char *str;
		if (!val) break;
		ptr = val->_addr;
		str = mpt_data_tostring(&ptr, val->_type, 0);
		j_item_val(str ? str : "?");
		if (it->_vptr->advance(it) <= 0) break;
	}
	j_arr_close();
	it->_vptr->reset(it);
}
static void emit_store(struct cmd *c, const char *ret, long n)
{
	drv_begin(c);
	if (drv_int(c, "q", 0)) {
		drv_dbg();
		drv_end();
		return;
	}
	j_str("ret", ret);
	emit_all();
	emit_args();
	drv_dbg();
	j_int("n", n);
	j_str("logger", mpt_config_logger(0) ? "some" : "none");
	drv_end();
}
static int write_file(const char *path, const uint8_t *data, size_t len)
{
	FILE *f = fopen(path, "wb");
	if (!f) return -1;
	if (len && fwrite(data, len, 1, f) != 1) { fclose(f); return -1; }
	return fclose(f);
}
static const char *tmp_base(void)
{
	/* (read once: the start-up step clears the environment) */
	static char base[400];
	if (!base[0]) {
		const char *t = getenv("VERIF_X27_TMP");
		if (!t || !*t) t = getenv("TMPDIR");
		if (!t || !*t) t = "/tmp";
		snprintf(base, sizeof(base), "%s", t);
	}
	return base;
}

static void drv_step(struct cmd *c)
{
	const char *a = c->action;

	if (!strcmp(a, "init")) {
		const char *braw = drv_raw(c, "base");
		int hasview = braw && strcmp(braw, "0");
		char *base = arg_str(c, "base");
		usep = (int) drv_int(c, "sep", '.');
		nuni = parse_list(drv_raw(c, "uni"), uni);
		nrel = parse_list(drv_raw(c, "rel"), reluni);
		(void) tmp_base();
		if (hasview) {
			MPT_STRUCT(path) bp = MPT_PATH_INIT;
			bp.sep = (char) usep;
			mpt_path_set(&bp, base, -1);
			viewmt = mpt_config_global(&bp);
			if (viewmt) MPT_metatype_convert(viewmt, MPT_ENUM(TypeConfigPtr), &viewcfg);
		}
		emit_store(c, "ok", 0);
		return;
	}
	if (!strcmp(a, "assign") || !strcmp(a, "remove")) {
		const char *via = drv_raw(c, "via");
		MPT_INTERFACE(config) *cfg = (via && !strcmp(via, "view")) ? viewcfg : 0;
		char *path = arg_str(c, "path");
		int sep = (int) drv_int(c, "sep", '.');
		if (via && !strcmp(via, "view") && !viewcfg) {
			emit_store(c, "noview", 0);
		}
		else if (a[0] == 'a') {
			char *val = arg_str(c, "val");
			int r = mpt_config_set(cfg, path, val, sep, (int) drv_int(c, "end", 0));
			emit_store(c, r < 0 ? "refused" : "ok", r);
			free(val);
		}
		else {
			int r = mpt_config_set(cfg, path, 0, sep, 0);
			emit_store(c, r < 0 ? "refused" : "ok", r);
		}
		free(path);
		return;
	}
	if (!strcmp(a, "startup")) {
		static char tmpl[512];
		char root[512], etc[600], f1[700], cwd[512];
		char *argv[MAXUNI + 1], *env[MAXUNI + 1];
		const char *fraw = drv_raw(c, "flags"), *ek = drv_raw(c, "etc");
		char *flags = (fraw && strcmp(fraw, "0")) ? arg_str(c, "flags") : 0;
		size_t flen = 0, blen = 0;
		uint8_t *ftxt = drv_bytes(c, "ftext", &flen), *btxt = drv_bytes(c, "btext", &blen);
		int argc = parse_list(drv_raw(c, "argv"), argv);
		int nenv = parse_list(drv_raw(c, "env"), env), i, r;

		argv[argc] = 0;
		snprintf(tmpl, sizeof(tmpl), "%s", tmp_base());
		snprintf(root, sizeof(root), "%s/x27-%ld-%ld", tmpl, (long) getpid(), seq++);
		if (!getcwd(cwd, sizeof(cwd))) strcpy(cwd, "/");
		mkdir(root, 0700);
		if (chdir(root) < 0) { emit_store(c, "nodir", 0); return; }
		snprintf(etc, sizeof(etc), "%s/etc", root);
		snprintf(f1, sizeof(f1), "%s/mpt.conf", etc);
		mkdir(etc, 0700);
		write_file("F", ftxt, flen);
		write_file("B", btxt, blen);
		if (ek && !strcmp(ek, "doc")) write_file(f1, ftxt, flen);
		clearenv();
		for (i = 0; i < nenv; i++) putenv(env[i]);
		setenv("MPT_PREFIX_ETC", etc, 1);
		if (flags) setenv("MPT_FLAGS", flags, 1);
		optind = 1;
		r = mpt_init(argc, argv);
		unlink("F");
		unlink("B");
		unlink(f1);
		rmdir(etc);
		if (chdir(cwd) < 0) { }
		rmdir(root);
		drv_begin(c);
		if (!drv_int(c, "q", 0)) {
			j_str("ret", r < 0 ? "refused" : "ok");
			emit_all();
			emit_args();
		}
		drv_dbg();
		j_int("n", r);
		j_int("optind", optind);
		j_str("logger", mpt_config_logger(0) ? "some" : "none");
		drv_end();
		free(ftxt);
		free(btxt);
		return;
	}
	if (!strcmp(a, "client")) {
		int r = viewcfg ? mpt_client_config(viewcfg, 0) : -1000;
		emit_store(c, r < 0 ? "refused" : "ok", r);
		return;
	}
	drv_begin(c);
	j_str("ret", "unknown-action");
	drv_dbg();
	drv_end();
}

int main(int argc, char **argv)
{
	drv_fresh_per_behaviour = 1;
	return drv_main(argc, argv);
}
