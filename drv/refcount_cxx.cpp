/*
 * C++ paths of the RefCount driver (C15): mpt::reference<T> copy
 * construction, assignment, move assignment, set_instance, detach over
 *   - mpt::buffer   (objects made by _mpt_buffer_alloc),
 *   - mpt::metatype (harness / library metatypes, C layout with hand-made vptr),
 *   - Thing         (a C++ class counted by reference<Thing>::type),
 * and refcount::raise()/lower() of mpt++/refcount_wrap.cpp.
 * A handle is the single pointer a reference<T> consists of.
 */
#include <new>
#include <utility>
#include <stdint.h>
#include <stddef.h>

#include "core.h"
#include "meta.h"
#include "array.h"

extern "C" void *vf_malloc(size_t);
extern "C" void vf_free(void *);

enum { KBuf = 1, KHmeta, KReply, KRawdata, KGeninfo, KMetabuf, KCxxref, KBare, KStream, KOutLocal, KOutRemote, KIterFile, KMetaNew };

/* counted through reference<Thing>::type; storage goes through the allocation seam */
class Thing
{
public:
	virtual void unref() = 0;
	virtual uintptr_t addref() = 0;
	static void *operator new(size_t n) { return vf_malloc(n); }
	static void operator delete(void *p) { vf_free(p); }
	virtual ~Thing() { }
};
class ThingObj : public mpt::reference<Thing>::type
{
public:
	uintptr_t *raw() { return reinterpret_cast<uintptr_t *>(&_ref); }
	mpt::reference<Thing> inner;    /* a reference the object holds itself, released by its destructor */
};

template <typename T>
struct H
{
	static mpt::reference<T> &at(void **s) { return *reinterpret_cast<mpt::reference<T> *>(s); }
	static int assign(void **d, void **s) { at(d) = at(s); return 0; }
	static int ctor(void **d, void **s) { new (d) mpt::reference<T>(at(s)); return 0; }
	static int drop(void **d) { at(d).~reference<T>(); *d = 0; return 0; }
	static int move(void **d, void **s) { at(d) = std::move(at(s)); return 0; }
	static void *detach(void **d) { return at(d).detach(); }
	static int adopt(void **d, void *p) { at(d).set_instance(static_cast<T *>(p)); return 0; }
};

#define DISPATCH(kind, call_buf, call_meta, call_thing) \
	switch (kind) { \
	case KBuf: return call_buf; \
	case KCxxref: return call_thing; \
	default: return call_meta; \
	}

extern "C" int cxx_assign(int kind, void **d, void **s)
{
	DISPATCH(kind, H<mpt::buffer>::assign(d, s), H<mpt::metatype>::assign(d, s), H<Thing>::assign(d, s))
}
extern "C" int cxx_ctor(int kind, void **d, void **s)
{
	DISPATCH(kind, H<mpt::buffer>::ctor(d, s), H<mpt::metatype>::ctor(d, s), H<Thing>::ctor(d, s))
}
extern "C" int cxx_drop(int kind, void **d)
{
	DISPATCH(kind, H<mpt::buffer>::drop(d), H<mpt::metatype>::drop(d), H<Thing>::drop(d))
}
extern "C" int cxx_move(int kind, void **d, void **s)
{
	DISPATCH(kind, H<mpt::buffer>::move(d, s), H<mpt::metatype>::move(d, s), H<Thing>::move(d, s))
}
extern "C" void *cxx_detach(int kind, void **d)
{
	DISPATCH(kind, H<mpt::buffer>::detach(d), H<mpt::metatype>::detach(d), H<Thing>::detach(d))
}
extern "C" int cxx_adopt(int kind, void **d, void *p)
{
	DISPATCH(kind, H<mpt::buffer>::adopt(d, p), H<mpt::metatype>::adopt(d, p), H<Thing>::adopt(d, static_cast<Thing *>(static_cast<ThingObj *>(p))))
}

extern "C" void *cxx_thing_create(void)
{
	return new ThingObj;
}
extern "C" uintptr_t cxx_thing_addref(void *p)
{
	return static_cast<Thing *>(static_cast<ThingObj *>(p))->addref();
}
extern "C" void cxx_thing_unref(void *p)
{
	static_cast<Thing *>(static_cast<ThingObj *>(p))->unref();
}
extern "C" uintptr_t cxx_thing_peek(void *p)
{
	return *static_cast<ThingObj *>(p)->raw();
}
extern "C" void cxx_thing_poke(void *p, uintptr_t v)
{
	*static_cast<ThingObj *>(p)->raw() = v;
}
extern "C" void **cxx_thing_inner(void *p)
{
	return reinterpret_cast<void **>(&static_cast<ThingObj *>(p)->inner);
}
extern "C" uintptr_t cxx_bare_raise(void *p)
{
	return static_cast<mpt::refcount *>(p)->raise();
}
extern "C" uintptr_t cxx_bare_lower(void *p)
{
	return static_cast<mpt::refcount *>(p)->lower();
}
