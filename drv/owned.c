/*
 * Driver for spec/Owned.tla (X15, extension of C15): counted objects that own
 * other counted objects.
 *
 *   loader    mpt_library_open / attach / detach / bind, mpt_library_meta
 *             proxies (library + instance made by a symbol of owned_plugin.so)
 *   outchain  mpt_output_local whose property "" is a counted output metatype
 *             (set_property / mpt_object_set_value), mpt_output_remote
 *   cxxmeta   mpt++ classes that live behind new/delete or malloc+placement
 *             new (owned_cxx.cpp)
 *
 * mptcore, mptio, mptplot and mptloader are compiled through the allocation
 * seam; the mpt++ objects have malloc/free/operator new/delete redirected to
 * it in their symbol tables.  An object is "destroyed" when its block is
 * released.  Judgement-free: calls the library, maps pointers to object
 * numbers, reads counters, reports released blocks.
 */
#include "seam.h"
#include "drv.h"

#include <dlfcn.h>

#include "types.h"
#include "meta.h"
#include "convert.h"
#include "object.h"
#include "output.h"
#include "loader.h"

enum { CNone = 0, CLib, CProxy, CInst, COutLocal, COutRemote, CGeneric, CValMeta, CBufMeta, CBasic, CSInput, CLast };
static const char *cls_names[] = { "none", "lib", "proxy", "inst", "outlocal", "outremote", "generic", "valmeta", "bufmeta", "basic", "sinput" };

#define MAXH 6
#define MAXO 10

/* C++ side (owned_cxx.cpp) */
extern int   ocxx_assign(void **dst, void **src);
extern int   ocxx_drop(void **dst);
extern void *ocxx_create(int cls);
extern void *ocxx_wrap(int cls, void **src);
extern void *ocxx_member(int cls, void *obj);
extern int   ocxx_setmember(int cls, void *obj, void **src);

/* operator new / delete and malloc / free of the mpt++ objects and of the C++ half of the driver end up here.
 * Blocks obtained with operator new are remembered: a release through the other family (delete of a malloc block,
 * free of a new block) is counted like a release of something that is no live allocation */
static void *vf_newfam[VF_MAXBLK];
static int vf_nnew;
static long vf_mismatch;
static int newfam_take(void *p)
{
	int i;
	for (i = vf_nnew; i-- > 0; ) {
		if (vf_newfam[i] != p) continue;
		vf_newfam[i] = vf_newfam[--vf_nnew];
		return 1;
	}
	return 0;
}
void *vf_opnew(size_t n)
{
	void *p = vf_malloc(n);
	if (p && vf_nnew < VF_MAXBLK) vf_newfam[vf_nnew++] = p;
	return p;
}
void vf_opdelete(void *p)
{
	if (p && !newfam_take(p) && vf_find(p)) vf_mismatch++;
	vf_free(p);
}
void vf_opdelete_sized(void *p, size_t n) { (void) n; vf_opdelete(p); }
void *vf_opnew_arr(size_t n) { return vf_opnew(n); }
void vf_opdelete_arr(void *p) { vf_opdelete(p); }
void vf_opdelete_arr_sized(void *p, size_t n) { (void) n; vf_opdelete(p); }
void vf_cxx_free(void *p)
{
	if (p && newfam_take(p)) vf_mismatch++;
	vf_free(p);
}

static int nh, nobj;
static long long maxv;
static char scen[16];
static void *slot[MAXH];
static struct {
	void *ptr;
	long  serial;
	int   cls;
	long  raws;
} objs[MAXO];
static int made;
static long blocks_before;          /* seam blocks (not global tables) alive when the step began */
static const char *plugin_path;
static void (*plugin_budget)(long);   /* instance limit of the plugin constructor (0: it answers nothing) */
static void *plugin_self;            /* the driver's own mapping of the plugin: its code stays while instances live */

/* layout of the proxy object of mptloader/library_meta.c (private there) */
struct proxy_layout {
	MPT_INTERFACE(metatype) _mt;
	MPT_STRUCT(refcount) _ref;
	MPT_STRUCT(libsymbol) sym;
	void *ptr;
};
/* instance made by owned_plugin.c */
struct inst_layout {
	MPT_INTERFACE(metatype) _mt;
	uintptr_t ref;
};
/* local / remote output: metatype or input, object, output, logger interface, then the counter */
#define OUT_REF(p) (((uintptr_t *) (p)) + 4)

static uintptr_t real_of(long long v)
{
	if (v > maxv / 2) return UINTPTR_MAX - (uintptr_t) (maxv - v);
	return (uintptr_t) v;
}
static long long sym_of(uintptr_t r)
{
	if (r > (UINTPTR_MAX >> 1)) return maxv - (long long) (UINTPTR_MAX - r);
	return (long long) r;
}
static int cls_of(const char *s)
{
	int i;
	for (i = 1; i < CLast; i++) if (s && !strcmp(s, cls_names[i])) return i;
	return 0;
}

/* ---------- objects ---------- */
static int obj_alive(int o)
{
	return o >= 1 && o <= made && vf_serial_live(objs[o - 1].serial);
}
static int obj_of(const void *p)
{
	int o, hit = 0;
	if (!p) return 0;
	for (o = 1; o <= made; o++) {
		if (objs[o - 1].ptr != p) continue;
		if (obj_alive(o)) return o;
		hit = o;
	}
	return hit ? hit : -1;
}
static int obj_register(void *p, int cls)
{
	struct vf_blk *b;
	if (!p || made >= MAXO) return 0;
	b = vf_containing(p);
	objs[made].ptr = p;
	objs[made].serial = b ? b->serial : -1;
	objs[made].cls = cls;
	objs[made].raws = 0;
	return ++made;
}
static uintptr_t *counter_of(int o)
{
	void *p = objs[o - 1].ptr;
	switch (objs[o - 1].cls) {
	case CLib:   return &((MPT_STRUCT(libhandle) *) p)->_ref._val;
	case CProxy: return &((struct proxy_layout *) p)->_ref._val;
	case CInst:  return &((struct inst_layout *) p)->ref;
	case COutLocal: case COutRemote: return OUT_REF(p);
	default: return 0;
	}
}
/* what a live object refers to through its slot s (1-based) */
static void *member_of(int o, int s)
{
	void *p = objs[o - 1].ptr;
	switch (objs[o - 1].cls) {
	case CProxy: return s == 1 ? (void *) ((struct proxy_layout *) p)->sym.lib : s == 2 ? ((struct proxy_layout *) p)->ptr : 0;
	case COutLocal: {
		void *mt = 0;
		if (s != 1) return 0;
		MPT_metatype_convert((MPT_INTERFACE(metatype) *) p, MPT_ENUM(TypeMetaPtr), &mt);
		return mt;
	}
	case CGeneric: case CValMeta: return s == 1 ? ocxx_member(objs[o - 1].cls, p) : 0;
	default: return 0;
	}
}
static void raw_unref(void *p, int cls)
{
	if (!p) return;
	if (cls == CLib) {
		MPT_STRUCT(libhandle) *lh = (MPT_STRUCT(libhandle) *) p;
		mpt_library_detach(&lh);
	}
	else {
		MPT_INTERFACE(metatype) *mt = (MPT_INTERFACE(metatype) *) p;
		mt->_vptr->unref(mt);
	}
}
static uintptr_t raw_addref(void *p, int cls)
{
	if (cls == CLib) return mpt_library_attach((MPT_STRUCT(libhandle) *) p) ? 1 : 0;
	return ((MPT_INTERFACE(metatype) *) p)->_vptr->addref((MPT_INTERFACE(metatype) *) p);
}
static int cls_of_ptr(const void *p)
{
	int o = obj_of(p);
	return o > 0 ? objs[o - 1].cls : 0;
}
/* references the structure the harness can see holds on object o */
static long own_refs(int o)
{
	long n = 0;
	int i, s;
	for (i = 0; i < nh; i++) if (slot[i] == objs[o - 1].ptr) n++;
	for (i = 1; i <= made; i++) {
		if (!obj_alive(i)) continue;
		for (s = 1; s <= 2; s++) if (member_of(i, s) == objs[o - 1].ptr) n++;
	}
	return n;
}

#include <fcntl.h>
#define FDSCAN 256
static char fd_base[FDSCAN];
static int fd_base_set;
static void close_leftover_fds(void)
{
	int fd;
	if (!fd_base_set) {
		for (fd = 0; fd < FDSCAN; fd++) fd_base[fd] = fcntl(fd, F_GETFD) >= 0;
		fd_base_set = 1;
		return;
	}
	for (fd = 3; fd < FDSCAN; fd++) if (!fd_base[fd]) close(fd);
}
static void drv_reset(void)
{
	close_leftover_fds();
	memset(slot, 0, sizeof(slot));
	memset(objs, 0, sizeof(objs));
	made = 0;
	scen[0] = 0;
	vf_nnew = 0;
	vf_mismatch = 0;
	vf_reset();
}

/* ---------- observation ---------- */
static void emit(struct cmd *c, const char *ret, const int *was)
{
	long long v[MAXO > MAXH ? MAXO : MAXH];
	int i, n, s;
	drv_begin(c);
	j_str("ret", ret);
	for (i = 0; i < nh; i++) v[i] = obj_of(slot[i]);
	j_ints("href", v, nh);
	j_arr_open("mem");
	for (i = 0; i < nobj; i++) {
		j_sep();
		fputc('[', drv_out);
		for (s = 1; s <= 2; s++) fprintf(drv_out, s > 1 ? ",%d" : "%d", obj_alive(i + 1) ? obj_of(member_of(i + 1, s)) : 0);
		fputc(']', drv_out);
		drv_first = 0;
	}
	j_arr_close();
	j_arr_open("cls");
	for (i = 0; i < nobj; i++) j_item_str(i < made ? cls_names[objs[i].cls] : "none");
	j_arr_close();
	for (i = 0; i < nobj; i++) v[i] = obj_alive(i + 1);
	j_ints("alive", v, nobj);
	n = 0;
	for (i = 0; i < vf_nfreed; i++) {
		int o;
		for (o = 1; o <= made; o++) {
			if (objs[o - 1].serial == vf_freed[i] && (!was || was[o - 1])) v[n++] = o;
		}
	}
	j_ints("gone", v, n);
	for (i = 0; i < nobj; i++) {
		uintptr_t *cp;
		v[i] = -1;
		if (obj_alive(i + 1) && (cp = counter_of(i + 1))) v[i] = sym_of(*cp);
	}
	j_ints("cnt", v, nobj);
	j_int("quiet", vf_live_untagged());
	j_int("dblk", vf_live_untagged() - blocks_before);
	j_int("badfree", vf_badfree + vf_mismatch);
	drv_dbg();
	j_int("blocks", vf_live());
	drv_end();
}

/* description "symbol@library" of the class the step names */
static void describe(char *desc, size_t max, const char *how)
{
	if (how && !strcmp(how, "nolib")) snprintf(desc, max, "x15_make@/nonexistent/x15/libnone.so");
	else if (how && !strcmp(how, "nosym")) snprintf(desc, max, "x15_nothing@%s", plugin_path);
	else if (how && !strcmp(how, "emptysym")) snprintf(desc, max, "@%s", plugin_path);
	else if (how && !strcmp(how, "longsym")) {
		memset(desc, 'x', 140);
		snprintf(desc + 140, max - 140, "@%s", plugin_path);
	}
	else snprintf(desc, max, "x15_make@%s", plugin_path);
}
static void *create_obj(int cls, const char *via, int h, const char *how)
{
	char desc[1400];
	void *p;
	switch (cls) {
	case CLib:
		if (via && !strcmp(via, "bind")) {
			MPT_STRUCT(libsymbol) sym = MPT_LIBSYMBOL_INIT;
			sym.lib = (MPT_STRUCT(libhandle) *) slot[h - 1];
			describe(desc, sizeof(desc), how);
			if (mpt_library_bind(&sym, desc, 0, 0) < 0) {
				slot[h - 1] = sym.lib;  /* what the symbol handle holds after the refusal */
				return 0;
			}
			slot[h - 1] = 0;      /* the symbol handle holds the new library now */
			return sym.lib;
		}
		return mpt_library_open(how && !strcmp(how, "nolib") ? "/nonexistent/x15/libnone.so" : plugin_path, 0);
	case CProxy:
		describe(desc, sizeof(desc), how);
		if (how && !strcmp(how, "nofactory") && plugin_budget) plugin_budget(0);
		p = mpt_library_meta(MPT_ENUM(TypeMetaPtr), desc, 0, 0);
		if (plugin_budget) plugin_budget(-1);
		return p;
	case COutLocal:  return mpt_output_local();
	case COutRemote: return mpt_output_remote();
	default: return ocxx_create(cls);
	}
}
static void register_with_parts(void *p, int cls)
{
	obj_register(p, cls);
	if (cls == CProxy) {
		obj_register(((struct proxy_layout *) p)->sym.lib, CLib);
		obj_register(((struct proxy_layout *) p)->ptr, CInst);
	}
}

static void drv_step(struct cmd *c)
{
	const char *a = c->action;
	const char *via = drv_raw(c, "via");
	int h = (int) drv_int(c, "h", 0), g = (int) drv_int(c, "g", 0), o = (int) drv_int(c, "o", 0), s = (int) drv_int(c, "s", 0);
	int was[MAXO], i;

	vf_step();
	blocks_before = vf_live_untagged();
	for (i = 0; i < MAXO; i++) was[i] = obj_alive(i + 1);
	if (h < 0 || h > nh || g < 0 || g > nh) goto bad;

	if (!strcmp(a, "init")) {
		void (*bind)(void *(*)(size_t), void (*)(void *));
		snprintf(scen, sizeof(scen), "%s", drv_raw(c, "kind") ? drv_raw(c, "kind") : "");
		nh = (int) drv_int(c, "nh", 2);
		nobj = (int) drv_int(c, "nobj", 2);
		maxv = drv_int(c, "max", 20);
		if (nh > MAXH || nobj > MAXO) goto bad;
		if (!plugin_self && plugin_path && (plugin_self = dlopen(plugin_path, RTLD_NOW))) {
			*(void **) &bind = dlsym(plugin_self, "x15_bind");
			if (bind) bind(vf_malloc, vf_free);
			*(void **) &plugin_budget = dlsym(plugin_self, "x15_budget");
		}
		/* warm-up: tables the library sets up once per process are not part of any object */
		{
			MPT_INTERFACE(metatype) *m1 = mpt_output_local(), *m2;
			MPT_INTERFACE(input) *in = mpt_output_remote();
			MPT_INTERFACE(object) *obj = 0;
			if (m1 && in) {
				MPT_STRUCT(value) val;
				void *pass = 0;
				MPT_metatype_convert(m1, MPT_ENUM(TypeObjectPtr), &obj);
				MPT_value_set(&val, MPT_ENUM(TypeMetaPtr), &in);
				if (obj) mpt_object_set_value(obj, "", &val);
				if (obj) obj->_vptr->set_property(obj, "", (MPT_INTERFACE(convertable) *) in);
				MPT_metatype_convert(m1, MPT_ENUM(TypeMetaPtr), &pass);
			}
			if (m1) m1->_vptr->unref(m1);
			if (in) ((MPT_INTERFACE(metatype) *) in)->_vptr->unref((MPT_INTERFACE(metatype) *) in);
			if (!strcmp(scen, "cxxmeta")) {
				MPT_TYPE(data_converter) conv = mpt_data_converter(MPT_ENUM(TypeMetaRef));
				for (i = CGeneric; i < CLast; i++) {
					void *none = 0;
					if (i == CValMeta || !(m1 = (MPT_INTERFACE(metatype) *) ocxx_create(i))) continue;
					if ((m2 = (MPT_INTERFACE(metatype) *) ocxx_wrap(CGeneric, (void **) &m1))) {
						ocxx_member(CGeneric, m2);
						m2->_vptr->unref(m2);
					}
					if ((m2 = (MPT_INTERFACE(metatype) *) ocxx_wrap(CValMeta, (void **) &m1))) {
						ocxx_member(CValMeta, m2);
						m2->_vptr->unref(m2);
					}
					if ((m2 = m1->_vptr->clone(m1))) m2->_vptr->unref(m2);
					if (conv && m1->_vptr->addref(m1)) { none = m1; conv(&none, MPT_ENUM(TypeMetaRef), &none); m1->_vptr->unref(m1); }
					m1->_vptr->unref(m1);
				}
			}
			if (!strcmp(scen, "loader") && plugin_path) {
				MPT_INTERFACE(metatype) *px;
				char desc[1200];
				snprintf(desc, sizeof(desc), "x15_make@%s", plugin_path);
				if ((px = mpt_library_meta(MPT_ENUM(TypeMetaPtr), desc, 0, 0))) {
					if ((m2 = px->_vptr->clone(px))) m2->_vptr->unref(m2);
					px->_vptr->unref(px);
				}
			}
			vf_tag_all(1);
			vf_step();
			vf_mismatch = 0;
			blocks_before = vf_live_untagged();
		}
		emit(c, "ok", 0);
	}
	else if (!strcmp(a, "create")) {
		int cls = cls_of(drv_raw(c, "c"));
		void *p;
		if (!h || !cls) goto bad;
		if (slot[h - 1] && !(via && !strcmp(via, "bind"))) goto bad;
		if (!(p = create_obj(cls, via, h, drv_raw(c, "how")))) { emit(c, "refused", was); return; }
		slot[h - 1] = p;
		register_with_parts(p, cls);
		emit(c, "ok", was);
	}
	else if (!strcmp(a, "wrap")) {
		int cls = cls_of(drv_raw(c, "c"));
		void *p;
		if (!h || !g || !cls || slot[h - 1]) goto bad;
		if (!(p = ocxx_wrap(cls, &slot[g - 1]))) { emit(c, "refused", was); return; }
		slot[h - 1] = p;
		obj_register(p, cls);
		emit(c, "ok", was);
	}
	else if (!strcmp(a, "copy")) {
		int rc = 0;
		if (!h || !g || !via) goto bad;
		if (!strcmp(via, "attach")) {
			MPT_STRUCT(libhandle) *lh;
			if (slot[h - 1] || !slot[g - 1]) goto bad;
			if ((lh = mpt_library_attach((MPT_STRUCT(libhandle) *) slot[g - 1]))) slot[h - 1] = lh;
			else rc = -1;
		}
		else if (!strcmp(via, "raw")) {
			MPT_INTERFACE(metatype) *mt = (MPT_INTERFACE(metatype) *) slot[g - 1];
			if (slot[h - 1] || !mt) goto bad;
			if (mt->_vptr->addref(mt)) slot[h - 1] = mt;
			else rc = -1;
		}
		else if (!strcmp(via, "conv")) {
			MPT_TYPE(data_converter) conv = mpt_data_converter(MPT_ENUM(TypeMetaRef));
			rc = conv ? conv(&slot[g - 1], MPT_ENUM(TypeMetaRef), &slot[h - 1]) : -1;
		}
		else if (!strcmp(via, "cxx")) rc = ocxx_assign(&slot[h - 1], &slot[g - 1]);
		else goto bad;
		emit(c, rc < 0 ? "refused" : "ok", was);
	}
	else if (!strcmp(a, "take")) {
		void *t;
		int ao;
		if (!h || !g || slot[h - 1] || (ao = obj_of(slot[g - 1])) <= 0) goto bad;
		t = member_of(ao, s);
		if (!t) { emit(c, "ok", was); return; }
		if (!raw_addref(t, cls_of_ptr(t))) { emit(c, "refused", was); return; }
		slot[h - 1] = t;
		emit(c, "ok", was);
	}
	else if (!strcmp(a, "setmember")) {
		int ao, rc = -1;
		if (!h || !g || !via || (ao = obj_of(slot[h - 1])) <= 0 || s != 1) goto bad;
		if (objs[ao - 1].cls == COutLocal) {
			MPT_INTERFACE(object) *obj = 0;
			MPT_metatype_convert((MPT_INTERFACE(metatype) *) slot[h - 1], MPT_ENUM(TypeObjectPtr), &obj);
			if (!obj) goto bad;
			if (!strcmp(via, "prop")) {
				rc = obj->_vptr->set_property(obj, "", (MPT_INTERFACE(convertable) *) slot[g - 1]);
			} else {
				MPT_STRUCT(value) val;
				MPT_value_set(&val, MPT_ENUM(TypeMetaPtr), &slot[g - 1]);
				rc = mpt_object_set_value(obj, "", slot[g - 1] ? &val : 0);
			}
		}
		else rc = ocxx_setmember(objs[ao - 1].cls, slot[h - 1], &slot[g - 1]);
		emit(c, rc < 0 ? "refused" : "ok", was);
	}
	else if (!strcmp(a, "drop")) {
		int rc = 0;
		if (!h || !via) goto bad;
		if (!strcmp(via, "detach")) rc = mpt_library_detach((MPT_STRUCT(libhandle) **) &slot[h - 1]);
		else if (!strcmp(via, "raw")) {
			void *p = slot[h - 1];
			slot[h - 1] = 0;
			raw_unref(p, 0);
		}
		else if (!strcmp(via, "conv")) {
			MPT_TYPE(data_converter) conv = mpt_data_converter(MPT_ENUM(TypeMetaRef));
			void *none = 0;
			rc = conv ? conv(&none, MPT_ENUM(TypeMetaRef), &slot[h - 1]) : -1;
		}
		else if (!strcmp(via, "cxx")) rc = ocxx_drop(&slot[h - 1]);
		else goto bad;
		emit(c, rc < 0 ? "refused" : "ok", was);
	}
	else if (!strcmp(a, "clone")) {
		MPT_INTERFACE(metatype) *mt, *n;
		int ao;
		if (!h || !g || slot[g - 1] || (ao = obj_of(slot[h - 1])) <= 0) goto bad;
		mt = (MPT_INTERFACE(metatype) *) slot[h - 1];
		if (drv_int(c, "fail", 0) && plugin_budget) plugin_budget(0);
		n = mt->_vptr->clone(mt);
		if (plugin_budget) plugin_budget(-1);
		if (!n) { emit(c, "refused", was); return; }
		slot[g - 1] = n;
		obj_register(n, objs[ao - 1].cls);
		if (objs[ao - 1].cls == CProxy) obj_register(((struct proxy_layout *) n)->ptr, CInst);
		emit(c, "ok", was);
	}
	else if (!strcmp(a, "rawref")) {
		if (!obj_alive(o)) goto bad;
		if (raw_addref(objs[o - 1].ptr, objs[o - 1].cls)) { objs[o - 1].raws++; emit(c, "ok", was); }
		else emit(c, "refused", was);
	}
	else if (!strcmp(a, "rawunref")) {
		if (!obj_alive(o)) goto bad;
		objs[o - 1].raws--;
		raw_unref(objs[o - 1].ptr, objs[o - 1].cls);
		emit(c, "ok", was);
	}
	else if (!strcmp(a, "poke")) {
		long long v = drv_int(c, "v", 1);
		uintptr_t *cp;
		if (!obj_alive(o) || !(cp = counter_of(o))) goto bad;
		*cp = real_of(v);
		objs[o - 1].raws = v > maxv / 2 ? 0 : (long) v - own_refs(o);
		emit(c, "ok", was);
	}
	else if (!strcmp(a, "teardown")) {
		int k;
		long n;
		for (k = 0; k < nh; k++) {
			void *p = slot[k];
			int cls = cls_of_ptr(p);
			slot[k] = 0;
			raw_unref(p, cls);
		}
		for (k = 0; k < made; k++) {
			for (n = objs[k].raws; n > 0; n--) raw_unref(objs[k].ptr, objs[k].cls);
			objs[k].raws = 0;
		}
		emit(c, "ok", was);
	}
	else goto bad;
	return;
bad:
	drv_begin(c);
	j_str("ret", "baddrv");
	drv_dbg();
	drv_end();
}

int main(int argc, char **argv)
{
	plugin_path = argc > 1 ? argv[1] : getenv("X15_PLUGIN");
	return drv_main(argc, argv);
}
