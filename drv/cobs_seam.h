/*
 * Compile seam for the COBS codecs (C01/C03): the UNMODIFIED repository
 * sources convert/encode_cobs.c, encode_cobs_r.c and decode_cobs.c are
 * included with MPT_COBS_MAXLEN predefined, which is the mechanism the
 * repository itself uses to build the ZPE variants.  This yields the real
 * encoder/decoder loops at block limits 3 and 5, small enough for TLC to
 * enumerate every message spanning several maximal blocks.
 *
 * The scaled ZPE variants use the repository's core loops with the pair
 * macros of encode_cobs_zpe.c / decode_cobs_zpe.c re-stated for the scaled
 * limit (those two files hard-code 0xdf/0xe0/32 and cannot be scaled);
 * the shipped ZPE codecs themselves are exercised at production size via
 * libmptcore.
 */
#ifndef VERIF_COBS_SEAM_H
#define VERIF_COBS_SEAM_H

#include <sys/uio.h>
#include "core.h"
#include "message.h"
#include "convert.h"

#define SEAM_ENC_ARGS MPT_STRUCT(encode_state) *, const struct iovec *, const struct iovec *

/* ------------------------------------------------------------------ */
/* block limit 5: COBS, COBS/R                                         */
#define MPT_COBS_MAXLEN 5
extern ssize_t seam_enc_cobs_5(MPT_STRUCT(encode_state) *info, const struct iovec *cobs, const struct iovec *base)
#include "convert/encode_cobs.c"
#define MPT_encode_cobs_regular(i,c,d) seam_enc_cobs_5(i,c,d)
extern ssize_t seam_enc_cobs_r_5(MPT_STRUCT(encode_state) *info, const struct iovec *cobs, const struct iovec *base)
#include "convert/encode_cobs_r.c"
#undef MPT_encode_cobs_regular
#undef MPT_cobs_check_inline
#define _decode   seam_dec_cobs_5
#define _decode_r seam_dec_cobs_r_5
#define MPT_cobs_dec_regular seam_dec_cobs_5
#include "convert/decode_cobs.c"
#undef _decode
#undef _decode_r
#undef MPT_cobs_dec_regular
#undef MPT_COBS_MAXLEN

/* ------------------------------------------------------------------ */
/* block limit 3: COBS, COBS/R                                         */
#define MPT_COBS_MAXLEN 3
extern ssize_t seam_enc_cobs_3(MPT_STRUCT(encode_state) *info, const struct iovec *cobs, const struct iovec *base)
#include "convert/encode_cobs.c"
#define MPT_encode_cobs_regular(i,c,d) seam_enc_cobs_3(i,c,d)
extern ssize_t seam_enc_cobs_r_3(MPT_STRUCT(encode_state) *info, const struct iovec *cobs, const struct iovec *base)
#include "convert/encode_cobs_r.c"
#undef MPT_encode_cobs_regular
#undef MPT_cobs_check_inline
#define _decode   seam_dec_cobs_3
#define _decode_r seam_dec_cobs_r_3
#define MPT_cobs_dec_regular seam_dec_cobs_3
#include "convert/decode_cobs.c"
#undef _decode
#undef _decode_r
#undef MPT_cobs_dec_regular
#undef MPT_COBS_MAXLEN

/* ------------------------------------------------------------------ */
/* scaled ZPE: the pair macros below have the shape of the ones in      */
/* encode_cobs_zpe.c / decode_cobs_zpe.c with (0xdf,0xe0,32) replaced    */
/* by (M, M+1, ZL)                                                      */
#undef MPT_cobs_zero
#undef MPT_cobs_len_data
#undef MPT_cobs_len_zero
#undef MPT_cobs_max_dec

#define SEAM_ZL 4
#define MPT_COBS_MAXLEN 5
#define MPT_cobs_zero(c,d,r,s,l) (d[-c] = (\
	(l && (c > 1) && (c < SEAM_ZL) && !*s) \
	? (--l, ++s, c + MPT_COBS_MAXLEN) \
	: c), ++d, --r, \
	1)
extern ssize_t seam_enc_zpe_5(MPT_STRUCT(encode_state) *info, const struct iovec *cobs, const struct iovec *base)
#include "convert/encode_cobs.c"
#define MPT_encode_cobs_regular(i,c,d) seam_enc_zpe_5(i,c,d)
#define MPT_cobs_check_inline(c,e,p) \
	(((c) <= MPT_COBS_MAXLEN) && \
	((c) < ((e) = (p)[(c)-1])) && \
	((e) <= MPT_COBS_MAXLEN))
extern ssize_t seam_enc_zpe_r_5(MPT_STRUCT(encode_state) *info, const struct iovec *cobs, const struct iovec *base)
#include "convert/encode_cobs_r.c"
#undef MPT_encode_cobs_regular
#undef MPT_cobs_check_inline
#define MPT_cobs_len_data(c)   (((c) <= MPT_COBS_MAXLEN) ? (c) - 1 : (c) - (MPT_COBS_MAXLEN + 1))
#define MPT_cobs_len_zero(c,n) (((c) > MPT_COBS_MAXLEN) ? 2 : ((((c) < MPT_COBS_MAXLEN) && (n)) ? 1 : 0))
#define MPT_cobs_max_dec(c)    ((c) * 2)
#define _decode   seam_dec_zpe_5
#define _decode_r seam_dec_zpe_r_5
#define MPT_cobs_dec_regular seam_dec_zpe_5
#include "convert/decode_cobs.c"
#undef _decode
#undef _decode_r
#undef MPT_cobs_dec_regular
#undef MPT_COBS_MAXLEN
#undef MPT_cobs_zero
#undef SEAM_ZL

#define SEAM_ZL 3
#define MPT_COBS_MAXLEN 3
#define MPT_cobs_zero(c,d,r,s,l) (d[-c] = (\
	(l && (c > 1) && (c < SEAM_ZL) && !*s) \
	? (--l, ++s, c + MPT_COBS_MAXLEN) \
	: c), ++d, --r, \
	1)
extern ssize_t seam_enc_zpe_3(MPT_STRUCT(encode_state) *info, const struct iovec *cobs, const struct iovec *base)
#include "convert/encode_cobs.c"
#define MPT_encode_cobs_regular(i,c,d) seam_enc_zpe_3(i,c,d)
#define MPT_cobs_check_inline(c,e,p) \
	(((c) <= MPT_COBS_MAXLEN) && \
	((c) < ((e) = (p)[(c)-1])) && \
	((e) <= MPT_COBS_MAXLEN))
extern ssize_t seam_enc_zpe_r_3(MPT_STRUCT(encode_state) *info, const struct iovec *cobs, const struct iovec *base)
#include "convert/encode_cobs_r.c"
#undef MPT_encode_cobs_regular
#undef MPT_cobs_check_inline
#define _decode   seam_dec_zpe_3
#define _decode_r seam_dec_zpe_r_3
#define MPT_cobs_dec_regular seam_dec_zpe_3
#include "convert/decode_cobs.c"
#undef _decode
#undef _decode_r
#undef MPT_cobs_dec_regular
#undef MPT_COBS_MAXLEN
#undef MPT_cobs_zero
#undef SEAM_ZL

#endif /* VERIF_COBS_SEAM_H */
