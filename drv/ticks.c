/*
 * X28 (part of C19): tick generators and range helpers, called directly.
 *
 *   ticks nt= p0=xp,xq,yp,yq p1=xp,xq,yp,yq dx=p,q dy=p,q s=
 *        array of nt ticks (two points each) + 2 canary points at the end of a heap block;
 *        tick 0 = (p0, p1), every other point prefilled with 77, canaries 99;
 *        all inputs are p/q * 2^s (q = 0: +inf / -inf / nan by the sign of p);
 *        obs.pts = every coordinate of the whole array afterwards (x0,y0,x1,y1,...), 6 ints each
 *   log10 k=      obs.d = mpt_tick_log10(k)
 *   range t=i|d|f len= ld= off= vals=p,q,p,q,...
 *        obs.min / obs.max = range[0], range[1] after mpt_{i,d,f}range(range, len, arr + off, ld)
 * Doubles are logged as <<sign, m0, m1, m2, m3, e>> (spec/IterNum.tla); no judgement here.
 */
#include "drv.h"
#include <math.h>
#include <stdlib.h>
#include <string.h>
#include "array.h"
#include "layout.h"

static void drv_reset(void) { }

static void d_limbs(double x, long long *v)
{
	int k;
	for (k = 0; k < 6; k++) v[k] = 0;
	if (isnan(x)) v[0] = 4;
	else if (isinf(x)) v[0] = x > 0 ? 2 : 3;
	else if (x != 0) {
		int e;
		double f = frexp(fabs(x), &e);
		uint64_t m = (uint64_t) ldexp(f, 53);
		e -= 53;
		while (!(m & 1)) { m >>= 1; e++; }
		v[0] = x < 0;
		for (k = 0; k < 4; k++) v[1 + k] = (long long) ((m >> (15 * k)) & 0x7fff);
		v[5] = e;
	}
}
static void j_double(const char *key, double x)
{
	long long v[6];
	d_limbs(x, v);
	j_ints(key, v, 6);
}
static double mk(long long p, long long q, int s)
{
	if (!q) return p > 0 ? INFINITY : p < 0 ? -INFINITY : NAN;
	return ldexp((double) p / (double) q, s);
}
static double rat(const struct cmd *c, const char *key, size_t at, int s)
{
	size_t n;
	long long *v = drv_ints(c, key, &n);
	double r = 0;
	if (v && n >= 2 * at + 2) r = mk(v[2 * at], v[2 * at + 1], s);
	free(v);
	return r;
}

static void drv_step(struct cmd *c)
{
	if (!strcmp(c->action, "ticks")) {
		long long nt = drv_int(c, "nt", 0);
		int s = (int) drv_int(c, "s", 0);
		size_t np = 2 * (size_t) nt + 2, k;
		MPT_STRUCT(dpoint) *pts = malloc(np * sizeof(*pts));
		long long *out = malloc(np * 2 * 6 * sizeof(*out));
		for (k = 0; k < np; k++) { pts[k].x = pts[k].y = k < 2 * (size_t) nt ? 77 : 99; }
		if (nt > 0) {
			pts[0].x = rat(c, "p0", 0, s); pts[0].y = rat(c, "p0", 1, s);
			pts[1].x = rat(c, "p1", 0, s); pts[1].y = rat(c, "p1", 1, s);
		}
		mpt_ticks_linear(pts, (size_t) nt, rat(c, "dx", 0, s), rat(c, "dy", 0, s));
		for (k = 0; k < np; k++) {
			d_limbs(pts[k].x, out + 12 * k);
			d_limbs(pts[k].y, out + 12 * k + 6);
		}
		drv_begin(c);
		j_str("ret", "ok");
		j_ints("pts", out, np * 12);
		drv_dbg();
		j_int("np", (long long) np);
		drv_end();
		free(out);
		free(pts);
		return;
	}
	if (!strcmp(c->action, "log10")) {
		double d = mpt_tick_log10((int) drv_int(c, "k", 0));
		drv_begin(c);
		j_double("d", d);
		drv_dbg();
		drv_end();
		return;
	}
	if (!strcmp(c->action, "range")) {
		const char *t = drv_raw(c, "t");
		long long len = drv_int(c, "len", 0), ld = drv_int(c, "ld", 1), off = drv_int(c, "off", 0);
		size_t n, k, cnt;
		long long *v = drv_ints(c, "vals", &n);
		long long last = off + (len > 0 ? (len - 1) * ld : 0);
		double lo, hi;
		cnt = n / 2;
		if (!t || len < 0 || (len > 0 && (off < 0 || last < 0 || (size_t) off >= cnt || (size_t) last >= cnt))) {
			drv_begin(c); j_str("ret", "badcase"); drv_dbg(); drv_end();
			free(v);
			return;
		}
		if (*t == 'i') {
			int32_t *a = malloc((cnt + 1) * sizeof(*a)), r[2] = { 55, 55 };
			for (k = 0; k < cnt; k++) a[k] = (int32_t) v[2 * k];
			mpt_irange(r, (int) len, a + off, (int) ld);
			lo = r[0]; hi = r[1];
			free(a);
		}
		else if (*t == 'f') {
			float *a = malloc((cnt + 1) * sizeof(*a)), r[2] = { 55, 55 };
			for (k = 0; k < cnt; k++) a[k] = (float) mk(v[2 * k], v[2 * k + 1], 0);
			mpt_frange(r, (int) len, a + off, (int) ld);
			lo = r[0]; hi = r[1];
			free(a);
		}
		else {
			double *a = malloc((cnt + 1) * sizeof(*a)), r[2] = { 55, 55 };
			for (k = 0; k < cnt; k++) a[k] = mk(v[2 * k], v[2 * k + 1], 0);
			mpt_drange(r, (int) len, a + off, (int) ld);
			lo = r[0]; hi = r[1];
			free(a);
		}
		free(v);
		drv_begin(c);
		j_str("ret", "ok");
		j_double("min", lo);
		j_double("max", hi);
		drv_dbg();
		drv_end();
		return;
	}
	drv_begin(c); j_str("ret", "unknown"); drv_dbg(); drv_end();
}

int main(int argc, char **argv)
{
	return drv_main(argc, argv);
}
