/*
 * Driver for spec/Mapping.tla (X22, extension of C10), C side: the binding table kept by
 * mpt_mapping_add / mpt_mapping_del / mpt_mapping_cmp on a plain array (mptplot/mapping.c) and the text
 * front ends mpt_output_bind_string / mpt_output_bind_list / mpt_valsrc_state / mpt_output_init_plot,
 * which talk to a recording output.
 *
 * After each call every lookup of the universe given by the init step is asked (as graphic::mapping::
 * destinations does it: the entries for which mpt_mapping_cmp answers 0).  In the place of the receiving
 * application the records of every completed (Graphic, BindingAdd) message are added to the table for the
 * client of the step.  Judgement-free: bytes are copied, return codes mapped to the documented classes.
 */
#include "drv.h"

#include <sys/uio.h>

#include "array.h"
#include "types.h"
#include "node.h"
#include "meta.h"
#include "message.h"
#include "output.h"
#include "values.h"

#include "mapping_common.h"

static MPT_STRUCT(array) arr;

/* ---------- recording output ---------- */
#define MSGMAX 64
struct rec_msg { uint8_t *data; size_t len; };
struct rec_out {
	MPT_INTERFACE(output) _out;
	struct rec_msg done[MSGMAX];
	size_t ndone;
	uint8_t *cur;
	size_t curlen;
	int active;
	int awaits, cancels, emptyfin;
};
static ssize_t ro_push(MPT_INTERFACE(output) *out, size_t len, const void *src)
{
	struct rec_out *ro = (struct rec_out *) out;
	if (!src) {
		if (!len) {
			if (!ro->active) ro->emptyfin++;
			if (ro->ndone < MSGMAX) {
				ro->done[ro->ndone].data = ro->cur;
				ro->done[ro->ndone].len = ro->curlen;
				ro->ndone++;
			}
			ro->cur = 0; ro->curlen = 0; ro->active = 0;
			return 0;
		}
		/* discard the message being composed */
		free(ro->cur);
		ro->cur = 0; ro->curlen = 0; ro->active = 0;
		ro->cancels++;
		return 0;
	}
	if (!len) return 0;
	ro->cur = (uint8_t *) realloc(ro->cur, ro->curlen + len);
	memcpy(ro->cur + ro->curlen, src, len);
	ro->curlen += len;
	ro->active = 1;
	return (ssize_t) len;
}
static int ro_sync(MPT_INTERFACE(output) *out, int timeout)
{
	(void) out; (void) timeout;
	return 0;
}
static int ro_await(MPT_INTERFACE(output) *out, int (*ctl)(void *, const MPT_STRUCT(message) *), void *arg)
{
	struct rec_out *ro = (struct rec_out *) out;
	(void) ctl; (void) arg;
	ro->awaits++;
	return 0;
}
static const MPT_INTERFACE_VPTR(output) ro_vptr = { ro_push, ro_sync, ro_await };
static void ro_init(struct rec_out *ro)
{
	memset(ro, 0, sizeof(*ro));
	ro->_out._vptr = &ro_vptr;
}
static void ro_free(struct rec_out *ro)
{
	size_t i;
	for (i = 0; i < ro->ndone; i++) free(ro->done[i].data);
	free(ro->cur);
}

static void drv_reset(void)
{
	/* a fresh table per behaviour (the old one is not torn down: not part of what is replayed) */
	arr._buf = 0;
}

/* the documented way to find the destinations of a source: entries mpt_mapping_cmp answers 0 for */
static size_t drv_lookup(int dim, int mask, int cli, struct dst4 *out, size_t max)
{
	MPT_STRUCT(buffer) *buf = arr._buf;
	const MPT_STRUCT(mapping) *map;
	MPT_STRUCT(valsrc) src;
	size_t i, len, n = 0;
	if (!buf) return 0;
	src.dim = (uint8_t) dim;
	src.state = (uint8_t) mask;
	len = buf->_used / sizeof(*map);
	map = (const MPT_STRUCT(mapping) *) (buf + 1);
	for (i = 0; i < len && n < max; i++) {
		if (mpt_mapping_cmp(map + i, &src, cli)) continue;
		out[n].v[0] = map[i].dest.lay; out[n].v[1] = map[i].dest.grf;
		out[n].v[2] = map[i].dest.wld; out[n].v[3] = map[i].dest.dim;
		n++;
	}
	return n;
}
static void emit_cyc(void)
{
	j_arr_open("cyc");
	j_arr_close();
}
static void emit_dbg(void)
{
	MPT_STRUCT(buffer) *buf = arr._buf;
	const MPT_STRUCT(mapping) *map;
	size_t i, len;
	drv_dbg();
	if (!buf) { j_int("len", 0); return; }
	len = buf->_used / sizeof(*map);
	map = (const MPT_STRUCT(mapping) *) (buf + 1);
	j_int("len", (long long) len);
	j_int("size", (long long) buf->_size);
	j_sep();
	fputs("\"tab\":[", drv_out);
	for (i = 0; i < len && i < 64; i++) {
		fprintf(drv_out, "%s[%u,%u,%u,%u,%u,%u,%u]", i ? "," : "", map[i].src.dim, map[i].src.state, map[i].client,
		        map[i].dest.lay, map[i].dest.grf, map[i].dest.wld, map[i].dest.dim);
	}
	fputc(']', drv_out);
	drv_first = 0;
}
static void answer_str(struct cmd *c, const char *ret, long long raw)
{
	drv_begin(c);
	if (drv_int(c, "q", 0)) { drv_dbg(); drv_end(); return; }
	j_str("ret", ret);
	emit_all();
	emit_cyc();
	emit_dbg();
	j_int("raw", raw);
	drv_end();
}

/* ---------- message decoding (what a receiver does with the completed messages) ---------- */
static int is_log(const struct rec_msg *m)
{
	return m->len >= 2 && m->data[0] == MPT_MESGTYPE(Output) && (m->data[1] & 0x80);
}
static int is_bind(const struct rec_msg *m)
{
	return m->len >= 2 && m->data[0] == MPT_MESGTYPE(Graphic) && m->data[1] == MPT_MESGGRF(BindingAdd)
	       && (m->len - 2) % 6 == 0;
}
static int is_clear(const struct rec_msg *m)
{
	return m->len == 2 && m->data[0] == MPT_MESGTYPE(Graphic) && m->data[1] == MPT_MESGGRF(BindingClear);
}
static int is_parse(const struct rec_msg *m)
{
	return m->len >= 2 && m->data[0] == MPT_MESGTYPE(Graphic)
	       && m->data[1] == (MPT_MESGGRF(BindingAdd) | MPT_MESGGRF(BindingParse));
}

static void step_bindtext(struct cmd *c)
{
	struct rec_out ro;
	char *text = arg_hex(drv_raw(c, "text"));
	int cli = (int) drv_int(c, "cli", 0);
	int ret, logs = 0, junk = 0, empty = 0;
	size_t i, k, nrec = 0;
	long long addrets[512];
	size_t nadd = 0;

	ro_init(&ro);
	ret = mpt_output_bind_string(&ro._out, text);

	/* the receiver's part: records of the completed binding messages go into the table */
	for (i = 0; i < ro.ndone; i++) {
		const struct rec_msg *m = &ro.done[i];
		if (is_bind(m)) {
			for (k = 2; k + 6 <= m->len; k += 6) {
				MPT_STRUCT(mapping) map;
				int r;
				map.src.dim = m->data[k]; map.src.state = m->data[k + 1];
				map.client = (uint16_t) cli;
				map.dest.lay = m->data[k + 2]; map.dest.grf = m->data[k + 3];
				map.dest.wld = m->data[k + 4]; map.dest.dim = m->data[k + 5];
				r = mpt_mapping_add(&arr, &map);
				if (nadd < 512) addrets[nadd++] = r;
			}
		}
	}
	drv_begin(c);
	if (drv_int(c, "q", 0)) { drv_dbg(); drv_end(); ro_free(&ro); free(text); return; }
	j_int("ret", ret);
	j_sep();
	fputs("\"recs\":[", drv_out);
	for (i = 0; i < ro.ndone; i++) {
		const struct rec_msg *m = &ro.done[i];
		if (is_log(m)) { logs++; continue; }
		if (is_clear(m) && !text) continue;
		if (!m->len) { empty++; continue; }
		if (!is_bind(m)) { junk++; continue; }
		for (k = 2; k + 6 <= m->len; k += 6) {
			fprintf(drv_out, "%s[%u,%u,%u,%u,%u,%u]", nrec++ ? "," : "", m->data[k], m->data[k + 1], m->data[k + 2],
			        m->data[k + 3], m->data[k + 4], m->data[k + 5]);
		}
	}
	fputc(']', drv_out);
	drv_first = 0;
	j_arr_open("msgs");
	for (i = 0; i < ro.ndone; i++) {
		if (is_clear(&ro.done[i])) j_item_str("clear");
	}
	j_arr_close();
	j_int("open", ro.active);
	j_int("junk", junk);
	emit_all();
	emit_cyc();
	emit_dbg();
	j_int("logs", logs);
	j_int("empty", empty);
	j_int("messages", (long long) ro.ndone);
	j_int("cancels", ro.cancels);
	j_int("awaits", ro.awaits);
	j_ints("addrets", addrets, nadd);
	drv_end();
	ro_free(&ro);
	free(text);
}

static void step_srctext(struct cmd *c)
{
	char *text = arg_hex(drv_raw(c, "text"));
	long long states[64];
	size_t n = 0, pos = 0;
	int last = 0, laststate = -1;
	while (n < 64) {
		MPT_STRUCT(valsrc) src;
		int r;
		src.dim = 0; src.state = 0xff;
		r = mpt_valsrc_state(&src, text + pos);
		if (r <= 0) { last = r; laststate = src.state; break; }
		states[n++] = src.state;
		pos += (size_t) r;
		if (pos > strlen(text)) break;
	}
	drv_begin(c);
	j_ints("states", states, n);
	j_int("used", (long long) pos);
	drv_dbg();
	j_int("last", last);
	j_int("laststate", laststate);
	drv_end();
	free(text);
}

/* ';' separated list of hex texts, "-" = none */
static size_t hex_list(const char *raw, char **to, size_t max)
{
	size_t n = 0;
	char *copy, *save = 0, *tok;
	if (!raw) return 0;
	copy = strdup(raw);
	for (tok = strtok_r(copy, ";", &save); tok && n < max; tok = strtok_r(0, ";", &save)) {
		to[n++] = arg_hex(tok);
	}
	free(copy);
	return n;
}
static void step_bindlist(struct cmd *c)
{
	struct rec_out ro;
	char *names[32], *vals[32];
	size_t nn = hex_list(drv_raw(c, "names"), names, 32), nv = hex_list(drv_raw(c, "vals"), vals, 32);
	MPT_STRUCT(node) *head = 0, *last = 0;
	size_t i;
	int ret, junk = 0, first = 1;

	for (i = 0; i < nn && i < nv; i++) {
		const char *name = names[i];
		MPT_STRUCT(node) *n = mpt_node_new(name ? strlen(name) + 1 : 0);
		if (name) mpt_identifier_set(&n->ident, name, (int) strlen(name));
		if (vals[i]) {
			const char *txt = vals[i];
			MPT_STRUCT(value) v = MPT_VALUE_INIT('s', &txt);
			n->_meta = mpt_meta_new(&v);
		}
		if (!head) head = n;
		else { last->next = n; n->prev = last; }
		last = n;
	}
	ro_init(&ro);
	ret = mpt_output_bind_list(&ro._out, head);
	drv_begin(c);
	j_int("ret", ret);
	j_sep();
	fputs("\"parse\":[", drv_out);
	for (i = 0; i < ro.ndone; i++) {
		const struct rec_msg *m = &ro.done[i];
		const uint8_t *nul;
		if (!is_parse(m) || !(nul = (const uint8_t *) memchr(m->data + 2, 0, m->len - 2))) { junk++; continue; }
		fprintf(drv_out, "%s[\"", first ? "" : ",");
		fwrite(m->data + 2, 1, (size_t) (nul - (m->data + 2)), drv_out);
		fputs("\",\"", drv_out);
		fwrite(nul + 1, 1, (size_t) (m->data + m->len - (nul + 1)), drv_out);
		fputs("\"]", drv_out);
		first = 0;
	}
	fputc(']', drv_out);
	drv_first = 0;
	j_int("open", ro.active);
	j_int("junk", junk);
	drv_dbg();
	j_int("messages", (long long) ro.ndone);
	j_int("awaits", ro.awaits);
	drv_end();
	ro_free(&ro);
}

static void step_initplot(struct cmd *c)
{
	struct rec_out ro;
	MPT_STRUCT(laydest) d = MPT_LAYDEST_INIT;
	MPT_STRUCT(valdest) vd = MPT_VALDEST_INIT;
	uint8_t dst[4];
	int ret;
	long long out[4] = { -1, -1, -1, -1 };
	long long fmt = -1, cyc = -1, off = -1;

	arg_dst(c, "dst", dst, 4);
	d.lay = dst[0]; d.grf = dst[1]; d.wld = dst[2]; d.dim = dst[3];
	vd.cycle = (uint32_t) drv_uint(c, "cycle", 0);
	vd.offset = (uint32_t) drv_uint(c, "off", 0);
	ro_init(&ro);
	ret = mpt_output_init_plot(&ro._out, d, (uint8_t) drv_uint(c, "fmt", 0), (vd.cycle || vd.offset) ? &vd : 0);
	if (ro.active && ro.curlen == 2 + sizeof(d) + sizeof(vd) && ro.cur[0] == MPT_MESGTYPE(Destination)) {
		MPT_STRUCT(valdest) got;
		size_t i;
		fmt = ro.cur[1];
		for (i = 0; i < 4; i++) out[i] = ro.cur[2 + i];
		memcpy(&got, ro.cur + 2 + sizeof(d), sizeof(got));
		cyc = got.cycle; off = got.offset;
	}
	drv_begin(c);
	j_int("ret", ret);
	j_ints("dst", out, 4);
	j_int("fmt", fmt);
	j_int("cycle", cyc);
	j_int("off", off);
	j_int("open", ro.active);
	drv_dbg();
	j_int("messages", (long long) ro.ndone);
	drv_end();
	ro_free(&ro);
}

static void drv_step(struct cmd *c)
{
	const char *a = c->action;

	if (!strcmp(a, "init")) {
		uni_init(c);
		answer_str(c, "ok", 0);
		return;
	}
	if (!strcmp(a, "add")) {
		MPT_STRUCT(mapping) map;
		uint8_t s[2], d[4];
		int r;
		arg_dst(c, "src", s, 2);
		arg_dst(c, "dst", d, 4);
		map.src.dim = s[0]; map.src.state = s[1];
		map.client = (uint16_t) drv_int(c, "cli", 0);
		map.dest.lay = d[0]; map.dest.grf = d[1]; map.dest.wld = d[2]; map.dest.dim = d[3];
		r = mpt_mapping_add(&arr, &map);
		answer_str(c, add_class(r), r);
		return;
	}
	if (!strcmp(a, "del")) {
		MPT_STRUCT(valsrc) src;
		MPT_STRUCT(laydest) dst;
		uint8_t s[2], d[4];
		int hs = arg_dst(c, "src", s, 2), hd = arg_dst(c, "dst", d, 4), r;
		src.dim = s[0]; src.state = s[1];
		dst.lay = d[0]; dst.grf = d[1]; dst.wld = d[2]; dst.dim = d[3];
		r = mpt_mapping_del(&arr, hs ? &src : 0, hd ? &dst : 0, (int) drv_int(c, "cli", 0));
		answer_str(c, r < 0 ? "failed" : "ok", r);
		return;
	}
	if (!strcmp(a, "bindtext")) { step_bindtext(c); return; }
	if (!strcmp(a, "bindclear")) { step_bindtext(c); return; }   /* no text argument: null description */
	if (!strcmp(a, "srctext")) { step_srctext(c); return; }
	if (!strcmp(a, "bindlist")) { step_bindlist(c); return; }
	if (!strcmp(a, "initplot")) { step_initplot(c); return; }
	drv_begin(c);
	j_str("ret", "unknown-action");
	drv_dbg();
	drv_end();
}

int main(int argc, char **argv)
{
	return drv_main(argc, argv);
}
