/*
 * Driver for spec/IoBuf.tla (extension of C04/C05): io::buffer::metatype over
 * mpt::array handles.  After each call: what every array and every buffer
 * reads (peek), the buffers' positions, the bytes / number the call returned.
 * No judgement here.
 */
#include "drv.h"

#include <sys/uio.h>

#include "types.h"
#include "array.h"
#include "meta.h"
#include "io.h"

using namespace mpt;

#define MAXA 4
#define MAXB 4

struct XB : public io::buffer::metatype {
	const encode_state &st() const { return _state; }
	const span<const char> &rec() const { return _record; }
	size_t total() const { const array::content *c = _d.data(); return c ? c->length() : 0; }
};
static array *A;
static io::buffer::metatype *Bf[MAXB];
static int na, nb;

static void drv_reset(void)
{
	A = 0;
	for (int i = 0; i < MAXB; i++) Bf[i] = 0;    /* abandoned */
	na = nb = 0;
}
static void emit_bytes(const uint8_t *p, size_t n)
{
	fputc('[', drv_out);
	for (size_t i = 0; i < n; i++) fprintf(drv_out, i ? ",%u" : "%u", p[i]);
	fputc(']', drv_out);
}
static void emit_all(const char *ret, long long out, const uint8_t *data, size_t dlen)
{
	j_str("ret", ret);
	j_int("out", out);
	j_bytes("data", data, dlen);
	j_arr_open("arrs");
	for (int i = 0; i < na; i++) {
		j_sep();
		emit_bytes((const uint8_t *) A[i].base(), A[i].length());
		drv_first = 0;
	}
	j_arr_close();
	j_arr_open("q");
	for (int i = 0; i < nb; i++) {
		j_sep();
		if (Bf[i]) { span<const uint8_t> d = Bf[i]->peek(0); emit_bytes(d.begin(), d.size()); }
		else fputs("[]", drv_out);
		drv_first = 0;
	}
	j_arr_close();
	j_arr_open("pos");
	for (int i = 0; i < nb; i++) j_item_int(Bf[i] ? (long long) Bf[i]->pos() : 0);
	j_arr_close();
	j_arr_open("on");
	for (int i = 0; i < nb; i++) { j_sep(); fputs(Bf[i] ? "true" : "false", drv_out); }
	j_arr_close();
}
static void emit_dbg(long long rc)
{
	drv_dbg();
	j_int("rc", rc);
	j_arr_open("done");
	for (int i = 0; i < nb; i++) j_item_int(Bf[i] ? (long long) static_cast<XB *>(Bf[i])->st().done : 0);
	j_arr_close();
	j_arr_open("scratch");
	for (int i = 0; i < nb; i++) j_item_int(Bf[i] ? (long long) static_cast<XB *>(Bf[i])->st().scratch : 0);
	j_arr_close();
	j_arr_open("len");
	for (int i = 0; i < nb; i++) j_item_int(Bf[i] ? (long long) static_cast<XB *>(Bf[i])->total() : 0);
	j_arr_close();
}
static void answer(struct cmd *c, const char *ret, long long out, const uint8_t *data = 0, size_t dlen = 0, long long rc = 0)
{
	drv_begin(c);
	emit_all(ret, out, data, dlen);
	emit_dbg(rc);
	drv_end();
}

static void drv_step(struct cmd *c)
{
	const char *a = c->action;
	size_t dl = 0;
	uint8_t *data = 0;
	int k = (int) drv_int(c, "k", 1) - 1;
	int h = (int) drv_int(c, "h", 1) - 1;

	if (!strcmp(a, "init")) {
		drv_reset();
		na = (int) drv_int(c, "na", 1);
		nb = (int) drv_int(c, "nb", 2);
		if (na > MAXA) na = MAXA;
		if (nb > MAXB) nb = MAXB;
		A = new array[MAXA];
		answer(c, "ok", 0);
		return;
	}
	if (drv_has(c, "data")) data = drv_bytes(c, "data", &dl);

	if (!strcmp(a, "aset") || !strcmp(a, "aappend")) {
		if (h < 0 || h >= na) { answer(c, "bad-handle", 0); free(data); return; }
		void *p = a[1] == 's' ? A[h].set(dl, data) : A[h].append(dl, data);
		answer(c, (p || !dl) ? "ok" : "refused", 0);
	}
	else if (k < 0 || k >= nb) {
		answer(c, "bad-handle", 0);
	}
	else if (!strcmp(a, "bnew")) {
		if (Bf[k] || h < 0 || h >= na) { answer(c, "skipped", 0); free(data); return; }
		Bf[k] = io::buffer::metatype::create(&A[h]);
		answer(c, Bf[k] ? "ok" : "refused", 0);
	}
	else if (!strcmp(a, "bclone")) {
		int j = (int) drv_int(c, "from", 0) - 1;
		if (Bf[k] || j < 0 || j >= nb || j == k || !Bf[j]) { answer(c, "skipped", 0); free(data); return; }
		Bf[k] = Bf[j]->clone();
		answer(c, Bf[k] ? "ok" : "refused", 0);
	}
	else if (!Bf[k]) {
		answer(c, "skipped", 0);
	}
	else if (!strcmp(a, "brelease")) {
		Bf[k]->unref();
		Bf[k] = 0;
		answer(c, "ok", 0);
	}
	else if (!strcmp(a, "bpush")) {
		ssize_t r = Bf[k]->push(dl, dl ? data : 0);
		answer(c, r < 0 ? "refused" : "ok", r, 0, 0, r);
	}
	else if (!strcmp(a, "bwrite")) {
		size_t esz = (size_t) drv_uint(c, "esz", 1);
		ssize_t r = Bf[k]->write(esz ? dl / esz : 0, data, esz);
		answer(c, r < 0 ? "refused" : "ok", r, 0, 0, r);
	}
	else if (!strcmp(a, "bread")) {
		size_t n = (size_t) drv_uint(c, "n", 0), esz = (size_t) drv_uint(c, "esz", 1);
		size_t room = n * (esz ? esz : 1) + 1;
		uint8_t *dest = (uint8_t *) calloc(room, 1);
		ssize_t r = Bf[k]->read(n, dest, esz);
		if (r < 0) answer(c, "refused", 0, 0, 0, r);
		else answer(c, "ok", r, dest, (size_t) r * (esz ? esz : 1), r);
		free(dest);
	}
	else if (!strcmp(a, "bshift")) {
		bool r = Bf[k]->shift((size_t) drv_uint(c, "n", 0));
		answer(c, r ? "ok" : "refused", 0);
	}
	else if (!strcmp(a, "breset")) {
		int r = static_cast<io::buffer *>(Bf[k])->reset();
		answer(c, r < 0 ? "refused" : "ok", r, 0, 0, r);
	}
	else if (!strcmp(a, "bvalue")) {
		const struct value *v = static_cast<io::buffer *>(Bf[k])->value();
		if (!v) answer(c, "refused", 0);
		else {
			const span<const char> &rec = static_cast<XB *>(Bf[k])->rec();
			size_t n = rec.size() ? strnlen(rec.begin(), rec.size()) : 0;
			answer(c, "ok", 0, (const uint8_t *) rec.begin(), n);
		}
	}
	else if (!strcmp(a, "badvance")) {
		int r = static_cast<io::buffer *>(Bf[k])->advance();
		answer(c, r < 0 ? "refused" : "ok", r > 0 ? 1 : 0, 0, 0, r);
	}
	else {
		drv_begin(c); j_str("ret", "unknown-action"); drv_dbg(); drv_end();
	}
	free(data);
}

int main(int argc, char **argv)
{
	return drv_main(argc, argv);
}
