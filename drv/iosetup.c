/*
 * Conformance driver for spec/IoSetup.tla (extension X26 of C11): the doors through which inputs come into
 * existence -- mpt_notify_bind, mpt_notify_connect, mpt_bind + mpt_accept + mpt_notify_add, mpt_notify_config,
 * mpt_input_create, mpt_notify_change -- and mpt_notify_wait/next/clear/fini on what they made.
 *
 * Judgement-free: maps pointers in notify._slot to input tokens, tells a token's descriptor by its inode,
 * logs every close() the library makes (the driver defines close(); its own descriptors are closed by the system
 * call directly), counts open descriptors, copies the payload a handler installed on the notifier is given.
 * All sockets are unix-domain sockets in a directory under /verif/_work/X26; no step waits (wait runs with
 * timeout 0, the driver's own sockets are non-blocking).
 */
#define _GNU_SOURCE
#include "drv.h"
#include <fcntl.h>
#include <poll.h>
#include <sys/socket.h>
#include <sys/stat.h>
#include <sys/syscall.h>
#include <sys/un.h>

#include "meta.h"
#include "array.h"
#include "convert.h"
#include "types.h"
#include "config.h"
#include "event.h"
#include "message.h"
#include "stream.h"
#include "connection.h"
#include "notify.h"

#define MAXTOK 64
#define MAXFD  256
#define MAXMSG 64
#define MAXLEN 64

static int own_close(int fd) { return (int) syscall(SYS_close, fd); }

struct slot { int kind, fd, peer, released; ino_t ino; MPT_INTERFACE(input) *in; MPT_STRUCT(stream) *ps; };
static unsigned char own[MAXFD];       /* descriptors of the driver itself (peers, clients, its listeners) */
static struct slot tab[MAXTOK + 1];
static int nin;
static MPT_STRUCT(notify) no = MPT_NOTIFY_INIT;
static MPT_STRUCT(socket) bound = MPT_SOCKET_INIT;
static char dir[128], bpath[160];
static int pathno, stdin_gone;
static unsigned char base_open[MAXFD]; /* open before the behaviour began */
/* pending clients: descriptor and the listener (token, 0 = bound socket) they connected to */
static struct { int fd, l; char path[160]; } cli[MAXTOK];
static int ncli;
static char lpath[MAXTOK + 1][160];

/* close() calls of the library in this step */
static struct { int fd, wasopen, tok, mine; } closes[MAXMSG];
static int tok_of_fd(int fd);
static int ncloses;
int close(int fd)
{
	if (ncloses < MAXMSG) {
		closes[ncloses].fd = fd;
		closes[ncloses].wasopen = fd >= 0 && fcntl(fd, F_GETFD) >= 0;
		closes[ncloses].tok = closes[ncloses].wasopen ? tok_of_fd(fd) : -1;   /* whose it is now */
		closes[ncloses].mine = fd >= 0 && fd < MAXFD && own[fd];
		ncloses++;
	}
	return own_close(fd);
}

/* messages a handler saw in this step */
static struct { int tok; size_t n; uint8_t d[MAXLEN]; } msgs[MAXMSG];
static int nmsgs, curtok, hcalled;
static int handler(void *arg, MPT_STRUCT(event) *ev)
{
	(void) arg;
	if (!ev) return 0;
	hcalled++;
	if (ev->msg && nmsgs < MAXMSG) {
		MPT_STRUCT(message) m = *ev->msg;
		msgs[nmsgs].tok = curtok;
		msgs[nmsgs].n = mpt_message_read(&m, MAXLEN, msgs[nmsgs].d);
		nmsgs++;
	}
	return 0;
}

static void mine(int fd) { if (fd >= 0 && fd < MAXFD) own[fd] = 1; }
static void unmine(int fd) { if (fd >= 0 && fd < MAXFD) own[fd] = 0; own_close(fd); }
static int is_open(int fd) { return fcntl(fd, F_GETFD) >= 0; }
static ino_t ino_of(int fd) { struct stat st; return fstat(fd, &st) < 0 ? 0 : st.st_ino; }
static int tok_open(int t) { return tab[t].fd >= 0 && is_open(tab[t].fd) && ino_of(tab[t].fd) == tab[t].ino; }
static int tok_of(const void *p) { int t; for (t = 1; t <= nin; t++) if (tab[t].in == p && !tab[t].released) return t; return -1; }
static int tok_of_fd(int fd) { int t; for (t = 1; t <= nin; t++) if (tab[t].fd == fd && !tab[t].released) return t; return -1; }
static MPT_INTERFACE(input) **slots(int *n)
{
	MPT_STRUCT(buffer) *b = no._slot._buf;
	*n = b ? (int) (b->_used / sizeof(void *)) : 0;
	return b ? (MPT_INTERFACE(input) **) (b + 1) : 0;
}
static void new_path(char *dst, size_t len, const char *ext)
{
	snprintf(dst, len, "%s/%d.%s", dir, pathno++, ext);
	unlink(dst);
}
static MPT_STRUCT(stream) *peer_stream(int fd)
{
	static const MPT_STRUCT(stream) fresh = MPT_STREAM_INIT;
	MPT_STRUCT(stream) *ps = (MPT_STRUCT(stream) *) malloc(sizeof(*ps));
	MPT_STRUCT(socket) s;
	int fl = fcntl(fd, F_GETFL);
	*ps = fresh;
	ps->_wd._enc = mpt_message_encoder(MPT_ENUM(EncodingCobs));
	if (fl >= 0) fcntl(fd, F_SETFL, fl | O_NONBLOCK);
	s._id = fd;
	if (mpt_stream_dopen(ps, &s, MPT_STREAMFLAG(Write) | MPT_STREAMFLAG(WriteBuf)) < 0) { free(ps); return 0; }
	return ps;
}
/* a listening socket of the driver at a fresh path */
static int own_listener(char *path, size_t len)
{
	struct sockaddr_un addr;
	int lfd = socket(AF_UNIX, SOCK_STREAM | SOCK_NONBLOCK, 0);
	new_path(path, len, "sock");
	memset(&addr, 0, sizeof(addr));
	addr.sun_family = AF_UNIX;
	strcpy(addr.sun_path, path);
	if (lfd < 0 || bind(lfd, (struct sockaddr *) &addr, sizeof(addr)) < 0 || listen(lfd, 4) < 0) return -1;
	mine(lfd);
	return lfd;
}
/* register what the notifier holds and the driver does not know yet as token t */
static int adopt(int t, int kind, int peer)
{
	int n, k;
	MPT_INTERFACE(input) **p = slots(&n);
	struct slot *s = &tab[t];
	memset(s, 0, sizeof(*s));
	s->kind = kind; s->fd = -1; s->peer = peer;
	for (k = 0; k < n; k++) {
		if (p[k] && tok_of(p[k]) < 0) {
			s->in = p[k]; s->fd = k; s->ino = ino_of(k);
			if (peer >= 0) s->ps = peer_stream(peer);
			return 1;
		}
	}
	return 0;
}
static void drop_tmpdir(void)
{
	char cmd[200];
	if (!dir[0]) return;
	snprintf(cmd, sizeof(cmd), "rm -rf '%s'", dir);
	if (system(cmd)) { }
}

static void drv_reset(void)
{
	static const MPT_STRUCT(notify) fresh = MPT_NOTIFY_INIT;
	int fd;
	/* whatever the previous behaviour left open is closed; its objects are abandoned */
	for (fd = 3; fd < MAXFD; fd++) {
		if (fd == fileno(drv_out)) continue;
		if (own[fd] || (!base_open[fd] && is_open(fd) && nin >= 0 && dir[0])) { own_close(fd); }
		own[fd] = 0;
	}
	drop_tmpdir();
	{
		const char *top = getenv("X26_DIR");
		if (!top) { top = "/verif/_work/X26"; mkdir(top, 0755); }
		snprintf(dir, sizeof(dir), "%s/d%d-%ld", top, (int) getpid(), drv_beh);
		mkdir(dir, 0700);
	}
	no = fresh;
	bound._id = -1;
	memset(tab, 0, sizeof(tab));
	nin = 0; ncli = 0; pathno = 0; ncloses = 0; nmsgs = 0;
	for (fd = 0; fd < MAXFD; fd++) base_open[fd] = is_open(fd);
	no._disp.cmd = handler;
	no._disp.arg = 0;
}

static void emit(struct cmd *c, const char *ret, long long dbg)
{
	int t, k, n, fd, stray = 0, bad = 0, first;
	MPT_INTERFACE(input) **p = slots(&n);
	long long v[MAXTOK];
	size_t nv;

	drv_begin(c);
	j_str("ret", ret);
	/* registered: tokens of the pointers in the slot table */
	nv = 0;
	for (t = 1; t <= nin; t++) {
		if (tab[t].released) continue;
		for (k = 0; k < n; k++) if (p[k] == tab[t].in) { v[nv++] = t; break; }
	}
	j_ints("reg", v, nv);
	/* released in this step: tokens whose descriptor the library closed */
	nv = 0;
	for (k = 0; k < ncloses; k++) {
		fd = closes[k].fd;
		if (fd < 0) continue;
		if (!closes[k].wasopen || closes[k].mine) { bad++; continue; }
		if ((t = closes[k].tok) > 0 && !tab[t].released) { tab[t].released = 1; v[nv++] = t; }
	}
	/* ascending */
	for (k = 0; k < (int) nv; k++) for (t = k + 1; t < (int) nv; t++) if (v[t] < v[k]) { long long x = v[k]; v[k] = v[t]; v[t] = x; }
	j_ints("rel", v, nv);
	nv = 0;
	for (t = 1; t <= nin; t++) if (!tab[t].released && tok_open(t)) v[nv++] = t;
	j_ints("open", v, nv);
	/* messages per input, ascending token */
	j_arr_open("got");
	for (t = 1; t <= nin; t++) {
		first = 1;
		for (k = 0; k < nmsgs; k++) {
			if (msgs[k].tok != t) continue;
			if (first) { j_item_obj_open(); j_int("i", t); j_arr_open("d"); first = 0; }
			j_sep(); fputc('[', drv_out);
			{ size_t b; for (b = 0; b < msgs[k].n; b++) fprintf(drv_out, b ? ",%u" : "%u", msgs[k].d[b]); }
			fputc(']', drv_out); drv_first = 0;
		}
		if (!first) { j_arr_close(); j_close(); }
	}
	for (k = 0; k < nmsgs; k++) if (msgs[k].tok <= 0) { j_item_obj_open(); j_int("i", msgs[k].tok); j_arr_open("d"); j_arr_close(); j_close(); }
	j_arr_close();
	/* descriptors open that belong to nobody: not the driver's, not a live token's, not the notifier's, not the bound socket */
	for (fd = 0; fd < MAXFD; fd++) {
		if (!is_open(fd) || base_open[fd] || own[fd] || fd == no._sysfd || fd == bound._id) continue;
		if (tok_of_fd(fd) > 0) continue;
		stray++;
	}
	j_int("stray", stray);
	j_int("bad", bad);
	drv_dbg();
	j_int("r", dbg);
	j_int("ncloses", ncloses);
	{ long long cl[MAXMSG * 2]; for (k = 0; k < ncloses; k++) { cl[2 * k] = closes[k].fd; cl[2 * k + 1] = closes[k].wasopen; } j_ints("closes", cl, 2 * (size_t) ncloses); }
	j_int("fdused", no._fdused);
	drv_end();
	ncloses = 0; nmsgs = 0;
}

/* a peer connects to path; client descriptor non-blocking, bound to a name so that the accepted side can be told */
static int client_to(const char *path, int l)
{
	struct sockaddr_un addr;
	int fd = socket(AF_UNIX, SOCK_STREAM | SOCK_NONBLOCK, 0), r;
	if (fd < 0 || ncli >= MAXTOK) return -1;
	new_path(cli[ncli].path, sizeof(cli[ncli].path), "cli");
	memset(&addr, 0, sizeof(addr));
	addr.sun_family = AF_UNIX;
	strcpy(addr.sun_path, cli[ncli].path);
	if (bind(fd, (struct sockaddr *) &addr, sizeof(addr)) < 0) { own_close(fd); return -1; }
	strcpy(addr.sun_path, path);
	r = connect(fd, (struct sockaddr *) &addr, sizeof(addr));
	if (r < 0) { own_close(fd); return -1; }
	mine(fd);
	cli[ncli].fd = fd; cli[ncli].l = l;
	ncli++;
	return 0;
}
/* which pending client is at the other end of descriptor fd */
static int client_of(int fd)
{
	struct sockaddr_un addr;
	socklen_t len = sizeof(addr);
	int k;
	memset(&addr, 0, sizeof(addr));
	if (getpeername(fd, (struct sockaddr *) &addr, &len) < 0) return -1;
	for (k = 0; k < ncli; k++) if (cli[k].fd >= 0 && !strcmp(cli[k].path, addr.sun_path)) return k;
	return -1;
}
/* inputs the notifier holds that the driver does not know: accepted connections; tokens in the order of their
 * listeners, then in the order the clients connected */
static void adopt_accepted(int kind)
{
	int n, k, l, c;
	MPT_INTERFACE(input) **p;
	for (l = 0; l <= nin; l++) {
		for (c = 0; c < ncli; c++) {
			if (cli[c].fd < 0 || cli[c].l != l) continue;
			p = slots(&n);
			for (k = 0; k < n; k++) {
				struct slot *s;
				if (!p[k] || tok_of(p[k]) > 0 || client_of(k) != c) continue;
				if (nin >= MAXTOK) return;
				s = &tab[nin + 1];
				memset(s, 0, sizeof(*s));
				s->kind = kind; s->fd = k; s->ino = ino_of(k); s->in = p[k]; s->peer = cli[c].fd;
				s->ps = peer_stream(cli[c].fd);
				cli[c].fd = -1;
				nin++;
				break;
			}
		}
	}
}

static int set_global(const char *path, const char *val)
{
	MPT_INTERFACE(metatype) *g = mpt_config_global(0);
	MPT_INTERFACE(config) *cfg = 0;
	int r;
	if (!g) return -1;
	if (MPT_metatype_convert(g, MPT_ENUM(TypeConfigPtr), &cfg) < 0 || !cfg) { g->_vptr->unref(g); return -2; }
	r = mpt_config_set(cfg, path, val, '.', 0);
	g->_vptr->unref(g);
	return r;
}

static void drv_step(struct cmd *c)
{
	const char *a = c->action;
	char dest[200], path[160];

	if (!strcmp(a, "init")) {
		emit(c, "ok", 0);
	}
	else if (!strcmp(a, "listen")) {
		int r;
		new_path(lpath[nin + 1], sizeof(lpath[0]), "lsn");
		snprintf(dest, sizeof(dest), "Unix:%s", lpath[nin + 1]);
		r = mpt_notify_bind(&no, dest, 4);
		if (r >= 0 && adopt(nin + 1, 'l', -1)) {
			int fl = fcntl(tab[nin + 1].fd, F_GETFL);
			fcntl(tab[nin + 1].fd, F_SETFL, fl | O_NONBLOCK);
			nin++;
		}
		emit(c, r < 0 ? "refused" : "ok", r);
	}
	else if (!strcmp(a, "listenbad")) {
		int r;
		snprintf(dest, sizeof(dest), "Unix:%s/nodir/x.sock", dir);
		r = mpt_notify_bind(&no, dest, 4);
		emit(c, r < 0 ? "refused" : "ok", r);
	}
	else if (!strcmp(a, "connect")) {
		int lfd = own_listener(path, sizeof(path)), r = -100, peer = -1;
		if (lfd >= 0) {
			snprintf(dest, sizeof(dest), "Unix:%s", path);
			r = mpt_notify_connect(&no, dest);
			if (r >= 0) {
				peer = accept(lfd, 0, 0);
				mine(peer);
				if (adopt(nin + 1, 'c', peer)) nin++;
			}
			unmine(lfd);
			unlink(path);
		}
		emit(c, r < 0 ? "refused" : "ok", r);
	}
	else if (!strcmp(a, "connectbad")) {
		int r;
		snprintf(dest, sizeof(dest), "Unix:%s/nobody.sock", dir);
		r = mpt_notify_connect(&no, dest);
		emit(c, r < 0 ? "refused" : "ok", r);
	}
	else if (!strcmp(a, "bind")) {
		int r = 0;
		if (bound._id < 0) {
			new_path(bpath, sizeof(bpath), "bnd");
			snprintf(dest, sizeof(dest), "Unix:%s", bpath);
			r = mpt_bind(&bound, dest, 0, 4);
			if (r >= 0 && bound._id >= 0) fcntl(bound._id, F_SETFL, fcntl(bound._id, F_GETFL) | O_NONBLOCK);
		}
		emit(c, r < 0 ? "refused" : "ok", r);
	}
	else if (!strcmp(a, "conn")) {
		int l = (int) drv_int(c, "l", 0), r = -9;
		if (l == 0) { if (bound._id >= 0) r = client_to(bpath, 0); }
		else if (l >= 1 && l <= nin && tab[l].kind == 'l' && !tab[l].released) r = client_to(lpath[l], l);
		emit(c, r < 0 ? "refused" : "ok", r);
	}
	else if (!strcmp(a, "accept")) {
		MPT_INTERFACE(input) *in = 0;
		int r = -9;
		if (bound._id >= 0) {
			/* environment: the lowest descriptor number is free (a process started without standard input) */
			if (drv_int(c, "low", 0) && !stdin_gone) { stdin_gone = 1; base_open[0] = 0; own_close(0); }
			in = mpt_accept(&bound);
			if (in) {
				r = mpt_notify_add(&no, POLLIN, in);
				if (r < 0) in->_vptr->meta.unref((void *) in);
				else adopt_accepted('a');
			}
		}
		emit(c, in && r >= 0 ? "ok" : "refused", r);
	}
	else if (!strcmp(a, "unbind")) {
		/* the same handle may be released again: bound._id is whatever the library left there */
		int r = mpt_bind(&bound, 0, 0, 0);
		emit(c, r < 0 ? "refused" : "ok", r);
	}
	else if (!strcmp(a, "keepread")) {
		/* the stream of a library stream input (layout of mptio/stream/stream_input.c) keeps its descriptor for reading only */
		struct { MPT_INTERFACE(input) _in; MPT_STRUCT(refcount) ref; MPT_STRUCT(stream) data; } *srm;
		int i = (int) drv_int(c, "i", 0), r = -9;
		if (i >= 1 && i <= nin && !tab[i].released && tab[i].in && (tab[i].kind == 'c' || tab[i].kind == 'a' || tab[i].kind == 'n')) {
			srm = (void *) tab[i].in;
			r = _mpt_stream_setfile(&srm->data._info, tab[i].fd, -1);
		}
		emit(c, r < 0 ? "refused" : "ok", r);
	}
	else if (!strcmp(a, "send")) {
		int i = (int) drv_int(c, "i", 0), r = -9;
		size_t n = 0;
		uint8_t *d = drv_bytes(c, "data", &n);
		if (i >= 1 && i <= nin && tab[i].ps && !tab[i].released && tab[i].peer >= 0) {
			static const uint8_t id[2] = { 0, 0 };
			MPT_STRUCT(stream) *ps = tab[i].ps;
			r = 0;
			if (mpt_stream_push(ps, 2, id) < 0 || mpt_stream_push(ps, n, d) < 0 || mpt_stream_push(ps, 0, 0) < 0) r = -5;
			else if (mpt_stream_flush(ps) < 0) { tab[i].ps = 0; r = -7; }
		}
		free(d);
		emit(c, r < 0 ? "refused" : "ok", r);
	}
	else if (!strcmp(a, "pclose")) {
		int i = (int) drv_int(c, "i", 0), r = -9;
		if (i >= 1 && i <= nin && tab[i].peer >= 0 && !tab[i].released) {
			unmine(tab[i].peer);
			tab[i].peer = -1; tab[i].ps = 0;
			r = 0;
		}
		emit(c, r < 0 ? "refused" : "ok", r);
	}
	else if (!strcmp(a, "wait")) {
		MPT_INTERFACE(input) *in;
		int r = 0, round, n0, k;
		/* rounds of wait / next / dispatch until one finds nothing to do (how much an input reads in one go and
		 * how many connections a listener takes per call is the library's business) */
		for (round = 0; round < 24; round++) {
			int calls = hcalled, cl = ncloses, guard = 0, used = no._fdused;
			MPT_INTERFACE(input) **p = slots(&n0);
			int known = 0;
			for (k = 0; k < n0; k++) if (p[k]) known++;
			r = mpt_notify_wait(&no, -1, 0);
			while ((in = mpt_notify_next(&no)) && guard++ < 64) {
				curtok = tok_of(in);
				for (k = 0; k < 16; k++) {
					int before = hcalled, d;
					d = in->_vptr->dispatch(in, handler, 0);
					if (d < 0 || hcalled == before) break;
				}
			}
			curtok = 0;
			p = slots(&n0);
			for (k = 0; k < n0; k++) if (p[k]) known--;
			if (calls == hcalled && cl == ncloses && used == no._fdused && !known) break;
		}
		adopt_accepted('n');
		emit(c, r < 0 ? "refused" : "ok", r);
	}
	else if (!strcmp(a, "remove")) {
		int i = (int) drv_int(c, "i", 0), r = -9;
		if (i >= 1 && i <= nin && !tab[i].released) r = mpt_notify_clear(&no, tab[i].fd);
		emit(c, r < 0 ? "refused" : "ok", r);
	}
	else if (!strcmp(a, "config")) {
		const char *cm = drv_raw(c, "c"), *lm = drv_raw(c, "l");
		int lfd = -1, r, peer;
		char lp[160];
		set_global("mpt.connect", 0);
		set_global("mpt.listen", 0);
		lp[0] = 0;
		if (cm && !strcmp(cm, "ok")) {
			lfd = own_listener(path, sizeof(path));
			snprintf(dest, sizeof(dest), "Unix:%s", path);
			set_global("mpt.connect", dest);
		} else if (cm && !strcmp(cm, "bad")) {
			snprintf(dest, sizeof(dest), "Unix:%s/nobody.sock", dir);
			set_global("mpt.connect", dest);
		}
		if (lm && !strcmp(lm, "ok")) {
			new_path(lp, sizeof(lp), "lsn");
			snprintf(dest, sizeof(dest), "Unix:%s", lp);
			set_global("mpt.listen", dest);
		} else if (lm && !strcmp(lm, "bad")) {
			snprintf(dest, sizeof(dest), "Unix:%s/nodir/x.sock", dir);
			set_global("mpt.listen", dest);
		}
		r = mpt_notify_config(&no, 0);
		if (lfd >= 0) {
			/* the connected input first: the one whose descriptor does not listen */
			int n, k;
			MPT_INTERFACE(input) **p = slots(&n);
			peer = accept(lfd, 0, 0);
			mine(peer);
			for (k = 0; k < n; k++) {
				int acc = 0; socklen_t al = sizeof(acc);
				if (!p[k] || tok_of(p[k]) > 0) continue;
				if (getsockopt(k, SOL_SOCKET, SO_ACCEPTCONN, &acc, &al) < 0 || acc) continue;
				{
					struct slot *s = &tab[nin + 1];
					memset(s, 0, sizeof(*s));
					s->kind = 'c'; s->fd = k; s->ino = ino_of(k); s->in = p[k]; s->peer = peer;
					s->ps = peer >= 0 ? peer_stream(peer) : 0;
					nin++;
				}
				break;
			}
			unmine(lfd);
			unlink(path);
		}
		if (lp[0]) {
			strcpy(lpath[nin + 1], lp);
			if (adopt(nin + 1, 'l', -1)) {
				fcntl(tab[nin + 1].fd, F_SETFL, fcntl(tab[nin + 1].fd, F_GETFL) | O_NONBLOCK);
				nin++;
			}
		}
		set_global("mpt.connect", 0);
		set_global("mpt.listen", 0);
		emit(c, r < 0 ? "refused" : "ok", r);
	}
	else if (!strcmp(a, "fini")) {
		mpt_notify_fini(&no);
		emit(c, "ok", 0);
		no._disp.cmd = handler;
	}
	else {
		drv_begin(c); j_str("ret", "unknown"); drv_dbg(); drv_end();
	}
}

int main(int argc, char **argv)
{
	int r;
	signal(SIGPIPE, SIG_IGN);
	drv_fresh_per_behaviour = 1;
	r = drv_main(argc, argv);
	return r;
}
