/*
 * Driver for spec/RawStream.tla and spec/FramedPeek.tla (X02, extension of C02).
 *
 * Three sections, chosen by "init sec=...":
 *   framed  encode_queue -> byte wire -> decode_queue with a COBS framing (same command language as
 *           drv/stream.c) plus "peek"; via=c uses mpt_queue_push/recv, via=cxx the C++ wrappers
 *           encode_queue::push/trim, decode_queue::advance/current_message (mpt++/queue.cpp)
 *   raw     the same queues WITHOUT encoder/decoder: push / done / discard / flush / deliver / recv /
 *           peek / shift / overtrim
 *   file    struct stream on a temporary file: open / write / zeros / endl / push / end / drop / flush /
 *           close / read / skip / peekr / getc / seek; via=c the mptio functions, via=cxx io::stream
 *
 * The driver is judgement-free: it copies bytes, follows the documented windows and maps return codes
 * to classes.  Temporary files live in $X02_TMP (else $TMPDIR, else /tmp) and are removed at reset.
 */
#include "drv.h"

#include <ctype.h>
#include <fcntl.h>
#include <sys/stat.h>
#include <sys/uio.h>

#include "message.h"
#include "convert.h"
#include "queue.h"
#include "stream.h"
#include "io.h"

using namespace mpt;

extern "C" {
ssize_t x02_enc5(encode_state *, const struct iovec *, const struct iovec *);
ssize_t x02_enc5r(encode_state *, const struct iovec *, const struct iovec *);
int x02_dec5(decode_state *, const struct iovec *, size_t);
int x02_dec5r(decode_state *, const struct iovec *, size_t);
}

/* ------------------------------------------------------------------ queues */
struct EQ : public encode_queue
{
	EQ() : encode_queue(0) { }
	using encode_queue::_state;
	using encode_queue::_enc;
};
struct DQ : public decode_queue
{
	DQ() : decode_queue(0) { }
	using decode_queue::_state;
	using decode_queue::_dec;
};
static EQ *wq;
static DQ *rq;
static int qcxx;
static uint8_t *wire;
static size_t wire_len, wire_pos, wire_cap;
static uint8_t *cur;
static size_t cur_len, cur_pos;
static size_t grow = 8;
static int grants_total;
static char sec = 0;       /* 'f' framed, 'r' raw, 's' file stream */

/* ------------------------------------------------------------------ file streams */
struct CS : public ::mpt::stream
{
	using ::mpt::stream::_info;
	using ::mpt::stream::_rd;
	using ::mpt::stream::_wd;
};
struct XS : public io::stream
{
	XS() : io::stream(0) { }
	using io::stream::_srm;
};
static CS *cs;
static XS *xs;
static int fcxx;
static char fpath[512];
static int fl_on;
static char nl_kind = '-';
static long fcount;

static CS *fraw(void)
{
	if (fcxx) return xs ? static_cast<CS *>(xs->_srm) : 0;
	return cs;
}

static void drv_reset(void)
{
	if (wq) { free(wq->base); wq->base = 0; delete wq; wq = 0; }
	if (rq) { free(rq->base); rq->base = 0; delete rq; rq = 0; }
	free(wire); wire = 0; wire_len = wire_pos = wire_cap = 0;
	free(cur); cur = 0; cur_len = cur_pos = 0;
	grants_total = 0;
	if (xs) { delete xs; xs = 0; }
	if (cs) { delete cs; cs = 0; }
	if (fpath[0]) { unlink(fpath); fpath[0] = 0; }
	sec = 0;
}
static void qinit(queue *q, size_t cap, size_t off)
{
	if (cap) {
		q->base = malloc(cap);
		memset(q->base, 0xEE, cap);
	}
	q->max = cap; q->off = cap ? off % cap : 0; q->len = 0;
}
static void emit_qdbg(void)
{
	drv_dbg();
	j_int("wmax", wq->max); j_int("woff", wq->off); j_int("wlen", wq->len);
	j_int("wdone", wq->_state.done); j_int("wscr", wq->_state.scratch);
	j_int("rmax", rq->max); j_int("roff", rq->off); j_int("rlen", rq->len);
	j_int("curr", rq->_state.curr); j_int("pos", rq->_state.data.pos);
	j_int("mlen", rq->_state.data.len); j_int("msg", rq->_state.data.msg);
	j_int("grants", grants_total);
}
static void simple(struct cmd *c, const char *ret)
{
	drv_begin(c);
	j_str("ret", ret);
	emit_qdbg();
	drv_end();
}
static void with_bytes(struct cmd *c, const char *ret, const char *key, const void *p, size_t n)
{
	drv_begin(c);
	j_str("ret", ret);
	j_bytes(key, p, n);
	emit_qdbg();
	drv_end();
}
static ssize_t qpush(size_t len, const void *src)
{
	return qcxx ? wq->push(len, src) : mpt_queue_push(wq, len, src);
}
/* writer side: as mpt_stream_push() does on a resizable queue */
static int writer_push(size_t len, const uint8_t *src)
{
	int rounds = 0;
	while (1) {
		ssize_t post;
		if (++rounds > 4096) return -100;
		if (len) {
			post = qpush(len, src);
		} else {
			if ((post = qpush(0, 0)) >= 0) return 0;
		}
		if (post >= 0) {
			if (!(len -= post)) return 0;
			src += post;
			continue;
		}
		if (post != MPT_ERROR(MissingBuffer)) return (int) post;
		if (!mpt_queue_prepare(wq, grow < 2 ? 2 : grow)) return -101;
	}
}
/* window [pos, pos+len) of the reader queue as bytes */
static uint8_t *window(size_t pos, size_t len, int *ok)
{
	message msg;
	struct iovec vec;
	uint8_t *tmp = (uint8_t *) calloc(len + 1, 1);
	*ok = 1;
	if (mpt_message_get(rq, pos, len, &msg, &vec) < 0
	    || mpt_message_read(&msg, len, tmp) != len) {
		*ok = 0;
	}
	return tmp;
}

static void queue_step(struct cmd *c)
{
	const char *a = c->action;

	if (!strcmp(a, "start")) {
		free(cur);
		cur = drv_bytes(c, "data", &cur_len);
		cur_pos = 0;
		simple(c, "ok");
	}
	else if (!strcmp(a, "push")) {
		int r;
		if (sec == 'r') {
			size_t n;
			uint8_t *d = drv_bytes(c, "data", &n);
			r = n ? writer_push(n, d) : 0;
			free(d);
		} else {
			size_t n = drv_uint(c, "n", 0);
			if (n > cur_len - cur_pos) n = cur_len - cur_pos;
			r = n ? writer_push(n, cur + cur_pos) : 0;
			cur_pos += n;
		}
		simple(c, r < 0 ? "failed" : "ok");
	}
	else if (!strcmp(a, "end")) {
		int r = writer_push(0, 0);
		simple(c, r < 0 ? "failed" : "ok");
	}
	else if (!strcmp(a, "done")) {
		/* unframed: everything in the queue becomes finished */
		ssize_t r = qpush(0, 0);
		drv_begin(c);
		j_str("ret", r < 0 ? "failed" : "ok");
		j_int("n", r < 0 ? -1 : (long long) r);
		emit_qdbg();
		drv_end();
	}
	else if (!strcmp(a, "discard")) {
		ssize_t r = qpush(drv_uint(c, "n", 1), 0);
		simple(c, r < 0 ? "refused" : "ok");
	}
	else if (!strcmp(a, "flush")) {
		/* as mpt_stream_flush(): only finished data leaves the queue */
		size_t n = drv_uint(c, "n", 0), done = wq->_state.done;
		uint8_t *tmp;
		int ok = 1;
		if (n > done) n = done;
		tmp = (uint8_t *) malloc(n + 1);
		if (n && mpt_queue_get(wq, 0, n, tmp) < 0) {
			free(tmp);
			simple(c, "failed");
			return;
		}
		if (qcxx) {
			ok = wq->trim(n);
		} else {
			mpt_queue_crop(wq, 0, n);
			wq->_state.done -= n;
		}
		if (!ok) {
			free(tmp);
			simple(c, "failed");
			return;
		}
		if (wire_len + n > wire_cap) wire = (uint8_t *) realloc(wire, wire_cap = (wire_len + n) * 2 + 64);
		memcpy(wire + wire_len, tmp, n);
		wire_len += n;
		with_bytes(c, "ok", "out", tmp, n);
		free(tmp);
	}
	else if (!strcmp(a, "overtrim")) {
		/* more than the finished bytes must not leave */
		bool r = wq->trim(wq->done() + drv_uint(c, "n", 1));
		simple(c, r ? "ok" : "refused");
	}
	else if (!strcmp(a, "deliver")) {
		/* as mpt_stream_poll(): drop consumed data, make room, load */
		size_t n = drv_uint(c, "n", 0), low = 0, high = 0, left;
		uint8_t *dst, *src = wire + wire_pos;
		if (n > wire_len - wire_pos) n = wire_len - wire_pos;
		mpt_queue_shift(rq);
		if (n > rq->max - rq->len) {
			if (!mpt_queue_prepare(rq, n)) {
				simple(c, "failed");
				return;
			}
		}
		left = n;
		if (left && (dst = (uint8_t *) mpt_queue_empty(rq, &low, &high))) {
			size_t take = left < low ? left : low;
			memcpy(dst, src, take);
			left -= take;
			if (left) {
				size_t t2 = left < high ? left : high;
				memcpy(rq->base, src + take, t2);
				left -= t2;
			}
			rq->len += n - left;
		}
		wire_pos += n - left;
		with_bytes(c, left ? "failed" : "ok", "out", src, n - left);
	}
	else if (!strcmp(a, "recv")) {
		int r = 0, grants = 0, ok = 1;
		size_t had = rq->len;
		if (qcxx) {
			bool adv;
			while (!(adv = rq->advance()) && had && grants < 3) {
				if (!mpt_queue_prepare(rq, grow > 16 ? grow : 16)) break;
				++grants; ++grants_total;
			}
			if (adv) r = rq->pending_message() ? 1 : 0;
			else r = had ? MPT_ERROR(MissingBuffer) : MPT_ERROR(MissingData);
		} else {
			while ((r = mpt_queue_recv(rq)) == MPT_ERROR(MissingBuffer) && grants < 3) {
				if (!mpt_queue_prepare(rq, grow > 16 ? grow : 16)) break;
				++grants; ++grants_total;
			}
		}
		if (r > 0) {
			size_t len = rq->_state.data.msg;
			uint8_t *tmp;
			if (qcxx) {
				message msg;
				struct iovec vec;
				tmp = (uint8_t *) calloc(len + 1, 1);
				if (!rq->current_message(msg, &vec) || mpt_message_read(&msg, len, tmp) != len) ok = 0;
			} else {
				tmp = window(rq->_state.data.pos, len, &ok);
			}
			if (!ok) with_bytes(c, "error", "data", tmp, 0);
			else with_bytes(c, "msg", "data", tmp, len);
			free(tmp);
		}
		else if (sec == 'r' && r == 0) {
			/* unframed: the data that arrived since the last call is the current part */
			uint8_t *tmp = window(rq->_state.data.pos, rq->_state.data.len, &ok);
			with_bytes(c, ok ? "part" : "error", "data", tmp, ok ? rq->_state.data.len : 0);
			free(tmp);
		}
		else if (r == 0 || (r == MPT_ERROR(MissingData) && !had)) with_bytes(c, "none", "data", 0, 0);
		else if (r == MPT_ERROR(MissingBuffer)) with_bytes(c, "stalled", "data", 0, 0);
		else with_bytes(c, "error", "data", 0, 0);
	}
	else if (!strcmp(a, "peek")) {
		size_t max = drv_uint(c, "max", 0);
		int dst = (int) drv_int(c, "dst", 1);
		uint8_t *buf = (uint8_t *) malloc(max + 1);
		ssize_t r;
		memset(buf, 0xA5, max + 1);
		r = mpt_queue_peek(rq, max, dst ? buf : 0);
		drv_begin(c);
		j_int("n", r < 0 ? -1 : (long long) r);
		j_bytes("data", buf, (dst && r > 0) ? ((size_t) r < max ? (size_t) r : max) : 0);
		emit_qdbg();
		drv_end();
		free(buf);
	}
	else if (!strcmp(a, "shift")) {
		mpt_queue_shift(rq);
		simple(c, "ok");
	}
	else {
		simple(c, "unknown-action");
	}
}

/* ------------------------------------------------------------------ file section */
static void emit_fdbg(void)
{
	CS *s = fraw();
	drv_dbg();
	if (!s) return;
	j_int("flags", mpt_stream_flags(&s->_info));
	j_int("wmax", s->_wd.max); j_int("woff", s->_wd.off); j_int("wlen", s->_wd.len);
	j_int("rmax", s->_rd.max); j_int("roff", s->_rd.off); j_int("rlen", s->_rd.len);
}
static uint8_t *disk(size_t *len)
{
	struct stat st;
	uint8_t *buf;
	int fd = open(fpath, O_RDONLY);
	ssize_t got = 0;
	*len = 0;
	if (fd < 0 || fstat(fd, &st) < 0) {
		if (fd >= 0) close(fd);
		return (uint8_t *) calloc(1, 1);
	}
	buf = (uint8_t *) calloc((size_t) st.st_size + 1, 1);
	while ((size_t) got < (size_t) st.st_size) {
		ssize_t r = read(fd, buf + got, (size_t) st.st_size - got);
		if (r <= 0) break;
		got += r;
	}
	close(fd);
	*len = (size_t) got;
	return buf;
}
/* projection: the complete lines of the file (content up to and including the last line end) */
static size_t lines_len(const uint8_t *d, size_t n)
{
	size_t i;
	for (i = n; i > 0; i--) {
		if (nl_kind == 'u' && d[i - 1] == '\n') return i;
		if (nl_kind == 'm' && d[i - 1] == '\r') return i;
		if (nl_kind == 'n' && i > 1 && d[i - 1] == '\n' && d[i - 2] == '\r') return i;
	}
	return 0;
}
static void emit_lines(void)
{
	size_t n;
	uint8_t *d = disk(&n);
	j_bytes("lines", d, lines_len(d, n));
	free(d);
}
static void emit_disk(void)
{
	size_t n;
	uint8_t *d = disk(&n);
	j_bytes("disk", d, n);
	free(d);
}
static void fsimple(struct cmd *c, const char *ret, int with_disk, int with_lines)
{
	drv_begin(c);
	j_str("ret", ret);
	if (with_disk) emit_disk();
	if (with_lines) emit_lines();
	emit_fdbg();
	drv_end();
}

static void file_step(struct cmd *c)
{
	const char *a = c->action;
	CS *s = fraw();

	if (!strcmp(a, "open")) {
		const char *m = drv_raw(c, "m"), *nl = drv_raw(c, "nl");
		char ms[8];
		int i = 0, ok;
		fcxx = !strcmp(drv_raw(c, "via") ? drv_raw(c, "via") : "c", "cxx");
		fl_on = (int) drv_int(c, "fl", 0);
		nl_kind = (nl && *nl) ? *nl : '-';
		ms[i++] = m ? *m : 'r';
		if (nl_kind != '-') ms[i++] = fl_on ? (char) toupper(nl_kind) : nl_kind;
		ms[i] = 0;
		if (fcxx) {
			/* re=1: the same object is opened again without close (mpt_stream_open has to close the old stream) */
			if (cs) { delete cs; cs = 0; }
			if (!(drv_int(c, "re", 0) && xs)) {
				if (xs) delete xs;
				xs = new XS;
			}
			ok = xs->open(fpath, ms);
		} else {
			if (xs) { delete xs; xs = 0; }
			if (!cs) cs = new CS;
			ok = mpt_stream_open(cs, fpath, ms) >= 0;
		}
		s = fraw();
		if (ok && s && !drv_int(c, "buf", 1)) {
			mpt_stream_setmode(s, 0);
		}
		fsimple(c, ok ? "ok" : "failed", 1, 0);
		return;
	}
	if (!s) {
		fsimple(c, "no-stream", 0, 0);
		return;
	}
	if (!strcmp(a, "write") || !strcmp(a, "zeros")) {
		size_t len = 0, part = drv_uint(c, "part", 1), count;
		uint8_t *d = 0;
		ssize_t r;
		if (a[0] == 'w') {
			d = drv_bytes(c, "data", &len);
			count = part ? len / part : 0;
		} else {
			count = drv_uint(c, "n", 0);
		}
		r = fcxx ? xs->write(count, d, part) : (ssize_t) mpt_stream_write(s, count, d, part);
		drv_begin(c);
		j_int("n", r);
		emit_lines();
		emit_fdbg();
		drv_end();
		free(d);
	}
	else if (!strcmp(a, "endl")) {
		bool r = s->endline();
		fsimple(c, r ? "ok" : "failed", 0, 1);
	}
	else if (!strcmp(a, "push")) {
		size_t len;
		uint8_t *d = drv_bytes(c, "data", &len);
		ssize_t r = len ? (fcxx ? xs->push(len, d) : mpt_stream_push(s, len, d)) : 0;
		fsimple(c, r == (ssize_t) len ? "ok" : "failed", 0, 1);
		free(d);
	}
	else if (!strcmp(a, "end")) {
		ssize_t r = fcxx ? xs->push(0, 0) : mpt_stream_push(s, 0, 0);
		fsimple(c, r >= 0 ? "ok" : "failed", 0, 1);
	}
	else if (!strcmp(a, "drop")) {
		ssize_t r = fcxx ? xs->push(1, 0) : mpt_stream_push(s, 1, 0);
		fsimple(c, r >= 0 ? "ok" : "refused", 0, 1);
	}
	else if (!strcmp(a, "flush")) {
		int r = mpt_stream_flush(s);
		fsimple(c, r < 0 ? "failed" : (r ? "remaining" : "clean"), 1, 0);
	}
	else if (!strcmp(a, "close")) {
		if (fcxx) xs->close();
		else mpt_stream_close(s);
		fsimple(c, "ok", 1, 0);
	}
	else if (!strcmp(a, "read")) {
		size_t n = drv_uint(c, "n", 0), part = drv_uint(c, "part", 1);
		uint8_t *buf = (uint8_t *) malloc(n * part + 1);
		ssize_t r;
		memset(buf, 0xA5, n * part + 1);
		r = fcxx ? xs->read(n, buf, part) : (ssize_t) mpt_stream_read(s, n, buf, part);
		drv_begin(c);
		j_int("n", r);
		j_bytes("data", buf, (r > 0 && (size_t) r <= n) ? (size_t) r * part : 0);
		emit_fdbg();
		drv_end();
		free(buf);
	}
	else if (!strcmp(a, "skip")) {
		size_t n = drv_uint(c, "n", 0);
		ssize_t r = fcxx ? xs->read(n, 0, 1) : (ssize_t) mpt_stream_read(s, n, 0, 1);
		drv_begin(c);
		j_int("n", r);
		emit_fdbg();
		drv_end();
	}
	else if (!strcmp(a, "peekr")) {
		size_t n = drv_uint(c, "n", 0);
		uint8_t *buf = (uint8_t *) malloc(n + 1);
		ssize_t r;
		memset(buf, 0xA5, n + 1);
		r = fcxx ? xs->read(n, buf, 0) : (ssize_t) mpt_stream_read(s, n, buf, 0);
		drv_begin(c);
		j_str("ret", r > 0 ? "ok" : "none");
		j_bytes("data", buf, r > 0 ? n : 0);
		emit_fdbg();
		drv_end();
		free(buf);
	}
	else if (!strcmp(a, "getc")) {
		int r = fcxx ? xs->getchar() : mpt_stream_getc(s);
		drv_begin(c);
		j_int("c", r < 0 ? -1 : r);
		emit_fdbg();
		drv_end();
	}
	else if (!strcmp(a, "seek")) {
		const char *wh = drv_raw(c, "wh");
		long long off = drv_int(c, "off", 0);
		int64_t r;
		if (fcxx && wh && !strcmp(wh, "set")) {
			r = xs->seek(off) ? xs->pos() : -1;
		}
		else if (fcxx && wh && !strcmp(wh, "cur") && !off) {
			r = xs->pos();
		}
		else {
			int whence = (wh && !strcmp(wh, "cur")) ? SEEK_CUR : ((wh && !strcmp(wh, "end")) ? SEEK_END : SEEK_SET);
			r = mpt_stream_seek(s, off, whence);
		}
		drv_begin(c);
		j_str("ret", r < 0 ? "failed" : "ok");
		j_int("pos", r < 0 ? -1 : (long long) r);
		emit_fdbg();
		drv_end();
	}
	else {
		fsimple(c, "unknown-action", 0, 0);
	}
}

static void drv_step(struct cmd *c)
{
	const char *a = c->action;

	if (!strcmp(a, "init")) {
		const char *s = drv_raw(c, "sec");
		drv_reset();
		sec = (s && !strcmp(s, "raw")) ? 'r' : ((s && !strcmp(s, "file")) ? 's' : 'f');
		if (sec == 's') {
			const char *dir = getenv("X02_TMP");
			size_t n;
			uint8_t *pre = drv_bytes(c, "pre", &n);
			int fd;
			if (!dir || !*dir) dir = getenv("TMPDIR");
			if (!dir || !*dir) dir = "/tmp";
			snprintf(fpath, sizeof(fpath), "%s/x02-%ld-%ld.bin", dir, (long) getpid(), ++fcount);
			fd = open(fpath, O_WRONLY | O_CREAT | O_TRUNC, 0600);
			if (fd < 0 || (n && write(fd, pre, n) != (ssize_t) n)) {
				if (fd >= 0) close(fd);
				free(pre);
				drv_begin(c); j_str("ret", "failed"); drv_dbg(); drv_end();
				return;
			}
			close(fd);
			free(pre);
			drv_begin(c); j_str("ret", "ok"); drv_dbg(); drv_end();
			return;
		}
		{
			const char *kind = drv_raw(c, "kind"), *via = drv_raw(c, "via");
			wq = new EQ; rq = new DQ;
			qcxx = via && !strcmp(via, "cxx");
			if (sec == 'f') {
				if (!kind) kind = "s5";
				if (!strcmp(kind, "cobs"))        { wq->_enc = mpt_encode_cobs;       rq->_dec = mpt_decode_cobs; }
				else if (!strcmp(kind, "cobs_r")) { wq->_enc = mpt_encode_cobs_r;     rq->_dec = mpt_decode_cobs_r; }
				else if (!strcmp(kind, "zpe"))    { wq->_enc = mpt_encode_cobs_zpe;   rq->_dec = mpt_decode_cobs_zpe; }
				else if (!strcmp(kind, "zpe_r"))  { wq->_enc = mpt_encode_cobs_zpe_r; rq->_dec = mpt_decode_cobs_zpe_r; }
				else if (!strcmp(kind, "s5r"))    { wq->_enc = x02_enc5r;             rq->_dec = x02_dec5r; }
				else                              { wq->_enc = x02_enc5;              rq->_dec = x02_dec5; }
			}
			qinit(wq, drv_uint(c, "wcap", 0), drv_uint(c, "woff", 0));
			qinit(rq, drv_uint(c, "rcap", 0), drv_uint(c, "roff", 0));
			grow = drv_uint(c, "grow", 8);
			if (!grow) grow = 1;
			simple(c, "ok");
		}
		return;
	}
	if (sec == 's') file_step(c);
	else if (wq && rq) queue_step(c);
	else { drv_begin(c); j_str("ret", "no-init"); drv_dbg(); drv_end(); }
}

int main(int argc, char **argv)
{
	int r = drv_main(argc, argv);
	return r;
}
