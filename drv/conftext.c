/*
 * Driver for spec/ConfText.tla (C09) and spec/ParseMon.tla (C08).
 *
 *   parse  fmt=<runs|null> acc=<runs|null> text=<runs> [pre=<n>]
 *       mpt_parse_node() on a target that holds <n> marker children;
 *       obs: ret ("ok"|"error"), tree (ident, value text, children in order)
 *   events fmt=.. acc=.. text=..
 *       mpt_parse_config() with a recording path handler;
 *       obs: ret, ev (event list), reads, len
 *
 * "runs" = flat list b0,n0,b1,n1,... (byte b repeated n times); "-" = empty.
 * Byte strings are printed the same way ([[b,n],...], maximal runs), so that
 * values of 65536 bytes stay short.  The driver copies and follows pointers
 * only; all judgement is in the specification.
 */
#include "drv.h"

#include <sys/uio.h>
#include <fcntl.h>
#include <dirent.h>
#include <sanitizer/allocator_interface.h>

#include "types.h"
#include "meta.h"
#include "node.h"
#include "config.h"
#include "output.h"
#include "parse.h"

/* ---------- allocation accounting (ASan hook; no source change) ---------- */
static volatile int acct_on;
static long acct_alloc, acct_free;
static void hook_malloc(const volatile void *p, size_t n) { (void) n; if (acct_on && p) acct_alloc++; }
static void hook_free(const volatile void *p) { if (acct_on && p) acct_free++; }

/* ---------- byte strings as runs ---------- */
static uint8_t *runs_bytes(const struct cmd *c, const char *key, size_t *len, int *isnull)
{
	const char *r = drv_raw(c, key);
	long long *v;
	size_t n, i, total = 0, pos = 0;
	uint8_t *buf;
	*isnull = 0;
	*len = 0;
	if (!r || !strcmp(r, "null")) {
		*isnull = 1;
		return (uint8_t *) calloc(1, 1);
	}
	v = drv_ints(c, key, &n);
	for (i = 0; i + 1 < n; i += 2) total += (size_t) v[i + 1];
	buf = (uint8_t *) malloc(total + 1);
	for (i = 0; i + 1 < n; i += 2) {
		memset(buf + pos, (int) v[i], (size_t) v[i + 1]);
		pos += (size_t) v[i + 1];
	}
	buf[total] = 0;
	free(v);
	if (total == 1 && !buf[0]) {   /* a single NUL stands for a NULL argument */
		*isnull = 1;
		total = 0;
	}
	*len = total;
	return buf;
}
static void j_runs_body(const uint8_t *p, size_t n)
{
	size_t i = 0;
	int first = 1;
	fputc('[', drv_out);
	while (i < n) {
		size_t k = i + 1;
		while (k < n && p[k] == p[i]) k++;
		fprintf(drv_out, first ? "[%u,%zu]" : ",[%u,%zu]", p[i], k - i);
		first = 0;
		i = k;
	}
	fputc(']', drv_out);
}
static void j_runs(const char *key, const void *p, size_t n)
{
	j_sep();
	fprintf(drv_out, "\"%s\":", key);
	j_runs_body((const uint8_t *) p, n);
}

/* ---------- counting character source ---------- */
struct source {
	const uint8_t *data;
	size_t len, pos;
	long reads;     /* calls of getc */
	long past;      /* calls after the end was reported once */
	int endcode;    /* what the source answers at its end: -2 end of input, -1 read error */
};
static int src_getc(void *arg)
{
	struct source *s = (struct source *) arg;
	s->reads++;
	if (s->pos >= s->len) {
		if (s->pos > s->len) s->past++;
		s->pos = s->len + 1;
		return s->endcode;
	}
	return s->data[s->pos++];
}

/* ---------- tree printer ---------- */
static void print_nodes(const MPT_STRUCT(node) *n, const MPT_STRUCT(node) *parent, int depth, int *bad)
{
	int first = 1;
	const MPT_STRUCT(node) *prev = 0;
	fputc('[', drv_out);
	for (; n; prev = n, n = n->next) {
		const char *id = mpt_node_ident(n);
		size_t vlen = 0;
		const char *val = mpt_node_data(n, &vlen);
		if (n->parent != parent || n->prev != prev) *bad += 1;   /* link shape (diagnostic) */
		if (!first) fputc(',', drv_out);
		first = 0;
		fputs("{\"n\":", drv_out);
		j_runs_body((const uint8_t *) id, id ? (size_t) n->ident._len - 1 : 0);
		fputs(",\"v\":", drv_out);
		j_runs_body((const uint8_t *) val, val ? strnlen(val, vlen) : 0);
		fputs(",\"c\":", drv_out);
		if (depth > 60) fputs("[]", drv_out);           /* JSON readers limit nesting; see flat_nodes */
		else print_nodes(n->children, n, depth + 1, bad);
		fputc('}', drv_out);
	}
	fputc(']', drv_out);
}
/* complete forest as a flat pre-order list [{"d":depth,"n":..,"v":..}], no recursion;
 * at most `limit` entries are written, the total is returned */
/* badlinks: nodes of the whole forest whose parent pointer is not the node they are listed
 * under (root for the top level) or whose prev pointer is not their predecessor in that list */
static long flat_nodes(const MPT_STRUCT(node) *root, long limit, long *badlinks)
{
	const MPT_STRUCT(node) *first = root->children;
	const MPT_STRUCT(node) **stack, **owner, **before;
	size_t cap = 1024, top = 0;
	long count = 0;
	int firstout = 1;
	stack = (const MPT_STRUCT(node) **) malloc(cap * sizeof(*stack));
	owner = (const MPT_STRUCT(node) **) malloc(cap * sizeof(*owner));
	before = (const MPT_STRUCT(node) **) malloc(cap * sizeof(*before));
	*badlinks = 0;
	fputc('[', drv_out);
	if (first) { owner[top] = root; before[top] = 0; stack[top++] = first; }
	while (1) {
		const MPT_STRUCT(node) *n;
		size_t depth;
		while (top && !stack[top - 1]) top--;
		if (!top) break;
		n = stack[top - 1];
		depth = top - 1;
		if (n->parent != owner[top - 1] || n->prev != before[top - 1]) *badlinks += 1;
		if (count < limit) {
			const char *id = mpt_node_ident(n);
			size_t vlen = 0;
			const char *val = mpt_node_data(n, &vlen);
			fprintf(drv_out, "%s{\"d\":%zu,\"n\":", firstout ? "" : ",", depth);
			j_runs_body((const uint8_t *) id, id ? (size_t) n->ident._len - 1 : 0);
			fputs(",\"v\":", drv_out);
			j_runs_body((const uint8_t *) val, val ? strnlen(val, vlen) : 0);
			fputc('}', drv_out);
			firstout = 0;
		}
		count++;
		/* next on this level is the sibling; descend first */
		stack[top - 1] = n->next;
		before[top - 1] = n;
		if (n->children) {
			if (top == cap) {
				cap *= 2;
				stack = (const MPT_STRUCT(node) **) realloc(stack, cap * sizeof(*stack));
				owner = (const MPT_STRUCT(node) **) realloc(owner, cap * sizeof(*owner));
				before = (const MPT_STRUCT(node) **) realloc(before, cap * sizeof(*before));
			}
			owner[top] = n; before[top] = 0;
			stack[top++] = n->children;
		}
	}
	fputc(']', drv_out);
	free(stack); free(owner); free(before);
	return count;
}
static void j_tree(const char *key, const MPT_STRUCT(node) *root, int *bad)
{
	j_sep();
	fprintf(drv_out, "\"%s\":", key);
	print_nodes(root->children, root, 0, bad);
}

/* ---------- event recorder (path handler) ---------- */
struct event {
	int curr, prev;
	uint8_t *path; size_t plen;   /* path bytes (elements + separators, without the assign byte) */
	int sep, elems;     /* elems: path holds at least one element */
	size_t *woff, *wlen, wn;    /* elements as a consumer gets them from mpt_path_next() */
	uint8_t *val;  size_t vlen, vcopy;
	int hasval;
	long post;          /* characters stored behind the path when the event was delivered */
	long reads;         /* getc calls so far */
};
static struct source *cur_src;
static struct event *evs;
static size_t nevs, capevs;
static int refuse_at = -1;   /* handler answers an error at this event index */

static int record(void *ctx, const MPT_STRUCT(path) *p, const MPT_STRUCT(value) *val, int prev, int curr)
{
	struct event *e;
	int was = acct_on;
	(void) ctx;
	acct_on = 0;
	if (nevs == capevs) evs = (struct event *) realloc(evs, (capevs = capevs ? capevs * 2 : 64) * sizeof(*evs));
	e = &evs[nevs];
	memset(e, 0, sizeof(*e));
	e->curr = curr; e->prev = prev;
	e->sep = (unsigned char) p->sep;
	e->plen = p->len ? p->len - 1 : 0;      /* last byte is the assign character */
	e->elems = p->len ? 1 : 0;
	e->path = (uint8_t *) malloc(e->plen + 1);
	if (e->plen) memcpy(e->path, p->base + p->off, e->plen);
	e->reads = cur_src ? cur_src->reads : 0;
	{
		MPT_STRUCT(path) tmp = *p;      /* mpt_path_valid() only touches the flags of the copy */
		e->post = mpt_path_valid(&tmp);
	}
	{       /* walk a copy of the path the way a consumer does */
		MPT_STRUCT(path) tmp = *p;
		size_t cap = 8;
		e->woff = (size_t *) malloc(cap * sizeof(size_t));
		e->wlen = (size_t *) malloc(cap * sizeof(size_t));
		while (tmp.len && e->wn <= e->plen + 2) {
			size_t start = tmp.off - p->off;
			int l = mpt_path_next(&tmp);
			if (l < 0) break;
			if (e->wn == cap) {
				cap *= 2;
				e->woff = (size_t *) realloc(e->woff, cap * sizeof(size_t));
				e->wlen = (size_t *) realloc(e->wlen, cap * sizeof(size_t));
			}
			if (start > e->plen) start = e->plen;                       /* never read outside the copy */
			if ((size_t) l > e->plen - start) l = (int) (e->plen - start);
			e->woff[e->wn] = start; e->wlen[e->wn] = (size_t) l; e->wn++;
		}
	}
	if (val) {
		const struct iovec *vec = (const struct iovec *) val->_addr;
		size_t take = vec->iov_len;
		e->hasval = 1;
		e->vlen = vec->iov_len;
		/* copy what is stored only (a range beyond it is reported by vl/post, not read) */
		if (e->post >= 0 && take > (size_t) e->post) take = (size_t) e->post;
		e->val = (uint8_t *) malloc(take + 1);
		memcpy(e->val, vec->iov_base, take);
		e->vcopy = take;
	}
	nevs++;
	acct_on = was;
	if (refuse_at >= 0 && (size_t) refuse_at + 1 == nevs) return -1;
	return 0;
}
static void clear_events(void)
{
	size_t i;
	for (i = 0; i < nevs; i++) { free(evs[i].path); free(evs[i].val); free(evs[i].woff); free(evs[i].wlen); }
	nevs = 0;
}
static const char *evname(int curr)
{
	int k = curr & 0x3;
	if (k == MPT_ENUM(ParseSection)) return "sect";
	if (k == MPT_ENUM(ParseSectEnd)) return "end";
	if (k == MPT_ENUM(ParseOption)) return "opt";
	if (curr & MPT_ENUM(ParseData)) return "data";
	return "none";
}

/* ---------- state ---------- */
static MPT_STRUCT(node) root;
static int hooks_installed;

/* one parse with a long value before accounting starts: lazy one-time
 * initialisations of the library (type tables) are not leaks */
static void warm_up(void)
{
	static const MPT_STRUCT(parser_context) init = MPT_PARSER_INIT;
	static const MPT_STRUCT(node) ninit = MPT_NODE_INIT;
	MPT_STRUCT(parser_context) ctx = init;
	MPT_STRUCT(node) tmp = ninit;
	struct source src;
	uint8_t *text = (uint8_t *) malloc(400);
	memset(text, 'x', 400);
	memcpy(text, "a{b=", 4);
	text[398] = '\n'; text[399] = '}';
	memset(&src, 0, sizeof(src));
	src.data = text; src.len = 400;
	src.endcode = -2;
	ctx.src.getc = src_getc;
	ctx.src.arg = &src;
	(void) mpt_parse_node(&tmp, &ctx, 0);
	mpt_node_clear(&tmp);
	free(text);
}
static void drv_reset(void)
{
	static const MPT_STRUCT(node) init = MPT_NODE_INIT;
	if (!hooks_installed) {
		warm_up();
		__sanitizer_install_malloc_and_free_hooks(hook_malloc, hook_free);
		hooks_installed = 1;
	}
	alarm(10);      /* watchdog per behaviour (drv.h arms 20 s; the largest input parses in well under a second) */
	root = init;
	clear_events();
	refuse_at = -1;
}

static void add_marker(MPT_STRUCT(node) *to, const char *name, const char *value, const char *child)
{
	MPT_STRUCT(node) *n = mpt_node_new(strlen(name) + 1);
	MPT_STRUCT(node) *last;
	mpt_identifier_set(&n->ident, name, (int) strlen(name));
	if (value) {
		MPT_STRUCT(value) v = MPT_VALUE_INIT('s', &value);
		n->_meta = mpt_meta_new(&v);
	}
	n->parent = to;
	if (!(last = to->children)) to->children = n;
	else { while (last->next) last = last->next; last->next = n; n->prev = last; }
	if (child) add_marker(n, child, "cv", 0);
}

static void setup(struct cmd *c, MPT_STRUCT(parser_context) *ctx, struct source *src,
                  uint8_t **fmt, int *fmtnull, uint8_t **acc, uint8_t **text)
{
	static const MPT_STRUCT(parser_context) init = MPT_PARSER_INIT;
	size_t flen, alen, tlen;
	int accnull, tnull;
	*fmt = runs_bytes(c, "fmt", &flen, fmtnull);
	*acc = runs_bytes(c, "acc", &alen, &accnull);
	*text = runs_bytes(c, "text", &tlen, &tnull);
	*ctx = init;
	memset(src, 0, sizeof(*src));
	src->data = *text; src->len = tlen;
	src->endcode = -2;
	if (drv_has(c, "fail")) {        /* read error after <fail> bytes */
		size_t f = (size_t) drv_uint(c, "fail", 0);
		if (f < tlen) src->len = f;
		src->endcode = -1;
	}
	ctx->src.getc = src_getc;
	ctx->src.arg = src;
	if (!accnull) {
		if (mpt_parse_accept(&ctx->name, (const char *) *acc) < 0) {
			fprintf(stderr, "bad accept string\n");
		}
	}
}

static void do_parse(struct cmd *c)
{
	MPT_STRUCT(parser_context) ctx;
	struct source src;
	uint8_t *fmt, *acc, *text;
	int fmtnull, ret, bad = 0;
	long pre = (long) drv_int(c, "pre", 0);
	long a0, f0, a1, f1, a2, f2;
	char *before = 0, *after = 0, *fbefore = 0, *fafter = 0;
	size_t blen = 0, alen = 0, fblen = 0, falen = 0;
	long nbefore, nafter, lbefore = 0, lafter = 0, k;
	long rep = (long) drv_int(c, "rep", 0);     /* parses of the same text into the target before the observed one */
	FILE *keep = drv_out;

	long m0a, m0f;
	setup(c, &ctx, &src, &fmt, &fmtnull, &acc, &text);
	m0a = acct_alloc; m0f = acct_free;
	acct_on = 1;
	if (pre > 0) add_marker(&root, "keep", "kv", "sub");
	if (pre > 1) add_marker(&root, "a", "old", 0);
	if (pre > 2) add_marker(&root, "zz", 0, "zc");
	if (pre > 3) {          /* sections that share names with generated documents */
		add_marker(&root, "b", 0, "a");
		add_marker(&root, "a1", "o1", "b");
		add_marker(root.children->next->next->next, "x", "ox", 0);
	}
	for (k = 0; k < rep; k++) {
		static const MPT_STRUCT(parser_context) pinit = MPT_PARSER_INIT;
		MPT_STRUCT(parser_context) c2 = pinit;
		struct source s2 = src;
		c2.name = ctx.name;
		c2.src.getc = src_getc;
		c2.src.arg = &s2;
		(void) mpt_parse_node(&root, &c2, fmtnull ? 0 : (const char *) fmt);
	}
	acct_on = 0;

	/* target before */
	drv_out = open_memstream(&before, &blen);
	print_nodes(root.children, &root, 0, &bad);
	fclose(drv_out);
	drv_out = open_memstream(&fbefore, &fblen);
	nbefore = flat_nodes(&root, 2000, &lbefore);
	fclose(drv_out);
	drv_out = keep;

	a0 = acct_alloc; f0 = acct_free;
	acct_on = 1;
	ret = mpt_parse_node(&root, &ctx, fmtnull ? 0 : (const char *) fmt);
	acct_on = 0;
	a1 = acct_alloc; f1 = acct_free;

	drv_out = open_memstream(&after, &alen);
	bad = 0;
	print_nodes(root.children, &root, 0, &bad);
	fclose(drv_out);
	drv_out = open_memstream(&fafter, &falen);
	nafter = flat_nodes(&root, 2000, &lafter);
	fclose(drv_out);
	drv_out = keep;

	acct_on = 1;
	mpt_node_clear(&root);
	acct_on = 0;
	a2 = acct_alloc; f2 = acct_free;

	drv_begin(c);
	j_str("ret", ret < 0 ? "error" : "ok");
	j_sep(); fprintf(drv_out, "\"tree\":%s", after);
	j_sep(); fprintf(drv_out, "\"fbefore\":{\"cnt\":%ld,\"list\":%s}", nbefore, fbefore);
	j_sep(); fprintf(drv_out, "\"ftree\":{\"cnt\":%ld,\"list\":%s}", nafter, fafter);
	j_int("reads", src.reads);
	j_int("past", src.past);
	j_int("len", (long long) src.len);
	j_int("net", (a1 - a0) - (f1 - f0));           /* live blocks added by the call */
	j_int("netclear", (a2 - m0a) - (f2 - m0f));    /* live blocks (target included) after clearing the target */
	j_int("links", lafter);                        /* ill-linked nodes in the whole target after the call */
	j_int("linksbefore", lbefore);
	drv_dbg();
	j_int("code", ret);
	j_int("line", (long long) ctx.src.line);
	j_int("curr", ctx.curr);
	j_int("allocs", a1 - a0);
	drv_end();
	free(before); free(after); free(fbefore); free(fafter);
	free(fmt); free(acc); free(text);
}

static void do_events(struct cmd *c)
{
	MPT_STRUCT(parser_context) ctx;
	MPT_STRUCT(parser_format) pfmt;
	MPT_TYPE(input_parser) next;
	struct source src;
	uint8_t *fmt, *acc, *text;
	int fmtnull, ret, type;
	long a0, f0, a1, f1;
	size_t i;

	setup(c, &ctx, &src, &fmt, &fmtnull, &acc, &text);
	refuse_at = (int) drv_int(c, "refuse", -1);
	clear_events();
	cur_src = &src;
	type = mpt_parse_format(&pfmt, fmtnull ? 0 : (const char *) fmt);
	next = mpt_parse_next_fcn(type);
	ctx.prev = MPT_ENUM(ParseSection);
	a0 = acct_alloc; f0 = acct_free;
	if (next) {
		acct_on = 1;
		ret = mpt_parse_config(next, &pfmt, &ctx, record, 0);
		acct_on = 0;
	} else {
		ret = -3;
	}
	a1 = acct_alloc; f1 = acct_free;

	drv_begin(c);
	j_str("ret", ret < 0 ? "error" : "ok");
	j_arr_open("ev");
	for (i = 0; i < nevs; i++) {
		j_item_obj_open();
		j_str("e", evname(evs[i].curr));
		j_int("r", evs[i].reads);
		j_int("hv", evs[i].hasval);
		/* path elements as mpt_path_next() delivers them */
		j_arr_open("p");
		{
			size_t k;
			for (k = 0; k < evs[i].wn; k++) {
				j_sep();
				j_runs_body(evs[i].path + evs[i].woff[k], evs[i].wlen[k]);
			}
		}
		j_arr_close();
		/* path elements split at the separator byte (copying only) */
		j_arr_open("ps");
		if (evs[i].elems) {
			size_t k, start = 0;
			for (k = 0; k <= evs[i].plen; k++) {
				if (k == evs[i].plen || evs[i].path[k] == evs[i].sep) {
					j_sep();
					j_runs_body(evs[i].path + start, k - start);
					start = k + 1;
				}
			}
		}
		j_arr_close();
		j_runs("v", evs[i].val, evs[i].vcopy);
		j_int("vl", (long long) evs[i].vlen);       /* length of the value range handed to the handler */
		j_int("post", evs[i].post);                 /* characters actually stored behind the path */
		j_close();
	}
	j_arr_close();
	j_int("reads", src.reads);
	j_int("past", src.past);
	j_int("len", (long long) src.len);
	j_int("net", (a1 - a0) - (f1 - f0));
	j_int("known", next ? 1 : 0);
	drv_dbg();
	j_int("code", ret);
	j_int("line", (long long) ctx.src.line);
	j_int("curr", ctx.curr);
	j_int("type", type);
	drv_end();
	clear_events();
	free(fmt); free(acc); free(text);
}

static long open_fds(void)
{
	long n = 0;
	int fd;
	for (fd = 0; fd < 256; fd++) if (fcntl(fd, F_GETFD) != -1) n++;
	return n;
}
/* mpt_node_parse(): FILE front end with format and name-limit descriptions, prepared target */
static void do_nodeparse(struct cmd *c)
{
	MPT_STRUCT(parser_context) ctx;
	struct source src;
	uint8_t *fmt, *acc, *text;
	int fmtnull, accnull = 0, ret;
	long pre = (long) drv_int(c, "pre", 0);
	long m0a, m0f, a0, f0, a1, f1, a2, f2, lbefore = 0, lafter = 0, nbefore, nafter, fd0, fd1;
	char *fbefore = 0, *fafter = 0;
	size_t fblen = 0, falen = 0, alen;
	FILE *keep = drv_out, *in;
	const char *araw = drv_raw(c, "acc");

	setup(c, &ctx, &src, &fmt, &fmtnull, &acc, &text);
	free(acc);
	acc = runs_bytes(c, "acc", &alen, &accnull);
	(void) araw;
	m0a = acct_alloc; m0f = acct_free;
	acct_on = 1;
	if (pre > 0) add_marker(&root, "keep", "kv", "sub");
	if (pre > 1) add_marker(&root, "a", "old", 0);
	if (pre > 2) add_marker(&root, "zz", 0, "zc");
	acct_on = 0;
	drv_out = open_memstream(&fbefore, &fblen);
	nbefore = flat_nodes(&root, 2000, &lbefore);
	fclose(drv_out);
	drv_out = keep;
	in = fmemopen(src.len ? (void *) text : (void *) "", src.len ? src.len : 1, "r");
	setvbuf(in, 0, _IONBF, 0);      /* no lazily allocated stdio buffer inside the accounted call */
	if (!src.len) (void) fgetc(in);
	fd0 = open_fds();
	a0 = acct_alloc; f0 = acct_free;
	acct_on = 1;
	ret = mpt_node_parse(&root, in, fmtnull ? 0 : (const char *) fmt, accnull ? 0 : (const char *) acc, 0);
	acct_on = 0;
	a1 = acct_alloc; f1 = acct_free;
	fd1 = open_fds();
	fclose(in);
	drv_out = open_memstream(&fafter, &falen);
	nafter = flat_nodes(&root, 2000, &lafter);
	fclose(drv_out);
	drv_out = keep;
	acct_on = 1;
	mpt_node_clear(&root);
	acct_on = 0;
	a2 = acct_alloc; f2 = acct_free;
	drv_begin(c);
	j_str("ret", ret < 0 ? "error" : "ok");
	j_sep(); fprintf(drv_out, "\"fbefore\":{\"cnt\":%ld,\"list\":%s}", nbefore, fbefore);
	j_sep(); fprintf(drv_out, "\"ftree\":{\"cnt\":%ld,\"list\":%s}", nafter, fafter);
	j_int("reads", 0);
	j_int("len", (long long) src.len);
	j_int("net", (a1 - a0) - (f1 - f0) + (fd1 - fd0));
	j_int("netclear", (a2 - m0a) - (f2 - m0f) + (fd1 - fd0));
	j_int("links", lafter);
	drv_dbg();
	j_int("code", ret);
	drv_end();
	free(fbefore); free(fafter); free(fmt); free(acc); free(text);
}
/* mpt_parse_folder(): files f0..fN in a fresh directory (texts t0=..tN=), recording handler */
static void do_folder(struct cmd *c)
{
	char dir[] = "/tmp/C08-folder-XXXXXX";
	char name[64];
	int i, n = (int) drv_int(c, "n", 0), ret;
	long a0, f0, a1, f1, fd0, fd1;
	DIR *d;
	if (!mkdtemp(dir)) { drv_begin(c); j_str("ret", "no-tempdir"); drv_dbg(); drv_end(); return; }
	for (i = 0; i < n; i++) {
		char key[16];
		uint8_t *t; size_t tl; int tn;
		FILE *f;
		snprintf(key, sizeof(key), "t%d", i);
		t = runs_bytes(c, key, &tl, &tn);
		snprintf(name, sizeof(name), "%s/f%d", dir, i);
		if ((f = fopen(name, "w"))) { fwrite(t, 1, tl, f); fclose(f); }
		free(t);
	}
	clear_events();
	cur_src = 0;
	refuse_at = (int) drv_int(c, "refuse", -1);
	d = opendir(dir);
	fd0 = open_fds();
	a0 = acct_alloc; f0 = acct_free;
	acct_on = 1;
	ret = mpt_parse_folder(d, record, 0, 0);
	acct_on = 0;
	a1 = acct_alloc; f1 = acct_free;
	fd1 = open_fds();
	if (d) closedir(d);
	for (i = 0; i < n; i++) { snprintf(name, sizeof(name), "%s/f%d", dir, i); unlink(name); }
	rmdir(dir);
	drv_begin(c);
	j_str("ret", ret < 0 ? "error" : "ok");
	j_int("reads", 0);
	j_int("len", 0);
	j_int("net", (a1 - a0) - (f1 - f0));       /* live heap blocks left by the call */
	j_int("fds", fd1 - fd0);                   /* descriptors left open by the call */
	j_int("nev", (long long) nevs);
	drv_dbg();
	j_int("code", ret);
	drv_end();
	clear_events();
}

static void drv_step(struct cmd *c)
{
	if (!strcmp(c->action, "parse")) do_parse(c);
	else if (!strcmp(c->action, "events")) do_events(c);
	else if (!strcmp(c->action, "nodeparse")) do_nodeparse(c);
	else if (!strcmp(c->action, "folder")) do_folder(c);
	else {
		drv_begin(c);
		j_str("ret", "unknown-action");
		drv_dbg();
		drv_end();
	}
}

int main(int argc, char **argv)
{
	return drv_main(argc, argv);
}
