/*
 * Allocation seam of the conformance drivers (DESIGN.md section 2).
 *
 * Repository sources are compiled into a driver with
 *     -Dmalloc=vf_malloc -Dfree=vf_free -Drealloc=vf_realloc -Dcalloc=vf_calloc
 * so that every allocation and release the library performs becomes an
 * event the driver can report.  The driver source itself starts with
 *     #include "seam.h"
 * BEFORE any other header: the redirection is undone for the driver's own
 * code (its allocations are not library events) and the vf_* functions are
 * defined here, forwarding to the C library (so ASan still watches the heap).
 *
 * A release of something that is not a live seam block is counted
 * (vf_badfree) and NOT forwarded: the run goes on and the event is visible.
 */
#ifndef VERIF_SEAM_H
#define VERIF_SEAM_H

#undef malloc
#undef free
#undef realloc
#undef calloc

#include <stdlib.h>
#include <string.h>
#include <stdint.h>

#ifdef __cplusplus
extern "C" {
#endif

#define VF_MAXBLK 8192

struct vf_blk {
	void  *p;
	size_t size;
	long   serial;   /* allocation number, 1-based */
	int    live;
	int    tag;      /* driver use */
};
static struct vf_blk vf_tab[VF_MAXBLK];
static int  vf_used;
static long vf_serial;
static long vf_allocs, vf_frees, vf_badfree;   /* totals since vf_reset() */
static long vf_step_allocs, vf_step_frees;     /* since vf_step() */
static long vf_fail_after = -1;                /* >= 0: fail the n-th next allocation */
#define VF_FREELOG 64
static long vf_freed[VF_FREELOG];              /* serials released since vf_step(), in order */
static int  vf_nfreed;

static void vf_reset(void)
{
	/* blocks are forgotten, not released: process-global tables of the library
	 * (type registry ...) are allocated through the seam as well */
	vf_used = 0;
	vf_serial = 0;
	vf_allocs = vf_frees = vf_badfree = 0;
	vf_step_allocs = vf_step_frees = 0;
	vf_fail_after = -1;
}
static void vf_step(void)
{
	vf_step_allocs = vf_step_frees = 0;
	vf_nfreed = 0;
}
static struct vf_blk *vf_find(const void *p)
{
	int i;
	if (!p) return 0;
	for (i = vf_used; i-- > 0; ) {
		if (vf_tab[i].live && vf_tab[i].p == p) return vf_tab + i;
	}
	return 0;
}
/* live block that contains the address */
static struct vf_blk *vf_containing(const void *p)
{
	int i;
	if (!p) return 0;
	for (i = vf_used; i-- > 0; ) {
		const char *s = (const char *) vf_tab[i].p;
		if (vf_tab[i].live && (const char *) p >= s && (const char *) p < s + (vf_tab[i].size ? vf_tab[i].size : 1)) return vf_tab + i;
	}
	return 0;
}
static int vf_serial_live(long serial)
{
	int i;
	for (i = 0; i < vf_used; i++) if (vf_tab[i].live && vf_tab[i].serial == serial) return 1;
	return 0;
}
static long vf_live(void)
{
	long n = 0;
	int i;
	for (i = 0; i < vf_used; i++) if (vf_tab[i].live) n++;
	return n;
}
/* live blocks with tag 0; vf_tag_all() marks everything allocated so far (warm-up, global tables) */
static long vf_live_untagged(void)
{
	long n = 0;
	int i;
	for (i = 0; i < vf_used; i++) if (vf_tab[i].live && !vf_tab[i].tag) n++;
	return n;
}
static void vf_tag_all(int tag)
{
	int i;
	for (i = 0; i < vf_used; i++) if (vf_tab[i].live) vf_tab[i].tag = tag;
}
static struct vf_blk *vf_record(void *p, size_t n)
{
	struct vf_blk *b = 0;
	int i;
	for (i = 0; i < vf_used; i++) {
		if (!vf_tab[i].live) { b = vf_tab + i; break; }
	}
	if (!b) {
		if (vf_used >= VF_MAXBLK) abort();
		b = vf_tab + vf_used++;
	}
	b->p = p; b->size = n; b->serial = ++vf_serial; b->live = 1; b->tag = 0;
	vf_allocs++; vf_step_allocs++;
	return b;
}
void *vf_malloc(size_t n)
{
	void *p;
	if (vf_fail_after >= 0 && !vf_fail_after--) return 0;
	if (!(p = malloc(n ? n : 1))) return 0;
	vf_record(p, n);
	return p;
}
void *vf_calloc(size_t a, size_t b)
{
	void *p;
	if (vf_fail_after >= 0 && !vf_fail_after--) return 0;
	if (!(p = calloc(a ? a : 1, b ? b : 1))) return 0;
	vf_record(p, a * b);
	return p;
}
void vf_free(void *p)
{
	struct vf_blk *b;
	if (!p) return;
	if (!(b = vf_find(p))) {
		vf_badfree++;
		return;
	}
	b->live = 0;
	vf_frees++; vf_step_frees++;
	if (vf_nfreed < VF_FREELOG) vf_freed[vf_nfreed++] = b->serial;
	free(p);
}
void *vf_realloc(void *p, size_t n)
{
	struct vf_blk *b;
	void *q;
	if (!p) return vf_malloc(n);
	if (!(b = vf_find(p))) {
		vf_badfree++;
		return 0;
	}
	if (vf_fail_after >= 0 && !vf_fail_after--) return 0;
	if (!(q = realloc(p, n ? n : 1))) return 0;
	b->p = q; b->size = n;
	return q;
}

#ifdef __cplusplus
}
#endif

#endif /* VERIF_SEAM_H */
