/*
 * Second driver for spec/ObjSet.tla (X21, extension of C20): the property
 * access of the C++ object interface in mpt++/object.cpp on the layout
 * classes of mpt++ (layout::graph::axis, layout::line, layout::text,
 * layout::graph, layout::graph::world):
 *   object::operator[](name) -> attribute, attribute::operator=(text |
 *   value), object::begin() / end() / iterator ++ (listing),
 *   object::set(const node *, handler, data) (node list, stops at the first
 *   node it does not assign),
 * beside object::set(name, text | value) as the direct route.
 * Same protocol, entry lists and encodings as drv/objset.c.
 */
#include "drv.h"

#include <stddef.h>
#include <sys/uio.h>

#include "layout.h"
#include "node.h"
#include "meta.h"

#include "layout_common.h"

enum { K_AXIS, K_LINE, K_TEXT, K_GRAPH, K_WORLD, K_NONE };
static const char *kind_name[] = { "axis", "line", "text", "graph", "world" };

struct lobj {
	int kind;
	mpt::metatype *mt;
	mpt::object *o;
};
static struct lobj obj[2];
static int cur_kind = K_NONE;

static void obj_new(struct lobj *l, int kind)
{
	memset(l, 0, sizeof(*l));
	l->kind = kind;
	switch (kind) {
	  case K_AXIS:  { mpt::layout::graph::axis *p = new mpt::layout::graph::axis;   l->mt = p; l->o = p; break; }
	  case K_LINE:  { mpt::layout::line *p = new mpt::layout::line;                 l->mt = p; l->o = p; break; }
	  case K_TEXT:  { mpt::layout::text *p = new mpt::layout::text;                 l->mt = p; l->o = p; break; }
	  case K_GRAPH: { mpt::layout::graph *p = new mpt::layout::graph;               l->mt = p; l->o = p; break; }
	  case K_WORLD: { mpt::layout::graph::world *p = new mpt::layout::graph::world; l->mt = p; l->o = p; break; }
	  default:;
	}
}
static void obj_release(struct lobj *l)
{
	if (l->mt) l->mt->unref();
	memset(l, 0, sizeof(*l));
	l->kind = K_NONE;
}
static void drv_reset(void)
{
	if (cur_kind != K_NONE) {
		obj_release(&obj[0]);
		obj_release(&obj[1]);
	}
	cur_kind = K_NONE;
}

static void enc_value(const mpt::value *val)
{
	const void *a = val->data();
	mpt::type_t t = val->type();
	int ct = mpt::mpt_color_typeid(), ft = mpt::mpt_fpoint_typeid();
	vlen = 0;
	if (!a) { v_put(-1); return; }
	if (t == 's') { enc_string(*((const char * const *) a)); return; }
	if (t == 'y') { v_put(*((const uint8_t *) a)); return; }
	if (t == 'c') { v_put(*((const unsigned char *) a)); return; }
	if (t == 'n') { v_put(*((const int16_t *) a)); return; }
	if (t == 'u') { uint32_t u = *((const uint32_t *) a); v_put(u >> 16); v_put(u & 0xffff); return; }
	if (t == 'f') { float f = *((const float *) a); enc_real(f, 1, f); return; }
	if (t == 'd') { enc_real(*((const double *) a), 0, 0); return; }
	if (ct > 0 && t == (mpt::type_t) ct) {
		const mpt::color *c = static_cast<const mpt::color *>(a);
		v_put(c->alpha); v_put(c->red); v_put(c->green); v_put(c->blue);
		return;
	}
	if (ft > 0 && t == (mpt::type_t) ft) {
		const mpt::fpoint *p = static_cast<const mpt::fpoint *>(a);
		enc_real(p->x, 1, p->x);
		enc_real(p->y, 1, p->y);
		return;
	}
	v_put(-1);
}
static void emit_props(const char *key, struct lobj *l)
{
	int pos;
	j_open(key);
	for (pos = 0; pos < 64; pos++) {
		mpt::property pr((size_t) pos);
		int r = l->o->property(&pr);
		if (!pr.name) break;
		if (r < 0) { vlen = 0; v_put(-1); }
		else enc_value(&pr.val);
		j_ints(pr.name, vbuf, vlen);
	}
	if (l->kind == K_TEXT) {
		static const char *xy[] = { "x", "y" };
		int i;
		for (i = 0; i < 2; i++) {
			mpt::property pr(xy[i]);
			int r = l->o->property(&pr);
			if (r < 0) { vlen = 0; v_put(-1); }
			else enc_value(&pr.val);
			j_ints(xy[i], vbuf, vlen);
		}
	}
	j_close();
}
static void state_obs(void)
{
	emit_props("p0", &obj[0]);
	emit_props("p1", &obj[1]);
	j_int("shared", 0);
}

/* ---------- entry lists (as in drv/objset.c) ---------- */
#define MAXENT 64
struct ent {
	char *name;
	char  f[8];
	long long *n; size_t nn;
	long long *c; size_t nc;
	char  sty[8];
	char  x[8];
	char *text;
	union { int8_t b; uint8_t y; int16_t n; uint16_t q; int32_t i; uint32_t u; int64_t x; uint64_t t; float f; double d; const char *s; } d;
	mpt::color col;
	mpt::fpoint pt;
	mpt::value val;
	int has_val;          /* 1 typed value, 2 text, 0 none */
};
static struct ent ents[MAXENT];
static int nents;

static long long *dot_ints(const char *s, size_t len, size_t *out)
{
	long long *buf = (long long *) malloc((len / 2 + 2) * sizeof(*buf));
	size_t n = 0;
	const char *end = s + len;
	while (s < end) {
		char *e;
		long long v = strtoll(s, &e, 10);
		if (e == s) break;
		buf[n++] = v;
		s = (*e == '.') ? e + 1 : e;
	}
	*out = n;
	return buf;
}
static char *codes_text(const long long *v, size_t n)
{
	char *s = (char *) malloc(n + 1);
	size_t i;
	for (i = 0; i < n; i++) s[i] = (char) v[i];
	s[n] = 0;
	return s;
}
static char *rle_text(const long long *v, size_t n)
{
	size_t i, total = 0, pos = 0;
	char *s;
	for (i = 0; i + 1 < n; i += 2) total += (size_t) v[i + 1];
	s = (char *) malloc(total + 1);
	for (i = 0; i + 1 < n; i += 2) {
		memset(s + pos, (int) v[i], (size_t) v[i + 1]);
		pos += (size_t) v[i + 1];
	}
	s[total] = 0;
	return s;
}
static void ents_clear(void)
{
	int i;
	for (i = 0; i < nents; i++) {
		struct ent *e = &ents[i];
		free(e->name); free(e->n); free(e->c);
		if (e->text) { memset(e->text, 'Q', strlen(e->text)); free(e->text); }
	}
	nents = 0;
}
static void ent_render(struct ent *e)
{
	const char *f = e->f;
	e->has_val = 0;
	e->text = 0;
	memset(&e->d, 0, sizeof(e->d));
	if (!strcmp(f, "num") && e->nn >= 2) {
		char buf[64];
		render_num(buf, sizeof(buf), twice(e->n), e->sty[0] ? e->sty : "dec");
		e->text = strdup(buf);
		e->has_val = 2;
	}
	else if (!strcmp(f, "num2") && e->nn >= 4) {
		char a[64], b[64], buf[130];
		render_num(a, sizeof(a), twice(e->n), "dec");
		render_num(b, sizeof(b), twice(e->n + 2), "dec");
		snprintf(buf, sizeof(buf), "%s %s", a, b);
		e->text = strdup(buf);
		e->has_val = 2;
	}
	else if (!strcmp(f, "txt")) { e->text = codes_text(e->c, e->nc); e->has_val = 2; }
	else if (!strcmp(f, "rle")) { e->text = rle_text(e->c, e->nc); e->has_val = 2; }
	else if (!strcmp(f, "col") && e->nc >= 4) {
		e->col.alpha = (uint8_t) e->c[0]; e->col.red = (uint8_t) e->c[1];
		e->col.green = (uint8_t) e->c[2]; e->col.blue = (uint8_t) e->c[3];
		e->val.set(mpt::mpt_color_typeid(), &e->col);
		e->has_val = 1;
	}
	else if (!strcmp(f, "fpt") && e->nn >= 4) {
		e->pt.x = (float) ((double) twice(e->n) / 2.0);
		e->pt.y = (float) ((double) twice(e->n + 2) / 2.0);
		e->val.set(mpt::mpt_fpoint_typeid(), &e->pt);
		e->has_val = 1;
	}
	else if (f[0] && !f[1] && e->nn >= 2 && strchr("iyunfdbqxt", f[0])) {
		long long t = twice(e->n);
		switch (f[0]) {
		  case 'b': e->d.b = (int8_t) (t / 2); break;
		  case 'y': e->d.y = (uint8_t) (t / 2); break;
		  case 'n': e->d.n = (int16_t) (t / 2); break;
		  case 'q': e->d.q = (uint16_t) (t / 2); break;
		  case 'i': e->d.i = (int32_t) (t / 2); break;
		  case 'u': e->d.u = (uint32_t) (t / 2); break;
		  case 'x': e->d.x = (int64_t) (t / 2); break;
		  case 't': e->d.t = (uint64_t) (t / 2); break;
		  case 'f': e->d.f = (float) ((double) t / 2.0); break;
		  default:  e->d.d = (double) t / 2.0;
		}
		e->val.set(f[0], &e->d);
		e->has_val = 1;
	}
}
static void ents_parse(const struct cmd *c, const char *key)
{
	const char *r = drv_raw(c, key);
	ents_clear();
	if (!r || !strcmp(r, "-")) return;
	while (*r && nents < MAXENT) {
		struct ent *e = &ents[nents];
		const char *fld[6];
		size_t flen[6];
		int k;
		e->name = 0; e->n = 0; e->c = 0; e->text = 0; e->has_val = 0;
		for (k = 0; k < 6; k++) {
			fld[k] = r;
			while (*r && *r != '/' && *r != '|') r++;
			flen[k] = (size_t) (r - fld[k]);
			if (*r == '/' && k < 5) r++;
		}
		while (*r && *r != '|') r++;
		if (*r == '|') r++;
		if (flen[0] == 1 && fld[0][0] == '~') e->name = 0;
		else {
			size_t n;
			long long *v = dot_ints(fld[0], flen[0], &n);
			e->name = codes_text(v, n);
			free(v);
		}
		snprintf(e->f, sizeof(e->f), "%.*s", (int) (flen[1] < 7 ? flen[1] : 7), fld[1]);
		e->n = dot_ints(fld[2], flen[2], &e->nn);
		e->c = dot_ints(fld[3], flen[3], &e->nc);
		snprintf(e->sty, sizeof(e->sty), "%.*s", (int) (flen[4] < 7 ? flen[4] : 7), fld[4]);
		snprintf(e->x, sizeof(e->x), "%.*s", (int) (flen[5] < 7 ? flen[5] : 7), fld[5]);
		ent_render(e);
		nents++;
	}
}

static int kind_of(const char *s)
{
	int i;
	for (i = 0; i < K_NONE; i++) if (s && !strcmp(s, kind_name[i])) return i;
	return K_NONE;
}
static int direct_set(struct lobj *l, const struct ent *e)
{
	if (!e->has_val) return l->o->set_property(e->name, 0);
	if (e->has_val == 2) return l->o->set(e->name, e->text, 0) ? 0 : -1;
	return l->o->set(e->name, e->val, 0) ? 0 : -1;
}
static int count_proc(void *ctx, const mpt::property *pr)
{
	int *n = static_cast<int *>(ctx);
	(void) pr;
	++*n;
	return 0;
}

static void drv_step(struct cmd *c)
{
	const char *a = c->action;
	int o = (int) drv_int(c, "o", 0) & 1;

	if (!strcmp(a, "init")) {
		int k = kind_of(drv_raw(c, "kind"));
		drv_reset();
		cur_kind = k;
		obj_new(&obj[0], k);
		obj_new(&obj[1], k);
		drv_begin(c); j_str("ret", k == K_NONE ? "refused" : "ok"); state_obs(); drv_dbg(); drv_end();
		return;
	}
	if (cur_kind == K_NONE) {
		drv_begin(c); j_str("ret", "no-object"); drv_dbg(); drv_end();
		return;
	}
	if (!strcmp(a, "dset")) {                    /* object::set(name, text | value), reset */
		long long rcs[MAXENT];
		int i, rc = 0;
		ents_parse(c, "ents");
		for (i = 0; i < nents; i++) {
			int r = direct_set(&obj[o], &ents[i]);
			if (r < 0) rc = r;
			rcs[i] = r < 0 ? 0 : 1;
		}
		drv_begin(c);
		j_str("ret", rc < 0 ? "refused" : "ok");
		j_ints("oks", rcs, (size_t) nents);
		state_obs();
		drv_dbg();
		j_int("rc", rc);
		drv_end();
		ents_clear();
	}
	else if (!strcmp(a, "aset")) {               /* obj[name] = text | value */
		int valid = 0, kept = 0;
		ents_parse(c, "ents");
		if (nents) {
			struct ent *e = &ents[0];
			mpt::object::attribute at = (*obj[o].o)[e->name];
			valid = static_cast<const mpt::property &>(at).name ? 1 : 0;
			if (e->has_val == 2) at = static_cast<const char *>(e->text);
			else if (e->has_val == 1) at = e->val;
			kept = static_cast<const mpt::property &>(at).name ? 1 : 0;
		}
		drv_begin(c);
		j_str("ret", (valid && kept) ? "ok" : "refused");
		state_obs();
		drv_dbg();
		j_int("valid", valid);
		j_int("kept", kept);
		drv_end();
		ents_clear();
	}
	else if (!strcmp(a, "alist")) {              /* for (it = begin(); it != end(); ++it) */
		int cst = (int) drv_int(c, "const", 0), n = 0, over = 0;
		drv_begin(c);
		j_arr_open("seen");
		if (cst) {
			const mpt::object *co = obj[o].o;
			mpt::object::const_iterator it = co->begin(), end = co->end();
			while (it != end) {
				const mpt::property &pr = *it;
				if (++n > 40) { over = 1; break; }
				j_item_obj_open();
				j_str("n", pr.name ? pr.name : "");
				enc_value(&pr.val);
				j_ints("v", vbuf, vlen);
				j_close();
				++it;
			}
		} else {
			mpt::object::iterator it = obj[o].o->begin(), end = obj[o].o->end();
			while (it != end) {
				const mpt::property &pr = *it;
				if (++n > 40) { over = 1; break; }
				j_item_obj_open();
				j_str("n", pr.name ? pr.name : "");
				enc_value(&pr.val);
				j_ints("v", vbuf, vlen);
				j_close();
				++it;
			}
		}
		j_arr_close();
		j_str("ret", over ? "endless" : "ok");
		state_obs();
		drv_dbg();
		j_int("n", n);
		drv_end();
	}
	else if (!strcmp(a, "nset")) {               /* object::set(const node *, handler, data) */
		mpt::node *nd[MAXENT];
		int i, called = 0, stop = 0;
		const mpt::node *fail;
		ents_parse(c, "ents");
		for (i = 0; i < nents; i++) {
			struct ent *e = &ents[i];
			nd[i] = mpt::node::create(e->name ? e->name : 0, -1);
			if (e->has_val == 2) {
				const char *t = e->text;
				mpt::value v;
				v = t;
				mpt::metatype *mt = mpt::mpt_meta_new(&v);
				if (mt) nd[i]->set_metatype(mt);      /* (the node takes the reference) */
			}
			if (i) { nd[i - 1]->next = nd[i]; nd[i]->prev = nd[i - 1]; }
		}
		fail = nents ? obj[o].o->set(nd[0], drv_int(c, "proc", 1) ? count_proc : 0, &called) : 0;
		for (i = 0; i < nents; i++) if (fail == nd[i]) stop = i + 1;
		drv_begin(c);
		j_str("ret", fail ? "refused" : "ok");
		state_obs();
		drv_dbg();
		j_int("stop", stop);
		j_int("called", called);
		drv_end();
		for (i = 0; i < nents; i++) {
			nd[i]->next = nd[i]->prev = 0;
			mpt::mpt_node_destroy(nd[i]);
		}
		ents_clear();
	}
	else {
		drv_begin(c); j_str("ret", "unknown-action"); drv_dbg(); drv_end();
	}
}

int main(int argc, char **argv)
{
	return drv_main(argc, argv);
}
