/*
 * Driver for spec/Stream.tla (C02), mptio variant: two struct stream objects on
 * socket pairs -- mpt_stream_push / mpt_stream_flush on the writer,
 * mpt_stream_poll / mpt_stream_dispatch on the reader -- with a relay in
 * between that cuts the byte stream as the schedule says.
 * Same command language as drv/stream.c; "flush" always flushes everything
 * that is finished (that is what mpt_stream_flush does).
 */
#include "drv.h"

#include <poll.h>
#include <fcntl.h>
#include <sys/uio.h>
#include <sys/socket.h>
#include <sys/ioctl.h>

#include "message.h"
#include "convert.h"
#include "event.h"
#include "queue.h"
#include "stream.h"

static MPT_STRUCT(stream) ws, rs;
static int wpair[2] = { -1, -1 }, rpair[2] = { -1, -1 };
static uint8_t *wire;
static size_t wire_len, wire_pos, wire_cap;
static uint8_t *cur;
static size_t cur_len, cur_pos;
static int grants_total;

static uint8_t *got;       /* message seen by the dispatch handler */
static size_t got_len;
static int got_any;

static void closepair(int p[2])
{
	if (p[0] >= 0) close(p[0]);
	if (p[1] >= 0) close(p[1]);
	p[0] = p[1] = -1;
}
static void drv_reset(void)
{
	static const MPT_STRUCT(stream) sinit = MPT_STREAM_INIT;
	if (ws._wd.data.base) free(ws._wd.data.base);
	if (rs._rd.data.base) free(rs._rd.data.base);
	ws = sinit; rs = sinit;
	rs._rd._state.data.msg = -1;
	closepair(wpair); closepair(rpair);
	free(wire); wire = 0; wire_len = wire_pos = wire_cap = 0;
	free(cur); cur = 0; cur_len = cur_pos = 0;
	free(got); got = 0; got_len = 0; got_any = 0;
	grants_total = 0;
}
static void qinit(MPT_STRUCT(queue) *q, size_t cap, size_t off)
{
	if (cap) {
		q->base = malloc(cap);
		memset(q->base, 0xEE, cap);
	}
	q->max = cap; q->off = cap ? off % cap : 0; q->len = 0;
}
static void emit_dbg(void)
{
	drv_dbg();
	j_int("wmax", ws._wd.data.max); j_int("woff", ws._wd.data.off); j_int("wlen", ws._wd.data.len);
	j_int("wdone", ws._wd._state.done); j_int("wscr", ws._wd._state.scratch);
	j_int("rmax", rs._rd.data.max); j_int("roff", rs._rd.data.off); j_int("rlen", rs._rd.data.len);
	j_int("curr", rs._rd._state.curr); j_int("pos", rs._rd._state.data.pos);
	j_int("mlen", rs._rd._state.data.len); j_int("msg", rs._rd._state.data.msg);
	j_int("grants", grants_total);
}
static void simple(struct cmd *c, const char *ret)
{
	drv_begin(c);
	j_str("ret", ret);
	emit_dbg();
	drv_end();
}
static void with_bytes(struct cmd *c, const char *ret, const char *key, const void *p, size_t n)
{
	drv_begin(c);
	j_str("ret", ret);
	j_bytes(key, p, n);
	emit_dbg();
	drv_end();
}
static int handler(void *ctx, const MPT_STRUCT(message) *mp)
{
	MPT_STRUCT(message) msg;
	(void) ctx;
	free(got); got = 0; got_len = 0;
	got_any = 1;
	if (!mp) return 0;
	msg = *mp;
	got_len = mpt_message_length(&msg);
	got = (uint8_t *) calloc(got_len + 1, 1);
	mpt_message_read(&msg, got_len, got);
	return 0;
}

static void drv_step(struct cmd *c)
{
	const char *a = c->action;

	if (!strcmp(a, "init")) {
		const char *kind = drv_raw(c, "kind");
		drv_reset();
		if (socketpair(AF_UNIX, SOCK_STREAM | SOCK_NONBLOCK, 0, wpair) < 0
		    || socketpair(AF_UNIX, SOCK_STREAM | SOCK_NONBLOCK, 0, rpair) < 0) {
			simple(c, "failed");
			return;
		}
		{
			int sb = (int) drv_int(c, "sndbuf", 0);
			if (sb > 0) setsockopt(wpair[0], SOL_SOCKET, SO_SNDBUF, &sb, sizeof(sb));
		}
		_mpt_stream_setfile(&ws._info, -1, wpair[0]);
		mpt_stream_setmode(&ws, MPT_STREAMFLAG(WriteBuf));
		_mpt_stream_setfile(&rs._info, rpair[1], -1);
		mpt_stream_setmode(&rs, MPT_STREAMFLAG(ReadBuf));
		if (!kind) kind = "cobs";
		if (!strcmp(kind, "cobs_r"))      { ws._wd._enc = mpt_encode_cobs_r;     rs._rd._dec = mpt_decode_cobs_r; }
		else if (!strcmp(kind, "zpe"))    { ws._wd._enc = mpt_encode_cobs_zpe;   rs._rd._dec = mpt_decode_cobs_zpe; }
		else if (!strcmp(kind, "zpe_r"))  { ws._wd._enc = mpt_encode_cobs_zpe_r; rs._rd._dec = mpt_decode_cobs_zpe_r; }
		else                              { ws._wd._enc = mpt_encode_cobs;       rs._rd._dec = mpt_decode_cobs; }
		qinit(&ws._wd.data, drv_uint(c, "wcap", 0), drv_uint(c, "woff", 0));
		qinit(&rs._rd.data, drv_uint(c, "rcap", 0), drv_uint(c, "roff", 0));
		rs._rd._state.data.msg = -1;
		simple(c, "ok");
	}
	else if (!strcmp(a, "start")) {
		free(cur);
		cur = drv_bytes(c, "data", &cur_len);
		cur_pos = 0;
		simple(c, "ok");
	}
	else if (!strcmp(a, "push")) {
		size_t n = drv_uint(c, "n", 0);
		ssize_t r = 0;
		if (n > cur_len - cur_pos) n = cur_len - cur_pos;
		if (n && drv_has(c, "frags")) {
			/* the same bytes handed over as a fragmented message (mpt_stream_append) */
			size_t nf = 0, i, at = 0;
			long long *fl = drv_ints(c, "frags", &nf);
			struct iovec *vec = (struct iovec *) calloc(nf + 1, sizeof(*vec));
			MPT_STRUCT(message) msg;
			for (i = 0; i < nf; i++) {
				vec[i].iov_base = cur + cur_pos + at;
				vec[i].iov_len = (size_t) fl[i];
				at += (size_t) fl[i];
			}
			msg.base = nf ? vec[0].iov_base : 0;
			msg.used = nf ? vec[0].iov_len : 0;
			msg.cont = vec + 1;
			msg.clen = nf ? nf - 1 : 0;
			r = (at == n) ? mpt_stream_append(&ws, &msg) : -1;
			free(vec); free(fl);
		}
		else if (n) r = mpt_stream_push(&ws, n, cur + cur_pos);
		cur_pos += n;
		simple(c, (r < 0 || (size_t) r != n) ? "failed" : "ok");
	}
	else if (!strcmp(a, "end")) {
		ssize_t r = mpt_stream_push(&ws, 0, 0);
		simple(c, r < 0 ? "failed" : "ok");
	}
	else if (!strcmp(a, "flush")) {
		size_t before = wire_len;
		const char *via = drv_raw(c, "via");
		int r, rounds = 0, hold = (int) drv_int(c, "hold", 0);
		/* a peer that is not reading: the socket buffer fills up, further flushes
		 * write partially or not at all (EAGAIN) before the relay drains */
		while (hold-- > 0) {
			mpt_stream_flush(&ws);
		}
		/* flush until nothing finished is left, relay reads what arrived */
		do {
			ssize_t got_n;
			uint8_t tmp[4096];
			if (via && !strcmp(via, "poll")) { mpt_stream_poll(&ws, POLLOUT, -1); r = 0; }
			else if (via && !strcmp(via, "poll0")) { mpt_stream_poll(&ws, POLLOUT, 0); r = 0; }
			else {
				errno = 0;
				r = mpt_stream_flush(&ws);
				/* a full socket is no failure: the relay drains and the flush is repeated */
				if (r < 0 && (errno == EAGAIN || errno == EWOULDBLOCK)) r = 0;
			}
			while ((got_n = read(wpair[1], tmp, sizeof(tmp))) > 0) {
				if (wire_len + got_n > wire_cap) wire = (uint8_t *) realloc(wire, wire_cap = (wire_len + got_n) * 2 + 64);
				memcpy(wire + wire_len, tmp, got_n);
				wire_len += got_n;
			}
		} while (r >= 0 && ws._wd._state.done && ++rounds < 50);
		with_bytes(c, r < 0 ? "failed" : "ok", "out", wire ? wire + before : (uint8_t *) "", wire_len - before);
	}
	else if (!strcmp(a, "deliver")) {
		size_t n = drv_uint(c, "n", 0), sent = 0;
		const uint8_t *src = wire + wire_pos;
		int rounds = 0, pending = 0;
		if (n > wire_len - wire_pos) n = wire_len - wire_pos;
		while (sent < n || pending > 0) {
			if (sent < n) {
				ssize_t w = write(rpair[0], src + sent, n - sent);
				if (w > 0) sent += w;
			}
			/* reader: poll loads what is available (makes room when full) */
			mpt_stream_poll(&rs, POLLIN, 0);
			pending = 0;
			ioctl(rpair[1], FIONREAD, &pending);
			if (++rounds > 100000) break;
		}
		wire_pos += sent;
		with_bytes(c, (sent < n || pending) ? "failed" : "ok", "out", src, sent);
	}
	else if (!strcmp(a, "recv")) {
		int r, grants = 0;
		size_t had = rs._rd.data.len;
		got_any = 0;
		while ((r = mpt_stream_dispatch(&rs, handler, 0)) == MPT_ERROR(MissingBuffer) && grants < 3) {
			if (!mpt_queue_prepare(&rs._rd.data, 64)) break;
			++grants; ++grants_total;
		}
		if (got_any) with_bytes(c, "msg", "data", got, got_len);
		else if (r >= 0 || (r == MPT_ERROR(MissingData) && !had)) with_bytes(c, "none", "data", 0, 0);
		else if (r == MPT_ERROR(MissingBuffer)) with_bytes(c, "stalled", "data", 0, 0);
		else with_bytes(c, "error", "data", 0, 0);
	}
	else {
		simple(c, "unknown-action");
	}
}

int main(int argc, char **argv)
{
	signal(SIGPIPE, SIG_IGN);
	return drv_main(argc, argv);
}
