/*
 * Driver for spec/Layout.tla (C20): plot layout objects (axis, line, text,
 * graph, world) behind the generic object interface.
 *
 * Two objects of the chosen kind exist per behaviour (0 = target, 1 =
 * sibling).  Each is wrapped in a C `object` (vptr = mpt_<kind>_get /
 * mpt_<kind>_set, exactly what the C++ wrappers of mpt++ do) and in a
 * `convertable` that answers the kind's pointer/struct type (source of a
 * generic assignment).
 *
 * After EVERY step all listed properties of both objects are read back
 * through object->property() by position and logged as flat integer lists:
 *   string            run-length list  ch,n,ch,n,...   ([] = unset/empty)
 *   'y' 'c' 'n'       [v]
 *   'u'               [hi16, lo16]
 *   'f' / 'd'         [0, hi, lo]  with 2*v = hi*65536+lo when that is exact,
 *                     else [1, bits_hi16, bits_lo16] / [2, b3, b2, b1, b0]
 *   colour            [alpha, red, green, blue]
 *   fpoint            enc(x) ++ enc(y)
 *   unreadable        [-1]
 * The driver never decides anything: it renders arguments, calls, copies.
 */
#undef strdup        /* -Dstrdup=vf_strdup is for the library sources only */
#include "seam.h"   /* the layout sources are compiled through the allocation seam (bin/vseam.py) */
#include "drv.h"

#include <math.h>
#include <stddef.h>
#include <sys/uio.h>

#include "types.h"
#include "object.h"
#include "layout.h"

#include "layout_common.h"

enum { K_AXIS, K_LINE, K_TEXT, K_GRAPH, K_WORLD, K_NONE };
static const char *kind_name[] = { "axis", "line", "text", "graph", "world" };

struct lobj {
	MPT_INTERFACE(object) o;
	MPT_INTERFACE(convertable) c;
	int kind;
	union {
		MPT_STRUCT(axis)  axis;
		MPT_STRUCT(line)  line;
		MPT_STRUCT(text)  text;
		MPT_STRUCT(graph) graph;
		MPT_STRUCT(world) world;
	} u;
};
static struct lobj obj[2];
static int cur_kind = K_NONE;

/* strdup of the library sources (-Dstrdup=vf_strdup): an allocation like any other */
char *vf_strdup(const char *s)
{
	size_t n = strlen(s) + 1;
	char *p = (char *) vf_malloc(n);
	if (p) memcpy(p, s, n);
	return p;
}
/* fail=k: the k-th allocation (malloc/calloc/realloc/strdup) the library makes during the call fails, once */
static void fail_arm(const struct cmd *c)
{
	long long k = drv_int(c, "fail", 0);
	vf_fail_after = k > 0 ? (long) (k - 1) : -1;
}
static int fail_fired;
static void fail_disarm(const struct cmd *c)
{
	fail_fired = drv_int(c, "fail", 0) > 0 && vf_fail_after < 0;
	vf_fail_after = -1;
}

#define OBJ_OF_O(p) ((struct lobj *) (((char *) (p)) - offsetof(struct lobj, o)))
#define OBJ_OF_C(p) ((struct lobj *) (((char *) (p)) - offsetof(struct lobj, c)))

/* ---------- object / convertable adapters ---------- */
static int lo_property(const MPT_INTERFACE(object) *o, MPT_STRUCT(property) *pr)
{
	const struct lobj *l = OBJ_OF_O(o);
	switch (l->kind) {
	  case K_AXIS:  return mpt_axis_get(&l->u.axis, pr);
	  case K_LINE:  return mpt_line_get(&l->u.line, pr);
	  case K_TEXT:  return mpt_text_get(&l->u.text, pr);
	  case K_GRAPH: return mpt_graph_get(&l->u.graph, pr);
	  case K_WORLD: return mpt_world_get(&l->u.world, pr);
	  default: return MPT_ERROR(BadOperation);
	}
}
static int lo_set_property(MPT_INTERFACE(object) *o, const char *name, MPT_INTERFACE(convertable) *src)
{
	struct lobj *l = OBJ_OF_O(o);
	switch (l->kind) {
	  case K_AXIS:  return mpt_axis_set(&l->u.axis, name, src);
	  case K_LINE:  return mpt_line_set(&l->u.line, name, src);
	  case K_TEXT:  return mpt_text_set(&l->u.text, name, src);
	  case K_GRAPH: return mpt_graph_set(&l->u.graph, name, src);
	  case K_WORLD: return mpt_world_set(&l->u.world, name, src);
	  default: return MPT_ERROR(BadOperation);
	}
}
static const MPT_INTERFACE_VPTR(object) lo_vptr = { lo_property, lo_set_property };

/* source of a generic assignment: answers only the kind's own type */
static int lo_convert(MPT_INTERFACE(convertable) *c, MPT_TYPE(type) type, void *ptr)
{
	struct lobj *l = OBJ_OF_C(c);
	int id = 0;
	if (!type) {
		return MPT_ERROR(BadType);
	}
	switch (l->kind) {
	  case K_AXIS:  id = mpt_axis_pointer_typeid(); break;
	  case K_TEXT:  id = mpt_text_pointer_typeid(); break;
	  case K_GRAPH: id = mpt_graph_pointer_typeid(); break;
	  case K_WORLD: id = mpt_world_pointer_typeid(); break;
	  case K_LINE:  id = mpt_line_typeid(); break;
	  default: return MPT_ERROR(BadType);
	}
	if (id <= 0 || type != (MPT_TYPE(type)) id) {
		return MPT_ERROR(BadType);
	}
	if (ptr) {
		if (l->kind == K_LINE) memmove(ptr, &l->u.line, sizeof(l->u.line));
		else *((const void **) ptr) = &l->u;
	}
	return id;
}
static const MPT_INTERFACE_VPTR(convertable) lo_cvptr = { lo_convert };

/* a source that holds no value at all */
static int empty_convert(MPT_INTERFACE(convertable) *c, MPT_TYPE(type) type, void *ptr)
{
	(void) c; (void) type; (void) ptr;
	return 0;
}
static const MPT_INTERFACE_VPTR(convertable) empty_cvptr = { empty_convert };

static void obj_init(struct lobj *l, int kind)
{
	memset(l, 0, sizeof(*l));
	l->o._vptr = &lo_vptr;
	l->c._vptr = &lo_cvptr;
	l->kind = kind;
	switch (kind) {
	  case K_AXIS:  mpt_axis_init(&l->u.axis, 0); break;
	  case K_LINE:  mpt_line_init(&l->u.line); break;
	  case K_TEXT:  mpt_text_init(&l->u.text, 0); break;
	  case K_GRAPH: mpt_graph_init(&l->u.graph, 0); break;
	  case K_WORLD: mpt_world_init(&l->u.world, 0); break;
	  default:;
	}
}
static void obj_fini(struct lobj *l)
{
	switch (l->kind) {
	  case K_AXIS:  mpt_axis_fini(&l->u.axis); break;
	  case K_LINE:  mpt_line_init(&l->u.line); break;
	  case K_TEXT:  mpt_text_fini(&l->u.text); break;
	  case K_GRAPH: mpt_graph_fini(&l->u.graph); break;
	  case K_WORLD: mpt_world_fini(&l->u.world); break;
	  default:;
	}
}
/* addresses of the string members of an object */
static int obj_strings(struct lobj *l, char ***out)
{
	switch (l->kind) {
	  case K_AXIS:  out[0] = &l->u.axis._title; return 1;
	  case K_TEXT:  out[0] = &l->u.text._value; out[1] = &l->u.text._font; return 2;
	  case K_GRAPH: out[0] = &l->u.graph._axes; out[1] = &l->u.graph._worlds; return 2;
	  case K_WORLD: out[0] = &l->u.world._alias; return 1;
	  default: return 0;
	}
}

static void drv_reset(void)
{
	if (cur_kind != K_NONE) {
		obj_fini(&obj[0]);
		obj_fini(&obj[1]);
	}
	cur_kind = K_NONE;
	vf_reset();          /* a block lost in one behaviour is not counted again in the next */
	fail_fired = 0;
}

/* decode a property value by its reported type */
static void enc_value(const MPT_STRUCT(value) *val)
{
	const void *a = val->_addr;
	MPT_TYPE(type) t = val->_type;
	int ct = mpt_color_typeid(), ft = mpt_fpoint_typeid();
	vlen = 0;
	if (!a) { v_put(-1); return; }
	if (t == 's') { enc_string(*((const char * const *) a)); return; }
	if (t == 'y') { v_put(*((const uint8_t *) a)); return; }
	if (t == 'c') { v_put(*((const unsigned char *) a)); return; }
	if (t == 'n') { v_put(*((const int16_t *) a)); return; }
	if (t == 'u') { uint32_t u = *((const uint32_t *) a); v_put(u >> 16); v_put(u & 0xffff); return; }
	if (t == 'f') { float f = *((const float *) a); enc_real(f, 1, f); return; }
	if (t == 'd') { enc_real(*((const double *) a), 0, 0); return; }
	if (ct > 0 && t == (MPT_TYPE(type)) ct) {
		const MPT_STRUCT(color) *c = a;
		v_put(c->alpha); v_put(c->red); v_put(c->green); v_put(c->blue);
		return;
	}
	if (ft > 0 && t == (MPT_TYPE(type)) ft) {
		const MPT_STRUCT(fpoint) *p = a;
		enc_real(p->x, 1, p->x);
		enc_real(p->y, 1, p->y);
		return;
	}
	v_put(-1);
}

/* all listed properties of one object, by position, through the object interface */
static void emit_props(const char *key, struct lobj *l)
{
	int pos;
	j_open(key);
	for (pos = 0; pos < 64; pos++) {
		MPT_STRUCT(property) pr = MPT_PROPERTY_INIT;
		int r;
		pr.name = 0;
		pr.desc = (const char *) (intptr_t) pos;
		r = l->o._vptr->property(&l->o, &pr);
		if (!pr.name) break;            /* past the end of the list */
		if (r < 0) { vlen = 0; v_put(-1); }
		else enc_value(&pr.val);
		j_ints(pr.name, vbuf, vlen);
	}
	if (l->kind == K_TEXT) {            /* reachable by name only */
		static const char *xy[] = { "x", "y" };
		int i;
		for (i = 0; i < 2; i++) {
			MPT_STRUCT(property) pr = MPT_PROPERTY_INIT;
			int r;
			pr.name = xy[i];
			r = l->o._vptr->property(&l->o, &pr);
			if (r < 0) { vlen = 0; v_put(-1); }
			else enc_value(&pr.val);
			j_ints(xy[i], vbuf, vlen);
		}
	}
	j_close();
}
/* number of string members whose storage is shared between the two objects */
static int shared_strings(void)
{
	char **a[4], **b[4];
	int na = obj_strings(&obj[0], a), nb = obj_strings(&obj[1], b), i, j, n = 0;
	for (i = 0; i < na; i++) for (j = 0; j < nb; j++) {
		if (*a[i] && *a[i] == *b[j]) n++;
	}
	return n;
}
/* live library blocks that no string member of the two objects points to; releases of unknown blocks */
static void emit_heap(void)
{
	char **a[4];
	long own = 0;
	int o, i, n;
	for (o = 0; o < 2; o++) {
		n = obj_strings(&obj[o], a);
		for (i = 0; i < n; i++) if (*a[i] && vf_find(*a[i])) own++;
	}
	j_int("fired", fail_fired);
	j_int("leak", vf_live() - own);
	j_int("badfree", vf_badfree);
}
static void answer(struct cmd *c, int rc)
{
	drv_begin(c);
	j_str("ret", rc < 0 ? "refused" : "ok");
	emit_props("p0", &obj[0]);
	emit_props("p1", &obj[1]);
	j_int("shared", shared_strings());
	emit_heap();
	drv_dbg();
	j_int("rc", rc);
	drv_end();
}

/* text source handed to mpt_object_set_property (as a configuration node value would be) */
struct text_src {
	MPT_INTERFACE(convertable) c;
	const char *txt;
};
static int text_src_convert(MPT_INTERFACE(convertable) *c, MPT_TYPE(type) type, void *ptr)
{
	struct text_src *t = (struct text_src *) c;
	if (type == 's') {
		if (ptr) *((const char **) ptr) = t->txt;
		return (t->txt && *t->txt) ? 's' : 0;
	}
	return MPT_ERROR(BadType);
}
static const MPT_INTERFACE_VPTR(convertable) text_src_vptr = { text_src_convert };
/* source that offers a span of a longer buffer as character vector (and the rest of the buffer as text) */
struct vec_src {
	MPT_INTERFACE(convertable) c;
	char *base;
	size_t len;
};
static int vec_src_convert(MPT_INTERFACE(convertable) *c, MPT_TYPE(type) type, void *ptr)
{
	struct vec_src *v = (struct vec_src *) c;
	if (type == MPT_type_toVector('c')) {
		struct iovec *vec = ptr;
		if (vec) { vec->iov_base = v->base; vec->iov_len = v->len; }
		return 's';
	}
	if (type == 's') {
		if (ptr) *((const char **) ptr) = v->base;
		return 's';
	}
	return MPT_ERROR(BadType);
}
static const MPT_INTERFACE_VPTR(convertable) vec_src_vptr = { vec_src_convert };

static int set_by_property(struct lobj *l, const char *name, const char *text, int reset)
{
	MPT_STRUCT(identifier) id = MPT_IDENTIFIER_INIT;
	struct text_src src;
	int rc;
	src.c._vptr = &text_src_vptr;
	src.txt = text;
	if (name && !mpt_identifier_set(&id, name, -1)) {
		return MPT_ERROR(BadOperation);
	}
	rc = mpt_object_set_property(&l->o, MPT_ENUM(TraverseChange) | MPT_ENUM(TraverseDefault) | MPT_ENUM(TraverseEmpty),
	                             name ? &id : 0, reset ? 0 : &src.c);
	mpt_identifier_set(&id, 0, 0);
	return rc;
}

/* value source of a step: text (through mpt_object_set_string) or typed value */
static int do_set(struct lobj *l, const char *name, const struct cmd *c, char *dbgtext, size_t dbglen)
{
	const char *f = drv_raw(c, "f");
	size_t nn = 0;
	long long *n = drv_ints(c, "n", &nn);
	int rc = MPT_ERROR(BadOperation);
	*dbgtext = 0;
	if (!f) f = "null";
	if (!strcmp(f, "null")) {
		rc = l->o._vptr->set_property(&l->o, name, 0);
	}
	else if (!strcmp(f, "pnull")) {
		rc = set_by_property(l, name, 0, 1);
	}
	else if (!strcmp(f, "pnum") && nn >= 2) {
		char buf[64];
		const char *sty = drv_raw(c, "sty");
		render_num(buf, sizeof(buf), twice(n), sty ? sty : "dec");
		rc = set_by_property(l, name, buf, 0);
	}
	else if (!strcmp(f, "ptxt") || !strcmp(f, "prle")) {
		char *t = f[1] == 't' ? arg_text(c, "c") : arg_rle(c, "c");
		rc = set_by_property(l, name, t, 0);
		memset(t, 'Q', strlen(t));
		free(t);
	}
	else if (!strcmp(f, "empty")) {
		MPT_INTERFACE(convertable) e;
		e._vptr = &empty_cvptr;
		rc = l->o._vptr->set_property(&l->o, name, &e);
	}
	else if (!strcmp(f, "num") && nn >= 2) {
		char buf[64];
		const char *sty = drv_raw(c, "sty");
		render_num(buf, sizeof(buf), twice(n), sty ? sty : "dec");
		snprintf(dbgtext, dbglen, "%s", buf);
		rc = mpt_object_set_string(&l->o, name, buf, 0);
	}
	else if (!strcmp(f, "num2") && nn >= 4) {
		char a[64], b[64], buf[130];
		render_num(a, sizeof(a), twice(n), "dec");
		render_num(b, sizeof(b), twice(n + 2), "dec");
		snprintf(buf, sizeof(buf), "%s %s", a, b);
		snprintf(dbgtext, dbglen, "%s", buf);
		rc = mpt_object_set_string(&l->o, name, buf, 0);
	}
	else if (!strcmp(f, "txt")) {
		char *t = arg_text(c, "c");
		snprintf(dbgtext, dbglen, "%s", t);
		rc = mpt_object_set_string(&l->o, name, t, 0);
		free(t);
	}
	else if (!strcmp(f, "rle")) {
		char *t = arg_rle(c, "c");
		rc = mpt_object_set_string(&l->o, name, t, 0);
		memset(t, 'Q', strlen(t));   /* the object must not keep the caller's buffer */
		free(t);
	}
	else if (!strcmp(f, "vec") && nn >= 2) {   /* span n[0]..n[0]+len of a buffer with n[1] more bytes before its NUL */
		char *body = arg_rle(c, "c");
		size_t bl = strlen(body), pre = (size_t) n[0], post = (size_t) n[1];
		char *buf = (char *) malloc(pre + bl + post + 1);
		struct vec_src src;
		memset(buf, 'P', pre);
		memcpy(buf + pre, body, bl);
		memset(buf + pre + bl, 'S', post);
		buf[pre + bl + post] = 0;
		src.c._vptr = &vec_src_vptr;
		src.base = buf + pre;
		src.len = bl;
		rc = l->o._vptr->set_property(&l->o, name, &src.c);
		memset(buf, 'Q', pre + bl + post);
		free(buf);
		free(body);
	}
	else if (!strcmp(f, "s")) {      /* typed character pointer value */
		char *t = arg_text(c, "c");
		const char *p = t;
		MPT_STRUCT(value) v = MPT_VALUE_INIT('s', &p);
		rc = mpt_object_set_value(&l->o, name, &v);
		free(t);
	}
	else if (!strcmp(f, "col")) {
		size_t cn;
		uint8_t *cb = drv_bytes(c, "c", &cn);
		MPT_STRUCT(color) col = MPT_COLOR_INIT;
		MPT_STRUCT(value) v = MPT_VALUE_INIT(0, &col);
		if (cn >= 4) { col.alpha = cb[0]; col.red = cb[1]; col.green = cb[2]; col.blue = cb[3]; }
		v._type = mpt_color_typeid();
		rc = mpt_object_set_value(&l->o, name, &v);
		free(cb);
	}
	else if (!strcmp(f, "fpt") && nn >= 4) {
		MPT_STRUCT(fpoint) p;
		MPT_STRUCT(value) v = MPT_VALUE_INIT(0, &p);
		p.x = (float) ((double) twice(n) / 2.0);
		p.y = (float) ((double) twice(n + 2) / 2.0);
		v._type = mpt_fpoint_typeid();
		rc = mpt_object_set_value(&l->o, name, &v);
	}
	else if (f[0] && !f[1] && nn >= 2 && strchr("iyunfdbqxt", f[0])) {
		long long t = twice(n);
		union { int8_t b; uint8_t y; int16_t n; uint16_t q; int32_t i; uint32_t u; int64_t x; uint64_t t; float f; double d; } d;
		MPT_STRUCT(value) v = MPT_VALUE_INIT(0, &d);
		v._type = f[0];
		switch (f[0]) {
		  case 'b': d.b = (int8_t) (t / 2); break;
		  case 'y': d.y = (uint8_t) (t / 2); break;
		  case 'n': d.n = (int16_t) (t / 2); break;
		  case 'q': d.q = (uint16_t) (t / 2); break;
		  case 'i': d.i = (int32_t) (t / 2); break;
		  case 'u': d.u = (uint32_t) (t / 2); break;
		  case 'x': d.x = (int64_t) (t / 2); break;
		  case 't': d.t = (uint64_t) (t / 2); break;
		  case 'f': d.f = (float) ((double) t / 2.0); break;
		  default:  d.d = (double) t / 2.0;
		}
		rc = mpt_object_set_value(&l->o, name, &v);
	}
	free(n);
	return rc;
}

static int kind_of(const char *s)
{
	int i;
	for (i = 0; i < K_NONE; i++) if (s && !strcmp(s, kind_name[i])) return i;
	return K_NONE;
}
/* property name argument: "null" = no name, "-" = empty name, else byte list */
static char *arg_name(const struct cmd *c)
{
	const char *r = drv_raw(c, "name");
	if (!r || !strcmp(r, "null")) return 0;
	return arg_text(c, "name");
}

static void drv_step(struct cmd *c)
{
	const char *a = c->action;
	int o = (int) drv_int(c, "o", 0) & 1;

	fail_fired = 0;
	if (!strcmp(a, "init")) {
		int k = kind_of(drv_raw(c, "kind"));
		drv_reset();
		cur_kind = k;
		obj_init(&obj[0], k);
		obj_init(&obj[1], k);
		answer(c, k == K_NONE ? -1 : 0);
		return;
	}
	if (cur_kind == K_NONE) {
		drv_begin(c); j_str("ret", "no-object"); drv_dbg(); drv_end();
		return;
	}
	if (!strcmp(a, "set") || !strcmp(a, "reset") || !strcmp(a, "auto")) {
		char *name = strcmp(a, "auto") ? arg_name(c) : 0;   /* auto: no name */
		char text[256];
		int rc;
		fail_arm(c);
		rc = do_set(&obj[o], name, c, text, sizeof(text));
		fail_disarm(c);
		drv_begin(c);
		j_str("ret", rc < 0 ? "refused" : "ok");
		emit_props("p0", &obj[0]);
		emit_props("p1", &obj[1]);
		j_int("shared", shared_strings());
		emit_heap();
		drv_dbg();
		j_int("rc", rc);
		j_str("text", text);
		drv_end();
		free(name);
	}
	else if (!strcmp(a, "get")) {
		char *name = arg_name(c);
		MPT_STRUCT(property) pr = MPT_PROPERTY_INIT;
		int r;
		pr.name = name;
		r = obj[o].o._vptr->property(&obj[o].o, &pr);
		if (r < 0) vlen = 0;
		else enc_value(&pr.val);
		drv_begin(c);
		j_str("ret", r < 0 ? "refused" : "ok");
		j_str("cname", r < 0 ? "" : pr.name);
		j_ints("val", vbuf, vlen);
		emit_props("p0", &obj[0]);
		emit_props("p1", &obj[1]);
		j_int("shared", shared_strings());
		emit_heap();
		drv_dbg();
		j_int("rc", r);
		drv_end();
		free(name);
	}
	else if (!strcmp(a, "copy")) {
		int from = (int) drv_int(c, "from", 1) & 1;
		const char *mode = drv_raw(c, "mode");     /* "null": no name, "empty": "" */
		int rc;
		fail_arm(c);
		rc = obj[o].o._vptr->set_property(&obj[o].o, (mode && !strcmp(mode, "empty")) ? "" : 0, &obj[from].c);
		fail_disarm(c);
		answer(c, rc);
	}
	else if (!strcmp(a, "scribble")) {
		char **s[4];
		int n = obj_strings(&obj[o], s), i;
		for (i = 0; i < n; i++) {
			if (*s[i]) memset(*s[i], 'Z', strlen(*s[i]));
		}
		answer(c, 0);
	}
	else if (!strcmp(a, "fini")) {
		obj_fini(&obj[o]);
		answer(c, 0);
	}
	else if (!strcmp(a, "cset") || !strcmp(a, "calpha")) {
		MPT_STRUCT(color) col = { 1, 2, 3, 4 };
		long long cv[4];
		int r = a[1] == 's' ? mpt_color_set(&col, (int) drv_int(c, "r", 0), (int) drv_int(c, "g", 0), (int) drv_int(c, "b", 0))
		                    : mpt_color_setalpha(&col, (int) drv_int(c, "v", 0));
		cv[0] = col.alpha; cv[1] = col.red; cv[2] = col.green; cv[3] = col.blue;
		drv_begin(c);
		j_str("ret", r < 0 ? "refused" : "ok");
		j_ints("col", cv, 4);
		drv_dbg();
		j_int("rc", r);
		drv_end();
	}
	else if (!strcmp(a, "lset")) {
		MPT_STRUCT(lineattr) la = { 2, 3, 4, 5 };
		long long lv[4];
		int r = mpt_lattr_set(&la, (int) drv_int(c, "w", 0), (int) drv_int(c, "st", 0), (int) drv_int(c, "sy", 0), (int) drv_int(c, "sz", 0));
		lv[0] = la.style; lv[1] = la.width; lv[2] = la.symbol; lv[3] = la.size;
		drv_begin(c);
		j_str("ret", r < 0 ? "refused" : "ok");
		j_ints("la", lv, 4);
		drv_dbg();
		j_int("rc", r);
		drv_end();
	}
	else if (!strcmp(a, "sset")) {
		char **s[4];
		int ns = obj_strings(&obj[o], s);
		const char *m = drv_raw(c, "m");
		long long n = drv_int(c, "n", -1);
		char *t = arg_rle(c, "c");
		int rc = 0, done = 0;
		fail_arm(c);
		if (ns && m && !strcmp(m, "new") && n <= (long long) strlen(t)) {
			rc = mpt_string_set(s[0], t, (int) n);
			done = 1;
		}
		else if (ns && m && *s[0] && **s[0] && !strcmp(m, "self")) {
			rc = mpt_string_set(s[0], *s[0], -1);
			done = 1;
		}
		else if (ns && m && *s[0] && **s[0] && !strcmp(m, "tail") && n >= 0 && n <= (long long) strlen(*s[0])) {
			rc = mpt_string_set(s[0], *s[0] + n, -1);
			done = 1;
		}
		fail_disarm(c);
		memset(t, 'Q', strlen(t));
		free(t);
		drv_begin(c);
		j_str("ret", !done ? "skipped" : rc < 0 ? "refused" : "ok");
		emit_props("p0", &obj[0]);
		emit_props("p1", &obj[1]);
		j_int("shared", shared_strings());
		emit_heap();
		drv_dbg();
		j_int("rc", rc);
		drv_end();
	}
	else if (!strcmp(a, "cparse")) {
		char *t = arg_text(c, "c");
		MPT_STRUCT(color) col = { 1, 2, 3, 4 };
		int r = mpt_color_parse(&col, t);
		long long cv[4];
		cv[0] = col.alpha; cv[1] = col.red; cv[2] = col.green; cv[3] = col.blue;
		drv_begin(c);
		j_str("ret", r < 0 ? "refused" : "ok");
		j_ints("col", cv, 4);
		drv_dbg();
		j_int("rc", r);
		j_str("text", t);
		drv_end();
		free(t);
	}
	else {
		drv_begin(c); j_str("ret", "unknown-action"); drv_dbg(); drv_end();
	}
}

int main(int argc, char **argv)
{
	return drv_main(argc, argv);
}
