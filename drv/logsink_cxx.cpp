/*
 * X25 (extension of C17), C++ side: a sink made of the mpt++ types -- a class that is an mpt::output and an
 * mpt::logfile (constructor / destructor of mpt++/output.cpp) whose push() hands the pieces to the log file, and
 * the producer output::message() (mpt++/output.cpp -> mpt_output_vlog).
 * (mptplot/history.h does not compile as C++: "valfmt" is not a type, no namespace -- there is no C++ history.)
 *
 * Same command language and the same pusher as drv/logsink.c (see there); supported here:
 *   open kind=logfile file=mem|none ignore=<n> color=0|1      (no terminal, no next output)
 *   msg, push, end, abort, drop, finish, giveup, vlog
 * No judgement: bytes are moved, return codes mapped to ok / missing / refused.
 */
#include <cstdio>
#include <cstdarg>

#include "drv.h"

#include "message.h"
#include "convert.h"
#include "output.h"

using namespace mpt;

struct acc { uint8_t *d; size_t n; };
struct cap { FILE *fp; char *buf; size_t len, seen; };
static cap c_out, c_err, c_file;
static acc m_out, m_err, m_file;
static FILE *real_out, *real_err;

static void cap_open(cap *c) { memset(c, 0, sizeof(*c)); c->fp = open_memstream(&c->buf, &c->len); }
static void cap_close(cap *c) { if (c->fp) fclose(c->fp); free(c->buf); memset(c, 0, sizeof(*c)); }
static void cap_take(cap *c, acc *a)
{
	if (!c->fp) return;
	fflush(c->fp);
	if (c->len > c->seen) {
		size_t n = c->len - c->seen;
		a->d = (uint8_t *) realloc(a->d, a->n + n + 1);
		memcpy(a->d + a->n, c->buf + c->seen, n);
		a->n += n;
		c->seen = c->len;
	}
}
static void acc_emit(const char *key, acc *a)
{
	j_bytes(key, a->d ? a->d : (const uint8_t *) "", a->n);
	free(a->d); a->d = 0; a->n = 0;
}
static void std_swap() { real_out = stdout; real_err = stderr; stdout = c_out.fp; stderr = c_err.fp; }
static void std_back() { stdout = real_out; stderr = real_err; }
static void collect() { cap_take(&c_out, &m_out); cap_take(&c_err, &m_err); cap_take(&c_file, &m_file); }

static long npush;
static long pieces[64]; static int npieces;

class Sink : public output, public logfile
{
public:
	Sink() { }
	virtual ~Sink() { }
	ssize_t push(size_t len, const void *src) __MPT_OVERRIDE
	{
		++npush;
		if (npieces < 64) pieces[npieces++] = src ? (long) len : -1;
		return mpt_logfile_push(this, len, src);
	}
	int sync(int) __MPT_OVERRIDE { return 0; }
	int await(int (*)(void *, const struct message *), void *) __MPT_OVERRIDE { return BadOperation; }
	void setup(FILE *f, int ign, int color)
	{
		file = f;
		ignore = (uint8_t) ign;
		if (color) state |= PrintColor;
	}
	void detach() { file = 0; }      /* the stream is ours: not for ~logfile() to close */
	int st() const { return state; }
	int md() const { return mode; }
};
static Sink *sink;
static uint8_t *held; static size_t held_len;
static int m_refused, m_started;

static ssize_t sink_push(size_t len, const void *src)
{
	ssize_t r;
	std_swap();
	r = sink->push(len, src);
	std_back();
	collect();
	return r;
}
static const char *ret_class(long r)
{
	if (r >= 0) return "ok";
	if (r == MissingData) return "missing";
	return "refused";
}
static void sink_close()
{
	if (sink) {
		sink->detach();
		delete sink;
		sink = 0;
	}
	cap_close(&c_out); cap_close(&c_err); cap_close(&c_file);
	free(held); held = 0; held_len = 0;
	free(m_out.d); free(m_err.d); free(m_file.d);
	memset(&m_out, 0, sizeof(m_out)); memset(&m_err, 0, sizeof(m_err)); memset(&m_file, 0, sizeof(m_file));
	m_refused = m_started = 0;
}
static void drv_reset(void) { sink_close(); }

static void emit_streams()
{
	acc_emit("out", &m_out);
	acc_emit("err", &m_err);
	acc_emit("file", &m_file);
	j_bytes("pass", "", 0);
	j_int("passend", 0);
}
static void emit_dbg(long rc)
{
	drv_dbg();
	j_int("rc", rc);
	j_int("npush", npush);
	j_int("held", (long long) held_len);
	if (sink) { j_int("state", sink->st()); j_int("mode", sink->md()); }
}
static char *cstr(const struct cmd *c, const char *key)
{
	size_t n;
	uint8_t *b = drv_bytes(c, key, &n);
	b = (uint8_t *) realloc(b, n + 1);
	b[n] = 0;
	return (char *) b;
}

static void drv_step(struct cmd *c)
{
	const char *a = c->action;
	npush = 0;
	if (!strcmp(a, "open")) {
		const char *k = drv_raw(c, "kind"), *f = drv_raw(c, "file");
		sink_close();
		cap_open(&c_out); cap_open(&c_err);
		(void) k;
		sink = new Sink();
		if (!f || !strcmp(f, "mem")) cap_open(&c_file);
		sink->setup(c_file.fp, (int) drv_int(c, "ignore", 0), (int) drv_int(c, "color", 0));
		drv_begin(c);
		j_str("ret", "ok");
		drv_dbg();
		drv_end();
		return;
	}
	if (!sink) {
		drv_begin(c);
		j_str("ret", "no-sink");
		drv_dbg();
		drv_end();
		return;
	}
	if (!strcmp(a, "msg")) {
		m_refused = m_started = 0;
		free(held); held = 0; held_len = 0;
		drv_begin(c);
		j_str("ret", "ok");
		drv_dbg();
		drv_end();
		return;
	}
	if (!strcmp(a, "push")) {
		size_t n, total, off = 0;
		uint8_t *d = drv_bytes(c, "data", &n), *piece;
		ssize_t r = 0;
		const char *cls = "ok";
		if (m_refused) {
			drv_begin(c);
			j_str("ret", "skipped");
			j_int("taken", 0);
			j_str("did", "skip");
			emit_dbg(0);
			drv_end();
			free(d);
			return;
		}
		total = held_len + n;
		piece = (uint8_t *) malloc(total ? total : 1);      /* exact size: a read behind it is seen by ASan */
		if (held_len) memcpy(piece, held, held_len);
		if (n) memcpy(piece + held_len, d, n);
		while (off < total) {
			r = sink_push(total - off, piece + off);
			if (r < 0) { cls = ret_class(r); break; }
			if (!r || (size_t) r > total - off) { cls = r ? "overrun" : "stalled"; break; }
			off += (size_t) r;
		}
		free(held); held = 0; held_len = 0;
		if (r == MissingData) {
			/* what was not taken is offered again in front of the next piece */
			held_len = total - off;
			held = (uint8_t *) malloc(held_len ? held_len : 1);
			memcpy(held, piece + off, held_len);
		}
		if (off) m_started = 1;
		if (r < 0 && r != MissingData) m_refused = 1;
		drv_begin(c);
		j_str("ret", cls);
		j_int("taken", (long long) off);
		j_str("did", "push");
		emit_dbg((long) r);
		drv_end();
		free(piece); free(d);
		return;
	}
	if (!strcmp(a, "end") || !strcmp(a, "abort")) {
		ssize_t r = !strcmp(a, "end") ? sink_push(0, 0) : sink_push(1, 0);
		drv_begin(c);
		j_str("ret", ret_class(r));
		emit_streams();
		emit_dbg((long) r);
		drv_end();
		return;
	}
	if (!strcmp(a, "drop")) {
		free(held); held = 0; held_len = 0;
		drv_begin(c);
		j_str("ret", "ok");
		emit_streams();
		emit_dbg(0);
		drv_end();
		return;
	}
	if (!strcmp(a, "finish") || !strcmp(a, "giveup")) {
		const char *did;
		ssize_t r = 0;
		if (m_refused) did = "skip";
		else if (!m_started) { did = "drop"; free(held); held = 0; held_len = 0; }
		else if (!strcmp(a, "finish")) { did = "end"; r = sink_push(0, 0); }
		else { did = "abort"; r = sink_push(1, 0); }
		drv_begin(c);
		j_str("ret", !strcmp(did, "skip") ? "skipped" : ret_class(r));
		j_str("did", did);
		emit_streams();
		emit_dbg((long) r);
		drv_end();
		m_refused = m_started = 0;
		return;
	}
	if (!strcmp(a, "vlog")) {
		char *from = cstr(c, "from"), *text = cstr(c, "text");
		int type = (int) drv_int(c, "type", 0);
		int hasfrom = (int) drv_int(c, "hasfrom", 1), hastext = (int) drv_int(c, "hastext", 1);
		int r, i;
		npieces = 0;
		std_swap();
		/* output::message (mpt++/output.cpp) */
		r = hastext ? sink->message(hasfrom ? from : 0, type, "%s", text) : sink->message(hasfrom ? from : 0, type, 0);
		std_back();
		collect();
		drv_begin(c);
		j_str("ret", r < 0 ? "refused" : "ok");
		emit_streams();
		emit_dbg(r);
		j_arr_open("pieces");
		for (i = 0; i < npieces; i++) j_item_int(pieces[i]);
		j_arr_close();
		drv_end();
		free(from); free(text);
		return;
	}
	drv_begin(c);
	j_str("ret", "unknown-action");
	drv_dbg();
	drv_end();
}

int main(int argc, char **argv)
{
	signal(SIGPIPE, SIG_IGN);
	return drv_main(argc, argv);
}
