/*
 * Driver for spec/ObjSet.tla and spec/ObjVararg.tla (X21, extension of C20):
 * the generic object "front doors" through which properties are assigned
 * and listed:
 *   mpt_object_set / mpt_object_vset (format + varargs), mpt_process_vararg,
 *   mpt_value_argv, mpt_object_set_iterator, mpt_object_args,
 *   mpt_object_set_nodes (+ mpt_object_set_property), mpt_object_foreach,
 *   mpt_properties_foreach, mpt_properties_print, mpt_object_typename,
 *   mpt_convertable_info, mpt_value_copy
 * beside the direct route mpt_object_set_string / mpt_object_set_value.
 *
 * Targets: two layout objects of one kind (axis, line, text, graph, world;
 * wrapped exactly as in drv/layout.c) or two instances of a small reference
 * object "ref" defined here (count 'i', ratio 'd', label 's', list = every
 * value an iterator source delivers), which accepts iterator sources for
 * every property and never changes on a refusal.
 *
 * After every step all listed properties of both objects are read back by
 * position through object->property() and logged in the encodings of
 * drv/layout.c.  The driver decides nothing: it renders arguments, calls,
 * copies and maps return codes to ok/refused.
 *
 * Entry lists (argument "ents"): entries separated by '|', fields by '/':
 *     name/f/n/c/sty/x
 * name  byte codes joined by '.', "~" = no name, "" = empty name
 * f     value form of spec/Layout.tla (num num2 txt rle i y u n b q x t l f d
 *       s col fpt) or "none" (no value)
 * n, c  integers joined by '.'
 * x     flags (nodes: N = has children, B = identifier in another charset)
 */
#include "drv.h"

#include <math.h>
#include <stddef.h>
#include <stdarg.h>
#include <sys/uio.h>

#include "types.h"
#include "meta.h"
#include "node.h"
#include "convert.h"
#include "object.h"
#include "output.h"
#include "layout.h"
#include "history.h"

#include "layout_common.h"

extern int mpt_object_vset(MPT_INTERFACE(object) *, const char *, const char *, va_list);

enum { K_AXIS, K_LINE, K_TEXT, K_GRAPH, K_WORLD, K_REF, K_HIST, K_NONE };
static const char *kind_name[] = { "axis", "line", "text", "graph", "world", "ref", "hist" };

/* ---------- reference object ---------- */
#define REF_MAXLIST 48
struct ref_item {
	int type;
	long long num[2];     /* doubled value hi, lo (numbers) */
	char *str;            /* text ('s') */
};
struct refobj {
	int32_t count;
	double  ratio;
	char   *label;
	uint32_t nlist;
	struct ref_item list[REF_MAXLIST];
};

struct lobj {
	MPT_INTERFACE(object) o;
	MPT_INTERFACE(convertable) c;     /* source of a generic assignment */
	MPT_INTERFACE(convertable) oc;    /* answers the object interface pointer */
	int kind;
	MPT_INTERFACE(object) *ext;       /* kind "hist": the object of a library instance (mpt_output_local) */
	MPT_INTERFACE(metatype) *extmt;
	union {
		MPT_STRUCT(axis)  axis;
		MPT_STRUCT(line)  line;
		MPT_STRUCT(text)  text;
		MPT_STRUCT(graph) graph;
		MPT_STRUCT(world) world;
		struct refobj     ref;
	} u;
};
static struct lobj obj[2];
static int cur_kind = K_NONE;
#define OBJP(l) ((l)->ext ? (l)->ext : &(l)->o)

#define OBJ_OF_O(p)  ((struct lobj *) (((char *) (p)) - offsetof(struct lobj, o)))
#define OBJ_OF_C(p)  ((struct lobj *) (((char *) (p)) - offsetof(struct lobj, c)))
#define OBJ_OF_OC(p) ((struct lobj *) (((char *) (p)) - offsetof(struct lobj, oc)))

static void split2(double t, long long *out)     /* doubled value -> hi, lo */
{
	long long ll = (long long) t, hi;
	hi = ll >= 0 ? ll / 65536 : -((-ll + 65535) / 65536);
	out[0] = hi;
	out[1] = ll - hi * 65536;
}
static void ref_item_clear(struct ref_item *it)
{
	free(it->str);
	memset(it, 0, sizeof(*it));
}
static void ref_fini(struct refobj *r)
{
	uint32_t i;
	free(r->label);
	for (i = 0; i < r->nlist; i++) ref_item_clear(&r->list[i]);
	memset(r, 0, sizeof(*r));
}
/* one value as the reference object keeps it */
static int ref_item_set(struct ref_item *it, const MPT_STRUCT(value) *val)
{
	const void *a = val->_addr;
	double t;
	memset(it, 0, sizeof(*it));
	it->type = (int) val->_type;
	if (!a) return MPT_ERROR(BadValue);
	switch (val->_type) {
	  case 'c': t = 2.0 * *((const char *) a); break;
	  case 'b': t = 2.0 * *((const int8_t *) a); break;
	  case 'y': t = 2.0 * *((const uint8_t *) a); break;
	  case 'n': t = 2.0 * *((const int16_t *) a); break;
	  case 'q': t = 2.0 * *((const uint16_t *) a); break;
	  case 'i': t = 2.0 * *((const int32_t *) a); break;
	  case 'u': t = 2.0 * *((const uint32_t *) a); break;
	  case 'x': t = 2.0 * (double) *((const int64_t *) a); break;
	  case 't': t = 2.0 * (double) *((const uint64_t *) a); break;
	  case 'f': t = 2.0 * *((const float *) a); break;
	  case 'd': t = 2.0 * *((const double *) a); break;
	  case 's': {
		const char *s = *((const char * const *) a);
		it->str = strdup(s ? s : "");
		return 0;
	  }
	  default:
		return MPT_ERROR(BadType);
	}
	if (!isfinite(t) || t != floor(t) || fabs(t) >= 70368744177664.0) {
		it->num[0] = it->num[1] = -1;
		return 0;
	}
	split2(t, it->num);
	return 0;
}
static int ref_property(const struct refobj *r, MPT_STRUCT(property) *pr)
{
	static const char *names[] = { "count", "ratio", "label", "list" };
	static const uint8_t format[] = { 'i', 'd', 's', 'u', 0 };
	int pos;
	if (!pr) return MPT_ENUM(TypeObjectPtr);
	if (!pr->name) {
		pos = (int) (intptr_t) pr->desc;
		if (pos < 0 || pos > 2) return MPT_ERROR(BadArgument);     /* "list" is reachable by name only */
	}
	else if (!*pr->name) {
		pr->name = "ref";
		pr->desc = "reference object";
		MPT_value_set(&pr->val, 0, format);
		return (r->count || r->ratio != 0.0 || r->label || r->nlist) ? 1 : 0;
	}
	else {
		for (pos = 0; pos < 4; pos++) if (!strcmp(pr->name, names[pos])) break;
		if (pos > 3) return MPT_ERROR(BadArgument);
	}
	pr->name = names[pos];
	pr->desc = "reference property";
	switch (pos) {
	  case 0: MPT_value_set(&pr->val, 'i', &r->count); return r->count ? 1 : 0;
	  case 1: MPT_value_set(&pr->val, 'd', &r->ratio); return r->ratio != 0.0 ? 1 : 0;
	  case 2: MPT_value_set(&pr->val, 's', &r->label); return r->label ? 1 : 0;
	  default: MPT_value_set(&pr->val, 'u', &r->nlist); return r->nlist ? 1 : 0;
	}
}
static int ref_set(struct refobj *r, const char *name, MPT_INTERFACE(convertable) *src)
{
	MPT_INTERFACE(iterator) *it = 0;
	int len;
	if (!name || !*name) {
		return MPT_ERROR(BadArgument);
	}
	if (!strcmp(name, "count")) {
		int32_t tmp = 0;
		if (!src) { r->count = 0; return 0; }
		if ((len = src->_vptr->convert(src, 'i', &tmp)) < 0) {
			if (src->_vptr->convert(src, MPT_ENUM(TypeIteratorPtr), &it) < 0 || !it) return MPT_ERROR(BadType);
			if ((len = mpt_iterator_consume(it, 'i', &tmp)) < 0) return len;
			len = 1;
		}
		r->count = len ? tmp : 0;
		return 0;
	}
	if (!strcmp(name, "ratio")) {
		double tmp = 0;
		if (!src) { r->ratio = 0; return 0; }
		if ((len = src->_vptr->convert(src, 'd', &tmp)) < 0) {
			if (src->_vptr->convert(src, MPT_ENUM(TypeIteratorPtr), &it) < 0 || !it) return MPT_ERROR(BadType);
			if ((len = mpt_iterator_consume(it, 'd', &tmp)) < 0) return len;
			len = 1;
		}
		r->ratio = len ? tmp : 0;
		return 0;
	}
	if (!strcmp(name, "label")) {
		const char *s = 0;
		char *n;
		if (!src) { free(r->label); r->label = 0; return 0; }
		if ((len = src->_vptr->convert(src, 's', &s)) < 0) {
			const MPT_STRUCT(value) *val;
			if (src->_vptr->convert(src, MPT_ENUM(TypeIteratorPtr), &it) < 0 || !it) return MPT_ERROR(BadType);
			if (!(val = it->_vptr->value(it))) return MPT_ERROR(MissingData);
			if ((len = mpt_value_convert(val, 's', &s)) < 0) return len;
			len = 1;
		}
		n = (len && s && *s) ? strdup(s) : 0;
		free(r->label);
		r->label = n;
		return 0;
	}
	if (!strcmp(name, "list")) {
		struct ref_item tmp[REF_MAXLIST];
		const MPT_STRUCT(value) *val;
		uint32_t n = 0, i;
		if (!src) {
			for (i = 0; i < r->nlist; i++) ref_item_clear(&r->list[i]);
			r->nlist = 0;
			return 0;
		}
		if (src->_vptr->convert(src, MPT_ENUM(TypeIteratorPtr), &it) < 0 || !it) return MPT_ERROR(BadType);
		while ((val = it->_vptr->value(it))) {
			len = (n < REF_MAXLIST) ? ref_item_set(&tmp[n], val) : MPT_ERROR(MissingBuffer);
			if (len >= 0) {
				++n;
				len = it->_vptr->advance(it);
			}
			if (len < 0) {                 /* refused: nothing changes */
				for (i = 0; i < n; i++) ref_item_clear(&tmp[i]);
				return len;
			}
			if (!len) break;
		}
		for (i = 0; i < r->nlist; i++) ref_item_clear(&r->list[i]);
		memcpy(r->list, tmp, n * sizeof(*tmp));
		r->nlist = n;
		return (int) n;
	}
	return MPT_ERROR(BadArgument);
}

/* ---------- object / convertable adapters ---------- */
static int lo_property(const MPT_INTERFACE(object) *o, MPT_STRUCT(property) *pr)
{
	const struct lobj *l = OBJ_OF_O(o);
	switch (l->kind) {
	  case K_AXIS:  return mpt_axis_get(&l->u.axis, pr);
	  case K_LINE:  return mpt_line_get(&l->u.line, pr);
	  case K_TEXT:  return mpt_text_get(&l->u.text, pr);
	  case K_GRAPH: return mpt_graph_get(&l->u.graph, pr);
	  case K_WORLD: return mpt_world_get(&l->u.world, pr);
	  case K_REF:   return ref_property(&l->u.ref, pr);
	  default: return MPT_ERROR(BadOperation);
	}
}
static int lo_set_property(MPT_INTERFACE(object) *o, const char *name, MPT_INTERFACE(convertable) *src)
{
	struct lobj *l = OBJ_OF_O(o);
	switch (l->kind) {
	  case K_AXIS:  return mpt_axis_set(&l->u.axis, name, src);
	  case K_LINE:  return mpt_line_set(&l->u.line, name, src);
	  case K_TEXT:  return mpt_text_set(&l->u.text, name, src);
	  case K_GRAPH: return mpt_graph_set(&l->u.graph, name, src);
	  case K_WORLD: return mpt_world_set(&l->u.world, name, src);
	  case K_REF:   return ref_set(&l->u.ref, name, src);
	  default: return MPT_ERROR(BadOperation);
	}
}
static const MPT_INTERFACE_VPTR(object) lo_vptr = { lo_property, lo_set_property };

static int lo_convert(MPT_INTERFACE(convertable) *c, MPT_TYPE(type) type, void *ptr)
{
	struct lobj *l = OBJ_OF_C(c);
	int id = 0;
	if (!type) return MPT_ERROR(BadType);
	switch (l->kind) {
	  case K_AXIS:  id = mpt_axis_pointer_typeid(); break;
	  case K_TEXT:  id = mpt_text_pointer_typeid(); break;
	  case K_GRAPH: id = mpt_graph_pointer_typeid(); break;
	  case K_WORLD: id = mpt_world_pointer_typeid(); break;
	  case K_LINE:  id = mpt_line_typeid(); break;
	  default: return MPT_ERROR(BadType);
	}
	if (id <= 0 || type != (MPT_TYPE(type)) id) return MPT_ERROR(BadType);
	if (ptr) {
		if (l->kind == K_LINE) memmove(ptr, &l->u.line, sizeof(l->u.line));
		else *((const void **) ptr) = &l->u;
	}
	return id;
}
static const MPT_INTERFACE_VPTR(convertable) lo_cvptr = { lo_convert };

/* a convertable that is nothing but an object */
static int oc_convert(MPT_INTERFACE(convertable) *c, MPT_TYPE(type) type, void *ptr)
{
	struct lobj *l = OBJ_OF_OC(c);
	if (!type) {
		static const uint8_t fmt[] = { MPT_ENUM(TypeObjectPtr), 0 };
		if (ptr) *((const uint8_t **) ptr) = fmt;
		return MPT_ENUM(TypeObjectPtr);
	}
	if (type == MPT_ENUM(TypeObjectPtr)) {
		if (ptr) *((void **) ptr) = OBJP(l);
		return MPT_ENUM(TypeObjectPtr);
	}
	return MPT_ERROR(BadType);
}
static const MPT_INTERFACE_VPTR(convertable) oc_cvptr = { oc_convert };

static void obj_init(struct lobj *l, int kind)
{
	memset(l, 0, sizeof(*l));
	l->o._vptr = &lo_vptr;
	l->c._vptr = &lo_cvptr;
	l->oc._vptr = &oc_cvptr;
	l->kind = kind;
	switch (kind) {
	  case K_AXIS:  mpt_axis_init(&l->u.axis, 0); break;
	  case K_LINE:  mpt_line_init(&l->u.line); break;
	  case K_TEXT:  mpt_text_init(&l->u.text, 0); break;
	  case K_GRAPH: mpt_graph_init(&l->u.graph, 0); break;
	  case K_WORLD: mpt_world_init(&l->u.world, 0); break;
	  case K_HIST:
		if ((l->extmt = mpt_output_local())) MPT_metatype_convert(l->extmt, MPT_ENUM(TypeObjectPtr), &l->ext);
		break;
	  default:;
	}
}
static void obj_fini(struct lobj *l)
{
	switch (l->kind) {
	  case K_AXIS:  mpt_axis_fini(&l->u.axis); break;
	  case K_LINE:  mpt_line_init(&l->u.line); break;
	  case K_TEXT:  mpt_text_fini(&l->u.text); break;
	  case K_GRAPH: mpt_graph_fini(&l->u.graph); break;
	  case K_WORLD: mpt_world_fini(&l->u.world); break;
	  case K_REF:   ref_fini(&l->u.ref); break;
	  case K_HIST:
		if (l->extmt) l->extmt->_vptr->unref(l->extmt);
		l->extmt = 0; l->ext = 0;
		break;
	  default:;
	}
}
static void drv_reset(void)
{
	if (cur_kind != K_NONE) {
		obj_fini(&obj[0]);
		obj_fini(&obj[1]);
	}
	cur_kind = K_NONE;
}

/* ---------- observation ---------- */
static void enc_value(const MPT_STRUCT(value) *val)
{
	const void *a = val->_addr;
	MPT_TYPE(type) t = val->_type;
	int ct = mpt_color_typeid(), ft = mpt_fpoint_typeid();
	vlen = 0;
	if (!a) { v_put(-1); return; }
	if (t == 's') { enc_string(*((const char * const *) a)); return; }
	if (t == 'y') { v_put(*((const uint8_t *) a)); return; }
	if (t == 'c') { v_put(*((const unsigned char *) a)); return; }
	if (t == 'n') { v_put(*((const int16_t *) a)); return; }
	if (t == 'i') { long long n[2]; split2(2.0 * *((const int32_t *) a), n); v_put(n[0]); v_put(n[1]); return; }
	if (t == 'u') { uint32_t u = *((const uint32_t *) a); v_put(u >> 16); v_put(u & 0xffff); return; }
	if (t == 'f') { float f = *((const float *) a); enc_real(f, 1, f); return; }
	if (t == 'd') { enc_real(*((const double *) a), 0, 0); return; }
	if (ct > 0 && t == (MPT_TYPE(type)) ct) {
		const MPT_STRUCT(color) *c = a;
		v_put(c->alpha); v_put(c->red); v_put(c->green); v_put(c->blue);
		return;
	}
	if (ft > 0 && t == (MPT_TYPE(type)) ft) {
		const MPT_STRUCT(fpoint) *p = a;
		enc_real(p->x, 1, p->x);
		enc_real(p->y, 1, p->y);
		return;
	}
	if (t == MPT_type_toVector('c')) {      /* printed text: up to the terminator */
		const struct iovec *vec = a;
		const char *s = vec->iov_base;
		size_t i = 0;
		while (i < vec->iov_len && s[i]) {
			unsigned char ch = (unsigned char) s[i];
			long long n = 0;
			while (i < vec->iov_len && (unsigned char) s[i] == ch) { ++n; ++i; }
			v_put(ch); v_put(n);
		}
		return;
	}
	v_put(-1);
}
static void emit_props(const char *key, struct lobj *l)
{
	int pos;
	j_open(key);
	if (l->kind == K_HIST) {                /* the listing is what is examined: read by name */
		MPT_STRUCT(property) pr = MPT_PROPERTY_INIT;
		MPT_INTERFACE(object) *op = OBJP(l);
		pr.name = "ignore";
		if (!op || op->_vptr->property(op, &pr) < 0) { vlen = 0; v_put(-1); }
		else enc_value(&pr.val);
		j_ints("ignore", vbuf, vlen);
		j_close();
		return;
	}
	for (pos = 0; pos < 64; pos++) {
		MPT_STRUCT(property) pr = MPT_PROPERTY_INIT;
		int r;
		pr.name = 0;
		pr.desc = (const char *) (intptr_t) pos;
		r = l->o._vptr->property(&l->o, &pr);
		if (!pr.name) break;
		if (r < 0) { vlen = 0; v_put(-1); }
		else enc_value(&pr.val);
		j_ints(pr.name, vbuf, vlen);
	}
	if (l->kind == K_TEXT) {
		static const char *xy[] = { "x", "y" };
		int i;
		for (i = 0; i < 2; i++) {
			MPT_STRUCT(property) pr = MPT_PROPERTY_INIT;
			int r;
			pr.name = xy[i];
			r = l->o._vptr->property(&l->o, &pr);
			if (r < 0) { vlen = 0; v_put(-1); }
			else enc_value(&pr.val);
			j_ints(xy[i], vbuf, vlen);
		}
	}
	if (l->kind == K_REF) {                 /* "list" by name, and the delivered values straight from the fixture */
		MPT_STRUCT(property) pr = MPT_PROPERTY_INIT;
		pr.name = "list";
		if (l->o._vptr->property(&l->o, &pr) < 0) { vlen = 0; v_put(-1); }
		else enc_value(&pr.val);
		j_ints("list", vbuf, vlen);
	}
	if (l->kind == K_REF) {
		const struct refobj *r = &l->u.ref;
		uint32_t i;
		vlen = 0;
		for (i = 0; i < r->nlist; i++) {
			const struct ref_item *it = &r->list[i];
			v_put(it->type);
			if (it->type == 's') {
				size_t at = vlen, before;
				v_put(0);
				before = vlen;
				enc_string(it->str);
				vbuf[at] = (long long) (vlen - before);
			} else {
				v_put(it->num[0]); v_put(it->num[1]);
			}
		}
		j_ints("items", vbuf, vlen);
	}
	j_close();
}
static int shared_strings(void)
{
	char **a[4], **b[4];
	int na = 0, nb = 0, i, j, n = 0;
	struct lobj *l = &obj[0];
	for (i = 0; i < 2; i++, l = &obj[1]) {
		char ***out = i ? b : a;
		int k = 0;
		switch (l->kind) {
		  case K_AXIS:  out[0] = &l->u.axis._title; k = 1; break;
		  case K_TEXT:  out[0] = &l->u.text._value; out[1] = &l->u.text._font; k = 2; break;
		  case K_GRAPH: out[0] = &l->u.graph._axes; out[1] = &l->u.graph._worlds; k = 2; break;
		  case K_WORLD: out[0] = &l->u.world._alias; k = 1; break;
		  case K_REF:   out[0] = &l->u.ref.label; k = 1; break;
		  default:;
		}
		if (i) nb = k; else na = k;
	}
	for (i = 0; i < na; i++) for (j = 0; j < nb; j++) {
		if (*a[i] && *a[i] == *b[j]) n++;
	}
	return n;
}
static void state_obs(void)
{
	emit_props("p0", &obj[0]);
	emit_props("p1", &obj[1]);
	j_int("shared", shared_strings());
}
static void answer(struct cmd *c, int rc)
{
	drv_begin(c);
	j_str("ret", rc < 0 ? "refused" : "ok");
	state_obs();
	drv_dbg();
	j_int("rc", rc);
	drv_end();
}

/* ---------- entry lists ---------- */
#define MAXENT 64
struct ent {
	char *name;           /* 0 = no name */
	char  f[8];
	long long *n; size_t nn;
	long long *c; size_t nc;
	char  sty[8];
	char  x[8];
	/* rendered */
	char *text;
	union { int8_t b; uint8_t y; int16_t n; uint16_t q; int32_t i; uint32_t u; int64_t x; uint64_t t; float f; double d;
	        MPT_STRUCT(color) col; MPT_STRUCT(fpoint) pt; const char *s; } d;
	MPT_STRUCT(value) val;
	int has_val;          /* 1 typed value, 2 text, 0 none */
};
static struct ent ents[MAXENT];
static int nents;

static long long *dot_ints(const char *s, size_t len, size_t *out)
{
	long long *buf = (long long *) malloc((len / 2 + 2) * sizeof(*buf));
	size_t n = 0;
	const char *end = s + len;
	while (s < end) {
		char *e;
		long long v = strtoll(s, &e, 10);
		if (e == s) break;
		buf[n++] = v;
		s = (*e == '.') ? e + 1 : e;
	}
	*out = n;
	return buf;
}
static char *codes_text(const long long *v, size_t n)
{
	char *s = (char *) malloc(n + 1);
	size_t i;
	for (i = 0; i < n; i++) s[i] = (char) v[i];
	s[n] = 0;
	return s;
}
static char *rle_text(const long long *v, size_t n)
{
	size_t i, total = 0, pos = 0;
	char *s;
	for (i = 0; i + 1 < n; i += 2) total += (size_t) v[i + 1];
	s = (char *) malloc(total + 1);
	for (i = 0; i + 1 < n; i += 2) {
		memset(s + pos, (int) v[i], (size_t) v[i + 1]);
		pos += (size_t) v[i + 1];
	}
	s[total] = 0;
	return s;
}
static void ents_clear(void)
{
	int i;
	for (i = 0; i < nents; i++) {
		struct ent *e = &ents[i];
		free(e->name); free(e->n); free(e->c);
		if (e->text) { memset(e->text, 'Q', strlen(e->text)); free(e->text); }
	}
	nents = 0;
}
/* render the value of an entry: text forms -> e->text, typed forms -> e->val */
static void ent_render(struct ent *e)
{
	const char *f = e->f;
	e->has_val = 0;
	e->text = 0;
	memset(&e->d, 0, sizeof(e->d));
	if (!strcmp(f, "num") && e->nn >= 2) {
		char buf[64];
		render_num(buf, sizeof(buf), twice(e->n), e->sty[0] ? e->sty : "dec");
		e->text = strdup(buf);
		e->has_val = 2;
	}
	else if (!strcmp(f, "num2") && e->nn >= 4) {
		char a[64], b[64], buf[130];
		render_num(a, sizeof(a), twice(e->n), "dec");
		render_num(b, sizeof(b), twice(e->n + 2), "dec");
		snprintf(buf, sizeof(buf), "%s %s", a, b);
		e->text = strdup(buf);
		e->has_val = 2;
	}
	else if (!strcmp(f, "txt")) { e->text = codes_text(e->c, e->nc); e->has_val = 2; }
	else if (!strcmp(f, "rle")) { e->text = rle_text(e->c, e->nc); e->has_val = 2; }
	else if (!strcmp(f, "s")) {
		e->text = codes_text(e->c, e->nc);
		e->d.s = e->text;
		MPT_value_set(&e->val, 's', &e->d);
		e->has_val = 1;
	}
	else if (!strcmp(f, "sr")) {               /* typed character pointer, text given as run-length list */
		e->text = rle_text(e->c, e->nc);
		e->d.s = e->text;
		MPT_value_set(&e->val, 's', &e->d);
		e->has_val = 1;
	}
	else if (!strcmp(f, "col") && e->nc >= 4) {
		e->d.col.alpha = (uint8_t) e->c[0]; e->d.col.red = (uint8_t) e->c[1];
		e->d.col.green = (uint8_t) e->c[2]; e->d.col.blue = (uint8_t) e->c[3];
		MPT_value_set(&e->val, mpt_color_typeid(), &e->d);
		e->has_val = 1;
	}
	else if (!strcmp(f, "fpt") && e->nn >= 4) {
		e->d.pt.x = (float) ((double) twice(e->n) / 2.0);
		e->d.pt.y = (float) ((double) twice(e->n + 2) / 2.0);
		MPT_value_set(&e->val, mpt_fpoint_typeid(), &e->d);
		e->has_val = 1;
	}
	else if (f[0] && !f[1] && e->nn >= 2 && strchr("iyunfdbqxtl", f[0])) {
		long long t = twice(e->n);
		int type = f[0];
		switch (f[0]) {
		  case 'b': e->d.b = (int8_t) (t / 2); break;
		  case 'y': e->d.y = (uint8_t) (t / 2); break;
		  case 'n': e->d.n = (int16_t) (t / 2); break;
		  case 'q': e->d.q = (uint16_t) (t / 2); break;
		  case 'i': e->d.i = (int32_t) (t / 2); break;
		  case 'u': e->d.u = (uint32_t) (t / 2); break;
		  case 'l':
		  case 'x': e->d.x = (int64_t) (t / 2); type = 'x'; break;
		  case 't': e->d.t = (uint64_t) (t / 2); break;
		  case 'f': e->d.f = (float) ((double) t / 2.0); break;
		  default:  e->d.d = (double) t / 2.0;
		}
		MPT_value_set(&e->val, type, &e->d);
		e->has_val = 1;
	}
}
static void ents_parse(const struct cmd *c, const char *key)
{
	const char *r = drv_raw(c, key);
	ents_clear();
	if (!r || !strcmp(r, "-")) return;
	while (*r && nents < MAXENT) {
		struct ent *e = &ents[nents];
		const char *fld[6];
		size_t flen[6];
		int k;
		memset(e, 0, sizeof(*e));
		for (k = 0; k < 6; k++) {
			fld[k] = r;
			while (*r && *r != '/' && *r != '|') r++;
			flen[k] = (size_t) (r - fld[k]);
			if (*r == '/' && k < 5) r++;
		}
		while (*r && *r != '|') r++;
		if (*r == '|') r++;
		if (flen[0] == 1 && fld[0][0] == '~') e->name = 0;
		else {
			size_t n;
			long long *v = dot_ints(fld[0], flen[0], &n);
			e->name = codes_text(v, n);
			free(v);
		}
		snprintf(e->f, sizeof(e->f), "%.*s", (int) (flen[1] < 7 ? flen[1] : 7), fld[1]);
		e->n = dot_ints(fld[2], flen[2], &e->nn);
		e->c = dot_ints(fld[3], flen[3], &e->nc);
		snprintf(e->sty, sizeof(e->sty), "%.*s", (int) (flen[4] < 7 ? flen[4] : 7), fld[4]);
		snprintf(e->x, sizeof(e->x), "%.*s", (int) (flen[5] < 7 ? flen[5] : 7), fld[5]);
		ent_render(e);
		nents++;
	}
}

/* ---------- sources ---------- */
/* iterator over the typed values / texts of the entry list */
struct ent_iter {
	MPT_INTERFACE(iterator) it;
	int pos, n;
	int mode;                /* 0 typed values, 1 texts "name=value" as 's', 2 property convertables */
	MPT_STRUCT(value) cur;
	const char *str;
	void *conv;
};
/* a convertable that holds one named value (mpt_object_args: TypeProperty) */
struct prop_conv {
	MPT_INTERFACE(convertable) c;
	struct ent *e;
	char *assign;            /* "name=text" */
};
static struct prop_conv pconv[MAXENT];
static char *ent_assign(const struct ent *e);

static int prop_conv_convert(MPT_INTERFACE(convertable) *c, MPT_TYPE(type) type, void *ptr)
{
	struct prop_conv *p = (struct prop_conv *) c;
	if (!type) return MPT_ENUM(TypeProperty);
	if (type == MPT_ENUM(TypeProperty)) {
		MPT_STRUCT(property) *pr = ptr;
		if (p->e->has_val != 1) return MPT_ERROR(BadType);     /* holds text only */
		if (pr) {
			pr->name = p->e->name;
			pr->desc = 0;
			pr->val = p->e->val;
		}
		return MPT_ENUM(TypeProperty);
	}
	if (type == 's') {
		if (p->e->has_val == 1) return MPT_ERROR(BadType);     /* a named typed value has no text form */
		if (!p->assign) p->assign = ent_assign(p->e);
		if (ptr) *((const char **) ptr) = p->assign;
		return 's';
	}
	return MPT_ERROR(BadType);
}
static const MPT_INTERFACE_VPTR(convertable) prop_conv_vptr = { prop_conv_convert };

static int ent_iter_load(struct ent_iter *ei)
{
	struct ent *e;
	if (ei->pos >= ei->n) return 0;
	e = &ents[ei->pos];
	if (ei->mode == 0) {
		if (e->has_val == 1) ei->cur = e->val;
		else { ei->str = e->text; MPT_value_set(&ei->cur, 's', &ei->str); }
	}
	else if (ei->mode == 2) {
		pconv[ei->pos].c._vptr = &prop_conv_vptr;
		pconv[ei->pos].e = e;
		ei->conv = &pconv[ei->pos].c;
		MPT_value_set(&ei->cur, MPT_ENUM(TypeConvertablePtr), &ei->conv);
	}
	else {
		if (!pconv[ei->pos].assign) { pconv[ei->pos].e = e; pconv[ei->pos].assign = ent_assign(e); }
		ei->str = pconv[ei->pos].assign;
		MPT_value_set(&ei->cur, 's', &ei->str);
	}
	return ei->cur._type ? (int) ei->cur._type : 1;
}
static const MPT_STRUCT(value) *ent_iter_value(MPT_INTERFACE(iterator) *it)
{
	struct ent_iter *ei = (struct ent_iter *) it;
	return ei->pos < ei->n ? &ei->cur : 0;
}
static int ent_iter_advance(MPT_INTERFACE(iterator) *it)
{
	struct ent_iter *ei = (struct ent_iter *) it;
	if (ei->pos >= ei->n) return MPT_ERROR(MissingData);
	ei->pos++;
	return ent_iter_load(ei);
}
static int ent_iter_reset(MPT_INTERFACE(iterator) *it)
{
	struct ent_iter *ei = (struct ent_iter *) it;
	ei->pos = 0;
	ent_iter_load(ei);
	return ei->n;
}
static const MPT_INTERFACE_VPTR(iterator) ent_iter_vptr = { ent_iter_value, ent_iter_advance, ent_iter_reset };
static void ent_iter_init(struct ent_iter *ei, int mode)
{
	memset(ei, 0, sizeof(*ei));
	ei->it._vptr = &ent_iter_vptr;
	ei->n = nents;
	ei->mode = mode;
	ent_iter_load(ei);
}
static void pconv_clear(void)
{
	int i;
	for (i = 0; i < MAXENT; i++) {
		if (pconv[i].assign) { memset(pconv[i].assign, 'Q', strlen(pconv[i].assign)); free(pconv[i].assign); }
		pconv[i].assign = 0;
	}
}
/* "name=text" / "name" of an entry */
static char *ent_assign(const struct ent *e)
{
	const char *nm = e->name ? e->name : "";
	size_t ln = strlen(nm), lt = e->text ? strlen(e->text) : 0;
	char *s = (char *) malloc(ln + lt + 2);
	memcpy(s, nm, ln);
	if (e->has_val) {
		s[ln] = '=';
		if (lt) memcpy(s + ln + 1, e->text, lt);
		s[ln + 1 + lt] = 0;
	}
	else s[ln] = 0;
	return s;
}

/* metatype that holds one typed value (value of a configuration node) */
struct val_meta {
	MPT_INTERFACE(metatype) mt;
	MPT_STRUCT(value) val;
};
static int val_meta_convert(MPT_INTERFACE(convertable) *c, MPT_TYPE(type) type, void *ptr)
{
	struct val_meta *m = (struct val_meta *) c;
	int r;
	if (!type) return (int) m->val._type;
	if ((r = mpt_value_convert(&m->val, type, ptr)) < 0) return r;
	return (int) m->val._type;
}
static void val_meta_unref(MPT_INTERFACE(metatype) *mt) { (void) mt; }
static uintptr_t val_meta_addref(MPT_INTERFACE(metatype) *mt) { (void) mt; return 1; }
static MPT_INTERFACE(metatype) *val_meta_clone(const MPT_INTERFACE(metatype) *mt) { (void) mt; return 0; }
static const MPT_INTERFACE_VPTR(metatype) val_meta_vptr = { { val_meta_convert }, val_meta_unref, val_meta_addref, val_meta_clone };

/* counting logger */
static int log_count, log_worst;
static int cnt_log(MPT_INTERFACE(logger) *l, const char *from, int type, const char *fmt, va_list va)
{
	char buf[512];
	(void) l; (void) from;
	if (fmt) vsnprintf(buf, sizeof(buf), fmt, va);     /* the arguments must fit the format */
	++log_count;
	if (type && (!log_worst || type < log_worst)) log_worst = type;
	return 0;
}
static const MPT_INTERFACE_VPTR(logger) cnt_log_vptr = { cnt_log };
static MPT_INTERFACE(logger) cnt_logger = { &cnt_log_vptr };

/* ---------- variadic doors ---------- */
union varg { int i; int64_t x; double d; const void *p; };
struct va_call {
	int door;                 /* 0 mpt_object_set, 1 mpt_object_vset, 2 mpt_process_vararg + walk, 3 mpt_process_vararg + mpt_object_args */
	MPT_INTERFACE(object) *o;
	const char *prop;
	const char *walk;
};
/* what the walk over the vararg iterator saw */
static long long walk_log[1024];
static size_t walk_len;
static void w_put(long long v) { if (walk_len < 1024) walk_log[walk_len++] = v; }

static int walk_proc(void *ctx, MPT_INTERFACE(iterator) *it)
{
	const struct va_call *vc = ctx;
	const char *w;
	for (w = vc->walk; w && *w; w++) {
		if (*w == 'v') {
			const MPT_STRUCT(value) *val = it->_vptr->value(it);
			struct ref_item ri;
			w_put('v');
			if (!val) { w_put(0); continue; }
			if (ref_item_set(&ri, val) < 0) { w_put(-1); w_put(val->_type); continue; }
			w_put(ri.type);
			if (ri.type == 's') {
				size_t at = walk_len, i;
				w_put(0);
				vlen = 0;
				enc_string(ri.str);
				for (i = 0; i < vlen; i++) w_put(vbuf[i]);
				if (at < 1024) walk_log[at] = (long long) vlen;
			} else { w_put(ri.num[0]); w_put(ri.num[1]); }
			ref_item_clear(&ri);
		}
		else if (*w == 'a') {
			int r = it->_vptr->advance(it);
			w_put('a'); w_put(r < 0 ? -1 : r);
		}
		else if (*w == 'r') {
			int r = it->_vptr->reset(it);
			w_put('r'); w_put(r < 0 ? -1 : r);
		}
	}
	return 0;
}
static int args_proc(void *ctx, MPT_INTERFACE(iterator) *it)
{
	const struct va_call *vc = ctx;
	return mpt_object_args(vc->o, it);
}
static int tramp(const struct va_call *vc, const char *fmt, ...)
{
	va_list va;
	int r;
	va_start(va, fmt);
	if (vc->door == 1) r = mpt_object_vset(vc->o, vc->prop, fmt, va);
	else r = mpt_process_vararg(fmt, va, vc->door == 2 ? walk_proc : args_proc, (void *) vc);
	va_end(va);
	return r;
}
#define A_0(k) a[k].i
#define A_1(k) a[k].x
#define A_2(k) a[k].d
#define A_3(k) a[k].p
#define C3(x, y, z) case (x) + 4 * (y) + 16 * (z): \
	return direct ? mpt_object_set(vc->o, vc->prop, fmt, A_##x(0), A_##y(1), A_##z(2)) \
	              : tramp(vc, fmt, A_##x(0), A_##y(1), A_##z(2));
#define C3z(x, y) C3(x, y, 0) C3(x, y, 1) C3(x, y, 2) C3(x, y, 3)
#define C3y(x) C3z(x, 0) C3z(x, 1) C3z(x, 2) C3z(x, 3)
#define H12(A) A(0), A(1), A(2), A(3), A(4), A(5), A(6), A(7), A(8), A(9), A(10), A(11)
#define ALT12(A, B) A(0), B(1), A(2), B(3), A(4), B(5), A(6), B(7), A(8), B(9), A(10), B(11)

static int cls_index(char c) { return c == 'I' ? 0 : c == 'X' ? 1 : c == 'D' ? 2 : 3; }
/* returns -1000 when the argument shape is not one the harness can pass */
static int va_dispatch(const struct va_call *vc, const char *fmt, const char *cls, const union varg *a)
{
	size_t n = strlen(cls), i;
	int direct = vc->door == 0;
	if (n <= 3) {
		int k = 0, m = 1;
		for (i = 0; i < 3; i++, m *= 4) k += m * (i < n ? cls_index(cls[i]) : 0);
		switch (k) { C3y(0) C3y(1) C3y(2) C3y(3) }
		return -1000;
	}
	if (n > 12) return -1000;
	for (i = 1; i < n && cls[i] == cls[0]; i++) ;
	if (i == n) {
		switch (cls[0]) {
		  case 'I': return direct ? mpt_object_set(vc->o, vc->prop, fmt, H12(A_0)) : tramp(vc, fmt, H12(A_0));
		  case 'X': return direct ? mpt_object_set(vc->o, vc->prop, fmt, H12(A_1)) : tramp(vc, fmt, H12(A_1));
		  case 'D': return direct ? mpt_object_set(vc->o, vc->prop, fmt, H12(A_2)) : tramp(vc, fmt, H12(A_2));
		  default:  return direct ? mpt_object_set(vc->o, vc->prop, fmt, H12(A_3)) : tramp(vc, fmt, H12(A_3));
		}
	}
	for (i = 2; i < n && cls[i] == cls[i - 2]; i++) ;
	if (i == n) {
		char s[3]; s[0] = cls[0]; s[1] = cls[1]; s[2] = 0;
		if (!strcmp(s, "ID")) return direct ? mpt_object_set(vc->o, vc->prop, fmt, ALT12(A_0, A_2)) : tramp(vc, fmt, ALT12(A_0, A_2));
		if (!strcmp(s, "DI")) return direct ? mpt_object_set(vc->o, vc->prop, fmt, ALT12(A_2, A_0)) : tramp(vc, fmt, ALT12(A_2, A_0));
		if (!strcmp(s, "PD")) return direct ? mpt_object_set(vc->o, vc->prop, fmt, ALT12(A_3, A_2)) : tramp(vc, fmt, ALT12(A_3, A_2));
		if (!strcmp(s, "DP")) return direct ? mpt_object_set(vc->o, vc->prop, fmt, ALT12(A_2, A_3)) : tramp(vc, fmt, ALT12(A_2, A_3));
		if (!strcmp(s, "IP")) return direct ? mpt_object_set(vc->o, vc->prop, fmt, ALT12(A_0, A_3)) : tramp(vc, fmt, ALT12(A_0, A_3));
		if (!strcmp(s, "PI")) return direct ? mpt_object_set(vc->o, vc->prop, fmt, ALT12(A_3, A_0)) : tramp(vc, fmt, ALT12(A_3, A_0));
		if (!strcmp(s, "XD")) return direct ? mpt_object_set(vc->o, vc->prop, fmt, ALT12(A_1, A_2)) : tramp(vc, fmt, ALT12(A_1, A_2));
		if (!strcmp(s, "DX")) return direct ? mpt_object_set(vc->o, vc->prop, fmt, ALT12(A_2, A_1)) : tramp(vc, fmt, ALT12(A_2, A_1));
	}
	return -1000;
}
/* format string "fmt" (text; "null" = no format, "-" = empty) and the arguments of the entry list:
 * every type code of the format that names a vararg type takes the next entry */
static int va_door(struct va_call *vc, const struct cmd *c)
{
	const char *fraw = drv_raw(c, "fmt");
	char *fmt = 0;
	char cls[MAXENT + 1];
	union varg a[12];
	size_t n = 0;
	int e = 0, rc;
	const char *p;
	memset(a, 0, sizeof(a));
	if (fraw && strcmp(fraw, "null")) fmt = arg_text(c, "fmt");
	for (p = fmt; p && *p && n < 12; p++) {
		struct ent *en = e < nents ? &ents[e] : 0;
		long long t = (en && en->nn >= 2) ? twice(en->n) : 0;
		switch (*p) {
		  case 'b': case 'y': case 'n': case 'q': case 'i': case 'u':
			cls[n] = 'I'; a[n].i = (int) (t / 2); break;
		  case 'x': case 't': case 'l':
			cls[n] = 'X'; a[n].x = (int64_t) (t / 2); break;
		  case 'f': case 'd':
			cls[n] = 'D'; a[n].d = (double) t / 2.0; break;
		  case 's':
			cls[n] = 'P'; a[n].p = en ? en->text : 0; break;
		  default:
			continue;           /* no vararg type: nothing is passed for it */
		}
		++n; ++e;
	}
	cls[n] = 0;
	rc = va_dispatch(vc, fmt, cls, a);
	free(fmt);
	return rc;
}

/* ---------- listing ---------- */
struct list_ctx { int n; int over; };
static int list_proc(void *ctx, const MPT_STRUCT(property) *pr)
{
	struct list_ctx *lc = ctx;
	if (++lc->n > 40) { lc->over = 1; return -1; }     /* a listing that does not end */
	j_item_obj_open();
	j_str("n", pr && pr->name ? pr->name : "");
	if (!pr) { vlen = 0; v_put(-2); }
	else enc_value(&pr->val);
	j_ints("v", vbuf, vlen);
	j_int("t", pr ? (long long) pr->val._type : -1);
	j_close();
	return 0;
}
static int get_prop(void *ptr, MPT_STRUCT(property) *pr)
{
	const MPT_INTERFACE(object) *o = ptr;
	return o->_vptr->property(o, pr);
}
/* print every property of src, then set the printed text in dst */
struct ps_ctx { struct lobj *dst; int n, fail, unprinted; };
static int printset_proc(void *ctx, const MPT_STRUCT(property) *pr)
{
	struct ps_ctx *pc = ctx;
	char *text = 0;
	int rc;
	if (++pc->n > 40) return -1;
	if (!pr || !pr->name) return 0;
	if (pr->val._type == MPT_type_toVector('c') && pr->val._addr) {
		const struct iovec *vec = pr->val._addr;
		size_t len = vec->iov_len;
		text = (char *) malloc(len + 1);
		memcpy(text, vec->iov_base, len);
		text[len] = 0;
	}
	else if (pr->val._type == 's' && pr->val._addr) {
		const char *s = *((const char * const *) pr->val._addr);
		text = s ? strdup(s) : 0;
	}
	else {                                   /* handed on unprinted: the typed value itself */
		pc->unprinted++;
		if (mpt_object_set_value(OBJP(pc->dst), pr->name, &pr->val) < 0) pc->fail++;
		return 0;
	}
	rc = mpt_object_set_string(OBJP(pc->dst), pr->name, text, 0);
	if (rc < 0) pc->fail++;
	if (text) { memset(text, 'Q', strlen(text)); free(text); }
	return 0;
}

static int kind_of(const char *s)
{
	int i;
	for (i = 0; i < K_NONE; i++) if (s && !strcmp(s, kind_name[i])) return i;
	return K_NONE;
}
static char *arg_name(const struct cmd *c)
{
	const char *r = drv_raw(c, "name");
	if (!r || !strcmp(r, "null")) return 0;
	return arg_text(c, "name");
}
/* direct route: text through mpt_object_set_string, typed values through mpt_object_set_value */
static int direct_set(struct lobj *l, const struct ent *e)
{
	MPT_INTERFACE(object) *op = OBJP(l);
	if (!e->has_val) return op->_vptr->set_property(op, e->name, 0);
	if (e->has_val == 2) return mpt_object_set_string(op, e->name, e->text, 0);
	return mpt_object_set_value(op, e->name, &e->val);
}

static void drv_step(struct cmd *c)
{
	const char *a = c->action;
	int o = (int) drv_int(c, "o", 0) & 1;

	if (!strcmp(a, "init")) {
		int k = kind_of(drv_raw(c, "kind"));
		drv_reset();
		cur_kind = k;
		obj_init(&obj[0], k);
		obj_init(&obj[1], k);
		answer(c, k == K_NONE ? -1 : 0);
		return;
	}
	if (cur_kind == K_NONE) {
		drv_begin(c); j_str("ret", "no-object"); drv_dbg(); drv_end();
		return;
	}
	if (!strcmp(a, "dset")) {                    /* direct route, entry by entry */
		long long rcs[MAXENT];
		int i, rc = 0;
		ents_parse(c, "ents");
		for (i = 0; i < nents; i++) {
			rcs[i] = direct_set(&obj[o], &ents[i]);
			if (rcs[i] < 0) rc = (int) rcs[i];
			rcs[i] = rcs[i] < 0 ? 0 : 1;
		}
		drv_begin(c);
		j_str("ret", rc < 0 ? "refused" : "ok");
		j_ints("oks", rcs, (size_t) nents);
		state_obs();
		drv_dbg();
		j_int("rc", rc);
		drv_end();
		ents_clear();
	}
	else if (!strcmp(a, "vset") || !strcmp(a, "vvset")) {      /* mpt_object_set / mpt_object_vset */
		char *name = arg_name(c);
		struct va_call vc;
		int rc;
		ents_parse(c, "ents");
		vc.door = a[1] == 'v' ? 1 : 0;
		vc.o = OBJP(&obj[o]);
		vc.prop = name;
		vc.walk = 0;
		rc = va_door(&vc, c);
		drv_begin(c);
		j_str("ret", rc == -1000 ? "skipped" : rc < 0 ? "refused" : "ok");
		state_obs();
		drv_dbg();
		j_int("rc", rc);
		drv_end();
		ents_clear();
		free(name);
	}
	else if (!strcmp(a, "walk")) {               /* mpt_process_vararg: what the iterator delivers */
		struct va_call vc;
		int rc;
		ents_parse(c, "ents");
		vc.door = 2; vc.o = 0; vc.prop = 0;
		vc.walk = drv_raw(c, "w");
		walk_len = 0;
		rc = va_door(&vc, c);
		drv_begin(c);
		j_str("ret", rc == -1000 ? "skipped" : rc < 0 ? "refused" : "ok");
		j_ints("seen", walk_log, walk_len);
		drv_dbg();
		j_int("rc", rc);
		drv_end();
		ents_clear();
	}
	else if (!strcmp(a, "iset")) {               /* mpt_object_set_iterator with an iterator over typed values */
		char *name = arg_name(c);
		struct ent_iter ei;
		int rc;
		ents_parse(c, "ents");
		ent_iter_init(&ei, 0);
		rc = mpt_object_set_iterator(OBJP(&obj[o]), name, &ei.it);
		drv_begin(c);
		j_str("ret", rc < 0 ? "refused" : "ok");
		state_obs();
		drv_dbg();
		j_int("rc", rc);
		j_int("pos", ei.pos);
		drv_end();
		ents_clear();
		free(name);
	}
	else if (!strcmp(a, "args")) {               /* mpt_object_args */
		const char *src = drv_raw(c, "src");
		int rc;
		ents_parse(c, "ents");
		if (src && !strcmp(src, "va")) {     /* texts "name=value" as 's' varargs */
			struct va_call vc;
			char fmt[16];
			union varg va[12];
			char cls[16];
			int i;
			vc.door = 3; vc.o = OBJP(&obj[o]); vc.prop = 0; vc.walk = 0;
			if (nents > 12) rc = -1000;
			else {
				memset(va, 0, sizeof(va));
				for (i = 0; i < nents; i++) {
					pconv[i].e = &ents[i];
					pconv[i].assign = ent_assign(&ents[i]);
					va[i].p = pconv[i].assign;
					fmt[i] = 's'; cls[i] = 'P';
				}
				fmt[nents] = 0; cls[nents] = 0;
				rc = va_dispatch(&vc, fmt, cls, va);
			}
		}
		else {
			struct ent_iter ei;
			ent_iter_init(&ei, (src && !strcmp(src, "conv")) ? 2 : 1);
			rc = mpt_object_args(OBJP(&obj[o]), &ei.it);
		}
		drv_begin(c);
		j_str("ret", rc == -1000 ? "skipped" : rc < 0 ? "refused" : "ok");
		state_obs();
		drv_dbg();
		j_int("rc", rc);
		drv_end();
		pconv_clear();
		ents_clear();
	}
	else if (!strcmp(a, "nodes")) {              /* mpt_object_set_nodes */
		static MPT_STRUCT(node) nd[MAXENT], dummy;
		static struct val_meta vm[MAXENT];
		int match = (int) drv_int(c, "match", 0), uselog = (int) drv_int(c, "log", 0);
		int i, rc;
		ents_parse(c, "ents");
		memset(nd, 0, sizeof(nd));
		for (i = 0; i < nents; i++) {
			struct ent *e = &ents[i];
			mpt_identifier_init(&nd[i].ident, sizeof(nd[i].ident));
			if (e->name) mpt_identifier_set(&nd[i].ident, e->name, -1);
			if (strchr(e->x, 'B')) nd[i].ident._charset = MPT_CHARSET(UTF16);
			if (strchr(e->x, 'N')) nd[i].children = &dummy;
			if (i + 1 < nents) nd[i].next = &nd[i + 1];
			if (i) nd[i].prev = &nd[i - 1];
			if (e->has_val == 2) {
				const char *t = e->text;
				MPT_STRUCT(value) v = MPT_VALUE_INIT('s', &t);
				nd[i]._meta = mpt_meta_new(&v);
			}
			else if (e->has_val == 1) {
				vm[i].mt._vptr = &val_meta_vptr;
				vm[i].val = e->val;
				nd[i]._meta = &vm[i].mt;
			}
		}
		log_count = log_worst = 0;
		rc = mpt_object_set_nodes(OBJP(&obj[o]), match, nents ? nd : 0, uselog ? &cnt_logger : 0);
		drv_begin(c);
		j_str("ret", rc < 0 ? "refused" : "ok");
		j_int("proc", rc);
		state_obs();
		drv_dbg();
		j_int("rc", rc);
		j_int("logs", log_count);
		j_int("worst", log_worst);
		drv_end();
		for (i = 0; i < nents; i++) {
			if (ents[i].has_val == 2 && nd[i]._meta) nd[i]._meta->_vptr->unref(nd[i]._meta);
			mpt_identifier_set(&nd[i].ident, 0, 0);
		}
		ents_clear();
	}
	else if (!strcmp(a, "list")) {               /* mpt_object_foreach / mpt_properties_foreach / mpt_properties_print */
		const char *mode = drv_raw(c, "mode");
		int match = (int) drv_int(c, "match", -1), rc;
		struct list_ctx lc = { 0, 0 };
		drv_begin(c);
		j_arr_open("seen");
		if (mode && !strcmp(mode, "print")) rc = mpt_properties_print(get_prop, OBJP(&obj[o]), list_proc, &lc, match);
		else if (mode && !strcmp(mode, "props")) rc = mpt_properties_foreach(get_prop, OBJP(&obj[o]), list_proc, &lc, match);
		else rc = mpt_object_foreach(OBJP(&obj[o]), list_proc, &lc, match);
		j_arr_close();
		j_str("ret", lc.over ? "endless" : "ok");
		state_obs();
		drv_dbg();
		j_int("rc", rc);
		drv_end();
	}
	else if (!strcmp(a, "printset")) {           /* printed text of every property of 'from' set in 'o' */
		int from = (int) drv_int(c, "from", 1) & 1;
		struct ps_ctx pc;
		int rc;
		pc.dst = &obj[o]; pc.n = pc.fail = pc.unprinted = 0;
		rc = mpt_properties_print(get_prop, OBJP(&obj[from]), printset_proc, &pc, -1);
		drv_begin(c);
		j_str("ret", pc.n > 40 ? "endless" : "ok");
		state_obs();
		drv_dbg();
		j_int("rc", rc);
		j_int("fail", pc.fail);
		j_int("unprinted", pc.unprinted);
		drv_end();
	}
	else if (!strcmp(a, "tname")) {              /* mpt_object_typename, mpt_convertable_info */
		const char *tn = mpt_object_typename(OBJP(&obj[o]));
		MPT_STRUCT(property) pr = MPT_PROPERTY_INIT;
		int code = mpt_convertable_info(&obj[o].oc, &pr);
		drv_begin(c);
		j_str("ret", tn ? "ok" : "refused");
		j_str("tname", tn ? tn : "");
		j_str("iname", pr.name ? pr.name : "");
		j_str("idesc", pr.desc ? pr.desc : "");
		j_int("icode", code == MPT_ENUM(TypeObjectPtr) ? 1 : 0);
		state_obs();
		drv_dbg();
		j_int("code", code);
		drv_end();
	}
	else if (!strcmp(a, "vcopy")) {              /* mpt_value_copy of a typed value into a buffer of 'max' bytes */
		uint8_t buf[40];
		long long out[40];
		size_t max = (size_t) drv_int(c, "max", 16), i;
		int nullsrc = (int) drv_int(c, "nosrc", 0);
		ssize_t r = -1;
		ents_parse(c, "ents");
		memset(buf, 0xAA, sizeof(buf));
		if (nents && ents[0].has_val == 1 && max <= 32) {
			MPT_STRUCT(value) v = ents[0].val;
			if (nullsrc) v._addr = 0;
			r = mpt_value_copy(&v, buf, max);
		}
		for (i = 0; i < 40; i++) out[i] = buf[i];
		drv_begin(c);
		j_str("ret", r < 0 ? "refused" : "ok");
		j_int("size", r < 0 ? -1 : (long long) r);
		j_ints("bytes", out, r > 0 && r <= 32 ? (size_t) r : 0);
		j_int("tail", buf[max < 39 ? max : 39] == 0xAA && (r < 0 || r >= 40 || buf[r] == 0xAA || (size_t) r == max) ? 1 : 0);
		j_int("kept", r < 0 ? (buf[0] == 0xAA) : 1);
		drv_dbg();
		j_int("rc", (long long) r);
		drv_end();
		ents_clear();
	}
	else if (!strcmp(a, "copy")) {
		int from = (int) drv_int(c, "from", 1) & 1;
		const char *mode = drv_raw(c, "mode");
		int rc = OBJP(&obj[o])->_vptr->set_property(OBJP(&obj[o]), (mode && !strcmp(mode, "empty")) ? "" : 0, &obj[from].c);
		answer(c, rc);
	}
	else if (!strcmp(a, "fini")) {
		obj_fini(&obj[o]);
		answer(c, 0);
	}
	else {
		drv_begin(c); j_str("ret", "unknown-action"); drv_dbg(); drv_end();
	}
}

int main(int argc, char **argv)
{
	return drv_main(argc, argv);
}
