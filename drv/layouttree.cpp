/*
 * Driver for spec/LayoutTree.tla (extension X20 of C20): layout objects
 * created from and bound through descriptions.
 *
 *   load  text=<ch,n,ch,n,...>          the description text is written to a scratch file and read
 *                                       through the real mpt::layout (open + load = parse, add_items, bind)
 *   reload text=<ch,n,...>             the SAME layout object reads another description (open + load, no reset)
 *   reset                               layout::reset()
 *   gset  g=<i> name=<codes> text=<..>  object::set(name, text) on the i-th item of the layout (a graph)
 *   gbind g=<i>                         that graph's bind() with the relation chain layout::bind gives it
 *   cload text=<ch,n,...>               C path: mpt_parse_node (format of layout::file_format()) and, per
 *                                       section "kind name", an object of that kind filled by
 *                                       mpt_object_set_nodes from the section's children
 *   copy  mode=clone|null|empty|props   every item of the loaded layout is copied (metatype::clone,
 *                                       set_property(0|"", item), object::set(const object &)); the
 *                                       properties logged are those of the copies
 *   dump                                the loaded layout once more (nothing may have changed)
 *
 * Observation: result of load, layout alias/font, and for EVERY item in
 * containment order its name, the kind it reports about itself
 * (property("") name), ALL properties (encodings of drv/layout_common.h),
 * for graphs the members and the bound axes / worlds (name + ALL properties
 * of the bound object), the names of layout::graphs(), and the number of
 * error/warning reports the load produced.  No judgement in here.
 */
#include "drv.h"

#include <stddef.h>
#include <stdarg.h>
#include <sys/uio.h>

#include <string>

#include "node.h"
#include "convert.h"
#include "parse.h"
#include "config.h"
#include "layout.h"

#include "layout_common.h"

/* ---------- counting logger ---------- */
class count_logger : public mpt::logger
{
public:
	count_logger() : errors(0), warnings(0), others(0) { }
	int log(const char *from, int type, const char *fmt, va_list va) __MPT_OVERRIDE
	{
		char buf[512];
		int t = type & 0xff;
		if (t && t <= mpt::logger::Error) ++errors;
		else if (t == mpt::logger::Warning) ++warnings;
		else ++others;
		if (fmt) vsnprintf(buf, sizeof(buf), fmt, va);
		else buf[0] = 0;
		if (text.size() < 2000) {
			text += from ? from : "";
			text += ": ";
			text += buf;
			text += " | ";
		}
		return 0;
	}
	int errors, warnings, others;
	std::string text;
};

static mpt::layout *lay = 0;
static count_logger *logc = 0;
static char scratch[128];
static int loaded = 0;

static void drv_reset(void)
{
	if (scratch[0]) {
		unlink(scratch);
		scratch[0] = 0;
	}
	if (lay) {
		lay->unref();
		lay = 0;
	}
	delete logc;
	logc = 0;
	loaded = 0;
}

/* ---------- property read-back (same encodings as drv/layout_cxx.cpp) ---------- */
static void enc_value(const mpt::value *val)
{
	const void *a = val->data();
	mpt::type_t t = val->type();
	int ct = mpt::mpt_color_typeid(), ft = mpt::mpt_fpoint_typeid();
	vlen = 0;
	if (!a) { v_put(-1); return; }
	if (t == 's') { enc_string(*((const char * const *) a)); return; }
	if (t == 'y') { v_put(*((const uint8_t *) a)); return; }
	if (t == 'c') { v_put(*((const unsigned char *) a)); return; }
	if (t == 'n') { v_put(*((const int16_t *) a)); return; }
	if (t == 'u') { uint32_t u = *((const uint32_t *) a); v_put(u >> 16); v_put(u & 0xffff); return; }
	if (t == 'f') { float f = *((const float *) a); enc_real(f, 1, f); return; }
	if (t == 'd') { enc_real(*((const double *) a), 0, 0); return; }
	if (ct > 0 && t == (mpt::type_t) ct) {
		const mpt::color *c = static_cast<const mpt::color *>(a);
		v_put(c->alpha); v_put(c->red); v_put(c->green); v_put(c->blue);
		return;
	}
	if (ft > 0 && t == (mpt::type_t) ft) {
		const mpt::fpoint *p = static_cast<const mpt::fpoint *>(a);
		enc_real(p->x, 1, p->x);
		enc_real(p->y, 1, p->y);
		return;
	}
	v_put(-1);
}
static std::string self_name(const mpt::object *o)
{
	mpt::property pr("");
	if (!o || o->property(&pr) < 0 || !pr.name) return "?";
	return pr.name;
}
static void emit_props(const char *key, const mpt::object *o, const std::string &kind)
{
	int pos;
	j_open(key);
	for (pos = 0; o && pos < 64; pos++) {
		mpt::property pr((size_t) pos);
		int r = o->property(&pr);
		if (!pr.name) break;
		if (r < 0) { vlen = 0; v_put(-1); }
		else enc_value(&pr.val);
		j_ints(pr.name, vbuf, vlen);
	}
	if (o && kind == "text") {
		static const char *xy[] = { "x", "y" };
		int i;
		for (i = 0; i < 2; i++) {
			mpt::property pr(xy[i]);
			int r = o->property(&pr);
			if (r < 0) { vlen = 0; v_put(-1); }
			else enc_value(&pr.val);
			j_ints(xy[i], vbuf, vlen);
		}
	}
	j_close();
}
static void emit_name(const char *key, const char *name)
{
	vlen = 0;
	enc_string(name);
	j_ints(key, vbuf, vlen);
}

/* ---------- copies ---------- */
enum { M_NONE, M_CLONE, M_NULL, M_EMPTY, M_PROPS };

static mpt::metatype *make_copy(mpt::metatype *mt, const std::string &kind, int mode, int *rc)
{
	mpt::metatype *cp = 0;
	*rc = 0;
	if (mode == M_CLONE) {
		cp = mt->clone();
		*rc = cp ? 0 : -1;
		return cp;
	}
	mpt::item_group fac;
	if (!(cp = fac.create(kind.c_str()))) {
		*rc = -1;
		return 0;
	}
	mpt::object *dst = *cp, *src = *mt;
	if (!dst || !src) {
		*rc = -1;
		return cp;
	}
	if (mode == M_PROPS) {
		*rc = dst->set(*src, 0) ? 0 : -1;
	} else {
		*rc = dst->set_property(mode == M_EMPTY ? "" : 0, mt);
	}
	return cp;
}

/* ---------- structure ---------- */
static void emit_bound(const char *name, mpt::metatype *mt)
{
	mpt::object *o = mt ? static_cast<mpt::object *>(*mt) : 0;
	std::string kind = self_name(o);
	j_item_obj_open();
	emit_name("name", name);
	j_str("kind", kind.c_str());
	emit_props("p", o, kind);
	j_close();
}
static void emit_items(const char *key, mpt::span<const mpt::item<mpt::metatype> > items, int mode, int depth);

static void emit_item(const mpt::item<mpt::metatype> &it, int mode, int depth)
{
	mpt::metatype *mt = it.instance();
	mpt::object *o = mt ? static_cast<mpt::object *>(*mt) : 0;
	std::string kind = self_name(o);
	mpt::layout::graph *g = mt ? static_cast<mpt::layout::graph *>(*mt) : 0;
	mpt::metatype *cp = 0;
	int crc = 0;

	j_item_obj_open();
	emit_name("name", it.name());
	j_str("kind", kind.c_str());
	if (mode != M_NONE && mt && o) {
		cp = make_copy(mt, kind, mode, &crc);
		mpt::object *co = cp ? static_cast<mpt::object *>(*cp) : 0;
		emit_props("p", co, kind);
		j_str("cret", (crc < 0 || !co) ? "refused" : "ok");
	} else {
		emit_props("p", o, kind);
	}
	if (g && depth < 4) {
		emit_items("items", g->items(), mode, depth + 1);
		j_arr_open("axes");
		for (const mpt::item<mpt::layout::graph::axis> &a : g->axes()) {
			emit_bound(a.name(), a.instance());
		}
		j_arr_close();
		j_arr_open("worlds");
		for (const mpt::item<mpt::layout::graph::data> &d : g->worlds()) {
			mpt::layout::graph::data *dp = d.instance();
			emit_bound(d.name(), dp ? dp->world.instance() : 0);
		}
		j_arr_close();
	} else {
		j_arr_open("items"); j_arr_close();
		j_arr_open("axes"); j_arr_close();
		j_arr_open("worlds"); j_arr_close();
	}
	j_close();
	if (cp) cp->unref();
}
static void emit_items(const char *key, mpt::span<const mpt::item<mpt::metatype> > items, int mode, int depth)
{
	j_arr_open(key);
	for (const mpt::item<mpt::metatype> &it : items) {
		emit_item(it, mode, depth);
	}
	j_arr_close();
}
static void emit_layout(int mode)
{
	j_open("lay");
	emit_name("alias", lay->alias());
	emit_name("font", lay->font());
	j_close();
	emit_items("items", lay->items(), mode, 0);
	j_arr_open("graphs");
	for (const mpt::item<mpt::layout::graph> &g : lay->graphs()) {
		j_sep();
		vlen = 0;
		enc_string(g.name());
		fputc('[', drv_out);
		for (size_t i = 0; i < vlen; i++) fprintf(drv_out, i ? ",%lld" : "%lld", vbuf[i]);
		fputc(']', drv_out);
	}
	j_arr_close();
}
/* are the graphs() entries the very graph items of the layout, in order */
static int graphs_same(void)
{
	size_t gi = 0;
	mpt::span<const mpt::item<mpt::layout::graph> > gs = lay->graphs();
	for (const mpt::item<mpt::metatype> &it : lay->items()) {
		mpt::metatype *mt = it.instance();
		mpt::layout::graph *g = mt ? static_cast<mpt::layout::graph *>(*mt) : 0;
		if (!g) continue;
		if (gi >= (size_t) gs.size() || gs.begin()[gi].instance() != g) return 0;
		++gi;
	}
	return gi == (size_t) gs.size();
}

static int write_scratch(const char *txt)
{
	FILE *f;
	snprintf(scratch, sizeof(scratch), "/tmp/x20-layouttree-%d.lay", (int) getpid());
	if (!(f = fopen(scratch, "w"))) return -1;
	fwrite(txt, 1, strlen(txt), f);
	fclose(f);
	return 0;
}

/* ---------- C path ---------- */
struct mem_src { const char *pos; };
static int mem_getc(void *p)
{
	struct mem_src *m = static_cast<struct mem_src *>(p);
	if (!*m->pos) return -1;
	return (unsigned char) *m->pos++;
}
/* type word and item name of a section identifier, cut by the library's own keyword scanner (as add_items does) */
static int split_ident(const char *id, std::string &kind, std::string &name)
{
	const char *pos = id, *key;
	size_t len = 0;
	kind.clear(); name.clear();
	if (!id) return 0;
	if ((key = mpt::mpt_convert_key(&pos, 0, &len))) kind.assign(key, len);
	if ((key = mpt::mpt_convert_key(&pos, ":", &len))) name.assign(key, len);
	return 1;
}
static void emit_csections(const mpt::node *head, count_logger *out, int depth)
{
	for (; head; head = head->next) {
		if (head->_meta) continue;          /* an option of the enclosing section */
		const char *id = mpt::mpt_node_ident(head);
		std::string kind, name;
		split_ident(id, kind, name);
		mpt::item_group fac;
		mpt::metatype *mt = fac.create(kind.c_str());
		if (!mt) continue;                  /* no such item type (also a value-less option of a group) */
		mpt::object *o = static_cast<mpt::object *>(*mt);
		int proc = -1;
		if (o) {
			proc = mpt::mpt_object_set_nodes(o, mpt::TraverseLeafs | mpt::TraverseChange | mpt::TraverseDefault,
			                                 head->children, out);
		}
		std::string self = self_name(o);
		j_item_obj_open();
		emit_name("name", name.c_str());
		j_str("kind", o ? self.c_str() : "?");
		emit_props("p", o, self);
		j_int("nset", proc);
		if (o && depth < 4) {
			j_arr_open("items");
			emit_csections(head->children, out, depth + 1);
			j_arr_close();
		} else {
			j_arr_open("items"); j_arr_close();
		}
		j_close();
		if (mt) mt->unref();
	}
}

static void drv_step(struct cmd *c)
{
	const char *a = c->action;

	if (!strcmp(a, "load") || !strcmp(a, "reload")) {
		char *txt = arg_rle(c, "text");
		int op = 0, ld = 0, fresh = !strcmp(a, "load") || !lay;
		if (fresh) {
			drv_reset();
			lay = new mpt::layout;
		}
		delete logc;
		logc = new count_logger;
		if (write_scratch(txt) < 0) {
			drv_begin(c); j_str("ret", "no-scratch"); drv_dbg(); drv_end();
			free(txt);
			return;
		}
		op = lay->open(scratch) ? 1 : 0;
		if (op) ld = lay->load(logc) ? 1 : 0;
		loaded = op && ld;
		drv_begin(c);
		j_str("ret", loaded ? "ok" : "failed");
		emit_layout(M_NONE);
		j_int("rep", logc->errors + logc->warnings);
		drv_dbg();
		j_int("open", op);
		j_int("gsame", graphs_same());
		j_int("errors", logc->errors);
		j_int("warnings", logc->warnings);
		j_str("log", logc->text.c_str());
		drv_end();
		free(txt);
		return;
	}
	if (!strcmp(a, "cload")) {
		char *txt = arg_rle(c, "text");
		mpt::node root;
		mpt::parser_context ctx;
		struct mem_src src;
		count_logger out;
		int ret;
		src.pos = txt;
		ctx.src.getc = mem_getc;
		ctx.src.arg = &src;
		ctx.name.sect = ctx.name.NumCont | ctx.name.Space | ctx.name.Special;
		ctx.name.opt = ctx.name.NumCont;
		ret = mpt::mpt_parse_node(&root, &ctx, mpt::layout::file_format());
		drv_begin(c);
		j_str("ret", ret < 0 ? "failed" : "ok");
		j_arr_open("items");
		if (ret >= 0) emit_csections(root.children, &out, 0);
		j_arr_close();
		drv_dbg();
		j_int("rc", ret);
		j_int("errors", out.errors);
		j_int("warnings", out.warnings);
		j_str("log", out.text.c_str());
		drv_end();
		free(txt);
		return;
	}
	if (!lay) {
		drv_begin(c); j_str("ret", "no-layout"); drv_dbg(); drv_end();
		return;
	}
	if (!strcmp(a, "reset")) {
		int r = lay->reset() ? 1 : 0;
		drv_begin(c);
		j_str("ret", r ? "ok" : "failed");
		emit_layout(M_NONE);
		drv_dbg();
		drv_end();
		return;
	}
	if (!strcmp(a, "gset") || !strcmp(a, "gbind")) {
		long g = (long) drv_int(c, "g", 0), pos = 0;
		mpt::metatype *mt = 0;
		int rc = mpt::BadArgument;
		for (const mpt::item<mpt::metatype> &it : lay->items()) {
			if (pos++ == g) { mt = it.instance(); break; }
		}
		mpt::layout::graph *gr = mt ? static_cast<mpt::layout::graph *>(*mt) : 0;
		delete logc;
		logc = new count_logger;
		if (gr && !strcmp(a, "gset")) {
			char *name = arg_text(c, "name");
			char *txt = arg_rle(c, "text");
			mpt::object *o = gr;
			rc = o->set(name, txt, logc) ? 0 : -1;
			free(name);
			free(txt);
		}
		else if (gr) {
			mpt::collection::relation me(*lay);
			mpt::collection::relation rel(*gr, &me);
			rc = gr->bind(&rel, logc);
		}
		drv_begin(c);
		j_str("ret", rc < 0 ? "refused" : "ok");
		emit_layout(M_NONE);
		drv_dbg();
		j_int("rc", rc);
		j_str("log", logc->text.c_str());
		drv_end();
		return;
	}
	if (!strcmp(a, "copy")) {
		const char *m = drv_raw(c, "mode");
		int mode = M_CLONE;
		if (m && !strcmp(m, "null")) mode = M_NULL;
		else if (m && !strcmp(m, "empty")) mode = M_EMPTY;
		else if (m && !strcmp(m, "props")) mode = M_PROPS;
		drv_begin(c);
		j_str("ret", loaded ? "ok" : "failed");
		emit_layout(mode);
		drv_dbg();
		drv_end();
		return;
	}
	if (!strcmp(a, "inst")) {                  /* a node that carries an item instance, handed to add_items */
		const char *kind = drv_raw(c, "kind");
		char *name = arg_text(c, "name");
		mpt::item_group fac;
		mpt::metatype *mt = fac.create(kind ? kind : "axis");
		mpt::node *n = mpt::node::create(name, -1);
		int ok = 0;
		if (mt && n) {
			n->_meta = mt;                      /* the node owns this reference */
			ok = mpt::add_items(*lay, n, 0, logc) ? 1 : 0;
		}
		if (n) mpt::mpt_node_destroy(n);        /* drops the node's reference; the group keeps its own */
		else if (mt) mt->unref();
		drv_begin(c);
		j_str("ret", (loaded && ok) ? "ok" : "failed");
		emit_layout(M_NONE);
		drv_dbg();
		drv_end();
		free(name);
		return;
	}
	if (!strcmp(a, "dump")) {
		drv_begin(c);
		j_str("ret", loaded ? "ok" : "failed");
		emit_layout(M_NONE);
		drv_dbg();
		j_int("gsame", graphs_same());
		drv_end();
		return;
	}
	drv_begin(c); j_str("ret", "unknown-action"); drv_dbg(); drv_end();
}

int main(int argc, char **argv)
{
	return drv_main(argc, argv);
}
